package simrt

import (
	"iter"
	"reflect"
)

// Native channel operations of instrumented code. A goroutine that would block
// does so natively (a durable block under synctest); when another goroutine's
// operation wakes it, the first thing it does is park with the scheduler, so it
// never runs program code concurrently with the goroutine that woke it.

func nativeEnter() *G {
	g := CurG()
	if g == nil {
		return nil
	}
	if g.sched.aborted.Load() {
		g.exitNow()
	}
	return g
}

func nativeBlock(g *G) {
	s := g.sched
	s.mu.Lock()
	g.state = stNative
	s.mu.Unlock()
	if s.untilPreempt >= neverPreempt/2 {
		s.untilPreempt = s.drawGap()
	}
}

// Recv1 is `<-ch`.
func Recv1[T any](ch <-chan T) T {
	g := nativeEnter()
	if g == nil {
		return <-ch
	}
	Yield()
	select {
	case v := <-ch:
		return v
	default:
	}
	nativeBlock(g)
	v := <-ch
	wakeYield(g)
	return v
}

// Recv2 is `v, ok := <-ch`.
func Recv2[T any](ch <-chan T) (T, bool) {
	g := nativeEnter()
	if g == nil {
		v, ok := <-ch
		return v, ok
	}
	Yield()
	select {
	case v, ok := <-ch:
		return v, ok
	default:
	}
	nativeBlock(g)
	v, ok := <-ch
	wakeYield(g)
	return v, ok
}

// Send is `ch <- v`.
func Send[T any](ch chan<- T, v T) {
	g := nativeEnter()
	if g == nil {
		ch <- v
		return
	}
	Yield()
	select {
	case ch <- v:
		return
	default:
	}
	nativeBlock(g)
	ch <- v
	wakeYield(g)
}

// RangeChan is `for v := range ch`.
func RangeChan[T any](ch <-chan T) iter.Seq[T] {
	return func(yield func(T) bool) {
		for {
			v, ok := Recv2(ch)
			if !ok {
				return
			}
			if !yield(v) {
				return
			}
		}
	}
}

// SelCase is one communication clause of an instrumented select.
type SelCase interface {
	try() bool
	rcase() reflect.SelectCase
	set(v reflect.Value, ok bool)
}

// RCase is a receive clause.
type RCase[T any] struct {
	ch <-chan T
	V  T
	OK bool
}

// RecvCase builds a receive clause for ch.
func RecvCase[T any](ch <-chan T) *RCase[T] { return &RCase[T]{ch: ch} }

func (c *RCase[T]) try() bool {
	select {
	case v, ok := <-c.ch:
		c.V, c.OK = v, ok
		return true
	default:
		return false
	}
}
func (c *RCase[T]) rcase() reflect.SelectCase {
	return reflect.SelectCase{Dir: reflect.SelectRecv, Chan: reflect.ValueOf(c.ch)}
}
func (c *RCase[T]) set(v reflect.Value, ok bool) {
	c.OK = ok
	if v.IsValid() {
		reflect.ValueOf(&c.V).Elem().Set(v)
	}
}

// SCase is a send clause.
type SCase[T any] struct {
	ch chan<- T
	v  T
}

// SendCase builds a send clause; the value is supplied with Set.
func SendCase[T any](ch chan<- T) *SCase[T] { return &SCase[T]{ch: ch} }

// Set stores the value to send (evaluated once, on entering the select).
func (c *SCase[T]) Set(v T) { c.v = v }

// Sender wraps a channel for an instrumented send statement.
type Sender[T any] struct{ ch chan<- T }

// Chan wraps ch; Chan(ch).Send(v) is `ch <- v`.
func Chan[T any](ch chan<- T) Sender[T] { return Sender[T]{ch} }

// Send is `ch <- v`.
func (s Sender[T]) Send(v T) { Send(s.ch, v) }

func (c *SCase[T]) try() bool {
	select {
	case c.ch <- c.v:
		return true
	default:
		return false
	}
}
func (c *SCase[T]) rcase() reflect.SelectCase {
	return reflect.SelectCase{Dir: reflect.SelectSend, Chan: reflect.ValueOf(c.ch), Send: reflect.ValueOf(&c.v).Elem()}
}
func (c *SCase[T]) set(v reflect.Value, ok bool) {}

// Select performs an instrumented select over cases; returns the index of the
// clause that proceeded, or -1 for default.
func Select(hasDefault bool, cases ...SelCase) int {
	g := nativeEnter()
	n := len(cases)
	if g == nil {
		// not simulated: plain reflect.Select
		rc := make([]reflect.SelectCase, 0, n+1)
		for _, c := range cases {
			rc = append(rc, c.rcase())
		}
		if hasDefault {
			rc = append(rc, reflect.SelectCase{Dir: reflect.SelectDefault})
		}
		i, v, ok := reflect.Select(rc)
		if i == n {
			return -1
		}
		cases[i].set(v, ok)
		return i
	}
	Yield()
	// seeded poll order: rotate start
	start := 0
	if n > 1 {
		ready := 0
		// only draw a choice when it matters (>= 2 clauses ready would be the
		// precise condition, but readiness cannot be probed without consuming);
		// a rotation draw per multi-clause select is cheap enough.
		_ = ready
		start = g.sched.ch.Choose(n, "sel")
	}
	for k := 0; k < n; k++ {
		i := (start + k) % n
		if cases[i].try() {
			return i
		}
	}
	if hasDefault {
		return -1
	}
	if n == 0 {
		// select {} : block forever
		nativeBlock(g)
		select {}
	}
	rc := make([]reflect.SelectCase, n)
	for i, c := range cases {
		rc[i] = c.rcase()
	}
	nativeBlock(g)
	i, v, ok := reflect.Select(rc)
	cases[i].set(v, ok)
	wakeYield(g)
	return i
}
