package simrt

import (
	"cmp"
	"fmt"
	"iter"
	"reflect"
	"slices"
)

// MapSeq is what an instrumented `for k, v := range m` iterates: keys in a
// structural order rotated by one recorded choice, each key re-checked for
// presence when it is produced (Go never produces entries deleted during the
// loop). Outside a simulation it is the plain map range.
func MapSeq[M ~map[K]V, K comparable, V any](m M) iter.Seq2[K, V] {
	return func(yield func(K, V) bool) {
		s := active.Load()
		if s == nil || curG() == nil {
			for k, v := range m {
				if !yield(k, v) {
					return
				}
			}
			return
		}
		n := len(m)
		if n == 0 {
			return
		}
		keys := make([]K, 0, n)
		for k := range m {
			keys = append(keys, k)
		}
		sortKeys(keys)
		start := 0
		if n > 1 {
			start = s.ch.Choose(n, "map")
		}
		for i := 0; i < n; i++ {
			k := keys[(start+i)%n]
			v, ok := m[k]
			if !ok {
				continue
			}
			if !yield(k, v) {
				return
			}
		}
	}
}

func sortKeys[K comparable](keys []K) {
	switch ks := any(keys).(type) {
	case []string:
		slices.Sort(ks)
		return
	case []int:
		slices.Sort(ks)
		return
	case []uint64:
		slices.Sort(ks)
		return
	case []uint32:
		slices.Sort(ks)
		return
	case []uint16:
		slices.Sort(ks)
		return
	case []uint8:
		slices.Sort(ks)
		return
	case []int64:
		slices.Sort(ks)
		return
	}
	var zero K
	t := reflect.TypeOf(zero)
	if t != nil && t.Kind() == reflect.Array && t.Elem().Kind() == reflect.Uint8 {
		slices.SortFunc(keys, func(a, b K) int {
			va, vb := reflect.ValueOf(a), reflect.ValueOf(b)
			for i := 0; i < va.Len(); i++ {
				x, y := va.Index(i).Uint(), vb.Index(i).Uint()
				if x != y {
					return cmp.Compare(x, y)
				}
			}
			return 0
		})
		return
	}
	if t != nil {
		switch t.Kind() {
		case reflect.Pointer, reflect.Chan, reflect.UnsafePointer, reflect.Interface:
			// no address-independent order exists: order by a stable identity
			// if the key offers one, else fail loudly (a missing seam).
			slices.SortFunc(keys, func(a, b K) int {
				return cmp.Compare(stableID(any(a)), stableID(any(b)))
			})
			return
		}
	}
	// generic fallback: decorate with a printed form once, then sort
	type dk struct {
		s string
		k K
	}
	ds := make([]dk, len(keys))
	for i, k := range keys {
		ds[i] = dk{fmt.Sprintf("%#v", k), k}
	}
	slices.SortFunc(ds, func(a, b dk) int { return cmp.Compare(a.s, b.s) })
	for i := range ds {
		keys[i] = ds[i].k
	}
}

// StableIDer is implemented by simulated objects (e.g. simnet conns) used as map keys.
type StableIDer interface{ SimStableID() uint64 }

func stableID(x any) uint64 {
	if s, ok := x.(StableIDer); ok {
		return s.SimStableID()
	}
	panic(fmt.Sprintf("simrt: map keyed by %T has no deterministic iteration order (missing seam)", x))
}
