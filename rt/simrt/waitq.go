package simrt

import (
	"time"
)

// WaitQ is a simulated wait queue: goroutines Park on it and are made runnable
// (not run) by Wake*. It is the only blocking primitive the shims use, so the
// driver always knows who can run.
type WaitQ struct {
	waiters []*G
}

// Park blocks the calling goroutine on q until woken. Outside a simulation it panics.
func (q *WaitQ) Park() {
	q.ParkTimeout(-1)
}

// ParkTimeout blocks until woken or until d of simulated time has passed
// (d < 0: no timeout). Returns true if woken, false on timeout.
func (q *WaitQ) ParkTimeout(d time.Duration) bool {
	s := active.Load()
	g := curG()
	if s == nil || g == nil || g.sched != s {
		panic("simrt: Park outside simulation / from unregistered goroutine")
	}
	if s.aborted.Load() {
		g.exitNow()
	}
	if d == 0 {
		Yield()
		return false
	}
	s.mu.Lock()
	g.state = stBlocked
	g.wq = q
	g.wqTimedOut = false
	q.waiters = append(q.waiters, g)
	s.mu.Unlock()
	if d > 0 {
		g.timer = time.AfterFunc(d, func() { q.timeout(g) })
	}
	if s.untilPreempt >= neverPreempt/2 {
		s.untilPreempt = s.drawGap()
	}
	g.parkSelf()
	if g.timer != nil {
		g.timer.Stop()
		g.timer = nil
	}
	return !g.wqTimedOut
}

func (q *WaitQ) timeout(g *G) {
	s := g.sched
	s.mu.Lock()
	if g.wq != q || g.state != stBlocked {
		s.mu.Unlock()
		return
	}
	q.remove(g)
	g.wq = nil
	g.wqTimedOut = true
	g.state = stRunnable
	s.runnable = append(s.runnable, g)
	s.mu.Unlock()
	s.kickDriver()
}

func (q *WaitQ) remove(g *G) {
	for i, x := range q.waiters {
		if x == g {
			q.waiters = append(q.waiters[:i], q.waiters[i+1:]...)
			return
		}
	}
}

// WakeAll makes every waiter runnable.
func (q *WaitQ) WakeAll() {
	s := active.Load()
	if s == nil {
		return
	}
	s.mu.Lock()
	ws := q.waiters
	q.waiters = nil
	for _, g := range ws {
		g.wq = nil
		g.state = stRunnable
		s.runnable = append(s.runnable, g)
	}
	s.mu.Unlock()
	if len(ws) > 0 {
		s.kickDriver()
	}
}

// WakeOne makes the longest-waiting waiter runnable; reports whether there was one.
func (q *WaitQ) WakeOne() bool {
	s := active.Load()
	if s == nil {
		return false
	}
	s.mu.Lock()
	if len(q.waiters) == 0 {
		s.mu.Unlock()
		return false
	}
	g := q.waiters[0]
	q.waiters = q.waiters[1:]
	g.wq = nil
	g.state = stRunnable
	s.runnable = append(s.runnable, g)
	s.mu.Unlock()
	s.kickDriver()
	return true
}

// Len returns the number of parked waiters.
func (q *WaitQ) Len() int {
	s := active.Load()
	if s == nil {
		return 0
	}
	s.mu.Lock()
	defer s.mu.Unlock()
	return len(q.waiters)
}

// Sleep is what an instrumented time.Sleep becomes.
func Sleep(d time.Duration) {
	if CurG() == nil {
		time.Sleep(d)
		return
	}
	if d <= 0 {
		Yield()
		return
	}
	var q WaitQ
	q.ParkTimeout(d)
}

// AfterFunc is what an instrumented time.AfterFunc becomes: the callback runs
// as a registered goroutine whose identity is fixed at the AfterFunc call.
func AfterFunc(d time.Duration, f func()) *time.Timer {
	s := active.Load()
	parent := curG()
	if s == nil || parent == nil || parent.sched != s {
		return time.AfterFunc(d, f)
	}
	parent.spawnN++
	name := parent.name + ".t" + itoa(parent.spawnN)
	node := parent.node
	// A timer may be Reset and fire several times; each firing needs its own G.
	// IDs are allocated at fire time from a per-timer sub-counter so that two
	// timers firing at the same instant get ids independent of real scheduling.
	base := s.reserveIDs(1 << 16)
	fired := uint64(0)
	return time.AfterFunc(d, func() {
		if s.aborted.Load() || active.Load() != s {
			return
		}
		s.mu.Lock()
		id := base + fired
		fired++
		g := &G{id: id, name: name, wake: make(chan struct{}, 1), sched: s, node: node}
		s.all = append(s.all, g)
		s.mu.Unlock()
		s.start(g, f)
	})
}

func (s *Sched) reserveIDs(n uint64) uint64 {
	s.mu.Lock()
	base := s.nextID + 1
	s.nextID += n
	s.mu.Unlock()
	return base
}

// Group spawns simulated goroutines and waits for them (harness helper).
type Group struct {
	n int
	q WaitQ
}

// Go starts f as a named simulated goroutine tracked by the group.
func (g *Group) Go(name string, f func()) {
	g.n++
	Go(name, func() {
		defer func() {
			g.n--
			if g.n == 0 {
				g.q.WakeAll()
			}
		}()
		f()
	})
}

// Wait parks until every goroutine of the group has returned.
func (g *Group) Wait() {
	for g.n > 0 {
		g.q.Park()
	}
}

// WaitTimeout is Wait with a simulated-time limit; reports whether all returned.
func (g *Group) WaitTimeout(d time.Duration) bool {
	deadline := time.Now().Add(d)
	for g.n > 0 {
		left := time.Until(deadline)
		if left <= 0 {
			return false
		}
		g.q.ParkTimeout(left)
	}
	return true
}

// Pending returns the number of goroutines of the group still running.
func (g *Group) Pending() int { return g.n }

// Seq returns the number of scheduler steps so far: a global event sequence
// number usable to stamp invoke/return events of recorded histories.
func Seq() uint64 {
	s := active.Load()
	if s == nil {
		return 0
	}
	s.seq++
	return s.seq
}
