package simrt

import (
	"fmt"
	"os"
)

// dumpLog, if set (VERIF_DUMPLOG=<path>, meant for replays), receives every
// event line; it does not take part in the hash.
var dumpLog *os.File

func init() {
	if p := os.Getenv("VERIF_DUMPLOG"); p != "" {
		dumpLog, _ = os.Create(p)
	}
}

// EventLog hashes every event line; the hash is the determinism witness.
// Logging never draws choices and never reads a real clock.
type EventLog struct {
	hash uint64
	n    uint64
	keep int
	head []string
	tail []string
	tpos int
}

func newEventLog(keep int) *EventLog {
	return &EventLog{hash: 14695981039346656037, keep: keep}
}

func (l *EventLog) mix(b []byte) {
	h := l.hash
	for _, c := range b {
		h ^= uint64(c)
		h *= 1099511628211
	}
	h ^= 0xff
	h *= 1099511628211
	l.hash = h
}

func (l *EventLog) sched(id uint64) {
	var b [9]byte
	b[0] = 's'
	for i := 0; i < 8; i++ {
		b[1+i] = byte(id >> (8 * i))
	}
	l.mix(b[:])
}

func (l *EventLog) line(s string) {
	l.mix([]byte(s))
	l.n++
	if dumpLog != nil {
		dumpLog.WriteString(s + "\n")
	}
	if l.keep == 0 {
		return
	}
	if len(l.head) < l.keep {
		l.head = append(l.head, s)
		return
	}
	if len(l.tail) < l.keep {
		l.tail = append(l.tail, s)
	} else {
		l.tail[l.tpos%l.keep] = s
	}
	l.tpos++
}

func (l *EventLog) tailLines() []string {
	if len(l.tail) < l.keep || l.keep == 0 {
		return append([]string(nil), l.tail...)
	}
	out := make([]string, 0, l.keep)
	for i := 0; i < l.keep; i++ {
		out = append(out, l.tail[(l.tpos+i)%l.keep])
	}
	return out
}

// Eventf appends a line to the event log (stamped with simulated time).
func (s *Sched) Eventf(format string, args ...any) {
	line := fmt.Sprintf(format, args...)
	s.mu.Lock()
	var t int64
	if !s.t0.IsZero() {
		t = int64(timeSince(s))
	}
	s.log.line(fmt.Sprintf("t=%d %s", t, line))
	s.mu.Unlock()
}

// Eventf logs to the running simulation (no-op outside one).
func Eventf(format string, args ...any) {
	if s := active.Load(); s != nil {
		s.Eventf(format, args...)
	}
}

// FNV hashes a payload for logging (length + hash instead of content).
func FNV(b []byte) uint64 {
	h := uint64(14695981039346656037)
	for _, c := range b {
		h ^= uint64(c)
		h *= 1099511628211
	}
	return h
}

// Debug ring: free-form component logs kept for humans (not hashed).
var debugOn bool

// SetDebug switches the debug ring on (replay mode).
func SetDebug(on bool) { debugOn = on }

// DebugEnabled reports whether component logs are being kept.
func DebugEnabled() bool { return debugOn }

// Debugf appends to the debug ring of the running simulation.
func Debugf(format string, args ...any) {
	if !debugOn {
		return
	}
	s := active.Load()
	if s == nil {
		return
	}
	node := ""
	if g := curG(); g != nil && g.sched == s {
		node = g.node
	}
	line := fmt.Sprintf("t=%d [%s] ", int64(timeSince(s)), node) + fmt.Sprintf(format, args...)
	if dumpLog != nil {
		dumpLog.WriteString("  # " + line + "\n")
	}
	s.mu.Lock()
	s.debug = append(s.debug, line)
	if len(s.debug) > 4000 {
		s.debug = s.debug[len(s.debug)-2000:]
	}
	s.mu.Unlock()
}
