// Package simrt is the deterministic scheduler used by every simulated world.
//
// Real goroutines are parked and released one at a time: between two driver
// decisions at most one registered goroutine executes program code. The fake
// clock and quiescence detection come from testing/synctest; *which* goroutine
// proceeds is decided here from the run's choice stream.
package simrt

import (
	"fmt"
	"runtime"
	"runtime/debug"
	"sort"
	"strings"
	"sync"
	"sync/atomic"
	"testing/synctest"
	"time"
	"unsafe"
)

//go:linkname getLabel runtime/pprof.runtime_getProfLabel
func getLabel() unsafe.Pointer

//go:linkname setLabel runtime/pprof.runtime_setProfLabel
func setLabel(p unsafe.Pointer)

const (
	stNew      = iota // created, waiting for first release
	stRunning         // released by the driver (or woken natively, about to park)
	stRunnable        // parked, in runnable list
	stBlocked         // parked in a WaitQ (simulated blocking)
	stNative          // inside a native blocking operation (channel / reflect.Select)
	stDone
)

// G is the scheduler's record of one simulated goroutine.
type G struct {
	id         uint64
	name       string
	wake       chan struct{}
	state      int32
	sched      *Sched
	spawnN     int
	randN      uint64
	node       string // owning simulated node ("" = harness)
	wq         *WaitQ
	wqTimedOut bool
	timer      *time.Timer
	unwinding  bool // exitNow was called: the goroutine is being unwound by the teardown
}

func (g *G) Name() string { return g.name }
func (g *G) Node() string { return g.node }

// Violation is a property violation found in a run.
type Violation struct {
	Class  string `json:"class"`
	Sig    string `json:"sig"`
	Detail string `json:"detail"`
}

// Sched is one simulated execution.
type Sched struct {
	mu       sync.Mutex // real mutex; held for a few instructions only, never while parked
	runnable []*G
	all      []*G
	kick     chan struct{}
	nextID   uint64
	cur      *G

	ch *Choices

	untilPreempt int64
	frozen       map[*G]int // goroutines kept off the CPU for a number of driver picks (starvation mode)
	FreezeOneIn  int        // 0 = off; else a preempted goroutine is frozen with probability 1/FreezeOneIn
	FreezeMax    int        // maximum number of driver picks a goroutine stays frozen
	Freezes      uint64
	PreemptMean  int // mean number of yields between preemptions; 0 = never preempt

	Steps       uint64
	Switches    uint64
	Preemptions uint64
	MaxSteps    uint64
	capHit      string

	aborted        atomic.Bool
	finished       bool
	viol           *Violation
	panics         []string
	teardownPanics int // panics of deferred functions during teardown unwinding (ignored)

	log    *EventLog
	t0     time.Time
	simEnd time.Time
	Probes map[string]int64
	Strict bool // panic on Yield from unregistered goroutine

	randSeed uint64
	seq      uint64
	debug    []string

	OnQuiesce func() // driver hook, called after every synctest.Wait(); must not block or yield
}

var active atomic.Pointer[Sched]

var progress atomic.Uint64

// Progress returns a counter that moves whenever the scheduler makes a decision (watchdog use).
func Progress() uint64 { return progress.Load() }

// Active reports whether a simulation is running in this process.
func Active() bool { return active.Load() != nil }

// Cur returns the running simulation, or nil.
func Cur() *Sched { return active.Load() }

func curG() *G {
	p := getLabel()
	if p == nil {
		return nil
	}
	return (*G)(p)
}

// CurG returns the calling goroutine's record (nil if not registered with the running sim).
func CurG() *G {
	s := active.Load()
	if s == nil {
		return nil
	}
	g := curG()
	if g == nil || g.sched != s {
		return nil
	}
	return g
}

type goexitSentinel struct{}

func (s *Sched) newG(name, node string) *G {
	s.mu.Lock()
	s.nextID++
	g := &G{id: s.nextID, name: name, wake: make(chan struct{}, 1), sched: s, node: node}
	s.all = append(s.all, g)
	s.mu.Unlock()
	return g
}

func (s *Sched) kickDriver() {
	select {
	case s.kick <- struct{}{}:
	default:
	}
}

// makeRunnable appends g to the runnable list (any goroutine may call it).
func (s *Sched) makeRunnable(g *G) {
	s.mu.Lock()
	g.state = stRunnable
	s.runnable = append(s.runnable, g)
	s.mu.Unlock()
	s.kickDriver()
}

// parkSelf blocks the calling goroutine until the driver releases it.
func (g *G) parkSelf() {
	<-g.wake
	if g.sched.aborted.Load() {
		g.exitNow()
	}
}

func (g *G) exitNow() {
	g.unwinding = true
	runtime.Goexit()
}

// start launches f as a new registered goroutine; it first runs when the driver picks it.
func (s *Sched) start(g *G, f func()) {
	s.makeRunnable(g)
	go func() {
		setLabel(unsafe.Pointer(g))
		defer func() {
			if r := recover(); r != nil && g.unwinding {
				// A deferred function panicked while the teardown unwinds this
				// goroutine from the middle of a blocking operation (e.g. a
				// compressor's Close after its Write was cut short): an artefact
				// of the teardown, the program itself never unwinds that way.
				s.mu.Lock()
				s.teardownPanics++
				s.mu.Unlock()
			} else if r != nil {
				st := string(debug.Stack())
				s.mu.Lock()
				s.panics = append(s.panics, fmt.Sprintf("goroutine %s: panic: %v\n%s", g.name, r, st))
				s.mu.Unlock()
				s.Eventf("PANIC g=%s %v", g.name, r)
				s.aborted.Store(true)
			}
			s.mu.Lock()
			g.state = stDone
			s.mu.Unlock()
			setLabel(nil)
			s.kickDriver()
		}()
		<-g.wake
		if s.aborted.Load() {
			return
		}
		f()
	}()
}

// Go starts f as a named simulated goroutine (harness use). The node tag is
// inherited from the caller unless given via GoNode.
func Go(name string, f func()) {
	s := active.Load()
	if s == nil {
		go f()
		return
	}
	parent := curG()
	node := ""
	if parent != nil && parent.sched == s {
		node = parent.node
	}
	g := s.newG(name, node)
	s.start(g, f)
}

// GoNode is Go with an explicit node tag.
func GoNode(name, node string, f func()) {
	s := active.Load()
	if s == nil {
		go f()
		return
	}
	g := s.newG(name, node)
	s.start(g, f)
}

// GoStmt is what an instrumented `go f(x)` statement becomes.
func GoStmt(f func()) {
	s := active.Load()
	if s == nil {
		go f()
		return
	}
	parent := curG()
	if parent == nil || parent.sched != s {
		if s.Strict {
			panic("simrt: go statement from unregistered goroutine")
		}
		go f()
		return
	}
	parent.spawnN++
	g := s.newG(parent.name+"."+itoa(parent.spawnN), parent.node)
	s.start(g, f)
	Yield()
}

// SetNode tags the calling goroutine (and its future children) with a node name.
func SetNode(node string) {
	if g := CurG(); g != nil {
		g.node = node
	}
}

func itoa(n int) string { return fmt.Sprintf("%d", n) }

// EndStarvation switches the scheduler's starvation mode off for the rest of
// the run and releases every frozen goroutine. It is the "faults stop" point of
// oracles that allow an agent a bounded time to do something: such an allowance
// only means anything for an agent that gets the CPU (in starvation mode every
// preemption may keep a goroutine off it for up to two simulated seconds, so an
// agent working through a large message can fall behind without bound).
func EndStarvation() {
	s := active.Load()
	if s == nil {
		return
	}
	s.mu.Lock()
	s.FreezeOneIn = 0
	s.frozen = nil
	s.mu.Unlock()
	s.kickDriver()
}

// Yield is a scheduling point of the running goroutine.
func Yield() {
	s := active.Load()
	if s == nil {
		return
	}
	g := curG()
	if g == nil || g.sched != s {
		if s.Strict {
			panic("simrt: Yield from unregistered goroutine\n" + string(debug.Stack()))
		}
		return
	}
	if s.aborted.Load() {
		g.exitNow()
	}
	s.Steps++
	if s.MaxSteps != 0 && s.Steps > s.MaxSteps {
		s.hitCap("steps")
		g.exitNow()
	}
	s.untilPreempt--
	if s.untilPreempt > 0 {
		return
	}
	s.untilPreempt = s.drawGap()
	s.Preemptions++
	if s.FreezeOneIn > 0 && s.ch.Choose(s.FreezeOneIn, "freeze") == 1 {
		// starvation: this goroutine stays off the CPU for a drawn number of
		// driver decisions while others run (a long descheduling)
		n := 1 + s.ch.Choose(s.FreezeMax, "freezelen")
		d := time.Duration(1+s.ch.Choose(2000, "freezems")) * time.Millisecond
		s.mu.Lock()
		if s.frozen == nil {
			s.frozen = map[*G]int{}
		}
		s.frozen[g] = n
		s.mu.Unlock()
		// the freeze also ends after d of simulated time (a frozen goroutine
		// does not keep the clock from advancing)
		time.AfterFunc(d, func() {
			s.mu.Lock()
			delete(s.frozen, g)
			s.mu.Unlock()
			s.kickDriver()
		})
		s.Freezes++
	}
	s.makeRunnable(g)
	g.parkSelf()
}

// YieldAlways parks unconditionally (used after native wake-ups).
func wakeYield(g *G) {
	s := g.sched
	s.makeRunnable(g)
	g.parkSelf()
}

const neverPreempt = int64(1) << 50

func (s *Sched) drawGap() int64 {
	if s.PreemptMean <= 0 {
		return neverPreempt
	}
	// geometric-ish: uniform in [1, 2*mean]
	v := s.ch.Choose(2*s.PreemptMean+1, "gap")
	if v == 0 {
		return neverPreempt // all-zero choice list = sequential execution
	}
	return int64(v)
}

func (s *Sched) hitCap(what string) {
	s.mu.Lock()
	if s.capHit == "" {
		s.capHit = what
	}
	s.mu.Unlock()
	s.aborted.Store(true)
	s.kickDriver()
}

// Fail records a violation (first one wins) and aborts the run. It does not return
// when called from a simulated goroutine.
func Fail(class, sig, detail string) {
	s := active.Load()
	if s == nil {
		panic("simrt.Fail outside simulation: " + class + " " + sig + " " + detail)
	}
	s.mu.Lock()
	if s.viol == nil {
		s.viol = &Violation{Class: class, Sig: sig, Detail: detail}
	}
	s.mu.Unlock()
	s.Eventf("VIOLATION class=%s sig=%s", class, sig)
	s.aborted.Store(true)
	s.kickDriver()
	if g := curG(); g != nil && g.sched == s {
		g.exitNow()
	}
}

// Failf is Fail with a formatted detail.
func Failf(class, sig, format string, args ...any) {
	Fail(class, sig, fmt.Sprintf(format, args...))
}

// Record notes a violation but lets the run continue (used by history oracles
// that want to collect everything); first one wins.
func Record(class, sig, detail string) {
	s := active.Load()
	if s == nil {
		return
	}
	s.mu.Lock()
	if s.viol == nil {
		s.viol = &Violation{Class: class, Sig: sig, Detail: detail}
	}
	s.mu.Unlock()
	s.Eventf("VIOLATION class=%s sig=%s", class, sig)
}

// Probe increments a reach counter.
func Probe(name string) { ProbeN(name, 1) }

func ProbeN(name string, n int64) {
	s := active.Load()
	if s == nil {
		return
	}
	s.mu.Lock()
	s.Probes[name] += n
	s.mu.Unlock()
}

// Choose draws a recorded choice in [0,n).
func Choose(n int, label string) int {
	s := active.Load()
	if s == nil {
		return 0
	}
	return s.ch.Choose(n, label)
}

// Chance returns true with probability num/den (recorded; false is choice 0).
func Chance(num, den int, label string) bool {
	if num <= 0 {
		return false
	}
	s := active.Load()
	if s == nil {
		return false
	}
	v := s.ch.Choose(den, label)
	return v != 0 && v <= num
}

// Elapsed returns simulated time since the run started.
func Elapsed() time.Duration {
	s := active.Load()
	if s == nil {
		return 0
	}
	return time.Since(s.t0)
}

// Aborted reports whether the run is being torn down.
func Aborted() bool {
	s := active.Load()
	return s == nil || s.aborted.Load()
}

// Result summarises a finished run.
type Result struct {
	Violation   *Violation
	Panics      []string
	CapHit      string
	Steps       uint64
	Switches    uint64
	Preemptions uint64
	SimTime     time.Duration
	LogHash     uint64
	LogHead     []string
	LogTail     []string
	Events      uint64
	Probes      map[string]int64
	Leaked      int
	Goroutines  int
	Choices     []uint32
	ChoiceCount int
	DeadlockMsg string
	Debug       []string
}

// Config configures one run.
type Config struct {
	Choices     *Choices
	PreemptMean int
	MaxSteps    uint64
	MaxSimTime  time.Duration
	Strict      bool
	KeepLog     int // number of head/tail lines to keep
	RandSeed    uint64
	OnQuiesce   func()
	FreezeOneIn int
	FreezeMax   int
}

// Run executes body as the root simulated goroutine inside a synctest bubble
// and returns when it has finished (or the run was aborted) and all simulated
// goroutines have been torn down.
func Run(cfg Config, runBubble func(func()), body func()) (res Result) {
	s := &Sched{
		kick:        make(chan struct{}, 1),
		ch:          cfg.Choices,
		PreemptMean: cfg.PreemptMean,
		MaxSteps:    cfg.MaxSteps,
		Probes:      map[string]int64{},
		Strict:      cfg.Strict,
		log:         newEventLog(cfg.KeepLog),
		randSeed:    cfg.RandSeed,
		FreezeOneIn: cfg.FreezeOneIn,
		FreezeMax:   cfg.FreezeMax,
		OnQuiesce:   cfg.OnQuiesce,
	}
	if s.ch == nil {
		s.ch = NewChoices(1)
	}
	if !active.CompareAndSwap(nil, s) {
		panic("simrt: nested Run")
	}
	defer active.Store(nil)
	defer func() {
		if r := recover(); r != nil {
			msg := fmt.Sprint(r)
			if strings.Contains(msg, "deadlock") {
				res = s.result()
				res.DeadlockMsg = msg
				return
			}
			panic(r)
		}
	}()
	runBubble(func() {
		// channels the driver blocks on must be created inside the bubble,
		// otherwise the block is not durable and the fake clock never advances
		s.kick = make(chan struct{}, 1)
		s.t0 = time.Now()
		s.untilPreempt = s.drawGap()
		if cfg.MaxSimTime > 0 {
			t := time.AfterFunc(cfg.MaxSimTime, func() { s.hitCap("simtime") })
			defer t.Stop()
		}
		root := s.newG("root", "")
		done := false
		s.start(root, func() {
			defer func() {
				s.mu.Lock()
				done = true
				s.mu.Unlock()
			}()
			body()
		})
		s.drive(func() bool { return done })
		s.teardown()
	})
	return s.result()
}

func (s *Sched) drive(done func() bool) {
	for {
		synctest.Wait()
		if s.OnQuiesce != nil && !s.aborted.Load() {
			s.OnQuiesce()
		}
		s.mu.Lock()
		if done() || s.aborted.Load() {
			s.mu.Unlock()
			return
		}
		n := len(s.runnable)
		if n == 0 {
			s.mu.Unlock()
			<-s.kick // durable block: lets the fake clock advance
			continue
		}
		sort.Slice(s.runnable, func(i, j int) bool { return s.runnable[i].id < s.runnable[j].id })
		// frozen goroutines are passed over while anything else can run
		cand := s.runnable
		if len(s.frozen) > 0 {
			var free []*G
			for _, x := range s.runnable {
				if s.frozen[x] > 0 {
					s.frozen[x]--
					if s.frozen[x] == 0 {
						delete(s.frozen, x)
					}
				} else {
					free = append(free, x)
				}
			}
			if len(free) == 0 && len(s.frozen) > 0 {
				// only frozen goroutines could run: let simulated time pass
				// (their expiry timers, or any other timer, kick the driver)
				s.mu.Unlock()
				<-s.kick
				continue
			}
			if len(free) > 0 {
				cand = free
			}
		}
		k := 0
		if len(cand) > 1 {
			k = s.pick(len(cand))
		}
		g := cand[k]
		for i, x := range s.runnable {
			if x == g {
				k = i
				break
			}
		}
		s.runnable = append(s.runnable[:k], s.runnable[k+1:]...)
		g.state = stRunning
		if g != s.cur {
			s.Switches++
		}
		s.cur = g
		s.mu.Unlock()
		s.log.sched(g.id)
		progress.Add(1)
		g.wake <- struct{}{}
	}
}

// pick chooses among n runnable goroutines (sorted by id). Called with s.mu held.
func (s *Sched) pick(n int) int {
	// keep position of cur at index 0 semantics: choice 0 = lowest id. Simple uniform.
	return s.ch.Choose(n, "sched")
}

// teardown unwinds every remaining simulated goroutine, one at a time.
func (s *Sched) teardown() {
	s.simEnd = time.Now()
	s.aborted.Store(true)
	for round := 0; round < 1000000; round++ {
		synctest.Wait()
		s.mu.Lock()
		var g *G
		for _, x := range s.all {
			if x.state == stRunnable || x.state == stBlocked || x.state == stNew {
				g = x
				break
			}
		}
		if g == nil {
			s.mu.Unlock()
			break
		}
		g.state = stRunning
		s.mu.Unlock()
		if g.timer != nil {
			g.timer.Stop()
		}
		select {
		case g.wake <- struct{}{}:
		default:
		}
	}
	synctest.Wait()
	s.finished = true
}

func (s *Sched) result() Result {
	s.mu.Lock()
	defer s.mu.Unlock()
	leaked := 0
	for _, g := range s.all {
		if g.state != stDone {
			leaked++
		}
	}
	r := Result{
		Violation:   s.viol,
		Panics:      s.panics,
		CapHit:      s.capHit,
		Steps:       s.Steps,
		Switches:    s.Switches,
		Preemptions: s.Preemptions,
		LogHash:     s.log.hash,
		LogHead:     s.log.head,
		LogTail:     s.log.tailLines(),
		Events:      s.log.n,
		Probes:      s.Probes,
		Leaked:      leaked,
		Goroutines:  len(s.all),
		Choices:     s.ch.Trace(),
		ChoiceCount: s.ch.Count(),
		Debug:       s.debug,
	}
	if !s.t0.IsZero() && !s.simEnd.IsZero() {
		r.SimTime = s.simEnd.Sub(s.t0)
	}
	return r
}

func timeSince(s *Sched) time.Duration { return time.Since(s.t0) }

// RandSeed returns the run's seed for simulated randomness.
func (s *Sched) RandSeed() uint64 { return s.randSeed }

// NextRand returns the calling goroutine's next deterministic random word
// (keyed by goroutine identity and call ordinal, not by global order).
func NextRand() (uint64, bool) {
	g := CurG()
	if g == nil {
		return 0, false
	}
	g.randN++
	return Mix(Mix(g.sched.randSeed, g.id), g.randN), true
}
