package simrt

// Choices is the single source of nondeterminism of a run: a PRNG in record
// mode, a fixed list in replay mode. Every draw is appended to the trace.
type Choices struct {
	rng    xoshiro
	replay []uint32
	pos    int
	isRep  bool
	trace  []uint32
	count  int
	Keep   int // max trace entries kept (0 = unlimited)
}

// NewChoices returns a recording choice source seeded from seed.
func NewChoices(seed uint64) *Choices {
	c := &Choices{}
	c.rng.seed(seed)
	return c
}

// ReplayChoices returns a choice source that replays list (exhausted => 0).
func ReplayChoices(list []uint32) *Choices {
	return &Choices{replay: list, isRep: true}
}

// Choose returns a value in [0,n).
func (c *Choices) Choose(n int, label string) int {
	if n <= 1 {
		return 0
	}
	var v uint32
	if c.isRep {
		if c.pos < len(c.replay) {
			v = c.replay[c.pos] % uint32(n)
		}
		c.pos++
	} else {
		v = uint32(c.rng.next() % uint64(n))
	}
	c.count++
	if c.Keep == 0 || len(c.trace) < c.Keep {
		c.trace = append(c.trace, v)
	}
	return int(v)
}

func (c *Choices) Trace() []uint32 { return c.trace }
func (c *Choices) Count() int      { return c.count }

// Rand64 draws a raw 64-bit value as a recorded pair of choices (harness use only).
func (c *Choices) Rand64() uint64 {
	hi := c.Choose(1<<31, "r64")
	lo := c.Choose(1<<31, "r64")
	return uint64(hi)<<31 | uint64(lo)
}

type xoshiro struct{ s [4]uint64 }

func splitmix(x *uint64) uint64 {
	*x += 0x9e3779b97f4a7c15
	z := *x
	z = (z ^ (z >> 30)) * 0xbf58476d1ce4e5b9
	z = (z ^ (z >> 27)) * 0x94d049bb133111eb
	return z ^ (z >> 31)
}

// Mix derives an independent seed from (seed, i).
func Mix(seed uint64, i uint64) uint64 {
	x := seed ^ (i * 0xd1342543de82ef95)
	splitmix(&x)
	return splitmix(&x)
}

func (x *xoshiro) seed(seed uint64) {
	for i := range x.s {
		x.s[i] = splitmix(&seed)
	}
}

func rotl(v uint64, k uint) uint64 { return (v << k) | (v >> (64 - k)) }

func (x *xoshiro) next() uint64 {
	r := rotl(x.s[1]*5, 7) * 9
	t := x.s[1] << 17
	x.s[2] ^= x.s[0]
	x.s[3] ^= x.s[1]
	x.s[1] ^= x.s[2]
	x.s[0] ^= x.s[3]
	x.s[2] ^= t
	x.s[3] = rotl(x.s[3], 45)
	return r
}

// Rng is a plain seeded PRNG for workload generation outside the choice stream.
type Rng struct{ x xoshiro }

func NewRng(seed uint64) *Rng { r := &Rng{}; r.x.seed(seed); return r }
func (r *Rng) Uint64() uint64 { return r.x.next() }
func (r *Rng) Intn(n int) int {
	if n <= 1 {
		return 0
	}
	return int(r.x.next() % uint64(n))
}
func (r *Rng) Float64() float64 { return float64(r.x.next()>>11) / (1 << 53) }
func (r *Rng) Bytes(b []byte) {
	for i := 0; i < len(b); i += 8 {
		v := r.x.next()
		for j := 0; j < 8 && i+j < len(b); j++ {
			b[i+j] = byte(v >> (8 * j))
		}
	}
}
