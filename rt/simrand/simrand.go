// Package simrand replaces crypto/rand and math/rand top-level functions in
// instrumented code with a deterministic stream keyed by the calling simulated
// goroutine and its call ordinal. Outside a simulation the real sources are used.
package simrand

import (
	crand "crypto/rand"
	"io"
	"math/big"
	mrand "math/rand"

	"github.com/postalsys/muti-metroo/internal/verifrt/simrt"
)

// Force, when a harness sets it for the current run, may supply the bytes of
// a read itself: edge-case draws (all ones, all zeros, ...) that a uniform
// source produces with negligible probability but that are legal outcomes.
// It returns false to leave the read to the deterministic stream.
var Force func(b []byte) bool

type reader struct{}

func (reader) Read(b []byte) (int, error) {
	if len(b) == 1 && simrt.CurG() != nil {
		// crypto/internal/randutil.MaybeReadByte reads one byte or not, at
		// random: such reads must not advance the deterministic stream.
		b[0] = 0x5a
		return 1, nil
	}
	w, ok := simrt.NextRand()
	if !ok {
		return crand.Read(b)
	}
	if f := Force; f != nil && f(b) {
		return len(b), nil
	}
	x := w
	for i := range b {
		if i%8 == 0 {
			x = simrt.Mix(w, uint64(i/8)+1)
		}
		b[i] = byte(x >> (8 * (i % 8)))
	}
	return len(b), nil
}

// Reader stands in for crypto/rand.Reader.
var Reader io.Reader = reader{}

func Read(b []byte) (int, error) { return Reader.Read(b) }

func Int(r io.Reader, max *big.Int) (*big.Int, error) { return crand.Int(r, max) }
func Prime(r io.Reader, bits int) (*big.Int, error)   { return crand.Prime(r, bits) }
func Text() string                                    { return crand.Text() }

func word() (uint64, bool) { return simrt.NextRand() }

func Float64() float64 {
	if w, ok := word(); ok {
		return float64(w>>11) / (1 << 53)
	}
	return mrand.Float64()
}
func Float32() float32 { return float32(Float64()) }
func Int63() int64 {
	if w, ok := word(); ok {
		return int64(w >> 1)
	}
	return mrand.Int63()
}
func Int31() int32   { return int32(Int63() >> 32) }
func Uint32() uint32 { return uint32(Int63() >> 31) }
func Uint64() uint64 {
	if w, ok := word(); ok {
		return w
	}
	return mrand.Uint64()
}
func IntN() int { return int(uint(Int63())) }
func Int63n(n int64) int64 {
	if n <= 0 {
		panic("invalid argument to Int63n")
	}
	return Int63() % n
}
func Int31n(n int32) int32 {
	if n <= 0 {
		panic("invalid argument to Int31n")
	}
	return int32(Int63() % int64(n))
}
func Intn(n int) int {
	if n <= 0 {
		panic("invalid argument to Intn")
	}
	return int(Int63() % int64(n))
}
func Perm(n int) []int {
	p := make([]int, n)
	for i := range p {
		p[i] = i
	}
	Shuffle(n, func(i, j int) { p[i], p[j] = p[j], p[i] })
	return p
}
func Shuffle(n int, swap func(i, j int)) {
	for i := n - 1; i > 0; i-- {
		j := Intn(i + 1)
		swap(i, j)
	}
}
func Seed(int64) {}

type Rand = mrand.Rand
type Source = mrand.Source

func New(src mrand.Source) *mrand.Rand  { return mrand.New(src) }
func NewSource(seed int64) mrand.Source { return mrand.NewSource(seed) }
