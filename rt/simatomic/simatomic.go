// Package simatomic replaces sync/atomic in instrumented code: every
// operation is a scheduling point followed by the real atomic operation.
package simatomic

import (
	"sync/atomic"
	"unsafe"

	"github.com/postalsys/muti-metroo/internal/verifrt/simrt"
)

type Int32 struct{ v atomic.Int32 }

func (x *Int32) Load() int32        { simrt.Yield(); return x.v.Load() }
func (x *Int32) Store(n int32)      { simrt.Yield(); x.v.Store(n) }
func (x *Int32) Add(d int32) int32  { simrt.Yield(); return x.v.Add(d) }
func (x *Int32) Swap(n int32) int32 { simrt.Yield(); return x.v.Swap(n) }
func (x *Int32) CompareAndSwap(o, n int32) bool {
	simrt.Yield()
	return x.v.CompareAndSwap(o, n)
}

type Int64 struct{ v atomic.Int64 }

func (x *Int64) Load() int64        { simrt.Yield(); return x.v.Load() }
func (x *Int64) Store(n int64)      { simrt.Yield(); x.v.Store(n) }
func (x *Int64) Add(d int64) int64  { simrt.Yield(); return x.v.Add(d) }
func (x *Int64) Swap(n int64) int64 { simrt.Yield(); return x.v.Swap(n) }
func (x *Int64) CompareAndSwap(o, n int64) bool {
	simrt.Yield()
	return x.v.CompareAndSwap(o, n)
}

type Uint32 struct{ v atomic.Uint32 }

func (x *Uint32) Load() uint32         { simrt.Yield(); return x.v.Load() }
func (x *Uint32) Store(n uint32)       { simrt.Yield(); x.v.Store(n) }
func (x *Uint32) Add(d uint32) uint32  { simrt.Yield(); return x.v.Add(d) }
func (x *Uint32) Swap(n uint32) uint32 { simrt.Yield(); return x.v.Swap(n) }
func (x *Uint32) CompareAndSwap(o, n uint32) bool {
	simrt.Yield()
	return x.v.CompareAndSwap(o, n)
}

type Uint64 struct{ v atomic.Uint64 }

func (x *Uint64) Load() uint64         { simrt.Yield(); return x.v.Load() }
func (x *Uint64) Store(n uint64)       { simrt.Yield(); x.v.Store(n) }
func (x *Uint64) Add(d uint64) uint64  { simrt.Yield(); return x.v.Add(d) }
func (x *Uint64) Swap(n uint64) uint64 { simrt.Yield(); return x.v.Swap(n) }
func (x *Uint64) CompareAndSwap(o, n uint64) bool {
	simrt.Yield()
	return x.v.CompareAndSwap(o, n)
}

type Bool struct{ v atomic.Bool }

func (x *Bool) Load() bool       { simrt.Yield(); return x.v.Load() }
func (x *Bool) Store(b bool)     { simrt.Yield(); x.v.Store(b) }
func (x *Bool) Swap(b bool) bool { simrt.Yield(); return x.v.Swap(b) }
func (x *Bool) CompareAndSwap(o, n bool) bool {
	simrt.Yield()
	return x.v.CompareAndSwap(o, n)
}

type Value struct{ v atomic.Value }

func (x *Value) Load() any      { simrt.Yield(); return x.v.Load() }
func (x *Value) Store(val any)  { simrt.Yield(); x.v.Store(val) }
func (x *Value) Swap(n any) any { simrt.Yield(); return x.v.Swap(n) }
func (x *Value) CompareAndSwap(o, n any) bool {
	simrt.Yield()
	return x.v.CompareAndSwap(o, n)
}

type Pointer[T any] struct{ v atomic.Pointer[T] }

func (x *Pointer[T]) Load() *T     { simrt.Yield(); return x.v.Load() }
func (x *Pointer[T]) Store(p *T)   { simrt.Yield(); x.v.Store(p) }
func (x *Pointer[T]) Swap(p *T) *T { simrt.Yield(); return x.v.Swap(p) }
func (x *Pointer[T]) CompareAndSwap(o, n *T) bool {
	simrt.Yield()
	return x.v.CompareAndSwap(o, n)
}

func AddInt32(p *int32, d int32) int32      { simrt.Yield(); return atomic.AddInt32(p, d) }
func AddInt64(p *int64, d int64) int64      { simrt.Yield(); return atomic.AddInt64(p, d) }
func AddUint32(p *uint32, d uint32) uint32  { simrt.Yield(); return atomic.AddUint32(p, d) }
func AddUint64(p *uint64, d uint64) uint64  { simrt.Yield(); return atomic.AddUint64(p, d) }
func LoadInt32(p *int32) int32              { simrt.Yield(); return atomic.LoadInt32(p) }
func LoadInt64(p *int64) int64              { simrt.Yield(); return atomic.LoadInt64(p) }
func LoadUint32(p *uint32) uint32           { simrt.Yield(); return atomic.LoadUint32(p) }
func LoadUint64(p *uint64) uint64           { simrt.Yield(); return atomic.LoadUint64(p) }
func StoreInt32(p *int32, v int32)          { simrt.Yield(); atomic.StoreInt32(p, v) }
func StoreInt64(p *int64, v int64)          { simrt.Yield(); atomic.StoreInt64(p, v) }
func StoreUint32(p *uint32, v uint32)       { simrt.Yield(); atomic.StoreUint32(p, v) }
func StoreUint64(p *uint64, v uint64)       { simrt.Yield(); atomic.StoreUint64(p, v) }
func SwapInt32(p *int32, v int32) int32     { simrt.Yield(); return atomic.SwapInt32(p, v) }
func SwapInt64(p *int64, v int64) int64     { simrt.Yield(); return atomic.SwapInt64(p, v) }
func SwapUint32(p *uint32, v uint32) uint32 { simrt.Yield(); return atomic.SwapUint32(p, v) }
func SwapUint64(p *uint64, v uint64) uint64 { simrt.Yield(); return atomic.SwapUint64(p, v) }
func CompareAndSwapInt32(p *int32, o, n int32) bool {
	simrt.Yield()
	return atomic.CompareAndSwapInt32(p, o, n)
}
func CompareAndSwapInt64(p *int64, o, n int64) bool {
	simrt.Yield()
	return atomic.CompareAndSwapInt64(p, o, n)
}
func CompareAndSwapUint32(p *uint32, o, n uint32) bool {
	simrt.Yield()
	return atomic.CompareAndSwapUint32(p, o, n)
}
func CompareAndSwapUint64(p *uint64, o, n uint64) bool {
	simrt.Yield()
	return atomic.CompareAndSwapUint64(p, o, n)
}
func LoadPointer(p *unsafe.Pointer) unsafe.Pointer { simrt.Yield(); return atomic.LoadPointer(p) }
func StorePointer(p *unsafe.Pointer, v unsafe.Pointer) {
	simrt.Yield()
	atomic.StorePointer(p, v)
}
