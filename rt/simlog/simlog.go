// Package simlog replaces the agent's logger in simulation: records go to the
// simulator's debug ring (printed with replays), never to a real file descriptor.
package simlog

import (
	"bytes"
	"log/slog"
	"strings"

	"github.com/postalsys/muti-metroo/internal/verifrt/simrt"
)

type ringWriter struct{ node string }

func (w ringWriter) Write(p []byte) (int, error) {
	simrt.Debugf("%s", strings.TrimRight(string(bytes.TrimSpace(p)), "\n"))
	return len(p), nil
}

// NewLogger mirrors logging.NewLogger(level, format).
func NewLogger(level, format string) *slog.Logger {
	lv := slog.LevelInfo
	switch strings.ToLower(level) {
	case "debug":
		lv = slog.LevelDebug
	case "warn":
		lv = slog.LevelWarn
	case "error":
		lv = slog.LevelError
	}
	if !simrt.DebugEnabled() {
		lv = slog.LevelError + 4
	}
	h := slog.NewTextHandler(ringWriter{}, &slog.HandlerOptions{Level: lv, ReplaceAttr: func(groups []string, a slog.Attr) slog.Attr {
		if a.Key == slog.TimeKey {
			return slog.Attr{}
		}
		return a
	}})
	return slog.New(h)
}
