// Package simpipe provides in-memory pipes whose blocking operations are
// simulated (simrt.WaitQ): no real goroutine ever blocks in them, so the fake
// clock keeps advancing and the scheduler always knows who can run.
//
// Two flavours:
//
//   - Pipe() stands in for io.Pipe (the instrumenter redirects io.Pipe of a
//     package here, see /verif/seams/wmesh.json): synchronous, unbuffered, a
//     Write returns once readers have consumed all of it or the read side was
//     closed.
//   - NewBuffered(capacity) is a kernel-style pipe with a bounded buffer
//     (blocking Write with backpressure, Read returns what is there, EOF after
//     the write side closed and the buffer drained, EPIPE after the read side
//     closed). rt/simexec builds a fake process' stdin/stdout/stderr from it.
//
// Outside a simulation (simrt.Active() false) Pipe() is io.Pipe().
package simpipe

import (
	"io"
	"os"
	"syscall"

	"github.com/postalsys/muti-metroo/internal/verifrt/simnet"
	"github.com/postalsys/muti-metroo/internal/verifrt/simrt"
)

// ---------------------------------------------------------------------------
// io.Pipe stand-in
// ---------------------------------------------------------------------------

type syncPipe struct {
	data   []byte // what the current writer still has to hand over
	have   bool   // a Write is offering data (possibly zero bytes)
	wbusy  bool   // a Write is in progress (writes are serialised)
	rerr   error  // set by the read side's Close/CloseWithError
	werr   error  // set by the write side's Close/CloseWithError
	q      simrt.WaitQ
	native *nativePipe
}

type nativePipe struct {
	r *io.PipeReader
	w *io.PipeWriter
}

// PipeReader is the read half of Pipe.
type PipeReader struct{ p *syncPipe }

// PipeWriter is the write half of Pipe.
type PipeWriter struct{ p *syncPipe }

// registry of the run's simulated io.Pipe stand-ins (lives in simnet.W().Ext,
// so it is reset together with the simulated network)
type registry struct {
	pipes   []*syncPipe
	Created int
}

func reg() *registry {
	nw := simnet.W()
	if r, ok := nw.Ext["simpipe"].(*registry); ok {
		return r
	}
	r := &registry{}
	nw.Ext["simpipe"] = r
	return r
}

// Pipe replaces io.Pipe.
func Pipe() (*PipeReader, *PipeWriter) {
	p := &syncPipe{}
	if !simrt.Active() || simrt.CurG() == nil {
		r, w := io.Pipe()
		p.native = &nativePipe{r, w}
	} else {
		r := reg()
		r.pipes = append(r.pipes, p)
		r.Created++
	}
	return &PipeReader{p}, &PipeWriter{p}
}

// CloseAll closes both sides of every simulated Pipe() of the run that is still
// open and returns how many there were. A world calls it at the very end of a
// run, after every agent was stopped: a goroutine the code under test left
// blocked in a pipe (with a real io.Pipe it would simply stay blocked for ever)
// then returns with io.ErrClosedPipe instead of being unwound by the
// scheduler's teardown in the middle of somebody's Write.
func CloseAll() int {
	n := 0
	for _, p := range reg().pipes {
		if p.rerr == nil || p.werr == nil {
			if p.rerr == nil && p.werr == nil {
				n++
			}
			if p.rerr == nil {
				p.rerr = io.ErrClosedPipe
			}
			if p.werr == nil {
				p.werr = io.ErrClosedPipe
			}
			p.q.WakeAll()
		}
	}
	return n
}

// Blocked returns the number of goroutines parked in simulated Pipe()s.
func Blocked() int {
	n := 0
	for _, p := range reg().pipes {
		n += p.q.Len()
	}
	return n
}

func (r *PipeReader) Read(b []byte) (int, error) {
	p := r.p
	if p.native != nil {
		return p.native.r.Read(b)
	}
	simrt.Yield()
	for {
		if p.rerr != nil {
			return 0, io.ErrClosedPipe
		}
		if p.have {
			n := copy(b, p.data)
			p.data = p.data[n:]
			if len(p.data) == 0 {
				p.have = false
			}
			p.q.WakeAll()
			return n, nil
		}
		if p.werr != nil {
			return 0, p.werr
		}
		p.q.Park()
	}
}

// Close closes the reader; subsequent writes return io.ErrClosedPipe.
func (r *PipeReader) Close() error { return r.CloseWithError(nil) }

// CloseWithError closes the reader; subsequent writes return err.
func (r *PipeReader) CloseWithError(err error) error {
	p := r.p
	if p.native != nil {
		return p.native.r.CloseWithError(err)
	}
	if err == nil {
		err = io.ErrClosedPipe
	}
	if p.rerr == nil {
		p.rerr = err
	}
	p.q.WakeAll()
	return nil
}

func (w *PipeWriter) Write(b []byte) (int, error) {
	p := w.p
	if p.native != nil {
		return p.native.w.Write(b)
	}
	simrt.Yield()
	for p.wbusy {
		if p.werr != nil {
			return 0, io.ErrClosedPipe
		}
		if p.rerr != nil {
			return 0, p.rerr
		}
		p.q.Park()
	}
	if p.werr != nil {
		return 0, io.ErrClosedPipe
	}
	if p.rerr != nil {
		return 0, p.rerr
	}
	p.wbusy = true
	p.data = b
	p.have = true
	p.q.WakeAll()
	for p.have && p.rerr == nil && p.werr == nil {
		p.q.Park()
	}
	n := len(b) - len(p.data)
	var err error
	if p.have {
		// not fully consumed: one side was closed meanwhile
		p.have = false
		if p.rerr != nil {
			err = p.rerr
		} else {
			err = io.ErrClosedPipe
		}
	}
	p.data = nil
	p.wbusy = false
	p.q.WakeAll()
	return n, err
}

// Close closes the writer; subsequent reads return io.EOF.
func (w *PipeWriter) Close() error { return w.CloseWithError(nil) }

// CloseWithError closes the writer; subsequent reads return err (io.EOF if nil).
func (w *PipeWriter) CloseWithError(err error) error {
	p := w.p
	if p.native != nil {
		return p.native.w.CloseWithError(err)
	}
	if err == nil {
		err = io.EOF
	}
	if p.werr == nil {
		p.werr = err
	}
	p.q.WakeAll()
	return nil
}

// ---------------------------------------------------------------------------
// kernel-style buffered pipe
// ---------------------------------------------------------------------------

// Buffered is a bounded in-memory pipe with one read end and one write end.
type Buffered struct {
	buf      []byte
	capacity int
	rclosed  bool
	wclosed  bool
	q        simrt.WaitQ
	// counters (harness-readable)
	NWritten int // bytes accepted from writers
	NRead    int // bytes handed to readers
}

// NewBuffered creates a pipe that holds at most capacity bytes (>= 1).
func NewBuffered(capacity int) *Buffered {
	if capacity < 1 {
		capacity = 1
	}
	return &Buffered{capacity: capacity}
}

// Len returns the number of bytes written but not yet read.
func (p *Buffered) Len() int { return len(p.buf) }

// ReadEnd returns the read end (an io.ReadCloser).
func (p *Buffered) ReadEnd() *BufferedReader { return &BufferedReader{p} }

// WriteEnd returns the write end (an io.WriteCloser).
func (p *Buffered) WriteEnd() *BufferedWriter { return &BufferedWriter{p} }

// BufferedReader is the read end of a Buffered pipe.
type BufferedReader struct{ p *Buffered }

// BufferedWriter is the write end of a Buffered pipe.
type BufferedWriter struct{ p *Buffered }

func (r *BufferedReader) Read(b []byte) (int, error) {
	p := r.p
	simrt.Yield()
	for {
		if p.rclosed {
			return 0, os.ErrClosed
		}
		if len(p.buf) > 0 {
			n := copy(b, p.buf)
			p.buf = p.buf[n:]
			if len(p.buf) == 0 {
				p.buf = nil
			}
			p.NRead += n
			p.q.WakeAll()
			return n, nil
		}
		if p.wclosed {
			return 0, io.EOF
		}
		if len(b) == 0 {
			return 0, nil
		}
		p.q.Park()
	}
}

// Close closes the read end: blocked and later reads fail, writers get EPIPE.
func (r *BufferedReader) Close() error {
	p := r.p
	if p.rclosed {
		return os.ErrClosed
	}
	p.rclosed = true
	p.q.WakeAll()
	return nil
}

func (w *BufferedWriter) Write(b []byte) (int, error) {
	p := w.p
	simrt.Yield()
	n := 0
	for {
		if p.wclosed {
			return n, os.ErrClosed
		}
		if p.rclosed {
			return n, syscall.EPIPE
		}
		if len(b) == 0 {
			return n, nil
		}
		if room := p.capacity - len(p.buf); room > 0 {
			k := room
			if k > len(b) {
				k = len(b)
			}
			p.buf = append(p.buf, b[:k]...)
			b = b[k:]
			n += k
			p.NWritten += k
			p.q.WakeAll()
			continue
		}
		p.q.Park()
	}
}

// Close closes the write end: readers see EOF once the buffer is drained.
func (w *BufferedWriter) Close() error {
	p := w.p
	if p.wclosed {
		return os.ErrClosed
	}
	p.wclosed = true
	p.q.WakeAll()
	return nil
}
