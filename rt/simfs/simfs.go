// Package simfs is the filesystem seam of the crash world (W-crash, C34).
//
// It wraps the `os` functions that internal/identity and internal/sleep use.
// Every call operates on REAL files; simfs only (a) decomposes compound calls
// into the primitives a process actually issues (WriteFile = open-truncate,
// write, close; MkdirAll = one mkdir per missing component), (b) counts and
// records every *mutating* primitive and (c) can "kill the process" at a chosen
// primitive index: the primitive with that index is NOT performed, the calling
// code is aborted with a panic carrying a private sentinel (the harness recovers
// it at the top of the interrupted operation) and every later simfs call of the
// same incarnation aborts the same way (a dead process runs no code).
//
// Crash model: process death. Primitives that completed before the crash
// persist; a single write call is atomic (no torn writes); Sync is a no-op.
//
// With no crash armed (Begin(-1), or Begin never called) every function behaves
// exactly like its `os` counterpart.
package simfs

import (
	"errors"
	"io/fs"
	"os"
	"path/filepath"
	"sync"
)

// Prim is one recorded mutating primitive.
type Prim struct {
	Kind      string // mkdir, open-create, open-trunc, write, rename, remove, removeall, chmod, truncate
	Path      string // full path operated on (rename: source)
	Path2     string // rename: destination
	Bytes     int    // write: bytes written
	Truncated int64  // open-trunc / truncate: size of the file before truncation
}

// Base returns the last path element of the primitive's target (rename: destination).
func (p Prim) Base() string {
	if p.Path2 != "" {
		return filepath.Base(p.Path2)
	}
	return filepath.Base(p.Path)
}

type crashSentinel struct {
	index int
	prim  Prim
}

// IsCrash reports whether a recovered panic value is the simfs process-death sentinel.
func IsCrash(r any) bool {
	_, ok := r.(*crashSentinel)
	return ok
}

var (
	mu      sync.Mutex // real mutex, held for a few instructions, never across a scheduling point
	crashAt = -1
	count   int
	dead    bool
	trace   []Prim
	killed  Prim
	open    []*os.File
)

// Begin starts a new process incarnation: the primitive counter and trace are
// reset, files left open by the previous (dead) incarnation are closed, and
// the primitive with index crashIndex (0-based) will kill the incarnation.
// crashIndex < 0: never crash.
func Begin(crashIndex int) {
	mu.Lock()
	defer mu.Unlock()
	for _, f := range open {
		f.Close()
	}
	open = nil
	crashAt = crashIndex
	count = 0
	dead = false
	trace = nil
	killed = Prim{}
}

// Count returns the number of mutating primitives performed by this incarnation.
func Count() int { mu.Lock(); defer mu.Unlock(); return count }

// Dead reports whether this incarnation has been killed.
func Dead() bool { mu.Lock(); defer mu.Unlock(); return dead }

// Trace returns the primitives performed so far by this incarnation.
func Trace() []Prim { mu.Lock(); defer mu.Unlock(); return append([]Prim(nil), trace...) }

// Killed returns the primitive that was not performed because the incarnation died at it.
func Killed() Prim { mu.Lock(); defer mu.Unlock(); return killed }

// alive aborts the caller if the incarnation is dead (non-mutating calls).
func alive() {
	mu.Lock()
	d := dead
	idx := crashAt
	k := killed
	mu.Unlock()
	if d {
		panic(&crashSentinel{index: idx, prim: k})
	}
}

// gate is passed before every mutating primitive.
func gate(p Prim) {
	mu.Lock()
	if dead {
		idx, k := crashAt, killed
		mu.Unlock()
		panic(&crashSentinel{index: idx, prim: k})
	}
	if crashAt >= 0 && count == crashAt {
		dead = true
		killed = p
		mu.Unlock()
		panic(&crashSentinel{index: crashAt, prim: p})
	}
	count++
	trace = append(trace, p)
	mu.Unlock()
}

func track(f *os.File) {
	mu.Lock()
	open = append(open, f)
	mu.Unlock()
}

func untrack(f *os.File) {
	mu.Lock()
	for i, x := range open {
		if x == f {
			open = append(open[:i], open[i+1:]...)
			break
		}
	}
	mu.Unlock()
}

// ---- types -------------------------------------------------------------

// File wraps *os.File; Write/Truncate/Chmod are counted primitives.
type File struct {
	f *os.File
}

func wrap(f *os.File, err error) (*File, error) {
	if err != nil {
		return nil, err
	}
	track(f)
	return &File{f: f}, nil
}

func (f *File) Name() string { return f.f.Name() }
func (f *File) Fd() uintptr  { return f.f.Fd() }

func (f *File) Write(b []byte) (int, error) {
	if len(b) == 0 {
		alive()
		return f.f.Write(b)
	}
	gate(Prim{Kind: "write", Path: f.f.Name(), Bytes: len(b)})
	return f.f.Write(b)
}

func (f *File) WriteString(s string) (int, error) { return f.Write([]byte(s)) }

func (f *File) WriteAt(b []byte, off int64) (int, error) {
	if len(b) == 0 {
		alive()
		return f.f.WriteAt(b, off)
	}
	gate(Prim{Kind: "write", Path: f.f.Name(), Bytes: len(b)})
	return f.f.WriteAt(b, off)
}

func (f *File) Read(b []byte) (int, error)              { alive(); return f.f.Read(b) }
func (f *File) ReadAt(b []byte, off int64) (int, error) { alive(); return f.f.ReadAt(b, off) }
func (f *File) Seek(off int64, whence int) (int64, error) {
	alive()
	return f.f.Seek(off, whence)
}
func (f *File) Stat() (os.FileInfo, error) { alive(); return f.f.Stat() }

// Sync is a no-op under the process-death model (completed writes persist),
// but a dead process cannot call it.
func (f *File) Sync() error { alive(); return f.f.Sync() }

func (f *File) Close() error {
	alive()
	untrack(f.f)
	return f.f.Close()
}

func (f *File) Chmod(mode os.FileMode) error {
	gate(Prim{Kind: "chmod", Path: f.f.Name()})
	return f.f.Chmod(mode)
}

func (f *File) Truncate(size int64) error {
	var old int64
	if fi, err := f.f.Stat(); err == nil {
		old = fi.Size()
	}
	gate(Prim{Kind: "truncate", Path: f.f.Name(), Truncated: old})
	return f.f.Truncate(size)
}

// ---- read-only functions -----------------------------------------------

func ReadFile(name string) ([]byte, error)       { alive(); return os.ReadFile(name) }
func Stat(name string) (os.FileInfo, error)      { alive(); return os.Stat(name) }
func Lstat(name string) (os.FileInfo, error)     { alive(); return os.Lstat(name) }
func ReadDir(name string) ([]os.DirEntry, error) { alive(); return os.ReadDir(name) }

func Open(name string) (*File, error) {
	alive()
	return wrap(os.Open(name))
}

// ---- mutating functions --------------------------------------------------

// OpenFile is os.OpenFile. Creating or truncating is a counted primitive.
func OpenFile(name string, flag int, perm os.FileMode) (*File, error) {
	if flag&(os.O_CREATE|os.O_TRUNC) == 0 {
		alive()
		return wrap(os.OpenFile(name, flag, perm))
	}
	fi, err := os.Stat(name)
	switch {
	case err == nil && flag&os.O_TRUNC != 0:
		gate(Prim{Kind: "open-trunc", Path: name, Truncated: fi.Size()})
	case err == nil:
		alive() // exists, no truncation: nothing is mutated by the open itself
	default:
		gate(Prim{Kind: "open-create", Path: name})
	}
	return wrap(os.OpenFile(name, flag, perm))
}

func Create(name string) (*File, error) {
	return OpenFile(name, os.O_RDWR|os.O_CREATE|os.O_TRUNC, 0o666)
}

func CreateTemp(dir, pattern string) (*File, error) {
	gate(Prim{Kind: "open-create", Path: filepath.Join(dir, pattern)})
	return wrap(os.CreateTemp(dir, pattern))
}

// WriteFile is os.WriteFile decomposed into open(O_WRONLY|O_CREATE|O_TRUNC), write, close.
func WriteFile(name string, data []byte, perm os.FileMode) error {
	f, err := OpenFile(name, os.O_WRONLY|os.O_CREATE|os.O_TRUNC, perm)
	if err != nil {
		return err
	}
	_, err = f.Write(data)
	if err1 := f.Close(); err1 != nil && err == nil {
		err = err1
	}
	return err
}

func Rename(oldpath, newpath string) error {
	gate(Prim{Kind: "rename", Path: oldpath, Path2: newpath})
	return os.Rename(oldpath, newpath)
}

func Remove(name string) error {
	gate(Prim{Kind: "remove", Path: name})
	return os.Remove(name)
}

func RemoveAll(path string) error {
	gate(Prim{Kind: "removeall", Path: path})
	return os.RemoveAll(path)
}

func Chmod(name string, mode os.FileMode) error {
	gate(Prim{Kind: "chmod", Path: name})
	return os.Chmod(name, mode)
}

func Truncate(name string, size int64) error {
	var old int64
	if fi, err := os.Stat(name); err == nil {
		old = fi.Size()
	}
	gate(Prim{Kind: "truncate", Path: name, Truncated: old})
	return os.Truncate(name, size)
}

func Mkdir(name string, perm os.FileMode) error {
	gate(Prim{Kind: "mkdir", Path: name})
	return os.Mkdir(name, perm)
}

// MkdirAll is os.MkdirAll issued as one mkdir primitive per missing component.
func MkdirAll(path string, perm os.FileMode) error {
	alive()
	path = filepath.Clean(path)
	var missing []string
	for p := path; ; p = filepath.Dir(p) {
		fi, err := os.Stat(p)
		if err == nil {
			if !fi.IsDir() {
				return &os.PathError{Op: "mkdir", Path: p, Err: errors.New("not a directory")}
			}
			break
		}
		if !errors.Is(err, fs.ErrNotExist) {
			return err
		}
		missing = append(missing, p)
		if filepath.Dir(p) == p {
			break
		}
	}
	for i := len(missing) - 1; i >= 0; i-- {
		gate(Prim{Kind: "mkdir", Path: missing[i]})
		if err := os.Mkdir(missing[i], perm); err != nil && !errors.Is(err, fs.ErrExist) {
			return err
		}
	}
	return nil
}
