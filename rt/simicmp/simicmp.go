// Package simicmp is the ICMP socket seam of instrumented code: the
// instrumenter redirects golang.org/x/net/icmp.ListenPacket and the type
// icmp.PacketConn of internal/icmp here (see /verif/seams/wmesh.json), and
// net.Dial of that package to Dial (the agent only uses it to learn its local
// address). A socket hands every echo request to the run's Responder (harness
// code: the simulated "internet") and queues the replies the responder returns,
// immediately or after a simulated delay. Messages are real ICMP wire messages
// (marshalled and parsed with golang.org/x/net/icmp), so the repository's own
// parsing code runs unchanged.
package simicmp

import (
	"errors"
	"net"
	"time"

	"golang.org/x/net/icmp"
	"golang.org/x/net/ipv4"
	"golang.org/x/net/ipv6"

	"github.com/postalsys/muti-metroo/internal/verifrt/simnet"
	"github.com/postalsys/muti-metroo/internal/verifrt/simrt"
)

// Request is one echo request written to a simulated socket.
type Request struct {
	Seq  uint64 // simrt.Seq() stamp
	Node string // agent that owns the socket
	Sock uint64 // socket id (one per ICMP session at an exit)
	Dst  net.IP
	V6   bool
	ID   int
	SeqN int
	Data []byte
}

// Reply is one echo reply the responder wants delivered to the requesting socket.
type Reply struct {
	Delay time.Duration
	// Hold keeps the reply back until ReleaseHeld is called for the node whose
	// socket asked (a reply that arrives at a moment the harness chooses, e.g.
	// together with the frame that closes the session).
	Hold bool
	ID   int
	SeqN int
	Data []byte
	From net.IP // nil = the request's destination
}

// World is the per-run ICMP layer; it lives in simnet.W().Ext so that it is
// reset together with the network.
type World struct {
	// Responder decides the replies to a request (nil = nobody answers).
	Responder func(rq *Request) []Reply
	// ListenErr, if set, may refuse socket creation for a node.
	ListenErr func(node, network string) error
	Requests  []Request
	Open      int // sockets currently open
	held      []heldReply
	Created   int
	nextSock  uint64
}

// W returns the current run's ICMP layer.
func W() *World {
	nw := simnet.W()
	if w, ok := nw.Ext["simicmp"].(*World); ok {
		return w
	}
	w := &World{}
	nw.Ext["simicmp"] = w
	return w
}

type pkt struct {
	from net.Addr
	data []byte
	// lag: the reader that takes this packet off the socket stays off the CPU
	// for this long before it returns to its caller (a descheduling right after
	// the system call returned; legal at any time on a real machine)
	lag time.Duration
}

// PacketConn stands in for *icmp.PacketConn.
type PacketConn struct {
	id     uint64
	w      *World
	node   string
	v6     bool
	queue  []pkt
	q      simrt.WaitQ
	closed bool
	rdl    time.Time
}

func (c *PacketConn) SimStableID() uint64 { return c.id }

func curNode() string {
	if g := simrt.CurG(); g != nil {
		return g.Node()
	}
	return ""
}

// ListenPacket replaces icmp.ListenPacket.
func ListenPacket(network, address string) (*PacketConn, error) {
	simrt.Yield()
	w := W()
	node := curNode()
	if w.ListenErr != nil {
		if err := w.ListenErr(node, network); err != nil {
			simrt.Eventf("icmp listen node=%s %s err=%v", node, network, err)
			return nil, err
		}
	}
	w.nextSock++
	w.Open++
	w.Created++
	c := &PacketConn{id: w.nextSock, w: w, node: node, v6: network == "udp6" || network == "ip6:ipv6-icmp"}
	simrt.Eventf("icmp listen node=%s %s sock=%d", node, network, c.id)
	return c, nil
}

type timeoutErr struct{}

func (timeoutErr) Error() string   { return "i/o timeout" }
func (timeoutErr) Timeout() bool   { return true }
func (timeoutErr) Temporary() bool { return true }

func (c *PacketConn) WriteTo(b []byte, dst net.Addr) (int, error) {
	simrt.Yield()
	if c.closed {
		return 0, &net.OpError{Op: "write", Net: "icmp", Err: net.ErrClosed}
	}
	var ip net.IP
	switch a := dst.(type) {
	case *net.UDPAddr:
		ip = a.IP
	case *net.IPAddr:
		ip = a.IP
	default:
		return 0, &net.OpError{Op: "write", Net: "icmp", Err: errors.New("bad address")}
	}
	proto := 1
	if c.v6 {
		proto = 58
	}
	m, err := icmp.ParseMessage(proto, b)
	if err != nil {
		return 0, &net.OpError{Op: "write", Net: "icmp", Err: err}
	}
	echo, ok := m.Body.(*icmp.Echo)
	if !ok || (m.Type != ipv4.ICMPTypeEcho && m.Type != ipv6.ICMPTypeEchoRequest) {
		// not an echo request: the simulated internet ignores it
		return len(b), nil
	}
	rq := Request{Seq: simrt.Seq(), Node: c.node, Sock: c.id, Dst: append(net.IP(nil), ip...), V6: c.v6, ID: echo.ID, SeqN: echo.Seq, Data: append([]byte(nil), echo.Data...)}
	c.w.Requests = append(c.w.Requests, rq)
	simrt.Eventf("icmp echo request node=%s sock=%d dst=%s id=%d seq=%d len=%d h=%x", c.node, c.id, ip, echo.ID, echo.Seq, len(echo.Data), simrt.FNV(echo.Data))
	if c.w.Responder == nil {
		return len(b), nil
	}
	for _, rp := range c.w.Responder(&rq) {
		rp := rp
		if rp.From == nil {
			rp.From = rq.Dst
		}
		if rp.Hold {
			c.w.held = append(c.w.held, heldReply{c: c, rp: rp})
		} else if rp.Delay <= 0 {
			c.deliver(rp)
		} else {
			simrt.AfterFunc(rp.Delay, func() { c.deliver(rp) })
		}
	}
	return len(b), nil
}

type heldReply struct {
	c  *PacketConn
	rp Reply
}

// ReleaseHeld delivers the replies held back for sockets of node (all of them
// at this instant) and reports how many there were. The reader that picks a
// released reply up is descheduled for a drawn time right after the read, so
// that whatever made the harness release it (a close frame on its way to the
// node) can overtake the reader between the read and its next step.
func (w *World) ReleaseHeld(node string) int {
	n := 0
	keep := w.held[:0]
	for _, h := range w.held {
		if h.c.node == node {
			lags := [...]time.Duration{0, 2 * time.Millisecond, 20 * time.Millisecond, 200 * time.Millisecond, 2 * time.Second}
			h.c.deliverLag(h.rp, lags[simrt.Choose(len(lags), "icmpreadlag")])
			n++
		} else {
			keep = append(keep, h)
		}
	}
	w.held = keep
	return n
}

func (c *PacketConn) deliver(rp Reply) { c.deliverLag(rp, 0) }

func (c *PacketConn) deliverLag(rp Reply, lag time.Duration) {
	if c.closed {
		return
	}
	var typ icmp.Type = ipv4.ICMPTypeEchoReply
	if c.v6 {
		typ = ipv6.ICMPTypeEchoReply
	}
	m := icmp.Message{Type: typ, Code: 0, Body: &icmp.Echo{ID: rp.ID, Seq: rp.SeqN, Data: rp.Data}}
	b, err := m.Marshal(nil)
	if err != nil {
		panic("simicmp: marshal reply: " + err.Error())
	}
	c.queue = append(c.queue, pkt{from: &net.UDPAddr{IP: rp.From}, data: b, lag: lag})
	c.q.WakeAll()
}

func (c *PacketConn) ReadFrom(b []byte) (int, net.Addr, error) {
	simrt.Yield()
	for {
		if c.closed {
			return 0, nil, &net.OpError{Op: "read", Net: "icmp", Err: net.ErrClosed}
		}
		if len(c.queue) > 0 {
			p := c.queue[0]
			c.queue = c.queue[1:]
			n := copy(b, p.data)
			if p.lag > 0 {
				simrt.Eventf("icmp reader descheduled after read node=%s sock=%d lag=%s", c.node, c.id, p.lag)
				simrt.Sleep(p.lag)
			}
			return n, p.from, nil
		}
		wait := time.Duration(-1)
		if !c.rdl.IsZero() {
			wait = time.Until(c.rdl)
			if wait <= 0 {
				return 0, nil, &net.OpError{Op: "read", Net: "icmp", Err: timeoutErr{}}
			}
		}
		c.q.ParkTimeout(wait)
	}
}

func (c *PacketConn) Close() error {
	simrt.Yield()
	if c.closed {
		return net.ErrClosed
	}
	c.closed = true
	c.w.Open--
	simrt.Eventf("icmp close node=%s sock=%d", c.node, c.id)
	c.q.WakeAll()
	return nil
}

func (c *PacketConn) LocalAddr() net.Addr { return &net.UDPAddr{IP: net.IPv4zero} }
func (c *PacketConn) SetDeadline(t time.Time) error {
	return c.SetReadDeadline(t)
}
func (c *PacketConn) SetReadDeadline(t time.Time) error {
	c.rdl = t
	c.q.WakeAll()
	return nil
}
func (c *PacketConn) SetWriteDeadline(time.Time) error { return nil }

// localConn is what Dial returns: the agent only asks it for LocalAddr.
type localConn struct{ ip net.IP }

func (l *localConn) Read([]byte) (int, error)         { return 0, net.ErrClosed }
func (l *localConn) Write(b []byte) (int, error)      { return len(b), nil }
func (l *localConn) Close() error                     { return nil }
func (l *localConn) LocalAddr() net.Addr              { return &net.UDPAddr{IP: l.ip, Port: 50000} }
func (l *localConn) RemoteAddr() net.Addr             { return &net.UDPAddr{} }
func (l *localConn) SetDeadline(time.Time) error      { return nil }
func (l *localConn) SetReadDeadline(time.Time) error  { return nil }
func (l *localConn) SetWriteDeadline(time.Time) error { return nil }

// Dial replaces net.Dial inside internal/icmp (used to learn the local outbound
// address; no traffic is sent).
func Dial(network, address string) (net.Conn, error) {
	ip := net.IPv4(127, 0, 0, 1)
	if g := simrt.CurG(); g != nil {
		if nip := simnet.W().NodeIP(g.Node()); nip != nil {
			ip = nip
		}
	}
	return &localConn{ip: ip}, nil
}
