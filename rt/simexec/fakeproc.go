package simexec

// Fake process layer.
//
// Worlds that need a child process to actually *run* (its stdin consumed, its
// stdout/stderr produced, an exit code delivered) redirect, in addition to
// exec.CommandContext / Command / LookPath, the types exec.Cmd and
// exec.ExitError of the package under test to this file's Cmd and ExitError
// (see /verif/seams/wmesh.json, package internal/shell). A Cmd never forks: its
// "process" is a harness-registered program, a Go function that runs as one
// simulated goroutine (simrt.Go) with in-memory simulated pipes
// (rt/simpipe, kernel-pipe semantics: bounded buffer, blocking Read / Write,
// EOF after the writer closed, EPIPE after the reader closed). Nothing in here
// blocks a real goroutine in a real syscall, so the fake clock keeps running.
//
// Behaviour mirrored from os/exec as far as internal/shell depends on it:
//
//   - FakeCommandContext resolves the name like LookPath would: a bare name must
//     be a registered program, otherwise Cmd.Err is an *exec.Error wrapping
//     exec.ErrNotFound and Start fails with it.
//   - StdinPipe / StdoutPipe / StderrPipe must be called before Start, at most
//     once each; Start fails if the context is already done.
//   - Wait blocks until the process has exited, then closes the parent's ends of
//     the three pipes (unread buffered output is lost, as with os/exec), and
//     returns nil for exit status 0 and *ExitError otherwise. A process ended by
//     Kill / a signal / the context has ExitCode() == -1.
//   - Cancelling the context given to FakeCommandContext kills the process.
//   - Process.Signal(sig): SIGKILL, SIGTERM, SIGINT, SIGHUP and SIGQUIT end the
//     process (status "signaled", ExitCode -1) unless the program installed
//     Proc.OnSignal; other signals are recorded and ignored.
//
// The registry of programs and the process table live in simnet.W().Ext, so
// they are reset together with the simulated network at the start of every run.

import (
	"context"
	"errors"
	"fmt"
	"io"
	"os"
	"os/exec"
	"strings"
	"syscall"
	"time"

	"github.com/creack/pty"

	"github.com/postalsys/muti-metroo/internal/verifrt/simnet"
	"github.com/postalsys/muti-metroo/internal/verifrt/simpipe"
	"github.com/postalsys/muti-metroo/internal/verifrt/simrt"
)

// PipeCapacity is the buffer size of every fake stdin/stdout/stderr pipe (the
// Linux default pipe capacity).
const PipeCapacity = 65536

// Program is the behaviour of a fake process. It runs as one simulated
// goroutine; it ends by returning (exit status 0) or by calling p.Exit(code).
// Every blocking operation it performs must go through p.Stdin / p.Stdout /
// p.Stderr / p.Sleep or simrt primitives.
type Program func(p *Proc)

// Procs is the per-run process layer.
type Procs struct {
	programs map[string]Program
	Started  int     // processes ever started
	Running  int     // processes started and not yet exited
	Zombies  int     // program goroutines still unwinding after a kill
	Table    []*Proc // every process of the run, in start order
}

// P returns the current run's process layer.
func P() *Procs {
	nw := simnet.W()
	if w, ok := nw.Ext["simexec"].(*Procs); ok {
		return w
	}
	w := &Procs{programs: map[string]Program{}}
	nw.Ext["simexec"] = w
	return w
}

// RegisterProgram makes name resolvable by FakeCommand / FakeCommandContext /
// FakeLookPath for the rest of the run.
func RegisterProgram(name string, prog Program) { P().programs[name] = prog }

// Proc is one fake process as its program sees it.
type Proc struct {
	Pid    int
	Name   string   // program name as resolved
	Args   []string // argv, Args[0] is the name as given by the caller
	Env    []string
	Dir    string
	Node   string // simulated node of the goroutine that started the process
	Stdin  io.Reader
	Stdout io.Writer
	Stderr io.Writer
	// OnSignal, if set by the program, is called (in the signalling goroutine)
	// for every signal except SIGKILL; returning true means "handled, keep running".
	OnSignal func(sig syscall.Signal) bool
	Signals  []syscall.Signal // every signal delivered, in order

	// pipes as the harness may want to inspect them (nil if the parent did not ask for one)
	StdinPipe, StdoutPipe, StderrPipe *simpipe.Buffered

	cmd      *Cmd
	exited   bool
	killed   bool
	code     int
	exitCh   chan struct{} // closed at exit (for native selects of the context watcher)
	q        simrt.WaitQ
	procs    *Procs
	finished bool // the program goroutine has returned
}

type exitPanic struct{ code int }

// Exit ends the program with the given status (does not return).
func (p *Proc) Exit(code int) { panic(exitPanic{code & 0xff}) }

// Killed reports whether the process was ended from outside; a program that
// loops without touching its pipes should poll it.
func (p *Proc) Killed() bool { return p.killed }

// Sleep pauses the program for d of simulated time; it returns false at once
// when the process is (or gets) killed.
func (p *Proc) Sleep(d time.Duration) bool {
	if p.killed {
		return false
	}
	p.q.ParkTimeout(d)
	return !p.killed
}

// Exited reports whether the process has exited, and its status (-1: signaled).
func (p *Proc) Exited() (bool, int) { return p.exited, p.code }

// exit records the end of the process and releases the child's pipe ends.
func (p *Proc) exit(code int, killed bool) {
	if p.exited {
		return
	}
	p.exited = true
	p.killed = killed
	p.code = code
	p.procs.Running--
	if killed && !p.finished {
		p.procs.Zombies++
	}
	// the child's file descriptors go away with it
	if p.StdinPipe != nil {
		p.StdinPipe.ReadEnd().Close()
	}
	if p.StdoutPipe != nil {
		p.StdoutPipe.WriteEnd().Close()
	}
	if p.StderrPipe != nil {
		p.StderrPipe.WriteEnd().Close()
	}
	close(p.exitCh)
	p.q.WakeAll()
	simrt.Eventf("simexec: pid %d (%s) exited status=%d killed=%v", p.Pid, p.Name, code, killed)
}

// Cmd stands in for exec.Cmd.
type Cmd struct {
	Path         string
	Args         []string
	Env          []string
	Dir          string
	Stdin        io.Reader
	Stdout       io.Writer
	Stderr       io.Writer
	ExtraFiles   []*os.File
	SysProcAttr  *syscall.SysProcAttr
	Process      *Process
	ProcessState *ProcessState
	Err          error
	Cancel       func() error
	WaitDelay    time.Duration

	ctx       context.Context
	name      string
	prog      Program
	proc      *Proc
	stdinP    *simpipe.Buffered
	stdoutP   *simpipe.Buffered
	stderrP   *simpipe.Buffered
	started   bool
	waited    bool
	parentEnd []io.Closer
}

// Process stands in for os.Process.
type Process struct {
	Pid int
	p   *Proc
}

// ProcessState stands in for os.ProcessState.
type ProcessState struct {
	pid      int
	code     int
	signaled bool
}

func (s *ProcessState) ExitCode() int {
	if s == nil || s.signaled {
		return -1
	}
	return s.code
}
func (s *ProcessState) Exited() bool  { return s != nil && !s.signaled }
func (s *ProcessState) Success() bool { return s != nil && !s.signaled && s.code == 0 }
func (s *ProcessState) Pid() int      { return s.pid }
func (s *ProcessState) String() string {
	if s == nil {
		return "<nil>"
	}
	if s.signaled {
		return "signal: killed"
	}
	return fmt.Sprintf("exit status %d", s.code)
}

// ExitError stands in for exec.ExitError.
type ExitError struct {
	*ProcessState
	Stderr []byte
}

func (e *ExitError) Error() string { return e.ProcessState.String() }

// FakeLookPath replaces exec.LookPath.
func FakeLookPath(file string) (string, error) {
	if strings.ContainsAny(file, "/\\") {
		base := file[strings.LastIndexAny(file, "/\\")+1:]
		if _, ok := P().programs[base]; ok && strings.HasPrefix(file, "/simbin/") {
			return file, nil
		}
		return "", &exec.Error{Name: file, Err: exec.ErrNotFound}
	}
	if _, ok := P().programs[file]; ok {
		return "/simbin/" + file, nil
	}
	return "", &exec.Error{Name: file, Err: exec.ErrNotFound}
}

// FakeCommand replaces exec.Command.
func FakeCommand(name string, arg ...string) *Cmd {
	c := &Cmd{name: name, Args: append([]string{name}, arg...)}
	path, err := FakeLookPath(name)
	if err != nil {
		c.Path = name
		c.Err = err
		return c
	}
	c.Path = path
	c.prog = P().programs[path[strings.LastIndex(path, "/")+1:]]
	return c
}

// FakeCommandContext replaces exec.CommandContext.
func FakeCommandContext(ctx context.Context, name string, arg ...string) *Cmd {
	if ctx == nil {
		panic("nil Context")
	}
	c := FakeCommand(name, arg...)
	c.ctx = ctx
	return c
}

// PtyStartWithSize replaces pty.StartWithSize: pseudo-terminals are not simulated.
func PtyStartWithSize(c *Cmd, ws *pty.Winsize) (*os.File, error) {
	return nil, errors.New("simexec: pseudo-terminals are not simulated")
}

// PtyStart replaces pty.Start.
func PtyStart(c *Cmd) (*os.File, error) { return PtyStartWithSize(c, nil) }

func (c *Cmd) String() string { return strings.Join(c.Args, " ") }

type closeOnce struct {
	io.WriteCloser
	done bool
}

func (c *closeOnce) Close() error {
	if c.done {
		return nil
	}
	c.done = true
	return c.WriteCloser.Close()
}

// StdinPipe returns a pipe connected to the process' standard input.
func (c *Cmd) StdinPipe() (io.WriteCloser, error) {
	if c.Stdin != nil || c.stdinP != nil {
		return nil, errors.New("exec: Stdin already set")
	}
	if c.started {
		return nil, errors.New("exec: StdinPipe after process started")
	}
	c.stdinP = simpipe.NewBuffered(PipeCapacity)
	w := &closeOnce{WriteCloser: c.stdinP.WriteEnd()}
	c.parentEnd = append(c.parentEnd, w)
	return w, nil
}

// StdoutPipe returns a pipe connected to the process' standard output.
func (c *Cmd) StdoutPipe() (io.ReadCloser, error) {
	if c.Stdout != nil || c.stdoutP != nil {
		return nil, errors.New("exec: Stdout already set")
	}
	if c.started {
		return nil, errors.New("exec: StdoutPipe after process started")
	}
	c.stdoutP = simpipe.NewBuffered(PipeCapacity)
	r := c.stdoutP.ReadEnd()
	c.parentEnd = append(c.parentEnd, r)
	return r, nil
}

// StderrPipe returns a pipe connected to the process' standard error.
func (c *Cmd) StderrPipe() (io.ReadCloser, error) {
	if c.Stderr != nil || c.stderrP != nil {
		return nil, errors.New("exec: Stderr already set")
	}
	if c.started {
		return nil, errors.New("exec: StderrPipe after process started")
	}
	c.stderrP = simpipe.NewBuffered(PipeCapacity)
	r := c.stderrP.ReadEnd()
	c.parentEnd = append(c.parentEnd, r)
	return r, nil
}

type devNull struct{}

func (devNull) Read([]byte) (int, error)    { return 0, io.EOF }
func (devNull) Write(b []byte) (int, error) { return len(b), nil }

func (c *Cmd) closeParentEnds() {
	for _, e := range c.parentEnd {
		e.Close()
	}
	c.parentEnd = nil
}

// Start starts the program as a simulated goroutine.
func (c *Cmd) Start() error {
	simrt.Yield()
	if c.Path == "" && c.Err == nil {
		c.Err = errors.New("exec: no command")
	}
	if c.Err != nil {
		c.closeParentEnds()
		return c.Err
	}
	if c.started {
		return errors.New("exec: already started")
	}
	if c.prog == nil {
		c.closeParentEnds()
		return &exec.Error{Name: c.name, Err: exec.ErrNotFound}
	}
	if c.ctx != nil {
		select {
		case <-c.ctx.Done():
			c.closeParentEnds()
			return c.ctx.Err()
		default:
		}
	}
	c.started = true
	ps := P()
	ps.Started++
	ps.Running++
	p := &Proc{Pid: 40000 + ps.Started, Name: c.Path[strings.LastIndex(c.Path, "/")+1:], Args: append([]string(nil), c.Args...),
		Env: append([]string(nil), c.Env...), Dir: c.Dir, cmd: c, exitCh: make(chan struct{}), procs: ps,
		StdinPipe: c.stdinP, StdoutPipe: c.stdoutP, StderrPipe: c.stderrP}
	if g := simrt.CurG(); g != nil {
		p.Node = g.Node()
	}
	p.Stdin, p.Stdout, p.Stderr = devNull{}, devNull{}, devNull{}
	if c.stdinP != nil {
		p.Stdin = c.stdinP.ReadEnd()
	} else if c.Stdin != nil {
		p.Stdin = c.Stdin
	}
	if c.stdoutP != nil {
		p.Stdout = c.stdoutP.WriteEnd()
	} else if c.Stdout != nil {
		p.Stdout = c.Stdout
	}
	if c.stderrP != nil {
		p.Stderr = c.stderrP.WriteEnd()
	} else if c.Stderr != nil {
		p.Stderr = c.Stderr
	}
	c.proc = p
	c.Process = &Process{Pid: p.Pid, p: p}
	ps.Table = append(ps.Table, p)
	simrt.Eventf("simexec: start pid %d %s args=%d node=%s", p.Pid, p.Name, len(p.Args)-1, p.Node)
	prog := c.prog
	simrt.Go(fmt.Sprintf("proc-%d-%s", p.Pid, p.Name), func() {
		code := 0
		defer func() {
			r := recover()
			if ep, ok := r.(exitPanic); ok {
				code = ep.code
				r = nil
			}
			p.finished = true
			if p.exited {
				if p.killed {
					ps.Zombies--
				}
			} else if !simrt.Aborted() {
				p.exit(code, false)
			}
			if r != nil {
				panic(r)
			}
		}()
		prog(p)
	})
	if c.ctx != nil && c.ctx.Done() != nil {
		ctx := c.ctx
		simrt.Go(fmt.Sprintf("proc-%d-ctxwatch", p.Pid), func() {
			if simrt.Select(false, simrt.RecvCase(ctx.Done()), simrt.RecvCase(p.exitCh)) == 0 {
				if !p.exited {
					simrt.Probe("simexec_killed_by_context")
					p.exit(-1, true)
				}
			}
		})
	}
	return nil
}

// Wait waits for the process to exit and releases the parent's pipe ends.
func (c *Cmd) Wait() error {
	simrt.Yield()
	if !c.started || c.proc == nil {
		return errors.New("exec: not started")
	}
	if c.waited {
		return errors.New("exec: Wait was already called")
	}
	c.waited = true
	p := c.proc
	for !p.exited {
		p.q.Park()
	}
	c.ProcessState = &ProcessState{pid: p.Pid, code: p.code, signaled: p.killed}
	c.closeParentEnds()
	if !c.ProcessState.Success() {
		return &ExitError{ProcessState: c.ProcessState}
	}
	return nil
}

// Run is Start followed by Wait.
func (c *Cmd) Run() error {
	if err := c.Start(); err != nil {
		return err
	}
	return c.Wait()
}

// Kill ends the process at once.
func (pr *Process) Kill() error { return pr.Signal(syscall.SIGKILL) }

// Signal delivers sig to the process.
func (pr *Process) Signal(sig os.Signal) error {
	simrt.Yield()
	p := pr.p
	if p.exited {
		return os.ErrProcessDone
	}
	s, _ := sig.(syscall.Signal)
	p.Signals = append(p.Signals, s)
	simrt.Eventf("simexec: pid %d signal %d", p.Pid, int(s))
	if s != syscall.SIGKILL && p.OnSignal != nil && p.OnSignal(s) {
		return nil
	}
	switch s {
	case syscall.SIGKILL, syscall.SIGTERM, syscall.SIGINT, syscall.SIGHUP, syscall.SIGQUIT, syscall.SIGPIPE:
		p.exit(-1, true)
	}
	return nil
}

// Release is a no-op.
func (pr *Process) Release() error { return nil }
