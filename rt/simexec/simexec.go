// Package simexec is the process-creation seam of instrumented code: the
// instrumenter redirects os/exec.Command, CommandContext and LookPath of a
// package here (see /verif/seams/wshell.json). Every call is first appended
// to a harness-readable log (kind, name, args, global simrt.Seq stamp, calling
// simulated goroutine), then an optional harness hook runs in the calling
// goroutine (it may yield or sleep: "creating a process takes time"), and only
// then the real os/exec function is called and its result returned.
//
// Safety net: while a simulation is running, a returned *exec.Cmd whose Start
// would fork (its Err is nil and it has a Path) gets its Err field set, so
// Start fails without forking (see disarm). A real child and its real pipes
// must never be waited on inside a synctest bubble: a goroutine blocked in a
// real syscall is not durably blocked and stalls the fake clock. Worlds use
// command names that do not exist; a name that does exist is counted by
// Suppressed so the world can report the broken assumption. Outside a
// simulation the package is a transparent pass-through.
package simexec

import (
	"context"
	"errors"
	"os"
	"os/exec"
	"sync"

	"github.com/postalsys/muti-metroo/internal/verifrt/simrt"
)

// Record is one intercepted call.
type Record struct {
	Seq  uint64   // simrt.Seq() at the time of the call (global order stamp)
	Kind string   // "Command", "CommandContext" or "LookPath"
	Name string   // program name / file as given by the caller
	Args []string // arguments as given by the caller (without argv[0]); copied
	G    string   // name of the calling simulated goroutine ("" if unregistered)
	Idx  int      // position in the log
}

// ErrSuppressed is what Start returns for a command the safety net disarmed.
var ErrSuppressed = errors.New("simexec: real process start suppressed inside simulation")

var (
	mu         sync.Mutex // real mutex, held for a few instructions only
	log        []Record
	hook       func(*Record)
	suppressed int
)

// Reset clears the log and the hook; a world calls it at the start of every run.
func Reset() {
	mu.Lock()
	log = nil
	hook = nil
	suppressed = 0
	mu.Unlock()
}

// SetHook installs f; it is called after a call has been recorded and before
// the real os/exec function runs, in the calling goroutine, without any
// simexec lock held.
func SetHook(f func(*Record)) {
	mu.Lock()
	hook = f
	mu.Unlock()
}

// Log returns a copy of the records so far.
func Log() []Record {
	mu.Lock()
	defer mu.Unlock()
	return append([]Record(nil), log...)
}

// Len returns the number of records so far.
func Len() int {
	mu.Lock()
	defer mu.Unlock()
	return len(log)
}

// Suppressed returns how many commands the safety net disarmed.
func Suppressed() int {
	mu.Lock()
	defer mu.Unlock()
	return suppressed
}

func record(kind, name string, args []string) {
	if !simrt.Active() {
		return
	}
	r := Record{Seq: simrt.Seq(), Kind: kind, Name: name, Args: append([]string(nil), args...)}
	if g := simrt.CurG(); g != nil {
		r.G = g.Name()
	}
	mu.Lock()
	r.Idx = len(log)
	log = append(log, r)
	h := hook
	mu.Unlock()
	if h != nil {
		h(&r)
	}
}

// disarm makes sure Start cannot fork while a simulation runs. A bare name that
// LookPath did not find already carries cmd.Err and is left alone. A name with
// a path separator is not looked up by os/exec (Start would fork and fail in
// execve): if the file does not exist Start is made to fail with the same
// "not found" error without forking; if it does exist the command would really
// run, which is counted (Suppressed) so that the world can treat it as a
// broken assumption.
func disarm(cmd *exec.Cmd) *exec.Cmd {
	if !simrt.Active() || cmd == nil || cmd.Err != nil || cmd.Path == "" {
		return cmd
	}
	if _, err := os.Stat(cmd.Path); err != nil {
		cmd.Err = &exec.Error{Name: cmd.Path, Err: exec.ErrNotFound}
		return cmd
	}
	cmd.Err = ErrSuppressed
	mu.Lock()
	suppressed++
	mu.Unlock()
	simrt.Probe("simexec_real_start_suppressed")
	return cmd
}

// CommandContext records the call and returns the real exec.CommandContext result.
func CommandContext(ctx context.Context, name string, arg ...string) *exec.Cmd {
	record("CommandContext", name, arg)
	return disarm(exec.CommandContext(ctx, name, arg...))
}

// Command records the call and returns the real exec.Command result.
func Command(name string, arg ...string) *exec.Cmd {
	record("Command", name, arg)
	return disarm(exec.Command(name, arg...))
}

// LookPath records the call and returns the real exec.LookPath result.
func LookPath(file string) (string, error) {
	record("LookPath", file, nil)
	return exec.LookPath(file)
}
