// Package simtransport implements the repo's transport.Transport interfaces
// over simnet links. It replaces the QUIC / WebSocket / HTTP2 transports in
// simulation: reliable ordered byte streams with seeded fragmentation, stalls
// and resets; QUIC/TLS code does not run.
package simtransport

import (
	"context"
	"errors"
	"fmt"
	"net"
	"time"

	"github.com/postalsys/muti-metroo/internal/transport"
	"github.com/postalsys/muti-metroo/internal/verifrt/simnet"
	"github.com/postalsys/muti-metroo/internal/verifrt/simrt"
)

type registry struct {
	listeners  map[string]*listener
	closeDelay func(l *simnet.Link, side int) time.Duration
}

// SetCloseDelay makes PeerConn.Close linger: the real transports end a
// connection with a close handshake (WebSocket: close frame out, wait up to
// seconds for the peer's; QUIC: CONNECTION_CLOSE and draining). Both ends see
// the end of the connection at once; the caller of Close returns f(link, side)
// later. nil (the default): Close returns at once.
func SetCloseDelay(f func(l *simnet.Link, side int) time.Duration) { reg().closeDelay = f }

func reg() *registry {
	w := simnet.W()
	r, _ := w.Ext["simtransport"].(*registry)
	if r == nil {
		r = &registry{listeners: map[string]*listener{}}
		w.Ext["simtransport"] = r
	}
	return r
}

// Transport is the simulated transport; one instance per (agent, type).
type Transport struct {
	typ    transport.TransportType
	closed bool
	lis    []*listener
}

func NewQUIC() *Transport      { return &Transport{typ: transport.TransportQUIC} }
func NewWebSocket() *Transport { return &Transport{typ: transport.TransportWebSocket} }
func NewH2() *Transport        { return &Transport{typ: transport.TransportHTTP2} }

// The constructors the agent calls return the concrete repo types; the seam
// redirects those selectors here, and the results are stored in a
// map[TransportType]transport.Transport, so interface values suffice.
func NewQUICTransport() transport.Transport      { return NewQUIC() }
func NewWebSocketTransport() transport.Transport { return NewWebSocket() }
func NewH2Transport() transport.Transport        { return NewH2() }

func (t *Transport) Type() transport.TransportType { return t.typ }

func (t *Transport) Close() error {
	t.closed = true
	for _, l := range t.lis {
		l.Close()
	}
	return nil
}

func key(typ transport.TransportType, addr string) string { return string(typ) + "|" + addr }

func (t *Transport) Listen(addr string, opts transport.ListenOptions) (transport.Listener, error) {
	simrt.Yield()
	r := reg()
	k := key(t.typ, addr)
	if _, dup := r.listeners[k]; dup {
		return nil, fmt.Errorf("listen %s: bind: address already in use", addr)
	}
	node := ""
	if g := simrt.CurG(); g != nil {
		node = g.Node()
	}
	l := &listener{t: t, addr: addr, key: k, node: node}
	r.listeners[k] = l
	t.lis = append(t.lis, l)
	simrt.Eventf("tr listen node=%s %s", node, k)
	return l, nil
}

func (t *Transport) Dial(ctx context.Context, addr string, opts transport.DialOptions) (transport.PeerConn, error) {
	simrt.Yield()
	if t.closed {
		return nil, errors.New("transport closed")
	}
	node := ""
	if g := simrt.CurG(); g != nil {
		node = g.Node()
	}
	r := reg()
	l := r.listeners[key(t.typ, addr)]
	if l == nil || l.closed {
		simrt.Eventf("tr dial node=%s %s refused", node, addr)
		simrt.Probe("tr_dial_refused")
		return nil, fmt.Errorf("dial %s: connection refused", addr)
	}
	if hook := Hooks().DialFault; hook != nil {
		if err := hook(node, l.node, addr); err != nil {
			simrt.Eventf("tr dial node=%s %s fault=%v", node, addr, err)
			return nil, err
		}
	}
	w := simnet.W()
	link := w.NewLink("peer")
	link.DialNode, link.AccNode = node, l.node
	link.DialAddr, link.AccAddr = "dialer:"+node, addr
	if w.OnLink != nil {
		w.OnLink(link)
	}
	d := &peerConn{t: t, link: link, side: 0, laddr: simAddr("dial-" + node), raddr: simAddr(addr)}
	a := &peerConn{t: t, link: link, side: 1, laddr: simAddr(addr), raddr: simAddr("dial-" + node)}
	d.other, a.other = a, d
	simrt.Eventf("tr dial node=%s -> %s ok link=%d", node, l.node, link.ID)
	l.queue = append(l.queue, a)
	l.q.WakeAll()
	return d, nil
}

// Hooks lets the harness inject dial faults.
type HookSet struct {
	DialFault func(fromNode, toNode, addr string) error
}

func Hooks() *HookSet {
	w := simnet.W()
	h, _ := w.Ext["simtransport.hooks"].(*HookSet)
	if h == nil {
		h = &HookSet{}
		w.Ext["simtransport.hooks"] = h
	}
	return h
}

type simAddr string

func (a simAddr) Network() string { return "sim" }
func (a simAddr) String() string  { return string(a) }

type listener struct {
	t      *Transport
	addr   string
	key    string
	node   string
	queue  []*peerConn
	q      simrt.WaitQ
	closed bool
}

func (l *listener) Accept(ctx context.Context) (transport.PeerConn, error) {
	simrt.Yield()
	for {
		if l.closed {
			// The agent's accept loop retries immediately on error until the
			// agent stops, also after its listener was closed for sleep mode (a
			// busy loop on a real listener). A goroutine that is always runnable
			// would keep the fake clock from advancing, so a failed Accept on a
			// closed listener costs 50 ms of simulated time.
			simrt.Sleep(50 * time.Millisecond)
			return nil, errors.New("listener closed")
		}
		if len(l.queue) > 0 {
			c := l.queue[0]
			l.queue = l.queue[1:]
			return c, nil
		}
		if err := ctx.Err(); err != nil {
			return nil, err
		}
		wait := time.Duration(-1)
		if dl, ok := ctx.Deadline(); ok {
			wait = time.Until(dl)
			if wait <= 0 {
				return nil, context.DeadlineExceeded
			}
		}
		l.q.ParkTimeout(wait)
	}
}

func (l *listener) Addr() net.Addr { return simAddr(l.addr) }

func (l *listener) Close() error {
	if l.closed {
		return nil
	}
	l.closed = true
	delete(reg().listeners, l.key)
	for _, c := range l.queue {
		c.link.Reset()
	}
	l.queue = nil
	l.q.WakeAll()
	return nil
}

// peerConn carries exactly one byte stream per OpenStream/AcceptStream pair.
// The repo opens a single control stream per connection; further streams share
// the link's two halves is not possible, so additional streams are refused.
type peerConn struct {
	t      *Transport
	link   *simnet.Link
	side   int
	laddr  net.Addr
	raddr  net.Addr
	other  *peerConn
	opened bool
	accept bool
	pend   bool // the dialer opened a stream that the acceptor has not accepted yet
	q      simrt.WaitQ
	closed bool
}

func (c *peerConn) Link() *simnet.Link { return c.link }

func (c *peerConn) OpenStream(ctx context.Context) (transport.Stream, error) {
	simrt.Yield()
	if c.closed || c.link.Dead() {
		return nil, errors.New("connection closed")
	}
	if c.opened {
		return nil, errors.New("simtransport: only one stream per connection is simulated")
	}
	c.opened = true
	c.other.pend = true
	c.other.q.WakeAll()
	return &stream{c: c, id: 1}, nil
}

func (c *peerConn) AcceptStream(ctx context.Context) (transport.Stream, error) {
	simrt.Yield()
	for {
		if c.closed || c.link.Dead() {
			return nil, errors.New("connection closed")
		}
		if c.pend && !c.accept {
			c.accept = true
			return &stream{c: c, id: 1}, nil
		}
		if err := ctx.Err(); err != nil {
			return nil, err
		}
		wait := time.Duration(-1)
		if dl, ok := ctx.Deadline(); ok {
			wait = time.Until(dl)
			if wait <= 0 {
				return nil, context.DeadlineExceeded
			}
		}
		c.q.ParkTimeout(wait)
	}
}

func (c *peerConn) Close() error {
	if c.closed {
		return nil
	}
	c.closed = true
	// closing a peer connection tears the link down for both ends
	c.link.H[c.side].CloseWrite()
	c.link.H[1-c.side].CloseRead()
	c.q.WakeAll()
	c.other.q.WakeAll()
	if f := reg().closeDelay; f != nil {
		if d := f(c.link, c.side); d > 0 {
			simrt.Sleep(d)
		}
	}
	return nil
}

func (c *peerConn) LocalAddr() net.Addr                    { return c.laddr }
func (c *peerConn) RemoteAddr() net.Addr                   { return c.raddr }
func (c *peerConn) IsDialer() bool                         { return c.side == 0 }
func (c *peerConn) TransportType() transport.TransportType { return c.t.typ }

type stream struct {
	c      *peerConn
	id     uint64
	closed bool
}

func (s *stream) rd() *simnet.Half { return s.c.link.H[1-s.c.side] }
func (s *stream) wr() *simnet.Half { return s.c.link.H[s.c.side] }

func (s *stream) Read(p []byte) (int, error) {
	simrt.Yield()
	return s.rd().Read(p)
}

func (s *stream) Write(p []byte) (int, error) {
	simrt.Yield()
	return s.wr().Write(p)
}

func (s *stream) StreamID() uint64 { return s.id }

func (s *stream) CloseWrite() error {
	s.wr().CloseWrite()
	return nil
}

func (s *stream) Close() error {
	if s.closed {
		return nil
	}
	s.closed = true
	s.wr().CloseWrite()
	s.rd().CloseRead()
	return nil
}

func (s *stream) SetDeadline(t time.Time) error {
	s.rd().SetReadDeadline(t)
	s.wr().SetWriteDeadline(t)
	return nil
}
func (s *stream) SetReadDeadline(t time.Time) error  { s.rd().SetReadDeadline(t); return nil }
func (s *stream) SetWriteDeadline(t time.Time) error { s.wr().SetWriteDeadline(t); return nil }
