// Package simsync replaces the sync primitives of instrumented code. Lock
// acquisition is a scheduling point; a goroutine that has to wait parks on a
// simulated wait queue, so holding a lock across a blocking call never wedges
// the simulator. Outside a simulation every type behaves as the real one.
package simsync

import (
	"sync"

	"github.com/postalsys/muti-metroo/internal/verifrt/simrt"
)

type Locker = sync.Locker
type Map = sync.Map
type Pool = sync.Pool

type Mutex struct {
	real   sync.Mutex
	locked bool
	q      simrt.WaitQ
}

func (m *Mutex) Lock() {
	if simrt.CurG() == nil {
		m.real.Lock()
		return
	}
	simrt.Yield()
	for m.locked {
		simrt.Probe("mutex_contended")
		m.q.Park()
	}
	m.locked = true
}

func (m *Mutex) TryLock() bool {
	if simrt.CurG() == nil {
		return m.real.TryLock()
	}
	simrt.Yield()
	if m.locked {
		return false
	}
	m.locked = true
	return true
}

func (m *Mutex) Unlock() {
	if simrt.CurG() == nil {
		m.real.Unlock()
		return
	}
	if !m.locked {
		if simrt.Aborted() {
			return
		}
		panic("simsync: unlock of unlocked mutex")
	}
	m.locked = false
	m.q.WakeAll()
	// releasing a lock is a scheduling point too: what a goroutine does right
	// after a critical section (a value read back outside it, a second section)
	// can be overtaken by the goroutines it has just let in
	simrt.Yield()
}

type RWMutex struct {
	real    sync.RWMutex
	readers int
	writer  bool
	q       simrt.WaitQ
}

func (m *RWMutex) Lock() {
	if simrt.CurG() == nil {
		m.real.Lock()
		return
	}
	simrt.Yield()
	for m.writer || m.readers > 0 {
		simrt.Probe("mutex_contended")
		m.q.Park()
	}
	m.writer = true
}

func (m *RWMutex) TryLock() bool {
	if simrt.CurG() == nil {
		return m.real.TryLock()
	}
	simrt.Yield()
	if m.writer || m.readers > 0 {
		return false
	}
	m.writer = true
	return true
}

func (m *RWMutex) Unlock() {
	if simrt.CurG() == nil {
		m.real.Unlock()
		return
	}
	if !m.writer {
		if simrt.Aborted() {
			return
		}
		panic("simsync: Unlock of unlocked RWMutex")
	}
	m.writer = false
	m.q.WakeAll()
	simrt.Yield()
}

func (m *RWMutex) RLock() {
	if simrt.CurG() == nil {
		m.real.RLock()
		return
	}
	simrt.Yield()
	for m.writer {
		simrt.Probe("mutex_contended")
		m.q.Park()
	}
	m.readers++
}

func (m *RWMutex) TryRLock() bool {
	if simrt.CurG() == nil {
		return m.real.TryRLock()
	}
	simrt.Yield()
	if m.writer {
		return false
	}
	m.readers++
	return true
}

func (m *RWMutex) RUnlock() {
	if simrt.CurG() == nil {
		m.real.RUnlock()
		return
	}
	if m.readers <= 0 {
		if simrt.Aborted() {
			return
		}
		panic("simsync: RUnlock of unlocked RWMutex")
	}
	m.readers--
	if m.readers == 0 {
		m.q.WakeAll()
	}
	simrt.Yield()
}

type rlocker RWMutex

func (r *rlocker) Lock()   { (*RWMutex)(r).RLock() }
func (r *rlocker) Unlock() { (*RWMutex)(r).RUnlock() }

func (m *RWMutex) RLocker() Locker { return (*rlocker)(m) }

type WaitGroup struct {
	real sync.WaitGroup
	n    int
	q    simrt.WaitQ
}

func (w *WaitGroup) Add(d int) {
	if simrt.CurG() == nil {
		w.real.Add(d)
		return
	}
	w.n += d
	if w.n < 0 {
		if simrt.Aborted() {
			w.n = 0
			return
		}
		panic("simsync: negative WaitGroup counter")
	}
	if w.n == 0 {
		w.q.WakeAll()
	}
}

func (w *WaitGroup) Done() { w.Add(-1) }

func (w *WaitGroup) Wait() {
	if simrt.CurG() == nil {
		w.real.Wait()
		return
	}
	simrt.Yield()
	for w.n > 0 {
		w.q.Park()
	}
}

type Once struct {
	real    sync.Once
	done    bool
	running bool
	q       simrt.WaitQ
}

func (o *Once) Do(f func()) {
	if simrt.CurG() == nil {
		o.real.Do(f)
		return
	}
	simrt.Yield()
	if o.done {
		return
	}
	if o.running {
		for !o.done {
			o.q.Park()
		}
		return
	}
	o.running = true
	defer func() {
		o.done = true
		o.running = false
		o.q.WakeAll()
	}()
	f()
}

type Cond struct {
	L Locker
	q simrt.WaitQ
	r *sync.Cond
}

func NewCond(l Locker) *Cond { return &Cond{L: l, r: sync.NewCond(l)} }

func (c *Cond) Wait() {
	if simrt.CurG() == nil {
		c.r.Wait()
		return
	}
	c.L.Unlock()
	c.q.Park()
	c.L.Lock()
}

func (c *Cond) Signal() {
	if simrt.CurG() == nil {
		c.r.Signal()
		return
	}
	c.q.WakeOne()
}

func (c *Cond) Broadcast() {
	if simrt.CurG() == nil {
		c.r.Broadcast()
		return
	}
	c.q.WakeAll()
}

// OnceFunc / OnceValue mirror the real helpers on top of the simulated Once.
func OnceFunc(f func()) func() {
	var o Once
	return func() { o.Do(f) }
}

func OnceValue[T any](f func() T) func() T {
	var o Once
	var v T
	return func() T { o.Do(func() { v = f() }); return v }
}
