// Package simnet is the simulated network: in-memory byte pipes, TCP-like
// connections and listeners, UDP sockets and a DNS table, all owned by the
// simulator. Blocking uses simrt wait queues, so the scheduler decides who runs.
package simnet

import (
	"errors"
	"io"
	"net"
	"os"
	"time"

	"github.com/postalsys/muti-metroo/internal/verifrt/simrt"
)

var ErrReset = &net.OpError{Op: "read", Net: "tcp", Err: errors.New("connection reset by peer")}
var errBrokenPipe = &net.OpError{Op: "write", Net: "tcp", Err: errors.New("broken pipe")}

type timeoutErr struct{}

func (timeoutErr) Error() string   { return "i/o timeout" }
func (timeoutErr) Timeout() bool   { return true }
func (timeoutErr) Temporary() bool { return true }
func (timeoutErr) Is(target error) bool {
	return target == os.ErrDeadlineExceeded
}

// ErrTimeout is returned when a deadline passes.
var ErrTimeout error = &net.OpError{Op: "read", Net: "tcp", Err: timeoutErr{}}

type chunk struct {
	data []byte
	at   time.Time
}

// Half is one direction of a connection.
type Half struct {
	chunks  []chunk
	size    int
	capB    int
	wclosed bool  // writer sent FIN
	rclosed bool  // reader side closed locally
	reset   error // broken: both ends fail
	rq, wq  simrt.WaitQ
	link    *Link
	dir     int // 0 = dialer->acceptor, 1 = acceptor->dialer
	rdl     time.Time
	wdl     time.Time
	frag    bool
}

// Link is a bidirectional connection between two endpoints, the unit of
// tapping and fault injection.
type Link struct {
	ID       int
	Kind     string // "peer" (mesh transport), "tcp"
	DialNode string
	AccNode  string
	DialAddr string
	AccAddr  string
	H        [2]*Half
	Latency  [2]time.Duration
	stalled  [2]bool
	closed   bool
	// Tap, if set, sees (and may replace) every write; dir 0 = dialer->acceptor.
	Tap  func(l *Link, dir int, b []byte) []byte
	Meta map[string]any
}

// NewLink creates a link (used by simtransport).
func (w *World) NewLink(kind string) *Link { return w.newLinkFor(kind) }

func newLink(w *World, kind string) *Link {
	w.nextLink++
	l := &Link{ID: w.nextLink, Kind: kind, Meta: map[string]any{}}
	for d := 0; d < 2; d++ {
		l.H[d] = &Half{capB: w.PipeCap, link: l, dir: d, frag: w.Fragment}
	}
	w.links = append(w.links, l)
	return l
}

func (h *Half) read(p []byte) (int, error) {
	if len(p) == 0 {
		return 0, nil
	}
	for {
		if h.reset != nil {
			return 0, h.reset
		}
		if h.rclosed {
			return 0, net.ErrClosed
		}
		now := time.Now()
		if len(h.chunks) > 0 && !h.link.stalled[h.dir] && !h.chunks[0].at.After(now) {
			c := &h.chunks[0]
			n := len(c.data)
			if n > len(p) {
				n = len(p)
			}
			if h.frag && n > 1 && simrt.Chance(1, 8, "frag") {
				n = 1 + simrt.Choose(n, "fraglen")
				simrt.Probe("net_read_fragmented")
			}
			copy(p, c.data[:n])
			c.data = c.data[n:]
			h.size -= n
			if len(c.data) == 0 {
				h.chunks = h.chunks[1:]
			}
			h.wq.WakeAll()
			return n, nil
		}
		if len(h.chunks) == 0 && h.wclosed {
			return 0, io.EOF
		}
		wait := time.Duration(-1)
		if len(h.chunks) > 0 && !h.link.stalled[h.dir] {
			wait = h.chunks[0].at.Sub(now)
		}
		if !h.rdl.IsZero() {
			dl := h.rdl.Sub(now)
			if dl <= 0 {
				return 0, ErrTimeout
			}
			if wait < 0 || dl < wait {
				wait = dl
			}
		}
		h.rq.ParkTimeout(wait)
	}
}

func (h *Half) write(p []byte) (int, error) {
	if h.reset != nil {
		return 0, h.reset
	}
	if h.wclosed {
		return 0, net.ErrClosed
	}
	if h.rclosed {
		return 0, errBrokenPipe
	}
	if h.link.Tap != nil {
		p = h.link.Tap(h.link, h.dir, p)
		if len(p) == 0 {
			return 0, nil
		}
	}
	total := len(p)
	for len(p) > 0 {
		for h.size >= h.capB {
			if h.reset != nil {
				return total - len(p), h.reset
			}
			if h.wclosed {
				return total - len(p), net.ErrClosed
			}
			if h.rclosed {
				return total - len(p), errBrokenPipe
			}
			wait := time.Duration(-1)
			if !h.wdl.IsZero() {
				wait = time.Until(h.wdl)
				if wait <= 0 {
					return total - len(p), ErrTimeout
				}
			}
			simrt.Probe("net_write_backpressure")
			h.wq.ParkTimeout(wait)
		}
		n := len(p)
		if room := h.capB - h.size; n > room {
			n = room
		}
		h.chunks = append(h.chunks, chunk{data: append([]byte(nil), p[:n]...), at: time.Now().Add(h.link.Latency[h.dir])})
		h.size += n
		p = p[n:]
		h.rq.WakeAll()
	}
	return total, nil
}

func (h *Half) closeWrite() {
	if !h.wclosed {
		h.wclosed = true
		h.rq.WakeAll()
		h.wq.WakeAll()
	}
}

func (h *Half) closeRead() {
	if !h.rclosed {
		h.rclosed = true
		h.chunks = nil
		h.size = 0
		h.rq.WakeAll()
		h.wq.WakeAll()
	}
}

func (h *Half) doReset(err error) {
	if h.reset == nil {
		h.reset = err
		h.chunks = nil
		h.size = 0
		h.rq.WakeAll()
		h.wq.WakeAll()
	}
}

// Reset breaks the link: both ends see errors on current and future operations.
func (l *Link) Reset() {
	l.H[0].doReset(ErrReset)
	l.H[1].doReset(ErrReset)
	l.closed = true
}

// Stall stops delivery in direction dir (0 dialer->acceptor, 1 reverse) until Heal.
func (l *Link) Stall(dir int) { l.stalled[dir] = true }

// Heal resumes delivery in both directions.
func (l *Link) Heal() {
	l.stalled = [2]bool{}
	l.H[0].rq.WakeAll()
	l.H[1].rq.WakeAll()
}

// Dead reports whether the link was reset or fully closed.
func (l *Link) Dead() bool {
	return l.closed || (l.H[0].reset != nil) || (l.H[0].rclosed && l.H[1].rclosed) || (l.H[0].wclosed && l.H[1].wclosed && l.H[0].size == 0 && l.H[1].size == 0)
}

// Stalled reports whether direction dir is stalled.
func (l *Link) Stalled(dir int) bool { return l.stalled[dir] }

// Read/Write/Close* expose a half to other simulated layers.
func (h *Half) Read(p []byte) (int, error)  { return h.read(p) }
func (h *Half) Write(p []byte) (int, error) { return h.write(p) }
func (h *Half) CloseWrite()                 { h.closeWrite() }
func (h *Half) CloseRead()                  { h.closeRead() }
func (h *Half) ResetWith(err error)         { h.doReset(err) }
func (h *Half) SetReadDeadline(t time.Time) { h.rdl = t; h.rq.WakeAll() }
func (h *Half) SetWriteDeadline(t time.Time) {
	h.wdl = t
	h.wq.WakeAll()
}
func (h *Half) Buffered() int { return h.size }
