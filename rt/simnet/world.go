package simnet

import (
	"fmt"
	"net"
	"sort"
	"strconv"
	"strings"
	"time"

	"github.com/postalsys/muti-metroo/internal/verifrt/simrt"
)

// DialRecord is one outbound TCP dial attempt (the C19/C20/C23 observable).
type DialRecord struct {
	Seq     uint64
	Node    string
	Network string
	Address string // as requested
	Err     string
	At      time.Duration
}

// UDPRecord is one datagram sent through a simulated UDP socket.
type UDPRecord struct {
	Seq  uint64
	Node string
	From string
	To   string
	Len  int
	Hash uint64
}

// World is the per-run network. Harness code creates it with Reset at the
// start of each run; instrumented code reaches it through the package-level
// functions that replace net.Dial, net.Listen, ...
type World struct {
	PipeCap  int
	Fragment bool

	nextLink  int
	nextPort  int
	nextConn  uint64
	links     []*Link
	listeners map[string]*Listener // "ip:port"
	Ext       map[string]any       // other simulated layers (simtransport) keep their registries here
	udp       map[string]*UDPConn
	dns       map[string][]net.IP
	dnsSeq    map[string][][]net.IP // answers still to come, per name
	nodeIP    map[string]net.IP
	Dials     []DialRecord
	UDPSent   []UDPRecord
	// DialPolicy decides what happens to a dial with no listener: "" = refused,
	// "timeout" = hangs until the dialer's timeout.
	DialPolicy func(node, address string) string
	// ConnectDelay, if set, makes a successful dial to address take that long.
	ConnectDelay func(node, address string) time.Duration
	// DefaultLatency applies to links created afterwards.
	DefaultLatency func(l *Link) [2]time.Duration
	// OnLink is called for every new link (tap installation).
	OnLink func(l *Link)
}

var cur *World

// Reset installs a fresh network for the run and returns it.
func Reset() *World {
	cur = &World{
		PipeCap:   256 << 10,
		nextPort:  40000,
		listeners: map[string]*Listener{},
		Ext:       map[string]any{},
		udp:       map[string]*UDPConn{},
		dns:       map[string][]net.IP{},
		nodeIP:    map[string]net.IP{},
	}
	return cur
}

// W returns the current run's network (panics if none).
func W() *World {
	if cur == nil {
		panic("simnet: no world (call simnet.Reset at run start)")
	}
	return cur
}

// Links returns all links created so far.
func (w *World) Links() []*Link { return w.links }

// SetNodeIP registers the address used as local IP for dials made by node.
func (w *World) SetNodeIP(node string, ip net.IP) { w.nodeIP[node] = ip }

// NodeIP returns the registered address of node (nil if none).
func (w *World) NodeIP(node string) net.IP { return w.nodeIP[node] }

func (w *World) ipOf(node string) net.IP {
	if ip, ok := w.nodeIP[node]; ok {
		return ip
	}
	return net.IPv4(127, 0, 0, 1)
}

// SetDNS maps a host name to addresses.
func (w *World) SetDNS(name string, ips ...net.IP) { w.dns[strings.ToLower(name)] = ips }

// SetDNSSequence makes a name resolve to answers[0] at the first lookup, to
// answers[1] at the second, and so on; the last answer stays (a name whose
// address changes between two lookups: fail-over, round robin, rebinding).
func (w *World) SetDNSSequence(name string, answers ...[]net.IP) {
	if len(answers) == 0 {
		return
	}
	k := strings.ToLower(name)
	w.dns[k] = answers[0]
	if w.dnsSeq == nil {
		w.dnsSeq = map[string][][]net.IP{}
	}
	w.dnsSeq[k] = answers[1:]
}

func curNode() string {
	if g := simrt.CurG(); g != nil {
		return g.Node()
	}
	return ""
}

func (w *World) newLinkFor(kind string) *Link {
	l := newLink(w, kind)
	if w.DefaultLatency != nil {
		l.Latency = w.DefaultLatency(l)
	}
	return l
}

func normAddr(address string) (string, error) {
	host, port, err := net.SplitHostPort(address)
	if err != nil {
		return "", err
	}
	if host == "" {
		host = "0.0.0.0"
	}
	if _, err := strconv.Atoi(port); err != nil {
		return "", fmt.Errorf("bad port %q", port)
	}
	return net.JoinHostPort(host, port), nil
}

func (w *World) allocPort() int {
	w.nextPort++
	return w.nextPort
}

// ListenerAddrs lists the bound TCP listener addresses (sorted).
func (w *World) ListenerAddrs() []string {
	var out []string
	for a := range w.listeners {
		out = append(out, a)
	}
	sort.Strings(out)
	return out
}

func tcpAddr(s string) *net.TCPAddr {
	host, port, err := net.SplitHostPort(s)
	if err != nil {
		return &net.TCPAddr{}
	}
	p, _ := strconv.Atoi(port)
	return &net.TCPAddr{IP: net.ParseIP(host), Port: p}
}
