package simnet

import (
	"context"
	"errors"
	"fmt"
	"io"
	"net"
	"strings"
	"syscall"
	"time"

	"github.com/postalsys/muti-metroo/internal/verifrt/simrt"
)

// TCPConn is a simulated TCP connection (stands in for *net.TCPConn).
type TCPConn struct {
	id     uint64
	link   *Link
	side   int // 0 = dialer, 1 = acceptor
	laddr  *net.TCPAddr
	raddr  *net.TCPAddr
	closed bool
}

func (c *TCPConn) SimStableID() uint64 { return c.id }
func (c *TCPConn) Link() *Link         { return c.link }

func (c *TCPConn) rd() *Half { return c.link.H[1-c.side] } // we read what the other side writes
func (c *TCPConn) wr() *Half { return c.link.H[c.side] }

func (c *TCPConn) Read(p []byte) (int, error) {
	simrt.Yield()
	if c.closed {
		return 0, net.ErrClosed
	}
	n, err := c.rd().read(p)
	if err != nil && c.closed {
		err = net.ErrClosed
	}
	return n, err
}

func (c *TCPConn) Write(p []byte) (int, error) {
	simrt.Yield()
	if c.closed {
		return 0, net.ErrClosed
	}
	return c.wr().write(p)
}

func (c *TCPConn) Close() error {
	if c.closed {
		return net.ErrClosed
	}
	c.closed = true
	c.wr().closeWrite()
	c.rd().closeRead()
	return nil
}

func (c *TCPConn) CloseWrite() error {
	if c.closed {
		return net.ErrClosed
	}
	c.wr().closeWrite()
	return nil
}

func (c *TCPConn) CloseRead() error {
	if c.closed {
		return net.ErrClosed
	}
	c.rd().closeRead()
	return nil
}

func (c *TCPConn) LocalAddr() net.Addr  { return c.laddr }
func (c *TCPConn) RemoteAddr() net.Addr { return c.raddr }

func (c *TCPConn) SetDeadline(t time.Time) error {
	c.SetReadDeadline(t)
	c.SetWriteDeadline(t)
	return nil
}
func (c *TCPConn) SetReadDeadline(t time.Time) error {
	c.rd().rdl = t
	c.rd().rq.WakeAll()
	return nil
}
func (c *TCPConn) SetWriteDeadline(t time.Time) error {
	c.wr().wdl = t
	c.wr().wq.WakeAll()
	return nil
}
func (c *TCPConn) SetKeepAlive(bool) error                { return nil }
func (c *TCPConn) SetKeepAlivePeriod(time.Duration) error { return nil }
func (c *TCPConn) SetNoDelay(bool) error                  { return nil }
func (c *TCPConn) SetLinger(int) error                    { return nil }
func (c *TCPConn) SetReadBuffer(int) error                { return nil }
func (c *TCPConn) SetWriteBuffer(int) error               { return nil }

// Pair creates a connected pair without a listener (harness use).
func (w *World) Pair(dialNode, accNode string, daddr, aaddr *net.TCPAddr) (*TCPConn, *TCPConn) {
	l := w.newLinkFor("tcp")
	l.DialNode, l.AccNode = dialNode, accNode
	l.DialAddr, l.AccAddr = daddr.String(), aaddr.String()
	if w.OnLink != nil {
		w.OnLink(l)
	}
	w.nextConn += 2
	a := &TCPConn{id: w.nextConn - 1, link: l, side: 0, laddr: daddr, raddr: aaddr}
	b := &TCPConn{id: w.nextConn, link: l, side: 1, laddr: aaddr, raddr: daddr}
	return a, b
}

// Listener is a simulated TCP listener.
type Listener struct {
	w      *World
	addr   *net.TCPAddr
	key    string
	node   string
	queue  []*TCPConn
	q      simrt.WaitQ
	closed bool
	// Handler, if set, serves accepted connections in new simulated goroutines
	// (scripted destination servers); Accept is then never called.
	Handler func(c *TCPConn)
	served  int
}

func (l *Listener) Accept() (net.Conn, error) {
	simrt.Yield()
	for {
		if l.closed {
			return nil, &net.OpError{Op: "accept", Net: "tcp", Addr: l.addr, Err: net.ErrClosed}
		}
		if len(l.queue) > 0 {
			c := l.queue[0]
			l.queue = l.queue[1:]
			return c, nil
		}
		l.q.Park()
	}
}

func (l *Listener) Close() error {
	if l.closed {
		return net.ErrClosed
	}
	l.closed = true
	delete(l.w.listeners, l.key)
	for _, c := range l.queue {
		c.link.Reset()
	}
	l.queue = nil
	l.q.WakeAll()
	return nil
}

func (l *Listener) Addr() net.Addr { return l.addr }

// Listen replaces net.Listen.
func Listen(network, address string) (net.Listener, error) {
	l, err := W().listen(network, address, curNode())
	if err != nil {
		return nil, err
	}
	return l, nil
}

func (w *World) listen(network, address, node string) (*Listener, error) {
	if !strings.HasPrefix(network, "tcp") {
		return nil, fmt.Errorf("simnet: listen %s unsupported", network)
	}
	a, err := normAddr(address)
	if err != nil {
		return nil, &net.OpError{Op: "listen", Net: network, Err: err}
	}
	ta := tcpAddr(a)
	if ta.Port == 0 {
		ta.Port = w.allocPort()
	}
	if ta.IP == nil || ta.IP.IsUnspecified() {
		// bind-all: reachable through the node's address
		ta.IP = w.ipOf(node)
	}
	key := ta.String()
	if _, dup := w.listeners[key]; dup {
		return nil, &net.OpError{Op: "listen", Net: network, Addr: ta, Err: errors.New("bind: address already in use")}
	}
	l := &Listener{w: w, addr: ta, key: key, node: node}
	w.listeners[key] = l
	simrt.Eventf("net listen node=%s addr=%s", node, key)
	return l, nil
}

// ServeTCP registers a scripted destination server (harness use).
func (w *World) ServeTCP(address string, handler func(c *TCPConn)) *Listener {
	l, err := w.listen("tcp", address, "internet")
	if err != nil {
		panic(err)
	}
	l.Handler = handler
	return l
}

// Dialer stands in for net.Dialer.
type Dialer struct {
	Timeout   time.Duration
	Deadline  time.Time
	LocalAddr net.Addr
	KeepAlive time.Duration
	Resolver  *Resolver
	Control   func(network, address string, c syscall.RawConn) error
}

func (d *Dialer) Dial(network, address string) (net.Conn, error) {
	return d.DialContext(context.Background(), network, address)
}

func (d *Dialer) DialContext(ctx context.Context, network, address string) (net.Conn, error) {
	timeout := d.Timeout
	if !d.Deadline.IsZero() {
		if t := time.Until(d.Deadline); timeout == 0 || t < timeout {
			timeout = t
		}
	}
	if dl, ok := ctx.Deadline(); ok {
		if t := time.Until(dl); timeout == 0 || t < timeout {
			timeout = t
		}
	}
	return W().dial(ctx, network, address, timeout)
}

// Dial replaces net.Dial.
func Dial(network, address string) (net.Conn, error) {
	return W().dial(context.Background(), network, address, 0)
}

// DialTimeout replaces net.DialTimeout.
func DialTimeout(network, address string, timeout time.Duration) (net.Conn, error) {
	return W().dial(context.Background(), network, address, timeout)
}

func (w *World) dial(ctx context.Context, network, address string, timeout time.Duration) (net.Conn, error) {
	simrt.Yield()
	node := curNode()
	rec := DialRecord{Seq: simrt.Seq(), Node: node, Network: network, Address: address, At: simrt.Elapsed()}
	fail := func(err error) (net.Conn, error) {
		rec.Err = err.Error()
		w.Dials = append(w.Dials, rec)
		simrt.Eventf("net dial node=%s %s %s err=%s", node, network, address, rec.Err)
		return nil, err
	}
	if strings.HasPrefix(network, "udp") {
		return fail(&net.OpError{Op: "dial", Net: network, Err: errors.New("simnet: udp dial unsupported")})
	}
	host, port, err := net.SplitHostPort(address)
	if err != nil {
		return fail(&net.OpError{Op: "dial", Net: network, Err: err})
	}
	ip := net.ParseIP(host)
	if ip == nil {
		ips, err := w.lookup(host)
		if err != nil {
			return fail(&net.OpError{Op: "dial", Net: network, Err: err})
		}
		ip = ips[0]
	}
	key := net.JoinHostPort(ip.String(), port)
	l := w.listeners[key]
	if l == nil || l.closed {
		policy := ""
		if w.DialPolicy != nil {
			policy = w.DialPolicy(node, key)
		}
		if policy == "timeout" {
			var q simrt.WaitQ
			if timeout <= 0 {
				timeout = 2 * time.Minute
			}
			woken := make(chan struct{})
			_ = woken
			q.ParkTimeout(timeout)
			if ctx.Err() != nil {
				return fail(&net.OpError{Op: "dial", Net: network, Err: ctx.Err()})
			}
			return fail(&net.OpError{Op: "dial", Net: network, Err: timeoutErr{}})
		}
		return fail(&net.OpError{Op: "dial", Net: network, Addr: tcpAddr(key), Err: errors.New("connect: connection refused")})
	}
	if w.ConnectDelay != nil {
		// the destination answers the SYN late: the dial completes after a delay
		if d := w.ConnectDelay(node, key); d > 0 {
			simrt.Sleep(d)
		}
	}
	if ctx.Err() != nil {
		return fail(&net.OpError{Op: "dial", Net: network, Err: ctx.Err()})
	}
	laddr := &net.TCPAddr{IP: w.ipOf(node), Port: w.allocPort()}
	a, b := w.Pair(node, l.node, laddr, l.addr)
	w.Dials = append(w.Dials, rec)
	simrt.Eventf("net dial node=%s %s %s ok link=%d", node, network, address, a.link.ID)
	if l.Handler != nil {
		l.served++
		n := l.served
		simrt.GoNode(fmt.Sprintf("srv-%s-%d", l.key, n), "internet", func() { l.Handler(b) })
	} else {
		l.queue = append(l.queue, b)
		l.q.WakeAll()
	}
	return a, nil
}

// Resolver stands in for net.Resolver.
type Resolver struct {
	PreferGo     bool
	StrictErrors bool
	Dial         func(ctx context.Context, network, address string) (net.Conn, error)
}

// DefaultResolver stands in for net.DefaultResolver.
var DefaultResolver = &Resolver{}

func (w *World) lookup(host string) ([]net.IP, error) {
	simrt.Yield()
	key := strings.ToLower(strings.TrimSuffix(host, "."))
	ips, ok := w.dns[key]
	if next := w.dnsSeq[key]; len(next) > 0 {
		// the next lookup gets the next answer
		w.dns[key], w.dnsSeq[key] = next[0], next[1:]
	}
	simrt.Eventf("net dns node=%s host=%s found=%v", curNode(), host, ok)
	if !ok || len(ips) == 0 {
		return nil, &net.DNSError{Err: "no such host", Name: host, IsNotFound: true}
	}
	return append([]net.IP(nil), ips...), nil
}

func (r *Resolver) LookupIPAddr(ctx context.Context, host string) ([]net.IPAddr, error) {
	if ip := net.ParseIP(host); ip != nil {
		return []net.IPAddr{{IP: ip}}, nil
	}
	ips, err := W().lookup(host)
	if err != nil {
		return nil, err
	}
	out := make([]net.IPAddr, len(ips))
	for i, ip := range ips {
		out[i] = net.IPAddr{IP: ip}
	}
	return out, nil
}

func (r *Resolver) LookupIP(ctx context.Context, network, host string) ([]net.IP, error) {
	if ip := net.ParseIP(host); ip != nil {
		return []net.IP{ip}, nil
	}
	return W().lookup(host)
}

func (r *Resolver) LookupHost(ctx context.Context, host string) ([]string, error) {
	ips, err := r.LookupIP(ctx, "ip", host)
	if err != nil {
		return nil, err
	}
	out := make([]string, len(ips))
	for i, ip := range ips {
		out[i] = ip.String()
	}
	return out, nil
}

// LookupIP replaces net.LookupIP.
func LookupIP(host string) ([]net.IP, error) {
	if ip := net.ParseIP(host); ip != nil {
		return []net.IP{ip}, nil
	}
	return W().lookup(host)
}

// LookupHost replaces net.LookupHost.
func LookupHost(host string) ([]string, error) {
	return DefaultResolver.LookupHost(context.Background(), host)
}

// ReadFrom and WriteTo complete *net.TCPConn's method set (io.Copy picks them up).
func (c *TCPConn) ReadFrom(r io.Reader) (int64, error) {
	buf := make([]byte, 32*1024)
	var total int64
	for {
		n, err := r.Read(buf)
		if n > 0 {
			w, werr := c.Write(buf[:n])
			total += int64(w)
			if werr != nil {
				return total, werr
			}
		}
		if err == io.EOF {
			return total, nil
		}
		if err != nil {
			return total, err
		}
	}
}

func (c *TCPConn) WriteTo(w io.Writer) (int64, error) {
	buf := make([]byte, 32*1024)
	var total int64
	for {
		n, err := c.Read(buf)
		if n > 0 {
			m, werr := w.Write(buf[:n])
			total += int64(m)
			if werr != nil {
				return total, werr
			}
		}
		if err == io.EOF {
			return total, nil
		}
		if err != nil {
			return total, err
		}
	}
}

func (c *TCPConn) SetKeepAliveConfig(net.KeepAliveConfig) error { return nil }
