package simnet

import (
	"errors"
	"net"
	"net/netip"
	"strconv"
	"time"

	"github.com/postalsys/muti-metroo/internal/verifrt/simrt"
)

type dgram struct {
	from *net.UDPAddr
	data []byte
}

// UDPConn is a simulated UDP socket (stands in for *net.UDPConn).
type UDPConn struct {
	id     uint64
	w      *World
	node   string
	addr   *net.UDPAddr
	key    string
	queue  []dgram
	q      simrt.WaitQ
	closed bool
	rdl    time.Time
	// Handler, if set, consumes datagrams instead of the queue (scripted servers).
	Handler func(c *UDPConn, from *net.UDPAddr, data []byte)
}

func (c *UDPConn) SimStableID() uint64 { return c.id }

// ListenUDP replaces net.ListenUDP.
func ListenUDP(network string, laddr *net.UDPAddr) (*UDPConn, error) {
	return W().listenUDP(network, laddr, curNode())
}

func (w *World) listenUDP(network string, laddr *net.UDPAddr, node string) (*UDPConn, error) {
	a := &net.UDPAddr{}
	if laddr != nil {
		a.IP, a.Port = laddr.IP, laddr.Port
	}
	if a.IP == nil || a.IP.IsUnspecified() {
		a.IP = w.ipOf(node)
	}
	if a.Port == 0 {
		a.Port = w.allocPort()
	}
	key := net.JoinHostPort(a.IP.String(), strconv.Itoa(a.Port))
	if _, dup := w.udp[key]; dup {
		return nil, &net.OpError{Op: "listen", Net: network, Addr: a, Err: errors.New("bind: address already in use")}
	}
	w.nextConn++
	c := &UDPConn{id: w.nextConn, w: w, node: node, addr: a, key: key}
	w.udp[key] = c
	simrt.Eventf("net listenudp node=%s addr=%s", node, key)
	return c, nil
}

// ServeUDP registers a scripted UDP endpoint (harness use).
func (w *World) ServeUDP(addr *net.UDPAddr, handler func(c *UDPConn, from *net.UDPAddr, data []byte)) *UDPConn {
	c, err := w.listenUDP("udp", addr, "internet")
	if err != nil {
		panic(err)
	}
	c.Handler = handler
	return c
}

// Inject delivers a datagram to this socket as if sent by from (harness use).
func (c *UDPConn) Inject(from *net.UDPAddr, data []byte) {
	if c.closed {
		return
	}
	if c.Handler != nil {
		c.Handler(c, from, data)
		return
	}
	c.queue = append(c.queue, dgram{from: from, data: append([]byte(nil), data...)})
	c.q.WakeAll()
}

func (c *UDPConn) ReadFromUDP(b []byte) (int, *net.UDPAddr, error) {
	simrt.Yield()
	for {
		if c.closed {
			return 0, nil, &net.OpError{Op: "read", Net: "udp", Err: net.ErrClosed}
		}
		if len(c.queue) > 0 {
			d := c.queue[0]
			c.queue = c.queue[1:]
			n := copy(b, d.data)
			return n, d.from, nil
		}
		wait := time.Duration(-1)
		if !c.rdl.IsZero() {
			wait = time.Until(c.rdl)
			if wait <= 0 {
				return 0, nil, &net.OpError{Op: "read", Net: "udp", Err: timeoutErr{}}
			}
		}
		c.q.ParkTimeout(wait)
	}
}

func (c *UDPConn) ReadFrom(b []byte) (int, net.Addr, error) {
	n, a, err := c.ReadFromUDP(b)
	if a == nil {
		return n, nil, err
	}
	return n, a, err
}

func (c *UDPConn) Read(b []byte) (int, error) {
	n, _, err := c.ReadFromUDP(b)
	return n, err
}

func (c *UDPConn) WriteToUDP(b []byte, addr *net.UDPAddr) (int, error) {
	simrt.Yield()
	if c.closed {
		return 0, &net.OpError{Op: "write", Net: "udp", Err: net.ErrClosed}
	}
	if addr == nil {
		return 0, &net.OpError{Op: "write", Net: "udp", Err: errors.New("missing address")}
	}
	key := net.JoinHostPort(addr.IP.String(), strconv.Itoa(addr.Port))
	c.w.UDPSent = append(c.w.UDPSent, UDPRecord{Seq: simrt.Seq(), Node: c.node, From: c.key, To: key, Len: len(b), Hash: simrt.FNV(b)})
	simrt.Eventf("net udp send node=%s from=%s to=%s len=%d h=%x", c.node, c.key, key, len(b), simrt.FNV(b))
	if dst := c.w.udp[key]; dst != nil && !dst.closed {
		dst.Inject(c.addr, b)
	}
	return len(b), nil
}

func (c *UDPConn) WriteTo(b []byte, addr net.Addr) (int, error) {
	ua, ok := addr.(*net.UDPAddr)
	if !ok {
		return 0, &net.OpError{Op: "write", Net: "udp", Err: errors.New("not a UDP address")}
	}
	return c.WriteToUDP(b, ua)
}

func (c *UDPConn) Write(b []byte) (int, error) {
	return 0, &net.OpError{Op: "write", Net: "udp", Err: errors.New("unconnected socket")}
}

func (c *UDPConn) Close() error {
	if c.closed {
		return net.ErrClosed
	}
	c.closed = true
	delete(c.w.udp, c.key)
	c.q.WakeAll()
	return nil
}

func (c *UDPConn) LocalAddr() net.Addr  { return c.addr }
func (c *UDPConn) RemoteAddr() net.Addr { return nil }
func (c *UDPConn) SetDeadline(t time.Time) error {
	return c.SetReadDeadline(t)
}
func (c *UDPConn) SetReadDeadline(t time.Time) error {
	c.rdl = t
	c.q.WakeAll()
	return nil
}
func (c *UDPConn) SetWriteDeadline(time.Time) error { return nil }
func (c *UDPConn) SetReadBuffer(int) error          { return nil }
func (c *UDPConn) SetWriteBuffer(int) error         { return nil }

// --- the rest of *net.UDPConn's method set, so that a source change that
// switches to another flavour of the same call still builds and still runs
// through the simulated socket ---

func (c *UDPConn) ReadFromUDPAddrPort(b []byte) (int, netip.AddrPort, error) {
	n, a, err := c.ReadFromUDP(b)
	if a == nil {
		return n, netip.AddrPort{}, err
	}
	return n, a.AddrPort(), err
}

func (c *UDPConn) WriteToUDPAddrPort(b []byte, addr netip.AddrPort) (int, error) {
	return c.WriteToUDP(b, net.UDPAddrFromAddrPort(addr))
}

func (c *UDPConn) ReadMsgUDP(b, oob []byte) (n, oobn, flags int, addr *net.UDPAddr, err error) {
	n, addr, err = c.ReadFromUDP(b)
	return n, 0, 0, addr, err
}

func (c *UDPConn) ReadMsgUDPAddrPort(b, oob []byte) (n, oobn, flags int, addr netip.AddrPort, err error) {
	n, addr, err = c.ReadFromUDPAddrPort(b)
	return n, 0, 0, addr, err
}

func (c *UDPConn) WriteMsgUDP(b, oob []byte, addr *net.UDPAddr) (n, oobn int, err error) {
	n, err = c.WriteToUDP(b, addr)
	return n, 0, err
}

func (c *UDPConn) WriteMsgUDPAddrPort(b, oob []byte, addr netip.AddrPort) (n, oobn int, err error) {
	n, err = c.WriteToUDPAddrPort(b, addr)
	return n, 0, err
}
