// verif-instr rewrites the current /repo sources into scratch copies that route
// every scheduling-relevant construct through the simulator runtime, and writes
// a `go build -overlay` file. Nothing is written into /repo.
//
// Rewrites (each yields an execution the Go memory model already allows):
//   - selector redirects (sync.Mutex -> simsync.Mutex, atomic.*, time.Sleep,
//     time.AfterFunc, rand.*, and per-package net/os/exec/transport seams)
//   - `go f(x)`          -> simrt.GoStmt(func(){ f(x) }) with arguments bound first
//   - `<-ch`, `ch <- v`  -> simrt.Recv1/Recv2/Chan(ch).Send(v)
//   - `for range ch`     -> range simrt.RangeChan(ch)
//   - `for range m`      -> range simrt.MapSeq(m)
//   - `select {...}`     -> case objects + simrt.Select + switch
//   - statement-level simrt.Yield() in the files given with -stmt
package main

import (
	"bytes"
	"encoding/json"
	"flag"
	"fmt"
	"go/ast"
	"go/format"
	"go/token"
	"go/types"
	"os"
	"path/filepath"
	"sort"
	"strings"

	"golang.org/x/tools/go/ast/astutil"
	"golang.org/x/tools/go/packages"
)

const rtBase = "github.com/postalsys/muti-metroo/internal/verifrt/"

type redirect struct{ pkg, name string } // target package (under rtBase unless absolute) and identifier

// global selector redirects: source import path -> identifier -> target
var globalRedirects = map[string]map[string]redirect{
	"sync": {
		"Mutex": {"simsync", "Mutex"}, "RWMutex": {"simsync", "RWMutex"}, "WaitGroup": {"simsync", "WaitGroup"},
		"Once": {"simsync", "Once"}, "Cond": {"simsync", "Cond"}, "NewCond": {"simsync", "NewCond"},
		"Locker": {"simsync", "Locker"}, "OnceFunc": {"simsync", "OnceFunc"},
	},
	"sync/atomic": {},
	"time": {
		"Sleep": {"simrt", "Sleep"}, "AfterFunc": {"simrt", "AfterFunc"},
	},
	"crypto/rand": {
		"Reader": {"simrand", "Reader"}, "Read": {"simrand", "Read"},
	},
	"math/rand": {
		"Float64": {"simrand", "Float64"}, "Float32": {"simrand", "Float32"}, "Intn": {"simrand", "Intn"},
		"Int63": {"simrand", "Int63"}, "Int63n": {"simrand", "Int63n"}, "Int31n": {"simrand", "Int31n"},
		"Int31": {"simrand", "Int31"}, "Int": {"simrand", "IntN"}, "Uint32": {"simrand", "Uint32"},
		"Uint64": {"simrand", "Uint64"}, "Perm": {"simrand", "Perm"}, "Shuffle": {"simrand", "Shuffle"},
		"Seed": {"simrand", "Seed"},
	},
}

func init() {
	for _, n := range []string{"Int32", "Int64", "Uint32", "Uint64", "Bool", "Value", "Pointer",
		"AddInt32", "AddInt64", "AddUint32", "AddUint64", "LoadInt32", "LoadInt64", "LoadUint32", "LoadUint64",
		"StoreInt32", "StoreInt64", "StoreUint32", "StoreUint64", "SwapInt32", "SwapInt64", "SwapUint32", "SwapUint64",
		"CompareAndSwapInt32", "CompareAndSwapInt64", "CompareAndSwapUint32", "CompareAndSwapUint64",
		"LoadPointer", "StorePointer"} {
		globalRedirects["sync/atomic"][n] = redirect{"simatomic", n}
	}
}

// per-package extra redirects, loaded from -seams JSON:
// { "<pkg import path suffix under internal/>": { "<import path>": { "<Ident>": ["<target pkg>", "<Ident>"] } } }
type seamFile map[string]map[string]map[string][2]string

type stats struct {
	Files, Rewritten                                           int
	Selectors, GoStmts, Recvs, Sends, RangeChan, RangeMap, Selects int
	StmtYields                                                 int
	Unsupported                                                []string
}

var st stats

func main() {
	repo := flag.String("repo", "/repo", "repository root")
	out := flag.String("out", "", "scratch output directory")
	stmtList := flag.String("stmt", "", "comma-separated repo-relative files that get statement-level yields")
	seamsPath := flag.String("seams", "", "JSON file with per-package selector redirects")
	pkgsFlag := flag.String("pkgs", "./internal/...", "package patterns (space separated)")
	skipFlag := flag.String("skip", "internal/wizard,internal/service,internal/certutil,internal/loadtest,internal/chaos,internal/probe,internal/webui,internal/verifsim,internal/verifrt", "comma-separated repo-relative dir prefixes to leave untouched")
	extra := flag.String("map", "", "comma-separated extra overlay entries virtual=real (files or directories)")
	tags := flag.String("tags", "verif", "build tags")
	flag.Parse()
	if *out == "" {
		fatal("need -out")
	}
	stmtFiles := map[string]bool{}
	for _, f := range strings.Split(*stmtList, ",") {
		if f != "" {
			stmtFiles[filepath.Join(*repo, f)] = true
		}
	}
	var seams seamFile
	if *seamsPath != "" {
		b, err := os.ReadFile(*seamsPath)
		if err != nil {
			fatal("%v", err)
		}
		if err := json.Unmarshal(b, &seams); err != nil {
			fatal("seams: %v", err)
		}
	}
	skips := strings.Split(*skipFlag, ",")

	cfg := &packages.Config{
		Mode:       packages.NeedName | packages.NeedFiles | packages.NeedCompiledGoFiles | packages.NeedSyntax | packages.NeedTypes | packages.NeedTypesInfo | packages.NeedImports,
		Dir:        *repo,
		BuildFlags: []string{"-tags=" + *tags},
		Env:        os.Environ(),
	}
	pkgs, err := packages.Load(cfg, strings.Fields(*pkgsFlag)...)
	if err != nil {
		fatal("load: %v", err)
	}
	nerr := 0
	for _, p := range pkgs {
		for _, e := range p.Errors {
			fmt.Fprintf(os.Stderr, "verif-instr: %s: %v\n", p.PkgPath, e)
			nerr++
		}
	}
	if nerr > 0 {
		fatal("%d type errors in /repo: cannot instrument", nerr)
	}
	overlay := map[string]string{}
	sort.Slice(pkgs, func(i, j int) bool { return pkgs[i].PkgPath < pkgs[j].PkgPath })
	for _, p := range pkgs {
		rel := strings.TrimPrefix(p.PkgPath, "github.com/postalsys/muti-metroo/")
		skip := false
		for _, s := range skips {
			if s != "" && (rel == s || strings.HasPrefix(rel, s+"/")) {
				skip = true
			}
		}
		if skip {
			continue
		}
		pkgSeams := map[string]map[string]redirect{}
		for ip, m := range globalRedirects {
			pkgSeams[ip] = m
		}
		if ps, ok := seams[rel]; ok {
			for ip, m := range ps {
				mm := map[string]redirect{}
				for k, v := range pkgSeams[ip] {
					mm[k] = v
				}
				for id, tgt := range m {
					mm[id] = redirect{tgt[0], tgt[1]}
				}
				pkgSeams[ip] = mm
			}
		}
		for i, f := range p.Syntax {
			fn := p.CompiledGoFiles[i]
			if strings.HasSuffix(fn, "_test.go") || !strings.HasPrefix(fn, *repo+"/") {
				continue
			}
			st.Files++
			r := &rewriter{fset: p.Fset, info: p.TypesInfo, file: f, seams: pkgSeams, stmt: stmtFiles[fn], fn: fn, pkgPath: p.PkgPath}
			if !r.run() {
				continue
			}
			st.Rewritten++
			var buf bytes.Buffer
			if err := format.Node(&buf, p.Fset, f); err != nil {
				fatal("print %s: %v", fn, err)
			}
			dst := filepath.Join(*out, "src", strings.TrimPrefix(fn, *repo+"/"))
			if err := os.MkdirAll(filepath.Dir(dst), 0o755); err != nil {
				fatal("%v", err)
			}
			if err := os.WriteFile(dst, buf.Bytes(), 0o644); err != nil {
				fatal("%v", err)
			}
			overlay[fn] = dst
		}
	}
	if len(st.Unsupported) > 0 {
		for _, u := range st.Unsupported {
			fmt.Fprintln(os.Stderr, "verif-instr: unsupported construct:", u)
		}
		fatal("%d constructs could not be rewritten", len(st.Unsupported))
	}
	// extra overlay entries
	for _, e := range strings.Split(*extra, ",") {
		if e == "" {
			continue
		}
		kv := strings.SplitN(e, "=", 2)
		if len(kv) != 2 {
			fatal("bad -map entry %q", e)
		}
		virt, real := kv[0], kv[1]
		fi, err := os.Stat(real)
		if err != nil {
			fatal("%v", err)
		}
		if !fi.IsDir() {
			overlay[virt] = real
			continue
		}
		filepath.Walk(real, func(path string, info os.FileInfo, err error) error {
			if err != nil || info.IsDir() {
				return nil
			}
			if !strings.HasSuffix(path, ".go") {
				return nil
			}
			relp, _ := filepath.Rel(real, path)
			overlay[filepath.Join(virt, relp)] = path
			return nil
		})
	}
	ob, _ := json.MarshalIndent(map[string]any{"Replace": overlay}, "", " ")
	if err := os.WriteFile(filepath.Join(*out, "overlay.json"), ob, 0o644); err != nil {
		fatal("%v", err)
	}
	sb, _ := json.MarshalIndent(st, "", " ")
	os.WriteFile(filepath.Join(*out, "instr-stats.json"), sb, 0o644)
	fmt.Printf("verif-instr: files=%d rewritten=%d selectors=%d go=%d recv=%d send=%d rangechan=%d rangemap=%d select=%d stmtyields=%d\n",
		st.Files, st.Rewritten, st.Selectors, st.GoStmts, st.Recvs, st.Sends, st.RangeChan, st.RangeMap, st.Selects, st.StmtYields)
}

func fatal(f string, a ...any) {
	fmt.Fprintf(os.Stderr, "verif-instr: "+f+"\n", a...)
	os.Exit(2)
}

type rewriter struct {
	fset    *token.FileSet
	info    *types.Info
	file    *ast.File
	seams   map[string]map[string]redirect
	stmt    bool
	fn      string
	pkgPath string

	changed   bool
	needPkgs  map[string]bool // runtime packages to import
	skipRecv  map[ast.Node]bool
	recv2     map[ast.Node]bool
	skipSend  map[ast.Node]bool
	rangeKind map[*ast.RangeStmt]string
	selBlocks map[*ast.BlockStmt]bool
	goInfo    map[*ast.GoStmt][]bool // per arg: is constant/nil (inline)
	tmpN      int
}

func alias(pkg string) string { return "__" + filepath.Base(pkg) }

func (r *rewriter) rt(pkg, name string) ast.Expr {
	r.needPkgs[pkg] = true
	return &ast.SelectorExpr{X: ast.NewIdent(alias(pkg)), Sel: ast.NewIdent(name)}
}

func (r *rewriter) call(pkg, name string, args ...ast.Expr) *ast.CallExpr {
	return &ast.CallExpr{Fun: r.rt(pkg, name), Args: args}
}

func (r *rewriter) pos(n ast.Node) string {
	p := r.fset.Position(n.Pos())
	return fmt.Sprintf("%s:%d", p.Filename, p.Line)
}

func (r *rewriter) run() bool {
	r.needPkgs = map[string]bool{}
	r.skipRecv = map[ast.Node]bool{}
	r.recv2 = map[ast.Node]bool{}
	r.skipSend = map[ast.Node]bool{}
	r.rangeKind = map[*ast.RangeStmt]string{}
	r.selBlocks = map[*ast.BlockStmt]bool{}
	r.goInfo = map[*ast.GoStmt][]bool{}

	pre := func(c *astutil.Cursor) bool {
		switch n := c.Node().(type) {
		case *ast.CommClause:
			switch cm := n.Comm.(type) {
			case *ast.SendStmt:
				r.skipSend[cm] = true
			case *ast.ExprStmt:
				if u, ok := unparen(cm.X).(*ast.UnaryExpr); ok && u.Op == token.ARROW {
					r.skipRecv[u] = true
				}
			case *ast.AssignStmt:
				if len(cm.Rhs) == 1 {
					if u, ok := unparen(cm.Rhs[0]).(*ast.UnaryExpr); ok && u.Op == token.ARROW {
						r.skipRecv[u] = true
					}
				}
			}
		case *ast.AssignStmt:
			if len(n.Lhs) == 2 && len(n.Rhs) == 1 {
				if u, ok := unparen(n.Rhs[0]).(*ast.UnaryExpr); ok && u.Op == token.ARROW {
					r.recv2[u] = true
				}
			}
		case *ast.ValueSpec:
			if len(n.Names) == 2 && len(n.Values) == 1 {
				if u, ok := unparen(n.Values[0]).(*ast.UnaryExpr); ok && u.Op == token.ARROW {
					r.recv2[u] = true
				}
			}
		case *ast.RangeStmt:
			if tv, ok := r.info.Types[n.X]; ok && tv.Type != nil {
				switch u := tv.Type.Underlying().(type) {
				case *types.Map:
					r.rangeKind[n] = "map"
				case *types.Chan:
					r.rangeKind[n] = "chan"
				case *types.TypeParam:
					_ = u
				}
			}
		case *ast.GoStmt:
			inl := make([]bool, len(n.Call.Args))
			for i, a := range n.Call.Args {
				if tv, ok := r.info.Types[a]; ok {
					if tv.Value != nil || tv.IsNil() {
						inl[i] = true
					}
					if tup, ok := tv.Type.(*types.Tuple); ok && tup.Len() > 1 {
						st.Unsupported = append(st.Unsupported, r.pos(n)+": go statement with multi-value argument")
					}
				}
				if _, ok := a.(*ast.FuncLit); ok {
					inl[i] = true
				}
			}
			r.goInfo[n] = inl
		}
		return true
	}
	post := func(c *astutil.Cursor) bool {
		switch n := c.Node().(type) {
		case *ast.SelectorExpr:
			if id, ok := n.X.(*ast.Ident); ok {
				if pn, ok := r.info.Uses[id].(*types.PkgName); ok {
					if m, ok := r.seams[pn.Imported().Path()]; ok {
						if tgt, ok := m[n.Sel.Name]; ok {
							c.Replace(r.rt(tgt.pkg, tgt.name))
							st.Selectors++
							r.changed = true
						}
					}
				}
			}
		case *ast.UnaryExpr:
			if n.Op == token.ARROW && !r.skipRecv[n] {
				if r.recv2[n] {
					c.Replace(r.call("simrt", "Recv2", n.X))
				} else {
					c.Replace(r.call("simrt", "Recv1", n.X))
				}
				st.Recvs++
				r.changed = true
			}
		case *ast.SendStmt:
			if !r.skipSend[n] {
				snd := &ast.CallExpr{Fun: &ast.SelectorExpr{X: r.call("simrt", "Chan", n.Chan), Sel: ast.NewIdent("Send")}, Args: []ast.Expr{n.Value}}
				c.Replace(&ast.ExprStmt{X: snd})
				st.Sends++
				r.changed = true
			}
		case *ast.RangeStmt:
			switch r.rangeKind[n] {
			case "map":
				n.X = r.call("simrt", "MapSeq", n.X)
				st.RangeMap++
				r.changed = true
			case "chan":
				n.X = r.call("simrt", "RangeChan", n.X)
				st.RangeChan++
				r.changed = true
			}
		case *ast.GoStmt:
			c.Replace(r.rewriteGo(n))
			st.GoStmts++
			r.changed = true
		case *ast.SelectStmt:
			if len(n.Body.List) == 0 {
				return true // select {} stays native (blocks forever)
			}
			b := r.rewriteSelect(n)
			r.selBlocks[b] = true
			c.Replace(b)
			st.Selects++
			r.changed = true
		case *ast.LabeledStmt:
			if b, ok := n.Stmt.(*ast.BlockStmt); ok && r.selBlocks[b] {
				last := len(b.List) - 1
				b.List[last] = &ast.LabeledStmt{Label: n.Label, Stmt: b.List[last]}
				c.Replace(b)
			}
		}
		return true
	}
	astutil.Apply(r.file, pre, post)

	if r.stmt {
		r.insertStmtYields()
	}
	if !r.changed {
		return false
	}
	r.fixImports()
	r.stripComments()
	return true
}

func unparen(e ast.Expr) ast.Expr {
	for {
		p, ok := e.(*ast.ParenExpr)
		if !ok {
			return e
		}
		e = p.X
	}
}

func (r *rewriter) tmp(prefix string) *ast.Ident {
	r.tmpN++
	return ast.NewIdent(fmt.Sprintf("__%s%d", prefix, r.tmpN))
}

func (r *rewriter) rewriteGo(n *ast.GoStmt) ast.Stmt {
	call := n.Call
	inl := r.goInfo[n]
	var stmts []ast.Stmt
	// bind the function value unless it is a function literal or a plain
	// package-level function / builtin reference (no receiver to evaluate)
	fun := call.Fun
	if _, isLit := fun.(*ast.FuncLit); !isLit {
		bind := true
		switch f := unparen(fun).(type) {
		case *ast.Ident:
			if obj := r.info.Uses[f]; obj != nil {
				if _, isFn := obj.(*types.Func); isFn {
					bind = false
				}
				if _, isB := obj.(*types.Builtin); isB {
					bind = false
				}
			}
		case *ast.SelectorExpr:
			if id, ok := f.X.(*ast.Ident); ok {
				if _, isPkg := r.info.Uses[id].(*types.PkgName); isPkg {
					bind = false
				}
			}
			if id, ok := f.X.(*ast.Ident); ok && strings.HasPrefix(id.Name, "__") {
				bind = false // already redirected package selector
			}
		}
		if bind {
			fv := r.tmp("f")
			stmts = append(stmts, &ast.AssignStmt{Lhs: []ast.Expr{fv}, Tok: token.DEFINE, Rhs: []ast.Expr{fun}})
			fun = fv
		}
	}
	args := make([]ast.Expr, len(call.Args))
	for i, a := range call.Args {
		if i < len(inl) && inl[i] {
			args[i] = a
			continue
		}
		v := r.tmp("a")
		stmts = append(stmts, &ast.AssignStmt{Lhs: []ast.Expr{v}, Tok: token.DEFINE, Rhs: []ast.Expr{a}})
		args[i] = v
	}
	inner := &ast.CallExpr{Fun: fun, Args: args, Ellipsis: call.Ellipsis}
	if call.Ellipsis != token.NoPos {
		inner.Ellipsis = 1
	}
	var lit *ast.FuncLit
	if fl, ok := fun.(*ast.FuncLit); ok && len(args) == 0 && fl.Type.Results == nil {
		lit = fl
	} else {
		lit = &ast.FuncLit{Type: &ast.FuncType{Params: &ast.FieldList{}}, Body: &ast.BlockStmt{List: []ast.Stmt{&ast.ExprStmt{X: inner}}}}
	}
	stmts = append(stmts, &ast.ExprStmt{X: r.call("simrt", "GoStmt", lit)})
	if len(stmts) == 1 {
		return stmts[0]
	}
	return &ast.BlockStmt{List: stmts}
}

func (r *rewriter) rewriteSelect(n *ast.SelectStmt) *ast.BlockStmt {
	var pre []ast.Stmt
	var caseArgs []ast.Expr
	var clauses []ast.Stmt
	hasDefault := false
	idx := 0
	for _, cl := range n.Body.List {
		cc := cl.(*ast.CommClause)
		if cc.Comm == nil {
			hasDefault = true
			clauses = append(clauses, &ast.CaseClause{List: nil, Body: cc.Body})
			continue
		}
		cv := r.tmp("c")
		var bodyPre []ast.Stmt
		switch cm := cc.Comm.(type) {
		case *ast.SendStmt:
			pre = append(pre, &ast.AssignStmt{Lhs: []ast.Expr{cv}, Tok: token.DEFINE, Rhs: []ast.Expr{r.call("simrt", "SendCase", cm.Chan)}})
			pre = append(pre, &ast.ExprStmt{X: &ast.CallExpr{Fun: &ast.SelectorExpr{X: cv, Sel: ast.NewIdent("Set")}, Args: []ast.Expr{cm.Value}}})
		case *ast.ExprStmt:
			u := unparen(cm.X).(*ast.UnaryExpr)
			pre = append(pre, &ast.AssignStmt{Lhs: []ast.Expr{cv}, Tok: token.DEFINE, Rhs: []ast.Expr{r.call("simrt", "RecvCase", u.X)}})
		case *ast.AssignStmt:
			u := unparen(cm.Rhs[0]).(*ast.UnaryExpr)
			pre = append(pre, &ast.AssignStmt{Lhs: []ast.Expr{cv}, Tok: token.DEFINE, Rhs: []ast.Expr{r.call("simrt", "RecvCase", u.X)}})
			rhs := []ast.Expr{&ast.SelectorExpr{X: cv, Sel: ast.NewIdent("V")}}
			if len(cm.Lhs) == 2 {
				rhs = append(rhs, &ast.SelectorExpr{X: cv, Sel: ast.NewIdent("OK")})
			}
			// drop blank identifiers pairwise when defining
			lhs := cm.Lhs
			allBlank := true
			for _, l := range lhs {
				if id, ok := l.(*ast.Ident); !ok || id.Name != "_" {
					allBlank = false
				}
			}
			if !allBlank {
				bodyPre = append(bodyPre, &ast.AssignStmt{Lhs: lhs, Tok: cm.Tok, Rhs: rhs})
			}
		default:
			st.Unsupported = append(st.Unsupported, r.pos(cc)+": select clause form")
		}
		caseArgs = append(caseArgs, cv)
		body := append(bodyPre, cc.Body...)
		clauses = append(clauses, &ast.CaseClause{List: []ast.Expr{&ast.BasicLit{Kind: token.INT, Value: fmt.Sprint(idx)}}, Body: body})
		idx++
	}
	hd := "false"
	if hasDefault {
		hd = "true"
	} else {
		clauses = append(clauses, &ast.CaseClause{List: nil, Body: []ast.Stmt{&ast.ExprStmt{X: &ast.CallExpr{Fun: ast.NewIdent("panic"), Args: []ast.Expr{&ast.BasicLit{Kind: token.STRING, Value: `"simrt: bad select index"`}}}}}})
	}
	args := append([]ast.Expr{ast.NewIdent(hd)}, caseArgs...)
	sw := &ast.SwitchStmt{Tag: r.call("simrt", "Select", args...), Body: &ast.BlockStmt{List: clauses}}
	return &ast.BlockStmt{List: append(pre, sw)}
}

func (r *rewriter) yieldStmt() ast.Stmt {
	return &ast.ExprStmt{X: r.call("simrt", "Yield")}
}

func (r *rewriter) insertStmtYields() {
	var withYields func(list []ast.Stmt) []ast.Stmt
	withYields = func(list []ast.Stmt) []ast.Stmt {
		out := make([]ast.Stmt, 0, 2*len(list))
		for _, s := range list {
			if es, ok := s.(*ast.ExprStmt); ok {
				if ce, ok := es.X.(*ast.CallExpr); ok {
					if se, ok := ce.Fun.(*ast.SelectorExpr); ok {
						if id, ok := se.X.(*ast.Ident); ok && id.Name == alias("simrt") && se.Sel.Name == "Yield" {
							out = append(out, s)
							continue
						}
					}
				}
			}
			out = append(out, r.yieldStmt(), s)
			st.StmtYields++
			r.changed = true
		}
		return out
	}
	skip := map[*ast.BlockStmt]bool{}
	ast.Inspect(r.file, func(n ast.Node) bool {
		switch b := n.(type) {
		case *ast.FuncDecl:
			if b.Body == nil {
				return false
			}
		case *ast.SwitchStmt:
			skip[b.Body] = true
		case *ast.TypeSwitchStmt:
			skip[b.Body] = true
		case *ast.SelectStmt:
			skip[b.Body] = true
		case *ast.BlockStmt:
			if !skip[b] {
				b.List = withYields(b.List)
			}
		case *ast.CaseClause:
			b.Body = withYields(b.Body)
		case *ast.CommClause:
			b.Body = withYields(b.Body)
		}
		return true
	})
}

func (r *rewriter) fixImports() {
	// which original package names are still used?
	used := map[string]bool{}
	ast.Inspect(r.file, func(n ast.Node) bool {
		if se, ok := n.(*ast.SelectorExpr); ok {
			if id, ok := se.X.(*ast.Ident); ok {
				used[id.Name] = true
			}
		}
		return true
	})
	for _, imp := range r.file.Imports {
		path := strings.Trim(imp.Path.Value, `"`)
		name := ""
		if imp.Name != nil {
			name = imp.Name.Name
		} else {
			// default package name
			for _, pn := range r.info.Defs {
				_ = pn
			}
			if obj, ok := r.info.Implicits[imp].(*types.PkgName); ok {
				name = obj.Name()
			} else {
				name = filepath.Base(path)
			}
		}
		if name == "_" || name == "." {
			continue
		}
		if !used[name] {
			imp.Name = ast.NewIdent("_")
		}
	}
	var pk []string
	for p := range r.needPkgs {
		pk = append(pk, p)
	}
	sort.Strings(pk)
	for _, p := range pk {
		ip := p
		if !strings.Contains(p, "/") {
			ip = rtBase + p
		}
		astutil.AddNamedImport(r.fset, r.file, alias(p), ip)
	}
}

// stripComments drops ordinary comments (they can be misplaced when the tree
// is re-printed) but keeps build constraints and //go: directives.
func (r *rewriter) stripComments() {
	var keep []*ast.CommentGroup
	for _, cg := range r.file.Comments {
		if cg.End() < r.file.Package {
			keep = append(keep, cg)
			continue
		}
		dir := false
		for _, c := range cg.List {
			if strings.HasPrefix(c.Text, "//go:") || strings.HasPrefix(c.Text, "// +build") {
				dir = true
			}
		}
		if dir {
			keep = append(keep, cg)
		}
	}
	r.file.Comments = keep
	// detach doc comments that were dropped
	keepSet := map[*ast.CommentGroup]bool{}
	for _, cg := range keep {
		keepSet[cg] = true
	}
	ast.Inspect(r.file, func(n ast.Node) bool {
		switch d := n.(type) {
		case *ast.FuncDecl:
			if d.Doc != nil && !keepSet[d.Doc] {
				d.Doc = nil
			}
		case *ast.GenDecl:
			if d.Doc != nil && !keepSet[d.Doc] {
				d.Doc = nil
			}
		case *ast.Field:
			if d.Doc != nil && !keepSet[d.Doc] {
				d.Doc = nil
			}
			if d.Comment != nil && !keepSet[d.Comment] {
				d.Comment = nil
			}
		case *ast.ValueSpec:
			if d.Doc != nil && !keepSet[d.Doc] {
				d.Doc = nil
			}
			if d.Comment != nil && !keepSet[d.Comment] {
				d.Comment = nil
			}
		case *ast.TypeSpec:
			if d.Doc != nil && !keepSet[d.Doc] {
				d.Doc = nil
			}
			if d.Comment != nil && !keepSet[d.Comment] {
				d.Comment = nil
			}
		case *ast.ImportSpec:
			if d.Doc != nil && !keepSet[d.Doc] {
				d.Doc = nil
			}
			if d.Comment != nil && !keepSet[d.Comment] {
				d.Comment = nil
			}
		}
		return true
	})
}
