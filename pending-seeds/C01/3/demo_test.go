package crypto

import (
	"bytes"
	"encoding/binary"
	"testing"
)

// A relay injects forged frames (correct direction prefix, arbitrary counter,
// garbage body). They must be rejected and must not change what is accepted
// afterwards.
func TestMutationDemoForgedCounterDoesNotMoveWindow(t *testing.T) {
	privA, pubA, _ := GenerateEphemeralKeypair()
	privB, pubB, _ := GenerateEphemeralKeypair()
	secretA, _ := ComputeECDH(privA, pubB)
	secretB, _ := ComputeECDH(privB, pubA)
	skA := DeriveSessionKey(secretA, 9, pubA, pubB, true)
	skB := DeriveSessionKey(secretB, 9, pubA, pubB, false)

	forge := func(counter uint64) []byte {
		f := make([]byte, NonceSize+TagSize+8)
		binary.BigEndian.PutUint64(f[4:], counter) // initiator->responder prefix is 0
		for i := NonceSize; i < len(f); i++ {
			f[i] = byte(i)
		}
		return f
	}

	c0, _ := skA.Encrypt([]byte("m0"))
	c1, _ := skA.Encrypt([]byte("m1"))
	c2, _ := skA.Encrypt([]byte("m2"))
	if _, err := skB.Decrypt(c0); err != nil {
		t.Fatal(err)
	}

	// forged frame far ahead must not lock out authentic traffic
	if _, err := skB.Decrypt(forge(1 << 40)); err == nil {
		t.Fatal("forged frame accepted")
	}
	if pt, err := skB.Decrypt(c1); err != nil || !bytes.Equal(pt, []byte("m1")) {
		t.Errorf("authentic m1 rejected after forged frame with large counter: %v", err)
	}
	if _, err := skB.Decrypt(c2); err != nil {
		t.Errorf("authentic m2 rejected: %v", err)
	}

	// forged frame with counter 2^64-1 must not reopen the window for replays
	if _, err := skB.Decrypt(forge(^uint64(0))); err == nil {
		t.Fatal("forged frame accepted")
	}
	if _, err := skB.Decrypt(c0); err == nil {
		t.Errorf("replay of m0 accepted after forged frame with counter 2^64-1")
	}
}
