package crypto

import "testing"

// A relay reflects a frame back to the endpoint that produced it. The endpoint
// has sent more than it has received, so the reflected counter is "fresh".
func TestMutationDemoReflectedFrameRejected(t *testing.T) {
	privA, pubA, _ := GenerateEphemeralKeypair()
	privB, pubB, _ := GenerateEphemeralKeypair()
	secretA, _ := ComputeECDH(privA, pubB)
	secretB, _ := ComputeECDH(privB, pubA)
	skA := DeriveSessionKey(secretA, 42, pubA, pubB, true)
	skB := DeriveSessionKey(secretB, 42, pubA, pubB, false)

	for _, tc := range []struct {
		name string
		sk   *SessionKey
	}{{"initiator", skA}, {"responder", skB}} {
		var last []byte
		for i := 0; i < 3; i++ {
			last, _ = tc.sk.Encrypt([]byte("upload chunk"))
		}
		if pt, err := tc.sk.Decrypt(last); err == nil {
			t.Errorf("%s accepted its own reflected frame: %q", tc.name, pt)
		}
	}
	// rejected reflections must not disturb the real traffic
	c, _ := skB.Encrypt([]byte("reply"))
	if _, err := skA.Decrypt(c); err != nil {
		t.Errorf("authentic reply rejected after reflection attempt: %v", err)
	}
}
