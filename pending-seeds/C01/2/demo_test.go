package crypto

import (
	"sync"
	"sync/atomic"
	"testing"
)

// A relay duplicates a frame and both copies are processed concurrently (e.g.
// delivered over two peer connections). At most one copy may be accepted, and
// the receive window must never move backwards.
func TestMutationDemoConcurrentDuplicateAcceptedOnce(t *testing.T) {
	privA, pubA, _ := GenerateEphemeralKeypair()
	privB, pubB, _ := GenerateEphemeralKeypair()
	secretA, _ := ComputeECDH(privA, pubB)
	secretB, _ := ComputeECDH(privB, pubA)
	skA := DeriveSessionKey(secretA, 7, pubA, pubB, true)
	skB := DeriveSessionKey(secretB, 7, pubA, pubB, false)

	payload := make([]byte, 256*1024) // long Open => wide window
	const rounds = 300
	const copies = 4
	double := 0
	for r := 0; r < rounds; r++ {
		c, _ := skA.Encrypt(payload)
		var ok int32
		var wg sync.WaitGroup
		start := make(chan struct{})
		for g := 0; g < copies; g++ {
			wg.Add(1)
			go func() {
				defer wg.Done()
				<-start
				if _, err := skB.Decrypt(c); err == nil {
					atomic.AddInt32(&ok, 1)
				}
			}()
		}
		close(start)
		wg.Wait()
		if ok == 0 {
			t.Fatalf("round %d: authentic frame rejected by every copy", r)
		}
		if ok > 1 {
			double++
		}
	}
	if double > 0 {
		t.Fatalf("same frame accepted more than once in %d of %d rounds", double, rounds)
	}
}
