package flood

import (
	"sync"

	"github.com/postalsys/muti-metroo/internal/crypto"
	"testing"

	"github.com/postalsys/muti-metroo/internal/identity"
	"github.com/postalsys/muti-metroo/internal/protocol"
	"github.com/postalsys/muti-metroo/internal/routing"
)

type demoSender2 struct {
	mu    sync.Mutex
	peers []identity.AgentID
	sent  map[identity.AgentID][]*protocol.Frame
}

func (m *demoSender2) SendToPeer(p identity.AgentID, fr *protocol.Frame) error {
	m.mu.Lock()
	defer m.mu.Unlock()
	if m.sent == nil {
		m.sent = map[identity.AgentID][]*protocol.Frame{}
	}
	m.sent[p] = append(m.sent[p], fr)
	return nil
}
func (m *demoSender2) GetPeerIDs() []identity.AgentID {
	m.mu.Lock()
	defer m.mu.Unlock()
	return append([]identity.AgentID(nil), m.peers...)
}

// An over-limit announcement whose path is in the legacy sealed (management-key
// encrypted) form, received by an agent that holds the management private key
// and can therefore decode the path, must be dropped like a plaintext one.
func TestMutationDemoLegacyEncryptedPathBeyondHopLimit(t *testing.T) {
	for _, maxHops := range []int{1, 2, 5} {
		localID, _ := identity.NewAgentID()
		peer, _ := identity.NewAgentID()
		other, _ := identity.NewAgentID()
		origin, _ := identity.NewAgentID()

		rm := routing.NewManager(localID)
		s := &demoSender2{peers: []identity.AgentID{peer, other}}
		cfg := DefaultFloodConfig()
		cfg.MaxHops = maxHops
		priv, pub, err := crypto.GenerateEphemeralKeypair()
		if err != nil {
			t.Fatal(err)
		}
		cfg.SealedBox = crypto.NewSealedBoxWithPrivate(pub, priv)
		f := NewFlooder(cfg, localID, rm, s)

		// path: sender first, origin last, maxHops+1 entries
		p := []identity.AgentID{peer}
		for i := 0; i < maxHops-1; i++ {
			id, _ := identity.NewAgentID()
			p = append(p, id)
		}
		p = append(p, origin)
		sealed, err := cfg.SealedBox.Seal(protocol.EncodePath(p))
		if err != nil {
			t.Fatal(err)
		}
		enc := &protocol.EncryptedData{Encrypted: true, Data: sealed}

		routes := []protocol.Route{
			{AddressFamily: protocol.AddrFamilyAgent, Prefix: protocol.EncodeAgentPrefix(origin), Metric: uint16(maxHops)},
			{AddressFamily: protocol.AddrFamilyIPv4, PrefixLength: 8, Prefix: []byte{10, 0, 0, 0}, Metric: uint16(maxHops)},
		}
		handled := f.HandleRouteAdvertise(peer, origin, "", 7, routes, enc, []identity.AgentID{peer})
		if handled {
			t.Errorf("max_hops=%d: over-limit announcement reported as handled", maxHops)
		}
		if r := rm.LookupAgent(origin); r != nil {
			t.Errorf("max_hops=%d: agent presence route of origin stored %d hops away (limit %d)", maxHops, len(p), maxHops)
		}
		if n := len(rm.AgentTable().GetAllRoutes()); n != 0 {
			t.Errorf("max_hops=%d: %d agent routes stored beyond the limit", maxHops, n)
		}
		if n := rm.Table().Size(); n != 0 {
			t.Errorf("max_hops=%d: %d CIDR routes stored beyond the limit", maxHops, n)
		}
		if len(s.sent) != 0 {
			t.Errorf("max_hops=%d: over-limit announcement forwarded", maxHops)
		}
		f.Stop()
	}
}
