package agent

import (
	"context"
	"errors"
	"io"
	"net"
	"os"
	"sync/atomic"
	"testing"
	"time"

	"github.com/postalsys/muti-metroo/internal/config"
	"github.com/postalsys/muti-metroo/internal/socks5"
)

type demoRecordingDialer struct{ calls atomic.Int32 }

func (d *demoRecordingDialer) Dial(network, address string) (net.Conn, error) {
	d.calls.Add(1)
	return nil, errors.New("demo: refused")
}

func (d *demoRecordingDialer) DialContext(ctx context.Context, network, address string) (net.Conn, error) {
	d.calls.Add(1)
	return nil, errors.New("demo: refused")
}

// A configured user that has neither a password nor a password hash has no
// usable password; nobody may log in as that user, in particular not with an
// empty password (PLEN=0).
func TestMutationDemoUserWithoutUsablePassword(t *testing.T) {
	tmpDir, err := os.MkdirTemp("", "agent-demo")
	if err != nil {
		t.Fatal(err)
	}
	defer os.RemoveAll(tmpDir)

	cfg := config.Default()
	cfg.Agent.DataDir = tmpDir
	cfg.SOCKS5.Auth.Enabled = true
	cfg.SOCKS5.Auth.Users = []config.SOCKS5UserConfig{
		{Username: "alice", Password: "s3cret"},
		{Username: "ghost"}, // no password, no hash
	}

	a, err := New(cfg)
	if err != nil {
		t.Fatalf("New() error = %v", err)
	}

	dialer := &demoRecordingDialer{}
	h := socks5.NewHandler(a.buildSOCKS5Auth(), dialer)

	client, server := net.Pipe()
	defer client.Close()
	done := make(chan struct{})
	go func() {
		defer close(done)
		defer server.Close()
		h.Handle(server)
	}()
	client.SetDeadline(time.Now().Add(5 * time.Second))

	// greeting: offer user/pass only
	if _, err := client.Write([]byte{0x05, 0x01, 0x02}); err != nil {
		t.Fatalf("greeting: %v", err)
	}
	sel := make([]byte, 2)
	if _, err := io.ReadFull(client, sel); err != nil {
		t.Fatalf("method selection: %v", err)
	}
	if sel[1] != 0x02 {
		t.Fatalf("server selected method %#x, want user/pass 0x02", sel[1])
	}
	// RFC 1929: user "ghost", empty password
	req := append([]byte{0x01, 0x05}, []byte("ghost")...)
	req = append(req, 0x00)
	if _, err := client.Write(req); err != nil {
		t.Fatalf("auth request: %v", err)
	}
	st := make([]byte, 2)
	if _, err := io.ReadFull(client, st); err == nil && st[1] == 0x00 {
		t.Errorf("user without usable password was authenticated with an empty password")
		// go on and show that CONNECT is executed
		client.Write([]byte{0x05, 0x01, 0x00, 0x01, 127, 0, 0, 1, 0, 80})
		io.Copy(io.Discard, client)
	}
	client.Close()
	<-done
	if n := dialer.calls.Load(); n != 0 {
		t.Errorf("CONNECT was executed (%d dial calls) for an unauthenticated client", n)
	}
}
