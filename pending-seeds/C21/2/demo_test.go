package socks5

import (
	"context"
	"errors"
	"io"
	"net"
	"sync/atomic"
	"testing"
	"time"
)

type demo2Dialer struct{ calls atomic.Int32 }

func (d *demo2Dialer) Dial(network, address string) (net.Conn, error) {
	d.calls.Add(1)
	return nil, errors.New("demo: refused")
}

func (d *demo2Dialer) DialContext(ctx context.Context, network, address string) (net.Conn, error) {
	d.calls.Add(1)
	return nil, errors.New("demo: refused")
}

// demo2Try runs one SOCKS5 session (user/pass + CONNECT) against h and reports
// whether authentication succeeded.
func demo2Try(t *testing.T, h *Handler, user, pass string) bool {
	t.Helper()
	client, server := net.Pipe()
	defer client.Close()
	done := make(chan struct{})
	go func() {
		defer close(done)
		defer server.Close()
		h.Handle(server)
	}()
	client.SetDeadline(time.Now().Add(10 * time.Second))

	if _, err := client.Write([]byte{0x05, 0x01, 0x02}); err != nil {
		t.Fatalf("greeting: %v", err)
	}
	sel := make([]byte, 2)
	if _, err := io.ReadFull(client, sel); err != nil {
		t.Fatalf("method selection: %v", err)
	}
	if sel[1] != AuthMethodUserPass {
		t.Fatalf("server selected method %#x, want 0x02", sel[1])
	}
	req := append([]byte{0x01, byte(len(user))}, []byte(user)...)
	req = append(req, byte(len(pass)))
	req = append(req, []byte(pass)...)
	if _, err := client.Write(req); err != nil {
		t.Fatalf("auth request: %v", err)
	}
	st := make([]byte, 2)
	ok := false
	if _, err := io.ReadFull(client, st); err == nil && st[1] == AuthStatusSuccess {
		ok = true
		client.Write([]byte{0x05, 0x01, 0x00, 0x01, 127, 0, 0, 1, 0, 80})
		io.Copy(io.Discard, client)
	}
	client.Close()
	<-done
	return ok
}

// A user whose password_hash is not a usable bcrypt hash (truncated, wrong
// format, a plaintext password pasted into the hash field, unknown bcrypt
// version) has no usable password: nobody may log in as that user.
func TestMutationDemoUnusablePasswordHash(t *testing.T) {
	good := MustHashPassword("s3cret")
	unusable := map[string]string{
		"short":     "changeme",
		"truncated": good[:len(good)-10],
		"version":   "$9z" + good[3:],
		"noprefix":  "x" + good[1:],
	}
	hashed := map[string]string{"alice": good}
	for u, hsh := range unusable {
		hashed[u] = hsh
	}
	auths := CreateAuthenticators(AuthConfig{Enabled: true, Required: true, HashedUsers: hashed})
	dialer := &demo2Dialer{}
	h := NewHandler(auths, dialer)

	// sanity: the proper user still works, wrong password still refused
	if !demo2Try(t, h, "alice", "s3cret") {
		t.Fatalf("alice with the right password was refused")
	}
	if demo2Try(t, h, "alice", "wrong") {
		t.Fatalf("alice with a wrong password was accepted")
	}
	before := dialer.calls.Load()

	for u := range unusable {
		if demo2Try(t, h, u, "anything") {
			t.Errorf("user %q with an unusable password hash was authenticated with an arbitrary password", u)
		}
	}
	if n := dialer.calls.Load() - before; n != 0 {
		t.Errorf("CONNECT was executed %d times for unauthenticated clients", n)
	}
}
