package socks5

import (
	"context"
	"errors"
	"io"
	"net"
	"sync/atomic"
	"testing"
	"time"
)

type demo3Dialer struct{ calls atomic.Int32 }

func (d *demo3Dialer) Dial(network, address string) (net.Conn, error) {
	d.calls.Add(1)
	return nil, errors.New("demo: refused")
}

func (d *demo3Dialer) DialContext(ctx context.Context, network, address string) (net.Conn, error) {
	d.calls.Add(1)
	return nil, errors.New("demo: refused")
}

// Authentication enabled and required, but the user list is empty (or holds
// only users without a usable password, which the agent filters out): nobody
// can log in, and in particular a client offering "no authentication" must not
// be served.
func TestMutationDemoEmptyUserListNoAuthFallback(t *testing.T) {
	cfgs := map[string]AuthConfig{
		"nil maps":   {Enabled: true, Required: true},
		"empty maps": {Enabled: true, Required: true, Users: map[string]string{}, HashedUsers: map[string]string{}},
	}
	for name, ac := range cfgs {
		t.Run(name, func(t *testing.T) {
			dialer := &demo3Dialer{}
			h := NewHandler(CreateAuthenticators(ac), dialer)

			client, server := net.Pipe()
			defer client.Close()
			done := make(chan struct{})
			go func() {
				defer close(done)
				defer server.Close()
				h.Handle(server)
			}()
			client.SetDeadline(time.Now().Add(5 * time.Second))

			// greeting: offer no-auth and user/pass
			if _, err := client.Write([]byte{0x05, 0x02, 0x00, 0x02}); err != nil {
				t.Fatalf("greeting: %v", err)
			}
			sel := make([]byte, 2)
			if _, err := io.ReadFull(client, sel); err != nil {
				t.Fatalf("method selection: %v", err)
			}
			if sel[1] == AuthMethodNoAuth {
				t.Errorf("server selected NO AUTH although authentication is enabled and required")
				client.Write([]byte{0x05, 0x01, 0x00, 0x01, 127, 0, 0, 1, 0, 80})
				io.Copy(io.Discard, client)
			}
			client.Close()
			<-done
			if n := dialer.calls.Load(); n != 0 {
				t.Errorf("CONNECT was executed (%d dial calls) for a client that presented no credentials", n)
			}
		})
	}
}
