package routing

import (
	"testing"

	"github.com/postalsys/muti-metroo/internal/identity"
)

// A domain route is learned over 2 hops via neighbour p1. Then a link behind
// p1 breaks and the origin's next announcement (newer sequence) reaches us
// through the same neighbour but over a 4-hop path. The recorded metric must
// follow the recorded path, and a second exit at 3 hops must be preferred.
func TestMutationDemoDomainMetricFollowsPathOnRefresh(t *testing.T) {
	local, _ := identity.NewAgentID()
	a, _ := identity.NewAgentID()
	b, _ := identity.NewAgentID()
	p1, _ := identity.NewAgentID()
	p2, _ := identity.NewAgentID()
	x, _ := identity.NewAgentID()
	y, _ := identity.NewAgentID()

	m := NewManager(local)
	entry := func(metric uint16) []DomainRouteEntry {
		return []DomainRouteEntry{{Pattern: "*.corp.example", IsWildcard: true, Metric: metric}}
	}

	m.ProcessDomainRouteAdvertise(p1, a, 1, entry(1), []identity.AgentID{p1, a}, nil)
	m.ProcessDomainRouteAdvertise(p2, b, 1, entry(2), []identity.AgentID{p2, x, b}, nil)

	r := m.LookupDomain("host.corp.example")
	if r == nil || r.OriginAgent != a || r.Metric != 2 {
		t.Fatalf("setup: expected exit A with metric 2, got %v", r)
	}

	// Same neighbour, longer path behind it.
	m.ProcessDomainRouteAdvertise(p1, a, 2, entry(3), []identity.AgentID{p1, x, y, a}, nil)

	for _, dr := range m.DomainTable().GetAllRoutes() {
		if int(dr.Metric) != len(dr.Path) {
			t.Errorf("route %s via origin %s: metric %d != hops %d", dr.Pattern, dr.OriginAgent.ShortString(), dr.Metric, len(dr.Path))
		}
	}
	r = m.LookupDomain("host.corp.example")
	if r == nil || r.OriginAgent != b {
		t.Fatalf("nearer exit B (3 hops) must be preferred, got %v", r)
	}
}
