package flood

import (
	"sync"
	"testing"

	"github.com/postalsys/muti-metroo/internal/identity"
	"github.com/postalsys/muti-metroo/internal/protocol"
	"github.com/postalsys/muti-metroo/internal/routing"
)

type demoSender struct {
	mu    sync.Mutex
	peers []identity.AgentID
	sent  map[identity.AgentID][]*protocol.Frame
}

func (s *demoSender) SendToPeer(id identity.AgentID, f *protocol.Frame) error {
	s.mu.Lock()
	defer s.mu.Unlock()
	if s.sent == nil {
		s.sent = map[identity.AgentID][]*protocol.Frame{}
	}
	s.sent[id] = append(s.sent[id], f)
	return nil
}
func (s *demoSender) GetPeerIDs() []identity.AgentID { return s.peers }
func (s *demoSender) frames(id identity.AgentID) []*protocol.Frame {
	s.mu.Lock()
	defer s.mu.Unlock()
	return append([]*protocol.Frame(nil), s.sent[id]...)
}

// Chain A - B - C - D. A announces its presence and a CIDR; B and C relay.
// At C and D (2 and 3 hops away) every learned route's metric must equal the
// length of the recorded path.
func TestMutationDemoRelayedAgentPresenceMetric(t *testing.T) {
	a, _ := identity.NewAgentID()
	b, _ := identity.NewAgentID()
	c, _ := identity.NewAgentID()
	d, _ := identity.NewAgentID()

	mgrB, mgrC, mgrD := routing.NewManager(b), routing.NewManager(c), routing.NewManager(d)
	sB := &demoSender{peers: []identity.AgentID{a, c}}
	sC := &demoSender{peers: []identity.AgentID{b, d}}
	sD := &demoSender{peers: []identity.AgentID{c}}
	fB := NewFlooder(DefaultFloodConfig(), b, mgrB, sB)
	defer fB.Stop()
	fC := NewFlooder(DefaultFloodConfig(), c, mgrC, sC)
	defer fC.Stop()
	fD := NewFlooder(DefaultFloodConfig(), d, mgrD, sD)
	defer fD.Stop()

	routes := []protocol.Route{
		{AddressFamily: protocol.AddrFamilyAgent, PrefixLength: 0, Prefix: protocol.EncodeAgentPrefix(a), Metric: 0},
		{AddressFamily: protocol.AddrFamilyIPv4, PrefixLength: 8, Prefix: []byte{10, 0, 0, 0}, Metric: 0},
	}
	enc := &protocol.EncryptedData{Encrypted: false, Data: protocol.EncodePath([]identity.AgentID{a})}
	if !fB.HandleRouteAdvertise(a, a, "", 1, routes, enc, []identity.AgentID{a}) {
		t.Fatal("B rejected A's announcement")
	}

	relay := func(from identity.AgentID, s *demoSender, to identity.AgentID, f *Flooder) {
		t.Helper()
		n := 0
		for _, fr := range s.frames(to) {
			if fr.Type != protocol.FrameRouteAdvertise {
				continue
			}
			adv, err := protocol.DecodeRouteAdvertise(fr.Payload)
			if err != nil {
				t.Fatalf("decode: %v", err)
			}
			f.HandleRouteAdvertise(from, adv.OriginAgent, adv.OriginDisplayName, adv.Sequence, adv.Routes, adv.EncPath, adv.SeenBy)
			n++
		}
		if n == 0 {
			t.Fatalf("nothing relayed to %s", to.ShortString())
		}
	}
	relay(b, sB, c, fC)
	relay(c, sC, d, fD)

	check := func(name string, m *routing.Manager, hops int) {
		t.Helper()
		ar := m.LookupAgent(a)
		if ar == nil {
			t.Fatalf("%s: no agent presence route for A", name)
		}
		if len(ar.Path) != hops || int(ar.Metric) != len(ar.Path) {
			t.Errorf("%s: agent presence route metric=%d path len=%d want both %d", name, ar.Metric, len(ar.Path), hops)
		}
		all := m.Table().GetAllRoutes()
		if len(all) == 0 {
			t.Fatalf("%s: no CIDR route", name)
		}
		for _, r := range all {
			if int(r.Metric) != len(r.Path) || len(r.Path) != hops {
				t.Errorf("%s: CIDR route metric=%d path len=%d want both %d", name, r.Metric, len(r.Path), hops)
			}
		}
	}
	check("B", mgrB, 1)
	check("C", mgrC, 2)
	check("D", mgrD, 3)
}
