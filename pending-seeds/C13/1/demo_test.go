package routing

import (
	"net"
	"testing"

	"github.com/postalsys/muti-metroo/internal/identity"
)

// Two exits advertise the same prefix. Exit A is first nearer (2 hops) than
// exit B (3 hops); then the topology changes and A's refreshed announcement
// (newer sequence) arrives over a 4-hop path. The nearer exit B must now win.
func TestMutationDemoStaleOrderAfterRefresh(t *testing.T) {
	local, _ := identity.NewAgentID()
	a, _ := identity.NewAgentID()
	b, _ := identity.NewAgentID()
	p1, _ := identity.NewAgentID()
	p2, _ := identity.NewAgentID()
	x, _ := identity.NewAgentID()
	y, _ := identity.NewAgentID()

	m := NewManager(local)
	_, network, _ := net.ParseCIDR("10.9.0.0/16")

	// A at 2 hops via p1: path p1, a ; sender metric 1 -> stored 2
	m.ProcessRouteAdvertise(p1, a, 1, []RouteEntry{{Network: network, Metric: 1}}, []identity.AgentID{p1, a}, nil)
	// B at 3 hops via p2
	m.ProcessRouteAdvertise(p2, b, 1, []RouteEntry{{Network: network, Metric: 2}}, []identity.AgentID{p2, x, b}, nil)

	r := m.Lookup(net.ParseIP("10.9.1.1"))
	if r == nil || r.OriginAgent != a {
		t.Fatalf("setup: expected exit A first, got %v", r)
	}

	// A now reachable only over 4 hops (newer sequence)
	m.ProcessRouteAdvertise(p2, a, 2, []RouteEntry{{Network: network, Metric: 3}}, []identity.AgentID{p2, x, y, a}, nil)

	r = m.Lookup(net.ParseIP("10.9.1.1"))
	if r == nil {
		t.Fatal("no route")
	}
	if int(r.Metric) != len(r.Path) {
		t.Fatalf("metric %d != hops %d", r.Metric, len(r.Path))
	}
	if r.OriginAgent != b || r.Metric != 3 {
		t.Fatalf("nearer exit B (3 hops) must be preferred, got origin=%s metric=%d", r.OriginAgent.ShortString(), r.Metric)
	}
}
