// Package wcrash is the simulated world W-crash (C34): identity creation and
// sleep-state saves of the real internal/identity and internal/sleep packages
// run on real files behind the simfs seam; the process is killed at EVERY
// mutating filesystem primitive of a drawn scenario, each crash is followed by
// a restart on the surviving directory, and in some runs the recovery itself
// is killed at every one of its primitives too.
package wcrash

import (
	"encoding/hex"
	"fmt"
	"os"
	"path/filepath"
	"strings"
	"testing"
	"time"

	"golang.org/x/crypto/curve25519"

	"github.com/postalsys/muti-metroo/internal/config"
	"github.com/postalsys/muti-metroo/internal/identity"
	"github.com/postalsys/muti-metroo/internal/sleep"
	"github.com/postalsys/muti-metroo/internal/verifrt/simfs"
	"github.com/postalsys/muti-metroo/internal/verifrt/simrt"
	"github.com/postalsys/muti-metroo/internal/verifsim/hc"
)

func TestWorld(t *testing.T) {
	hc.Main(t, &hc.World{
		Name:         "W-crash",
		Run:          run,
		PreemptMeans: []int{0, 3, 20},
		MaxSteps:     5_000_000,
		MaxSimTime:   12 * time.Hour,
	})
}

func run(prop string) {
	switch prop {
	case "C34":
		runC34()
	default:
		panic("W-crash does not decide " + prop)
	}
}

// ---- scenario ---------------------------------------------------------------

const (
	opSleep   = iota // Manager.Sleep
	opWake           // Manager.Wake
	opPoll           // Manager.Poll (SLEEPING -> POLLING -> SLEEPING, one save)
	opBump           // NextCommandID: changes what the next save writes
	opRestart        // Manager.Stop (a save), then a new Manager on the same directory
	opToggle         // Sleep if awake, else Wake (used by the recovery)
	opStop           // Manager.Stop (a save); always the last operation
)

var opNames = []string{"Sleep", "Wake", "Poll", "Bump", "StopRestart", "Toggle", "Stop"}

const (
	dirEmpty    = iota // data dir exists and is empty
	dirMissing         // data dir (two levels) does not exist yet
	dirComplete        // a complete identity (id + key pair) is already stored
	dirIDOnly          // only the agent id is stored
	dirStaleTmp        // leftovers of an earlier crash: partial *.tmp files
)

var dirNames = []string{"empty", "missing", "complete-identity", "id-only", "stale-tmp"}

type scenario struct {
	dirMode   int
	stateMode int // 0 no state file, 1 AWAKE saved, 2 SLEEPING saved
	preSeq    int // command ids issued before the pre-existing state was saved
	ops       []int
	double    bool
}

// tuple is what a start loads from the state file, reduced to what does not
// depend on the (fake) wall clock.
type tuple struct {
	State    sleep.State
	Seq      uint64
	HasSleep bool
	HasPoll  bool
	LoadErr  bool
}

func (t tuple) String() string {
	return fmt.Sprintf("{%s seq=%d sleepStart=%v lastPoll=%v loadErr=%v}", stName(t.State), t.Seq, t.HasSleep, t.HasPoll, t.LoadErr)
}

func (t tuple) same(o tuple) bool {
	return t.State == o.State && t.Seq == o.Seq && t.HasSleep == o.HasSleep && t.HasPoll == o.HasPoll
}

func stName(s sleep.State) string {
	switch s {
	case sleep.StateAwake:
		return "AWAKE"
	case sleep.StateSleeping:
		return "SLEEPING"
	case sleep.StatePolling:
		return "POLLING"
	}
	return fmt.Sprintf("STATE(%d)", uint8(s))
}

var sleepCfg = config.SleepConfig{
	Enabled:           true,
	PollInterval:      time.Hour, // the poll timer never fires by itself in this world
	PollDuration:      time.Millisecond,
	PersistState:      true,
	MaxQueuedMessages: 4,
}

// observe returns what a start would load from dir right now (read-only).
func observe(dir string) tuple {
	m := sleep.NewManager(sleepCfg, dir, nil)
	err := m.LoadState()
	st := m.GetStatus()
	return tuple{
		State:    st.State,
		Seq:      m.NextCommandID() - 1,
		HasSleep: !st.SleepStartTime.IsZero(),
		HasPoll:  !st.LastPollTime.IsZero(),
		LoadErr:  err != nil && !os.IsNotExist(err),
	}
}

// ---- one process incarnation ------------------------------------------------

type life struct {
	crashed bool
	stage   string // "id", "key", "sleep"
	opIndex int    // operation in progress when the process died (stage "sleep")
	err     error  // a start-up function returned an error
	errAt   string

	idDone, kpDone bool
	id             identity.AgentID
	kp             identity.Keypair

	loaded tuple   // what this start loaded from the state file
	after  []tuple // fault-free runs: what a start would load after each operation

	prims []simfs.Prim
	n     int
}

// runLife is one process lifetime on dir: the start-up calls agent.New makes
// (identity.LoadOrCreate, identity.LoadOrCreateKeypair), then a sleep.Manager
// (Start = LoadState) performing ops. crashAt < 0: no crash.
func runLife(dir string, ops []int, crashAt int, wantAfter bool) (r *life) {
	r = &life{opIndex: -1}
	var mgr *sleep.Manager
	stopCalled := false
	simfs.Begin(crashAt)
	defer func() {
		x := recover()
		r.prims = simfs.Trace()
		r.n = simfs.Count()
		if x != nil {
			if !simfs.IsCrash(x) {
				panic(x)
			}
			r.crashed = true
			// the process is dead: unwind what is left of it (timers, the
			// manager's goroutine); every filesystem call it still makes aborts
			if mgr != nil && !stopCalled {
				func() {
					defer func() {
						if y := recover(); y != nil && !simfs.IsCrash(y) {
							panic(y)
						}
					}()
					mgr.Stop()
				}()
			}
		}
		simfs.Begin(-1)
	}()

	r.stage = "id"
	id, _, err := identity.LoadOrCreate(dir)
	if err != nil {
		r.err, r.errAt = err, "identity.LoadOrCreate"
		return r
	}
	r.id, r.idDone = id, true

	r.stage = "key"
	kp, _, err := identity.LoadOrCreateKeypair(dir)
	if err != nil {
		r.err, r.errAt = err, "identity.LoadOrCreateKeypair"
		return r
	}
	r.kp, r.kpDone = *kp, true

	r.stage = "sleep"
	r.loaded = observe(dir)
	newMgr := func() {
		mgr = sleep.NewManager(sleepCfg, dir, nil)
		stopCalled = false
		if err := mgr.Start(); err != nil {
			r.err, r.errAt = err, "sleep.Manager.Start"
		}
	}
	newMgr()
	if r.err != nil {
		return r
	}
	if mgr.GetState() != r.loaded.State {
		panic("observe() and Manager.Start disagree about the loaded state")
	}
	for j, op := range ops {
		r.opIndex = j
		switch op {
		case opSleep:
			mgr.Sleep()
		case opWake:
			mgr.Wake()
		case opPoll:
			mgr.Poll()
		case opBump:
			mgr.NextCommandID()
		case opToggle:
			if mgr.GetState() == sleep.StateAwake {
				mgr.Sleep()
			} else {
				mgr.Wake()
			}
		case opRestart:
			stopCalled = true
			mgr.Stop()
			newMgr()
			if r.err != nil {
				return r
			}
		case opStop:
			stopCalled = true
			mgr.Stop()
		}
		if wantAfter {
			r.after = append(r.after, observe(dir))
		}
	}
	if !stopCalled {
		stopCalled = true
		mgr.Stop()
	}
	return r
}

// ---- helpers on real files (harness side, not through simfs) ----------------

func copyDir(src, dst string) {
	must(os.MkdirAll(dst, 0o700))
	ents, err := os.ReadDir(src)
	if err != nil {
		if os.IsNotExist(err) {
			return
		}
		panic(err)
	}
	for _, e := range ents {
		s, d := filepath.Join(src, e.Name()), filepath.Join(dst, e.Name())
		if e.IsDir() {
			copyDir(s, d)
			continue
		}
		b, err := os.ReadFile(s)
		must(err)
		fi, err := e.Info()
		must(err)
		must(os.WriteFile(d, b, fi.Mode().Perm()))
	}
}

func must(err error) {
	if err != nil {
		panic(err)
	}
}

// stored is the identity that is durably in place in the data directory: the
// documented files agent_id and agent_key, if present with complete content.
type stored struct {
	id   *identity.AgentID
	priv *[32]byte
}

func readStored(dir string) stored {
	var s stored
	if b, err := os.ReadFile(filepath.Join(dir, "agent_id")); err == nil {
		if raw, err := hex.DecodeString(strings.TrimSpace(string(b))); err == nil && len(raw) == 16 {
			var id identity.AgentID
			copy(id[:], raw)
			s.id = &id
		}
	}
	if b, err := os.ReadFile(filepath.Join(dir, "agent_key")); err == nil {
		if raw, err := hex.DecodeString(strings.TrimSpace(string(b))); err == nil && len(raw) == 32 {
			var k [32]byte
			copy(k[:], raw)
			s.priv = &k
		}
	}
	return s
}

func listing(dir string) string {
	ents, _ := os.ReadDir(dir)
	var out []string
	for _, e := range ents {
		sz := int64(-1)
		if fi, err := e.Info(); err == nil {
			sz = fi.Size()
		}
		out = append(out, fmt.Sprintf("%s(%d)", e.Name(), sz))
	}
	return strings.Join(out, " ")
}

func primDesc(p simfs.Prim) string {
	switch p.Kind {
	case "rename":
		return fmt.Sprintf("rename(%s->%s)", filepath.Base(p.Path), filepath.Base(p.Path2))
	case "open-trunc":
		return fmt.Sprintf("open-trunc(%s,was %d bytes)", filepath.Base(p.Path), p.Truncated)
	case "write":
		return fmt.Sprintf("write(%s,%d bytes)", filepath.Base(p.Path), p.Bytes)
	}
	return fmt.Sprintf("%s(%s)", p.Kind, filepath.Base(p.Path))
}

// ---- the oracle -------------------------------------------------------------

type checker struct {
	what string // "crash" or "double-crash", for details
}

// checkRestart applies the C34 oracle to a fault-free start `rr` on a
// directory that survived a crash. before = identity durably stored when the
// restart began (possibly several snapshots: after the first and after the
// second crash); prev = the incarnation that died; allowed = sleep states the
// statement allows.
func checkRestart(ctx string, dir string, rr *life, befores []stored, prev *life, allowed []tuple) {
	if rr.crashed {
		panic("restart crashed although no crash was armed")
	}
	if rr.err != nil {
		simrt.Failf("restart-failed", rr.errAt+" fails after a crash", "%s: %v; files: %s", ctx, rr.err, listing(dir))
	}
	var derived [32]byte
	pub, err := curve25519.X25519(rr.kp.PrivateKey[:], curve25519.Basepoint)
	must(err)
	copy(derived[:], pub)
	if derived != rr.kp.PublicKey {
		simrt.Failf("keypair-inconsistent", "public key does not match private key after restart", "%s; files: %s", ctx, listing(dir))
	}
	for _, b := range befores {
		if b.priv != nil && *b.priv != rr.kp.PrivateKey {
			simrt.Failf("private-key-replaced", "stored private key silently replaced by the next start", "%s; files after restart: %s", ctx, listing(dir))
		}
		if b.id != nil && *b.id != rr.id {
			simrt.Failf("agent-id-replaced", "stored agent id silently replaced by the next start", "%s; files after restart: %s", ctx, listing(dir))
		}
	}
	if prev != nil {
		if prev.idDone && prev.id != rr.id {
			simrt.Failf("agent-id-replaced", "agent id returned by a completed start differs after restart", "%s", ctx)
		}
		if prev.kpDone && prev.kp.PrivateKey != rr.kp.PrivateKey {
			simrt.Failf("private-key-replaced", "key pair returned by a completed start differs after restart", "%s", ctx)
		}
	}
	ok := false
	for _, a := range allowed {
		if rr.loaded.same(a) {
			ok = true
		}
	}
	if !ok {
		stateOK := false
		for _, a := range allowed {
			if a.State == rr.loaded.State {
				stateOK = true
			}
		}
		sig := "loaded=" + stName(rr.loaded.State)
		for i, a := range allowed {
			sig += fmt.Sprintf(" %s=%s", []string{"before", "after"}[i%2], stName(a.State))
		}
		if stateOK {
			sig = "record (command_seq / timestamps) of neither save"
		}
		simrt.Failf("sleep-state-neither-before-nor-after", sig, "%s: loaded %v, allowed %v; files: %s", ctx, rr.loaded, allowed, listing(dir))
	}
	simrt.Probe("restart_ok")
	// the identity the restart settled on is stable across one more start
	id3, _, err := identity.LoadOrCreate(dir)
	if err != nil || id3 != rr.id {
		simrt.Failf("identity-unstable", "second start after the crash yields another agent id", "%s: err=%v", ctx, err)
	}
	kp3, _, err := identity.LoadOrCreateKeypair(dir)
	if err != nil || kp3.PrivateKey != rr.kp.PrivateKey || kp3.PublicKey != rr.kp.PublicKey {
		simrt.Failf("identity-unstable", "second start after the crash yields another key pair", "%s: err=%v", ctx, err)
	}
}

// allowedFor returns the sleep states the statement allows after `dead` died,
// given the fault-free reference run `ref` of the same operations.
func allowedFor(ref, dead *life) []tuple {
	if dead.stage != "sleep" || dead.opIndex < 0 {
		return []tuple{ref.loaded} // no save was in progress
	}
	before := ref.loaded
	if dead.opIndex > 0 {
		before = ref.after[dead.opIndex-1]
	}
	return []tuple{before, ref.after[dead.opIndex]}
}

func crashProbes(dead *life, killed simfs.Prim) {
	if dead.n == 0 {
		simrt.Probe("crash_before_first_primitive")
	}
	switch dead.stage {
	case "id", "key":
		simrt.Probe("crash_in_identity_creation")
	case "sleep":
		simrt.Probe("crash_in_sleep_save")
	}
	renamedPriv, renamedPub := false, false
	for _, p := range dead.prims {
		if p.Kind == "rename" && p.Base() == "agent_key" {
			renamedPriv = true
		}
		if p.Kind == "rename" && p.Base() == "agent_key.pub" {
			renamedPub = true
		}
	}
	if renamedPriv && !renamedPub {
		simrt.Probe("crash_between_key_renames")
	}
	if dead.n > 0 {
		last := dead.prims[dead.n-1]
		if last.Kind == "open-trunc" || last.Kind == "open-create" {
			simrt.Probe("crash_after_truncate")
			if last.Kind == "open-trunc" && last.Truncated > 0 && last.Base() == "sleep_state.json" {
				simrt.Probe("crash_state_file_truncated_in_place")
			}
		}
		if last.Kind == "write" && killed.Kind == "rename" {
			simrt.Probe("crash_between_write_and_rename")
		}
		if last.Kind == "mkdir" {
			simrt.Probe("crash_after_mkdir")
		}
	}
}

// ---- the run ------------------------------------------------------------------

func runC34() {
	base := ""
	if fi, err := os.Stat("/dev/shm"); err == nil && fi.IsDir() {
		base = "/dev/shm"
	}
	root, err := os.MkdirTemp(base, "verif-wcrash-")
	must(err)
	defer os.RemoveAll(root)
	defer simfs.Begin(-1)

	// scenario: everything is drawn up front
	sc := scenario{
		dirMode:   simrt.Choose(5, "dir"),
		stateMode: simrt.Choose(3, "state"),
		preSeq:    simrt.Choose(4, "preseq"),
		double:    simrt.Chance(1, 4, "double"),
	}
	nOps := 1 + simrt.Choose(5, "nops")
	for i := 0; i < nOps; i++ {
		sc.ops = append(sc.ops, simrt.Choose(5, "op")) // Sleep, Wake, Poll, Bump, StopRestart
	}
	sc.ops = append(sc.ops, opStop)
	recovery := []int{opToggle, opStop}
	opList := ""
	for _, o := range sc.ops {
		opList += " " + opNames[o]
	}
	simrt.Eventf("C34 dir=%s state=%d preseq=%d double=%v ops:%s", dirNames[sc.dirMode], sc.stateMode, sc.preSeq, sc.double, opList)

	// template directory with the pre-existing files (built fault-free)
	rel := "data"
	if sc.dirMode == dirMissing {
		rel = filepath.Join("data", "agent")
	}
	tmpl := filepath.Join(root, "tmpl")
	must(os.MkdirAll(tmpl, 0o700))
	tdata := filepath.Join(tmpl, rel)
	simfs.Begin(-1)
	if sc.dirMode != dirMissing {
		must(os.MkdirAll(tdata, 0o700))
	}
	switch sc.dirMode {
	case dirComplete:
		_, _, err := identity.LoadOrCreate(tdata)
		must(err)
		_, _, err = identity.LoadOrCreateKeypair(tdata)
		must(err)
	case dirIDOnly:
		_, _, err := identity.LoadOrCreate(tdata)
		must(err)
	case dirStaleTmp:
		simrt.Probe("stale_tmp_files_present")
		must(os.WriteFile(filepath.Join(tdata, "agent_id.tmp"), []byte("0123abc"), 0o600))
		must(os.WriteFile(filepath.Join(tdata, "agent_key.tmp"), nil, 0o600))
		must(os.WriteFile(filepath.Join(tdata, "agent_key.pub.tmp"), []byte("zz-not-hex\n"), 0o644))
		must(os.WriteFile(filepath.Join(tdata, "sleep_state.json.tmp"), []byte("{\"state\": 1,"), 0o600))
	}
	if sc.stateMode != 0 && sc.dirMode != dirMissing {
		m := sleep.NewManager(sleepCfg, tdata, nil)
		for i := 0; i < sc.preSeq; i++ {
			m.NextCommandID()
		}
		must(m.Sleep())
		if sc.stateMode == 1 {
			must(m.Wake())
		}
		// no Start was called: nothing to stop but the poll timer
		m.Stop()
	}

	nextDir := 0
	fresh := func(from string) (top, data string) {
		nextDir++
		top = filepath.Join(root, fmt.Sprintf("r%d", nextDir))
		copyDir(from, top)
		return top, filepath.Join(top, rel)
	}

	// 1. fault-free reference run: counts the primitives and records, after
	// every operation, what a start would load
	top, data := fresh(tmpl)
	ref := runLife(data, sc.ops, -1, true)
	if ref.crashed || ref.err != nil {
		simrt.Failf("start-failed", "fault-free start fails", "%v at %s", ref.err, ref.errAt)
	}
	n := ref.n
	simrt.Eventf("fault-free run: %d mutating primitives, loaded %v", n, ref.loaded)
	for i, p := range ref.prims {
		simrt.Eventf("  prim %d: %s", i, primDesc(p))
	}
	simrt.ProbeN("crash_points", int64(n))
	os.RemoveAll(top)

	// 2. one crash run per primitive, each followed by a restart
	for k := 0; k < n; k++ {
		top, data := fresh(tmpl)
		dead := runLife(data, sc.ops, k, false)
		if !dead.crashed {
			panic(fmt.Sprintf("crash index %d of %d was not reached (err=%v): the scenario is not reproducible", k, n, dead.err))
		}
		killed := ref.prims[k]
		crashProbes(dead, killed)
		allowed := allowedFor(ref, dead)
		st := readStored(data)
		ctx := fmt.Sprintf("crash at primitive %d/%d (%s not performed; stage %s op %d)", k, n, primDesc(killed), dead.stage, dead.opIndex)
		simrt.Eventf("%s: survivors: %s storedID=%v storedKey=%v", ctx, listing(data), st.id != nil, st.priv != nil)

		var snap string
		if sc.double {
			snap = filepath.Join(root, fmt.Sprintf("snap%d", k))
			copyDir(top, snap)
		}
		rr := runLife(data, recovery, -1, true)
		checkRestart(ctx, data, rr, []stored{st}, dead, allowed)
		os.RemoveAll(top)

		if !sc.double {
			continue
		}
		// 3. second crash: kill the recovery at each of its primitives, restart again
		n2 := rr.n
		simrt.ProbeN("double_crash_points", int64(n2))
		for k2 := 0; k2 < n2; k2++ {
			top2, data2 := fresh(snap)
			dead2 := runLife(data2, recovery, k2, false)
			if !dead2.crashed {
				panic(fmt.Sprintf("second crash index %d of %d was not reached", k2, n2))
			}
			crashProbes(dead2, rr.prims[k2])
			st2 := readStored(data2)
			ctx2 := fmt.Sprintf("%s, then recovery killed at its primitive %d/%d (%s not performed; stage %s op %d)", ctx, k2, n2, primDesc(rr.prims[k2]), dead2.stage, dead2.opIndex)
			rr2 := runLife(data2, recovery, -1, false)
			prev := *dead2
			if dead.idDone && !prev.idDone {
				prev.idDone, prev.id = true, dead.id
			}
			if dead.kpDone && !prev.kpDone {
				prev.kpDone, prev.kp = true, dead.kp
			}
			checkRestart(ctx2, data2, rr2, []stored{st, st2}, &prev, allowedFor(rr, dead2))
			os.RemoveAll(top2)
		}
		os.RemoveAll(snap)
	}
}
