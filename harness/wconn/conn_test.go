package wconn

import (
	"context"
	"encoding/binary"
	"errors"
	"fmt"
	"io"
	"net"
	"time"

	"github.com/postalsys/muti-metroo/internal/config"
	"github.com/postalsys/muti-metroo/internal/peer"
	"github.com/postalsys/muti-metroo/internal/verifrt/simnet"
	"github.com/postalsys/muti-metroo/internal/verifrt/simrt"
	"github.com/postalsys/muti-metroo/internal/verifrt/simtransport"
	. "github.com/postalsys/muti-metroo/internal/verifsim/meshkit"
)

// world is one drawn deployment: a chain n0 - n1 - ... ; the pair under test is
// (n0, n1) = (A, B); the last node is the exit that serves the tunnel target.
type world struct {
	m      *Mesh
	n      int
	exit   int
	iv     time.Duration
	ttl    time.Duration
	idle   time.Duration
	kto    time.Duration
	kjit   float64
	rcInit time.Duration
	rcMax  time.Duration
	rcJit  float64
	mutual bool
	mon    *monitor
	dest   string

	// dial fault state (A-B pair), consumed by the DialFault hook
	failLeft    map[string]int // dialing node name -> attempts still to fail
	resetOnDial bool
	dialsAB     int

	born map[int]time.Duration // link id -> simulated instant of its creation

	tun tunnelState
}

const (
	nA = 0
	nB = 1
)

func ensureListener(nd *Node) (string, string) {
	if len(nd.Cfg.Listeners) > 0 {
		lc := nd.Cfg.Listeners[0]
		return lc.Transport, lc.Address
	}
	addr := fmt.Sprintf("%s:%d", nd.IP, 4000)
	nd.Cfg.Listeners = append(nd.Cfg.Listeners, config.ListenerConfig{Transport: "ws", Address: addr, PlainText: true, Path: "/mesh"})
	return "ws", addr
}

func drawWorld() *world {
	w := &world{failLeft: map[string]int{}, born: map[int]time.Duration{}}
	w.n = 2 + simrt.Choose(3, "n")
	w.m = NewMesh(w.n, "chain")
	m := w.m
	prevOnLink := m.Net.OnLink
	m.Net.OnLink = func(l *simnet.Link) {
		if prevOnLink != nil {
			prevOnLink(l)
		}
		w.born[l.ID] = simrt.Elapsed()
	}
	w.exit = w.n - 1
	w.iv = []time.Duration{5 * time.Second, 20 * time.Second}[simrt.Choose(2, "advint")]
	w.ttl = 5 * w.iv
	if w.ttl < time.Minute {
		w.ttl = time.Minute
	}
	w.idle = []time.Duration{10 * time.Second, 5 * time.Second, 20 * time.Second}[simrt.Choose(3, "idle")]
	w.kto = []time.Duration{5 * time.Second, 3 * time.Second, 10 * time.Second}[simrt.Choose(3, "kto")]
	w.kjit = []float64{0, 0.5, 0, 0.9}[simrt.Choose(4, "kjit")]
	w.rcInit = []time.Duration{time.Second, 100 * time.Millisecond, 300 * time.Millisecond}[simrt.Choose(3, "rcinit")]
	w.rcMax = []time.Duration{5 * time.Second, 10 * time.Second, 2 * time.Second}[simrt.Choose(3, "rcmax")]
	rcJit := []float64{0, 0.2, 0}[simrt.Choose(3, "rcjit")]
	w.rcJit = rcJit
	w.mutual = simrt.Chance(1, 2, "mutual")
	if pc := []int{0, 4096, 1024}[simrt.Choose(3, "pipecap")]; pc > 0 {
		m.Net.PipeCap = pc
	}
	for j, nd := range m.Nodes {
		nd.Cfg.Routing.AdvertiseInterval = w.iv
		nd.Cfg.Routing.RouteTTL = w.ttl
		nd.Cfg.Connections.IdleThreshold = w.idle
		nd.Cfg.Connections.Timeout = w.kto
		nd.Cfg.Connections.KeepaliveJitter = w.kjit
		nd.Cfg.Connections.Reconnect.InitialDelay = w.rcInit
		nd.Cfg.Connections.Reconnect.MaxDelay = w.rcMax
		nd.Cfg.Connections.Reconnect.Multiplier = 2
		nd.Cfg.Connections.Reconnect.Jitter = rcJit
		nd.Cfg.Exit.Enabled = true
		nd.Cfg.Exit.Routes = []string{fmt.Sprintf("10.%d.0.0/16", 100+j)}
	}
	// both ends of the pair under test can be dialled (raw duplicates, mutual dial)
	ensureListener(m.Nodes[nA])
	ensureListener(m.Nodes[nB])
	if w.mutual {
		e := m.Edges[0] // the edge between n0 and n1, [dialer, listener]
		d, l := m.Nodes[e[0]], m.Nodes[e[1]]
		tr, addr := ensureListener(d)
		l.Cfg.Peers = append(l.Cfg.Peers, config.PeerConfig{ID: d.IDHex, Transport: tr, Address: addr})
	}
	w.dest = fmt.Sprintf("10.%d.3.4:80", 100+w.exit)
	m.Net.ServeTCP(w.dest, EchoServer)
	simrt.Eventf("world n=%d edges=%v mutual=%v iv=%v idle=%v kto=%v kjit=%v rc=%v..%v/%v pipecap=%d", w.n, m.Edges, w.mutual, w.iv, w.idle, w.kto, w.kjit, w.rcInit, w.rcMax, rcJit, m.Net.PipeCap)
	return w
}

func (w *world) reg(x, p int) *peer.Connection {
	nd := w.m.Nodes[x]
	if nd.A == nil {
		return nil
	}
	return nd.A.VerifPeerManager().GetPeer(w.m.Nodes[p].ID)
}

// pairUp: both agents have registered the same open link for each other.
func (w *world) pairUp(x, y int) (*simnet.Link, bool) {
	cx, cy := w.reg(x, y), w.reg(y, x)
	if cx == nil || cy == nil || isClosed(cx) || isClosed(cy) {
		return nil, false
	}
	lx, ly := linkOf(cx), linkOf(cy)
	if lx == nil || lx != ly || lx.Dead() {
		return nil, false
	}
	return lx, true
}

func (w *world) hasRoute(x int, cidr string) bool {
	for _, r := range w.m.RoutesAt(x) {
		if r.Table == "cidr" && r.Key == cidr && r.Origin != w.m.Nodes[x].ID {
			return true
		}
	}
	return false
}

// chainUp: every adjacent pair is up and A holds a route to the exit prefix.
func (w *world) chainUp() bool {
	for i := 0; i+1 < w.n; i++ {
		if _, ok := w.pairUp(i, i+1); !ok {
			return false
		}
	}
	return w.hasRoute(nA, fmt.Sprintf("10.%d.0.0/16", 100+w.exit))
}

func (w *world) waitChainUp(limit time.Duration) bool {
	deadline := simrt.Elapsed() + limit
	for simrt.Elapsed() < deadline {
		if w.chainUp() {
			return true
		}
		simrt.Sleep(250 * time.Millisecond)
	}
	return w.chainUp()
}

func (w *world) settleBound() time.Duration {
	return 3*w.iv + w.rcMax + 2*w.kto + 10*time.Second
}

func (w *world) installDialHook() {
	a, b := w.m.Nodes[nA].Name, w.m.Nodes[nB].Name
	simtransport.Hooks().DialFault = func(from, to, addr string) error {
		if !((from == a && to == b) || (from == b && to == a)) {
			return nil
		}
		w.dialsAB++
		if w.failLeft[from] > 0 {
			w.failLeft[from]--
			simrt.Probe("c32_dial_fault")
			return errors.New("simulated dial failure")
		}
		if w.resetOnDial {
			// a dial between the pair while (at least) one side still has the old
			// connection registered: break the old link at this very instant
			for _, c := range []*peer.Connection{w.reg(nA, nB), w.reg(nB, nA)} {
				if c == nil || isClosed(c) {
					continue
				}
				if l := linkOf(c); l != nil && !l.Dead() {
					w.resetOnDial = false
					w.mon.faulted[l.ID] = true
					simrt.Eventf("fault: reset link %d at the instant %s dials %s", l.ID, from, to)
					simrt.Probe("c32_reset_while_duplicate_dial_in_flight")
					l.Reset()
					break
				}
			}
		}
		return nil
	}
}

func runC32() {
	w := drawWorld()
	m := w.m
	w.mon = newMonitor(w)
	w.mon.period = []time.Duration{500 * time.Millisecond, 200 * time.Millisecond, time.Second}[simrt.Choose(3, "pollperiod")]
	w.installDialHook()
	useTunnel := simrt.Chance(2, 3, "tunnel")
	episodes := 1 + simrt.Choose(3, "episodes")

	w.mon.start()
	m.StartAll()
	if w.mutual {
		simrt.Probe("c32_both_ends_configured_to_dial")
	}
	if !w.waitChainUp(90 * time.Second) {
		// liveness of connection establishment is not C32's subject
		simrt.Probe("c32_no_initial_convergence")
		simrt.Eventf("no initial convergence")
		w.finish()
		return
	}
	simrt.Eventf("chain up at %v", simrt.Elapsed())
	w.countDuplicates()
	// exactly one tunnel per run (stream ids restart on every new connection and
	// the handlers are keyed by bare stream id: a known defect of C16/C17), opened
	// either now or after a drawn episode, i.e. possibly over a reconnected pair
	tunnelAfter := -1
	if useTunnel {
		tunnelAfter = simrt.Choose(episodes+1, "tunnelafter")
	}
	if tunnelAfter == 0 {
		w.startTunnel()
	}
	simrt.Sleep(time.Duration(1+simrt.Choose(4, "lead")) * time.Second)

	for ep := 0; ep < episodes; ep++ {
		sc := simrt.Choose(12, "scenario")
		simrt.Eventf("episode %d scenario %d at %v", ep, sc, simrt.Elapsed())
		switch sc {
		case 0:
			simrt.Sleep(w.iv)
		case 1:
			w.scenarioReset()
		case 2:
			w.scenarioStall()
		case 3:
			w.scenarioRawDuplicate(ep)
		case 4:
			w.scenarioResetBurst()
		case 5:
			w.scenarioRawDuplicate(ep)
			w.scenarioReset()
		case 6, 7:
			w.scenarioTakeover(ep)
		case 8, 9:
			w.scenarioKeepaliveTakeover(ep)
		case 10, 11:
			w.scenarioSleepCycle()
		}
		// bounded settle; whether the pair reconnects is not C32's subject, what
		// holds on a surviving connection is (checked continuously by the monitor)
		if w.waitChainUp(w.settleBound()) {
			simrt.Probe("c32_settled_after_episode")
			simrt.Sleep(w.iv + time.Second)
		} else {
			simrt.Probe("c32_not_settled_after_episode")
		}
		w.countDuplicates()
		if tunnelAfter == ep+1 {
			w.startTunnel()
		}
	}
	// final: a connection that survived the last fault for the whole bound still
	// carries the routes learned over it and the tunnel opened over it
	w.failLeft = map[string]int{}
	w.resetOnDial = false
	if w.waitChainUp(w.settleBound()) {
		simrt.Sleep(2*w.iv + 2*time.Second)
		if w.chainUp() {
			simrt.Probe("c32_final_state_checked")
		}
	}
	if simrt.Chance(1, 4, "control") {
		w.controlMarker()
	}
	w.finish()
}

func (w *world) finish() {
	w.stopTunnel()
	w.mon.halt()
	w.m.StopAll()
}

// countDuplicates probes (at a quiescent instant) simultaneous dials and
// rejected duplicates between n0 and n1: a link of the pair, other than the
// registered one, that was created at the same instant as or later than the
// registered link and is dead although the registered link lives on, lost the
// registration race or was rejected as a duplicate.
func (w *world) countDuplicates() {
	a, b := w.m.Nodes[nA].Name, w.m.Nodes[nB].Name
	reg, up := w.pairUp(nA, nB)
	var pair []*simnet.Link
	for _, l := range w.m.Net.Links() {
		if l.Kind == "peer" && ((l.DialNode == a && l.AccNode == b) || (l.DialNode == b && l.AccNode == a)) {
			pair = append(pair, l)
		}
	}
	for i, l := range pair {
		for _, l2 := range pair[i+1:] {
			if w.born[l.ID] == w.born[l2.ID] && l.DialNode != l2.DialNode {
				simrt.Probe("c32_mutual_dial_race")
			}
		}
		if up && l != reg && w.born[l.ID] >= w.born[reg.ID] && l.Dead() {
			simrt.Probe("c32_duplicate_rejected")
		}
	}
	if len(pair) > 3 {
		simrt.Probe("c32_connection_churn_ge_4_links")
	}
}

// ---- scenarios -------------------------------------------------------------

func (w *world) drawDialFaults() {
	a, b := w.m.Nodes[nA].Name, w.m.Nodes[nB].Name
	w.failLeft[a] = simrt.Choose(4, "failA")
	w.failLeft[b] = simrt.Choose(4, "failB")
	w.resetOnDial = simrt.Chance(1, 3, "resetondial")
}

// (c) read error, then fast reconnect with a drawn number of failing dials
func (w *world) scenarioReset() {
	l, ok := w.pairUp(nA, nB)
	if !ok {
		simrt.Probe("c32_fault_skipped_pair_down")
		return
	}
	w.drawDialFaults()
	w.mon.faulted[l.ID] = true
	simrt.Eventf("fault: reset link %d (failA=%d failB=%d resetOnDial=%v)", l.ID, w.failLeft[w.m.Nodes[nA].Name], w.failLeft[w.m.Nodes[nB].Name], w.resetOnDial)
	simrt.Probe("c32_link_reset")
	l.Reset()
}

// (sleep cycle) an agent takes all of its connections down itself
// (peer.Manager.DisconnectAll, what entering sleep mode and the end of a poll
// window do) and brings them back (ReconnectAll, what waking up and the start
// of a poll window do) a drawn moment later, while its listeners stay open and
// its neighbours redial on their own. The connections that were registered when
// DisconnectAll started are deregistered before they are closed, by design;
// every connection registered afterwards is subject to all rules.
func (w *world) scenarioSleepCycle() {
	x := nB
	if simrt.Chance(1, 3, "sleeper-a") {
		x = nA
	}
	nd := w.m.Nodes[x]
	if nd.A == nil {
		return
	}
	pm := nd.A.VerifPeerManager()
	cs := pm.GetAllPeers()
	if len(cs) == 0 {
		simrt.Probe("c32_fault_skipped_pair_down")
		return
	}
	for _, c := range cs {
		w.mon.admin[c] = true
		if l := linkOf(c); l != nil {
			w.mon.faulted[l.ID] = true
		}
	}
	if len(cs) >= 2 {
		simrt.Probe("c32_sleep_cycle_with_two_peers")
	}
	// the close handshake of a connection can take a while (up to seconds with
	// the WebSocket transport): the agent is still inside DisconnectAll when the
	// first of its former peers dials back in
	slow := simrt.Chance(2, 3, "slow-close")
	if slow {
		delays := map[int]time.Duration{}
		for _, c := range cs {
			if l := linkOf(c); l != nil {
				delays[l.ID] = time.Duration(simrt.Choose(1500, "close-ms")) * time.Millisecond
			}
		}
		simtransport.SetCloseDelay(func(l *simnet.Link, side int) time.Duration { return delays[l.ID] })
		defer simtransport.SetCloseDelay(nil)
		simrt.Probe("c32_sleep_cycle_slow_close")
	}
	simrt.Eventf("sleep cycle at %s: %d connection(s) taken down (slow close: %v)", nd.Name, len(cs), slow)
	simrt.Probe("c32_sleep_cycle")
	var g simrt.Group
	g.Go("disconnect-all", func() {
		simrt.SetNode(nd.Name)
		pm.DisconnectAll()
	})
	g.Wait()
	if simrt.Chance(2, 3, "wake-gap") {
		simrt.Sleep(time.Duration(simrt.Choose(1500, "wake-gap-ms")) * time.Millisecond)
	}
	g.Go("reconnect-all", func() {
		simrt.SetNode(nd.Name)
		ctx, cancel := context.WithTimeout(context.Background(), 30*time.Second)
		defer cancel()
		pm.ReconnectAll(ctx)
	})
	g.Wait()
}

// several resets in a row, each a drawn short time after the pair came back
func (w *world) scenarioResetBurst() {
	k := 2 + simrt.Choose(3, "burst")
	for i := 0; i < k; i++ {
		w.scenarioReset()
		if !w.waitPairUp(w.settleBound()) {
			return
		}
		simrt.Sleep(time.Duration(simrt.Choose(1500, "burstgap")) * time.Millisecond)
	}
}

func (w *world) waitPairUp(limit time.Duration) bool {
	deadline := simrt.Elapsed() + limit
	for simrt.Elapsed() < deadline {
		if _, ok := w.pairUp(nA, nB); ok {
			return true
		}
		simrt.Sleep(100 * time.Millisecond)
	}
	_, ok := w.pairUp(nA, nB)
	return ok
}

// (b) keepalive teardown vs read error: one direction (or both) of the link is
// stalled past the keepalive bound; later the link is healed or reset
func (w *world) scenarioStall() {
	l, ok := w.pairUp(nA, nB)
	if !ok {
		simrt.Probe("c32_fault_skipped_pair_down")
		return
	}
	ca, cb := w.reg(nA, nB), w.reg(nB, nA)
	dirs := []int{0, 1, 2}[simrt.Choose(3, "stalldir")]
	w.mon.faulted[l.ID] = true
	w.mon.stalled[l.ID] = true
	if dirs == 2 {
		l.Stall(0)
		l.Stall(1)
	} else {
		l.Stall(dirs)
	}
	bound := w.idle + w.kto
	hold := []time.Duration{bound / 2, bound + w.idle, 3 * bound, 6 * bound}[simrt.Choose(4, "stallhold")]
	hold += time.Duration(simrt.Choose(1000, "stallnoise")) * time.Millisecond
	simrt.Eventf("fault: stall link %d dirs=%d for %v", l.ID, dirs, hold)
	simrt.Probe("c32_link_stalled")
	w.drawDialFaults()
	// watch for a teardown while the reader of that side is still blocked
	deadline := simrt.Elapsed() + hold
	seenA, seenB := false, false
	for simrt.Elapsed() < deadline {
		if !seenA && isClosed(ca) {
			seenA = true
			w.noteTeardownDuringStall(l, nA, dirs)
		}
		if !seenB && isClosed(cb) {
			seenB = true
			w.noteTeardownDuringStall(l, nB, dirs)
		}
		simrt.Sleep(250 * time.Millisecond)
	}
	newer := false
	if l2, ok := w.pairUp(nA, nB); ok && l2 != l {
		newer = true
	}
	if (seenA || seenB) && newer && !l.Dead() {
		// one side has not noticed yet: its disconnect notification for the old
		// connection comes after the peer reconnected
		simrt.Probe("c32_late_disconnect_after_reconnect")
	}
	if simrt.Chance(1, 2, "stallend") {
		simrt.Eventf("fault: reset stalled link %d", l.ID)
		l.Reset()
	} else {
		simrt.Eventf("fault: heal link %d", l.ID)
		l.Heal()
	}
}

func (w *world) noteTeardownDuringStall(l *simnet.Link, x, dirs int) {
	// direction toward x: dir 0 is dialer->acceptor
	toward := 0
	if l.DialNode == w.m.Nodes[x].Name {
		toward = 1
	}
	simrt.Eventf("teardown of link %d at %s during stall", l.ID, w.m.Nodes[x].Name)
	if dirs == 2 || dirs == toward {
		simrt.Probe("c32_keepalive_teardown_before_read_error")
	} else {
		simrt.Probe("c32_teardown_during_stall_other_side")
	}
}

// (a') a raw peer claims the identity of an agent that is connected to the target
func (w *world) scenarioRawDuplicate(ep int) {
	target, claimedIdx := nB, nA
	if simrt.Chance(1, 2, "rawtarget") {
		target, claimedIdx = nA, nB
	}
	if target == nB && w.n >= 3 && simrt.Chance(1, 2, "rawclaim") {
		claimedIdx = 2
	}
	pipelined := !simrt.Chance(1, 3, "rawseq")
	before := w.reg(target, claimedIdx)
	if before == nil || isClosed(before) {
		simrt.Probe("c32_fault_skipped_pair_down")
		return
	}
	k := ep
	name := fmt.Sprintf("rawdup%d", k)
	marker := [4]byte{10, 66, byte(k), 0}
	mkey := fmt.Sprintf("10.66.%d.0/24", k)
	claimed := w.m.Nodes[claimedIdx]
	w.mon.rawClaim[name] = claimedIdx
	simrt.Eventf("raw duplicate %s -> %s claiming %s pipelined=%v", name, w.m.Nodes[target].Name, claimed.Name, pipelined)
	rd := w.attachDup(target, name, claimed.ID, markerFrames(claimed.ID, k, marker), pipelined)
	simrt.Probe("c32_raw_duplicate_identity")
	simrt.Sleep(time.Duration(500+simrt.Choose(2000, "rawwait")) * time.Millisecond)
	after := w.reg(target, claimedIdx)
	if rd.dialErr != nil {
		simrt.Eventf("raw duplicate %s: dial error %v", name, rd.dialErr)
		w.mon.markerSkip[mkey] = true
		rd.close()
		return
	}
	simrt.Eventf("raw duplicate %s: ack=%v sent=%d link=%d", name, rd.gotAck, rd.sentOK, linkID(rd.link))
	if after != before || isClosed(before) {
		// the genuine connection went away meanwhile: the raw peer is then not a
		// duplicate but an impostor, which is outside this property
		simrt.Probe("c32_raw_not_a_duplicate")
		w.mon.markerSkip[mkey] = true
		rd.close()
		return
	}
	if rd.gotAck {
		simrt.Probe("c32_raw_duplicate_handshake_completed")
	}
	if rd.sentOK > 0 {
		simrt.Probe("c32_raw_duplicate_frames_sent")
	}
	// R2: nothing sent on the duplicate was processed
	if n := w.mon.rawSends[name]; n > 0 {
		simrt.Failf("duplicate-connection-served", "agent wrote post-handshake frames on a duplicate connection while the genuine one stayed registered",
			"%s wrote %d frames to %s (claims %s) on link %d; genuine link %d still registered", w.m.Nodes[target].Name, n, name, claimed.Name, linkID(rd.link), linkID(linkOf(before)))
	}
	for x := range w.m.Nodes {
		for _, r := range w.m.RoutesAt(x) {
			if r.Table == "cidr" && r.Key == mkey {
				simrt.Failf("rejected-duplicate-delivered-frames", "a route announced only on a rejected duplicate connection is in a route table", "%s holds %s", w.m.Nodes[x].Name, w.m.RouteStr(r))
			}
		}
	}
	// the duplicate is expected to have been closed by the agent
	if rd.remoteClosed {
		simrt.Probe("c32_raw_duplicate_closed_by_agent")
	}
	rd.close()
}

// reconnect of an identity in the very instant its old connection breaks: the
// genuine link is reset and, in the same simulated instant, a new connection
// presenting the same identity completes its handshake and announces a route.
// For the accepting agent this is an ordinary fast reconnect of that identity;
// the harness plays the reconnecting side so that it controls the instant.
func (w *world) scenarioTakeover(ep int) {
	// the pair recovers after a round only if the genuine peer redials, i.e. if
	// the target is the accepting end of the configured edge (or both dial)
	target := w.m.Edges[0][1]
	if simrt.Chance(1, 4, "tktarget") {
		target = w.m.Edges[0][0]
	}
	claimedIdx := nA + nB - target
	rounds := 1 + simrt.Choose(6, "tkrounds")
	for r := 0; r < rounds; r++ {
		l, ok := w.pairUp(nA, nB)
		if !ok {
			simrt.Probe("c32_fault_skipped_pair_down")
			return
		}
		// keep the genuine peer from redialling while the harness holds its identity
		w.failLeft[w.m.Nodes[claimedIdx].Name] = 1000
		k := ep*4 + r
		name := fmt.Sprintf("rawtk%d", k)
		marker := [4]byte{10, 68, byte(k), 0}
		claimed := w.m.Nodes[claimedIdx]
		w.mon.rawClaim[name] = claimedIdx
		w.mon.faulted[l.ID] = true
		order := simrt.Choose(4, "tkorder")
		simrt.Eventf("takeover: reset link %d and reconnect as %s to %s (raw %s) order=%d", l.ID, claimed.Name, w.m.Nodes[target].Name, name, order)
		simrt.Probe("c32_reconnect_in_same_instant_as_break")
		frames := markerFrames(claimed.ID, 20+k, marker)
		var rd *rawDup
		switch order {
		case 0: // break, then dial and greet
			l.Reset()
			rd = w.attachDup(target, name, claimed.ID, frames, true)
		case 1: // dial and greet while the break is being noticed
			var g simrt.Group
			g.Go("tk-reset", func() { l.Reset() })
			rd = w.attachDup(target, name, claimed.ID, frames, true)
			g.Wait()
		default: // transport connection established shortly before; the hello travels at the instant of the break
			rd = w.stageDup(target, name, claimed.ID)
			simrt.Sleep(time.Duration(1+simrt.Choose(50, "tkstage")) * time.Millisecond)
			if rd.dialErr == nil {
				if order == 2 {
					l.Reset()
					w.greetDup(rd, frames, true)
				} else {
					var g simrt.Group
					g.Go("tk-reset", func() { l.Reset() })
					w.greetDup(rd, frames, true)
					g.Wait()
				}
			}
		}
		simrt.Sleep(w.mon.period + time.Duration(100+simrt.Choose(1000, "tkhold"))*time.Millisecond)
		if c := w.reg(target, claimedIdx); c != nil && rd.link != nil && linkOf(c) == rd.link {
			simrt.Probe("c32_reconnected_connection_registered")
		}
		w.checkHeldConnectionRegistered(rd, target, claimedIdx)
		simrt.Eventf("takeover %s: ack=%v sent=%d link=%d; closing", name, rd.gotAck, rd.sentOK, linkID(rd.link))
		rd.close()
		w.failLeft[w.m.Nodes[claimedIdx].Name] = 0
		if r+1 < rounds && !w.waitPairUp(w.settleBound()) {
			return
		}
	}
}

// (b) keepalive teardown before any read error, with a reconnect of the same
// identity in that very instant. The agent X is made blind (the direction
// toward it is stalled with bytes in flight) and mute (the direction away from
// it is broken), so its keepalive loop is the first to notice, at its next
// tick, while its read loop is still blocked; the read loop reports the same
// connection a second time once the local close wakes it. At the predicted tick
// instant a new connection presenting the peer's identity says hello.
func (w *world) scenarioKeepaliveTakeover(ep int) {
	if w.kjit != 0 {
		// tick instants are not predictable with jitter
		w.scenarioTakeover(ep)
		return
	}
	x := w.m.Edges[0][1]
	// variant without any harness-played peer: the genuine dialer's first retry
	// is made to land on the keepalive tick (needs jitter-free backoff)
	genuine := w.rcJit == 0 && simrt.Chance(1, 2, "ktgenuine")
	if !genuine && simrt.Chance(1, 4, "kttarget") {
		x = w.m.Edges[0][0]
	}
	p := nA + nB - x
	l, ok := w.pairUp(nA, nB)
	if !ok {
		simrt.Probe("c32_fault_skipped_pair_down")
		return
	}
	cx := w.reg(x, p)
	if genuine {
		w.keepaliveTeardownWithGenuineRedial(l, x, p, cx)
		return
	}
	born, known := w.born[l.ID]
	if !known {
		return
	}
	toward, away := 0, 1 // dir 0 is dialer->acceptor
	if l.DialNode == w.m.Nodes[x].Name {
		toward, away = 1, 0
	}
	w.mon.faulted[l.ID] = true
	w.mon.stalled[l.ID] = true
	w.failLeft[w.m.Nodes[p].Name] = 1000
	w.failLeft[w.m.Nodes[x].Name] = 1000
	l.Stall(toward)
	simrt.Eventf("fault: stall link %d toward %s, waiting for bytes in flight", l.ID, w.m.Nodes[x].Name)
	deadline := simrt.Elapsed() + w.idle + w.iv + time.Second
	for l.H[toward].Buffered() == 0 && simrt.Elapsed() < deadline {
		simrt.Sleep(50 * time.Millisecond)
	}
	if l.H[toward].Buffered() == 0 || isClosed(cx) {
		simrt.Probe("c32_keepalive_scenario_abandoned")
		l.Reset()
		w.failLeft = map[string]int{}
		return
	}
	simrt.Eventf("fault: break link %d away from %s", l.ID, w.m.Nodes[x].Name)
	l.H[away].ResetWith(simnet.ErrReset)
	simrt.Probe("c32_link_blind_and_mute")
	// next keepalive tick of x on this connection
	now := simrt.Elapsed()
	k := (now-born)/w.idle + 1
	tick := born + k*w.idle
	if tick-now < 20*time.Millisecond {
		tick += w.idle
	}
	name := fmt.Sprintf("rawkt%d", ep)
	marker := [4]byte{10, 68, byte(100 + ep), 0}
	claimed := w.m.Nodes[p]
	w.mon.rawClaim[name] = p
	simrt.Sleep(tick - now - time.Duration(1+simrt.Choose(10, "ktstage"))*time.Millisecond)
	if isClosed(cx) {
		simrt.Probe("c32_keepalive_scenario_abandoned")
		l.Reset()
		w.failLeft = map[string]int{}
		return
	}
	rd := w.stageDup(x, name, claimed.ID)
	if d := tick - simrt.Elapsed(); d > 0 {
		simrt.Sleep(d)
	}
	simrt.Eventf("keepalive tick of %s on link %d expected now; reconnecting as %s (raw %s)", w.m.Nodes[x].Name, l.ID, claimed.Name, name)
	if rd.dialErr == nil {
		w.greetDup(rd, markerFrames(claimed.ID, 60+ep, marker), true)
	}
	simrt.Sleep(time.Millisecond)
	if isClosed(cx) {
		simrt.Probe("c32_keepalive_teardown_before_read_error")
		simrt.Probe("c32_keepalive_teardown_at_predicted_tick")
	}
	simrt.Sleep(w.mon.period + time.Duration(100+simrt.Choose(1000, "kthold"))*time.Millisecond)
	if c := w.reg(x, p); c != nil && rd.link != nil && linkOf(c) == rd.link {
		simrt.Probe("c32_reconnected_at_keepalive_teardown_registered")
	}
	w.checkHeldConnectionRegistered(rd, x, p)
	simrt.Eventf("keepalive takeover %s: ack=%v sent=%d link=%d; closing", name, rd.gotAck, rd.sentOK, linkID(rd.link))
	rd.close()
	l.Reset()
	w.failLeft = map[string]int{}
}

// R3a for a connection whose whole registered life may fall between two polls:
// the agent completed the handshake of rd's connection and still holds it open
// (it neither rejected nor closed it), so that connection is the agent's current
// connection to the identity; the identity must then be registered.
func (w *world) checkHeldConnectionRegistered(rd *rawDup, x, p int) {
	if rd.dialErr != nil || !rd.gotAck || !w.dupStillOpen(rd) {
		return
	}
	simrt.Probe("c32_reconnected_connection_still_open")
	c := w.reg(x, p)
	if c == nil {
		simrt.Failf("registration-lost-while-connection-open", "the registered connection of a peer was deregistered or replaced although it has not been closed",
			"%s completed the handshake with %s (as %s) on link %d and still holds that connection open, but no connection is registered for %s",
			w.m.Nodes[x].Name, rd.name, w.m.Nodes[p].Name, linkID(rd.link), w.m.Nodes[p].Name)
	}
	if linkOf(c) != rd.link {
		simrt.Probe("c32_two_open_connections_one_registered")
	}
}

// The agents-only variant of scenarioKeepaliveTakeover: x (the accepting end)
// is blind and mute on link l; the break is timed so that the dialling peer p,
// which notices it at once, makes its first retry exactly at x's next keepalive
// tick, i.e. in the instant in which x's keepalive loop and then its read loop
// report the old connection.
func (w *world) keepaliveTeardownWithGenuineRedial(l *simnet.Link, x, p int, cx *peer.Connection) {
	born, known := w.born[l.ID]
	if !known {
		return
	}
	toward, away := 0, 1
	if l.DialNode == w.m.Nodes[x].Name {
		toward, away = 1, 0
	}
	w.mon.faulted[l.ID] = true
	w.mon.stalled[l.ID] = true
	l.Stall(toward)
	simrt.Eventf("fault: stall link %d toward %s (genuine redial variant)", l.ID, w.m.Nodes[x].Name)
	deadline := simrt.Elapsed() + w.idle + w.iv + time.Second
	for l.H[toward].Buffered() == 0 && simrt.Elapsed() < deadline {
		simrt.Sleep(50 * time.Millisecond)
	}
	if l.H[toward].Buffered() == 0 || isClosed(cx) {
		simrt.Probe("c32_keepalive_scenario_abandoned")
		l.Reset()
		return
	}
	now := simrt.Elapsed()
	k := (now-born)/w.idle + 1
	tick := born + k*w.idle
	for tick-now < w.rcInit+20*time.Millisecond {
		tick += w.idle
	}
	simrt.Sleep(tick - w.rcInit - now)
	if isClosed(cx) {
		simrt.Probe("c32_keepalive_scenario_abandoned")
		l.Reset()
		return
	}
	w.failLeft = map[string]int{}
	simrt.Eventf("fault: break link %d away from %s; %s's first retry is due at its keepalive tick t=%v", l.ID, w.m.Nodes[x].Name, w.m.Nodes[p].Name, tick)
	l.H[away].ResetWith(simnet.ErrReset)
	simrt.Probe("c32_link_blind_and_mute")
	simrt.Sleep(w.rcInit + time.Millisecond)
	if isClosed(cx) {
		simrt.Probe("c32_keepalive_teardown_before_read_error")
		simrt.Probe("c32_keepalive_teardown_at_predicted_tick")
	}
	if l2, ok := w.pairUp(nA, nB); ok && l2 != l && w.born[l2.ID] == tick {
		simrt.Probe("c32_genuine_redial_registered_at_keepalive_teardown")
	}
	simrt.Sleep(w.mon.period + 100*time.Millisecond)
	l.Reset()
}

// controlMarker shows that the marker announcement used by the raw duplicates
// is one an agent does store when it arrives on a registered connection.
func (w *world) controlMarker() {
	rp, err := w.m.AttachRawPeer(nB, 7)
	if err != nil {
		return
	}
	marker := [4]byte{10, 67, 1, 0}
	for _, f := range markerFrames(rp.ID, 9, marker) {
		rp.Send(f)
	}
	simrt.Sleep(time.Second)
	for _, r := range w.m.RoutesAt(nB) {
		if r.Table == "cidr" && r.Key == "10.67.1.0/24" {
			simrt.Probe("c32_control_marker_accepted")
		}
	}
	rp.Close()
	simrt.Sleep(time.Second)
}

// ---- tunnel ------------------------------------------------------------------

type tunnelState struct {
	running bool
	stop    bool
	doneQ   simrt.WaitQ
	opens   int
}

type pathSnap struct {
	conns []*peer.Connection
	ok    bool
}

// snapPath captures the registered connection objects along A..exit (both
// directions) if every hop is up on one open, never-faulted link.
func (w *world) snapPath() pathSnap {
	var s pathSnap
	for i := 0; i+1 <= w.exit; i++ {
		l, ok := w.pairUp(i, i+1)
		if !ok || w.mon.faulted[l.ID] {
			return pathSnap{}
		}
		s.conns = append(s.conns, w.reg(i, i+1), w.reg(i+1, i))
	}
	s.ok = true
	return s
}

func sameSnap(a, b pathSnap) bool {
	if !a.ok || !b.ok || len(a.conns) != len(b.conns) {
		return false
	}
	for i := range a.conns {
		if a.conns[i] != b.conns[i] {
			return false
		}
	}
	return true
}

func (w *world) startTunnel() {
	w.tun.running = true
	simrt.GoNode("tunnel", w.m.Nodes[nA].Name, func() {
		defer func() {
			w.tun.running = false
			w.tun.doneQ.WakeAll()
		}()
		seq := uint64(0)
		for !w.tun.stop {
			// wait for a healthy path that has been up for a moment
			s0 := w.snapPath()
			if !s0.ok || !w.hasRoute(nA, fmt.Sprintf("10.%d.0.0/16", 100+w.exit)) {
				simrt.Sleep(500 * time.Millisecond)
				continue
			}
			ctx, cancel := context.WithTimeout(context.Background(), 10*time.Second)
			c, err := w.m.Nodes[nA].A.DialContext(ctx, "tcp", w.dest)
			cancel()
			if err != nil {
				// no second attempt: a half-opened tunnel may have left state
				// behind under its stream id (see the caveat above)
				simrt.Eventf("tunnel open failed: %v", err)
				simrt.Probe("c32_tunnel_open_failed")
				return
			}
			w.tun.opens++
			simrt.Eventf("tunnel %d open at %v", w.tun.opens, simrt.Elapsed())
			simrt.Probe("c32_tunnel_opened")
			if w.dialsAB > 1 {
				simrt.Probe("c32_tunnel_opened_over_later_connection")
			}
			sOpen := w.snapPath()
			if !sameSnap(s0, sOpen) {
				sOpen = pathSnap{}
			}
			for !w.tun.stop {
				seq++
				s1 := w.snapPath()
				err := ping(c, seq)
				s2 := w.snapPath()
				if err == nil {
					simrt.Probe("c32_tunnel_ping_ok")
					simrt.Sleep(time.Second)
					continue
				}
				if sameSnap(sOpen, s1) && sameSnap(s1, s2) {
					relay := map[string][2]int{}
					if w.n >= 3 {
						relay = w.m.Nodes[nB].A.VerifRelaySizes()
					}
					simrt.Failf("tunnel-broken-on-live-connection", "a tunnel stopped passing bytes although every connection it was opened over is still registered, open and was never faulted",
						"ping %d failed: %v; path connections unchanged since the tunnel was opened; relay sizes at n1: %v", seq, err, relay)
				}
				simrt.Eventf("tunnel %d broke at %v: %v", w.tun.opens, simrt.Elapsed(), err)
				simrt.Probe("c32_tunnel_broke_with_its_connection")
				break
			}
			c.Close()
			return // one tunnel per run
		}
	})
}

func (w *world) stopTunnel() {
	w.tun.stop = true
	for w.tun.running {
		w.tun.doneQ.ParkTimeout(30 * time.Second)
	}
}

func ping(c net.Conn, seq uint64) error {
	var msg [16]byte
	binary.BigEndian.PutUint64(msg[:8], 0x5a5a5a5a00000000|seq)
	binary.BigEndian.PutUint64(msg[8:], seq*2654435761)
	c.SetWriteDeadline(time.Now().Add(6 * time.Second))
	if _, err := c.Write(msg[:]); err != nil {
		return fmt.Errorf("write: %w", err)
	}
	var got [16]byte
	c.SetReadDeadline(time.Now().Add(6 * time.Second))
	if _, err := io.ReadFull(c, got[:]); err != nil {
		return fmt.Errorf("read: %w", err)
	}
	if got != msg {
		return fmt.Errorf("echo mismatch")
	}
	return nil
}
