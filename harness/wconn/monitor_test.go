package wconn

import (
	"fmt"
	"sort"
	"strings"
	"time"

	"github.com/postalsys/muti-metroo/internal/identity"
	"github.com/postalsys/muti-metroo/internal/peer"
	"github.com/postalsys/muti-metroo/internal/protocol"
	"github.com/postalsys/muti-metroo/internal/routing"
	"github.com/postalsys/muti-metroo/internal/verifrt/simnet"
	"github.com/postalsys/muti-metroo/internal/verifrt/simrt"
	. "github.com/postalsys/muti-metroo/internal/verifsim/meshkit"
)

// The monitor is the C32 oracle. It observes, from outside the agents:
//
//   - the wire (every frame written on every mesh link, with link id and
//     direction),
//   - at quiescent simulated instants ("polls"): each agent's peer manager
//     (which connection object is registered per neighbour identity, and whether
//     that connection has been closed), the four route tables, and the route-added
//     notifications of the routing manager's public Subscribe API.
//
// Rules (all written from the property statement):
//
//  R1  an agent never lists two connections for one identity, and never goes
//      back to sending post-handshake frames on a connection to an identity
//      after it has sent on another connection to that identity (it would be
//      holding two connections);
//  R2  a duplicate connection (same identity as a live registered one) never
//      delivers frames: see rawdup_test.go;
//  R3a the registration of identity P moves away from connection c only if c
//      has itself been closed;
//  R3b while one and the same open, never-faulted connection c is registered
//      for P, a route with next hop P that was seen under c (at an earlier
//      quiescent instant after c's registration, or added in this very window
//      by an announcement that travelled only over c) does not disappear -
//      except when it has not been refreshed for a route TTL (it may expire),
//      or a withdraw was sent.

type pairState struct {
	x, p      int
	conn      *peer.Connection
	link      *simnet.Link
	firstSeen time.Duration
	ev        map[string]bool
	evLast    map[string]time.Time // last refresh instant seen for the route
}

type advRec struct {
	at   time.Duration
	poll int
	link int
	to   int // receiving node
	from int // sending identity (node index)
	keys []string
}

type monitor struct {
	w     *world
	m     *Mesh
	pairs []*pairState

	nodeIdx  map[string]int            // node name -> index
	rawClaim map[string]int            // raw peer name -> node index whose identity it claims
	faulted  map[int]bool              // link ids stalled/reset by the harness
	admin    map[*peer.Connection]bool // connections the agent itself took out of its registry (DisconnectAll)
	stalled  map[int]bool              // link ids ever stalled

	lastSend map[[2]int]int
	retired  map[[2]int]map[int]bool
	rawSends map[string]int // post-handshake frames an agent wrote on a raw peer's link

	recent    []advRec    // announcements of the current and previous poll window
	withdraws map[int]int // receiver -> withdraw frames seen

	subs       []chan routing.RouteChange
	pollN      int
	t0         time.Time
	lastPollAt time.Time
	period     time.Duration
	stop       bool
	stopped    bool
	doneQ      simrt.WaitQ

	markerSkip map[string]bool
}

func newMonitor(w *world) *monitor {
	mon := &monitor{w: w, m: w.m,
		nodeIdx: map[string]int{}, rawClaim: map[string]int{}, faulted: map[int]bool{}, stalled: map[int]bool{},
		lastSend: map[[2]int]int{}, retired: map[[2]int]map[int]bool{}, rawSends: map[string]int{},
		withdraws: map[int]int{}, markerSkip: map[string]bool{}, admin: map[*peer.Connection]bool{},
	}
	for i, nd := range w.m.Nodes {
		mon.nodeIdx[nd.Name] = i
	}
	for i := 0; i+1 < len(w.m.Nodes); i++ {
		mon.pairs = append(mon.pairs, &pairState{x: i, p: i + 1, ev: map[string]bool{}, evLast: map[string]time.Time{}}, &pairState{x: i + 1, p: i, ev: map[string]bool{}, evLast: map[string]time.Time{}})
	}
	w.m.Tap.OnFrame = append(w.m.Tap.OnFrame, mon.onFrame)
	return mon
}

func isClosed(c *peer.Connection) bool {
	select {
	case <-c.Done():
		return true
	default:
		return false
	}
}

func linkOf(c *peer.Connection) *simnet.Link {
	if c == nil {
		return nil
	}
	if lc, ok := c.VerifPeerConn().(interface{ Link() *simnet.Link }); ok {
		return lc.Link()
	}
	return nil
}

func linkID(l *simnet.Link) int {
	if l == nil {
		return 0
	}
	return l.ID
}

// identity index at the far end of a frame: a real node, or the node whose
// identity a raw peer claims.
func (mon *monitor) identOf(name string) (int, bool) {
	if i, ok := mon.nodeIdx[name]; ok {
		return i, true
	}
	if i, ok := mon.rawClaim[name]; ok {
		return i, true
	}
	return -1, false
}

func cidrKey(r protocol.Route) string {
	switch r.AddressFamily {
	case protocol.AddrFamilyIPv4:
		if len(r.Prefix) >= 4 {
			return fmt.Sprintf("%d.%d.%d.%d/%d", r.Prefix[0], r.Prefix[1], r.Prefix[2], r.Prefix[3], r.PrefixLength)
		}
	}
	return ""
}

func (mon *monitor) onFrame(ev *FrameEvent) {
	if ev.Type == protocol.FramePeerHello || ev.Type == protocol.FramePeerHelloAck {
		return
	}
	x, ok := mon.nodeIdx[ev.From]
	if !ok {
		// written by a raw peer: only its announcements are recorded
		if ci, raw := mon.rawClaim[ev.From]; raw && ev.Type == protocol.FrameRouteAdvertise {
			if y, real := mon.nodeIdx[ev.To]; real {
				mon.noteAdvert(ev, ci, y)
			}
		}
		return
	}
	p, ok := mon.identOf(ev.To)
	if !ok {
		return
	}
	if _, raw := mon.rawClaim[ev.To]; raw {
		mon.rawSends[ev.To]++
	}
	// R1: send discipline
	key := [2]int{x, p}
	l := ev.Link.ID
	if mon.retired[key][l] {
		simrt.Failf("two-connections-in-use", "agent sends again on a connection after having sent on a newer connection to the same identity",
			"%s -> identity of n%d: frame type 0x%02x on link %d, although it had moved on to link %d", ev.From, p, ev.Type, l, mon.lastSend[key])
	}
	if last := mon.lastSend[key]; last != l {
		if last != 0 {
			if mon.retired[key] == nil {
				mon.retired[key] = map[int]bool{}
			}
			mon.retired[key][last] = true
		}
		mon.lastSend[key] = l
	}
	y, real := mon.nodeIdx[ev.To]
	if !real {
		return
	}
	switch ev.Type {
	case protocol.FrameRouteAdvertise:
		mon.noteAdvert(ev, x, y)
	case protocol.FrameRouteWithdraw:
		mon.withdraws[y]++
	}
}

// noteAdvert records an announcement written on ev.Link in the name of identity
// `from` toward node `to`.
func (mon *monitor) noteAdvert(ev *FrameEvent, from, to int) {
	adv, err := protocol.DecodeRouteAdvertise(ev.Payload)
	if err != nil {
		return
	}
	l := ev.Link.ID
	rec := advRec{at: simrt.Elapsed(), poll: mon.pollN, link: l, to: to, from: from}
	for _, r := range adv.Routes {
		if k := cidrKey(r); k != "" {
			rec.keys = append(rec.keys, k)
		}
	}
	mon.recent = append(mon.recent, rec)
}

func (mon *monitor) start() {
	for range mon.m.Nodes {
		mon.subs = append(mon.subs, nil)
	}
	simrt.Go("monitor", func() {
		// poll instants are offset from every round simulated instant so that
		// a poll observes a quiescent system
		simrt.Sleep(370 * time.Microsecond)
		for !mon.stop {
			mon.poll()
			simrt.Sleep(mon.period)
		}
		mon.stopped = true
		mon.doneQ.WakeAll()
	})
}

func (mon *monitor) halt() {
	mon.stop = true
	for !mon.stopped {
		mon.doneQ.ParkTimeout(mon.period + time.Second)
	}
}

func routeKey(m *Mesh, r RouteView) string {
	return r.Table + "|" + r.Key + "|" + m.NameOf(r.Origin)
}

func (mon *monitor) poll() {
	m := mon.m
	mon.pollN++
	now := simrt.Elapsed()
	if mon.t0.IsZero() {
		mon.t0 = time.Now().Add(-now)
		mon.lastPollAt = mon.t0
	}
	defer func() { mon.lastPollAt = time.Now() }()
	// forget announcements older than the previous window
	keep := mon.recent[:0]
	for _, r := range mon.recent {
		if r.poll >= mon.pollN-2 {
			keep = append(keep, r)
		}
	}
	mon.recent = keep

	for x, nd := range m.Nodes {
		if nd.A == nil || !nd.Running {
			continue
		}
		pm := nd.A.VerifPeerManager()
		// subscribe lazily (the routing manager exists once the agent is created)
		if mon.subs[x] == nil {
			ch := make(chan routing.RouteChange, 16384)
			nd.A.VerifRouteManager().Subscribe(ch)
			mon.subs[x] = ch
		}
		// (1) drain route-added notifications of this window
		var adds []*routing.Route
	drain:
		for {
			select {
			case rc := <-mon.subs[x]:
				if rc.Type == routing.RouteAdded && rc.Route != nil {
					adds = append(adds, rc.Route)
				}
			default:
				break drain
			}
		}
		// (0) registrations before the table snapshot
		before := map[int]*peer.Connection{}
		for _, st := range mon.pairs {
			if st.x == x {
				before[st.p] = pm.GetPeer(m.Nodes[st.p].ID)
			}
		}
		// R1: no identity listed twice
		all := pm.GetAllPeers()
		seen := map[identity.AgentID]bool{}
		for _, c := range all {
			if seen[c.RemoteID] {
				simrt.Failf("two-registered-connections", "peer manager lists two connections for one identity", "%s lists %s twice", nd.Name, m.NameOf(c.RemoteID))
			}
			seen[c.RemoteID] = true
		}
		// (2) route tables
		views := m.RoutesAt(x)
		for _, r := range views {
			if r.Table == "cidr" && strings.HasPrefix(r.Key, "10.66.") && !mon.markerSkip[r.Key] {
				simrt.Failf("rejected-duplicate-delivered-frames", "a route announced only on a rejected duplicate connection is in a route table",
					"%s holds %s", nd.Name, m.RouteStr(r))
			}
		}
		// (3) registrations after
		for _, st := range mon.pairs {
			if st.x != x {
				continue
			}
			pid := m.Nodes[st.p].ID
			c := pm.GetPeer(pid)
			if c != st.conn {
				// R3a
				if st.conn != nil && !isClosed(st.conn) && mon.admin[st.conn] {
					simrt.Probe("c32_deregistered_by_the_agent_itself_before_close")
				} else if st.conn != nil && !isClosed(st.conn) {
					simrt.Failf("registration-lost-while-connection-open", "the registered connection of a peer was deregistered or replaced although it has not been closed",
						"%s: registration of %s moved from link %d to link %d while link %d is still open (dead=%v faulted=%v)",
						nd.Name, m.Nodes[st.p].Name, linkID(st.link), linkID(linkOf(c)), linkID(st.link), st.link != nil && st.link.Dead(), mon.faulted[linkID(st.link)])
				}
				simrt.Eventf("reg %s[%s]: link %d -> %d", nd.Name, m.Nodes[st.p].Name, linkID(st.link), linkID(linkOf(c)))
				if st.conn != nil && c != nil {
					simrt.Probe("c32_registration_moved_to_new_connection")
				}
				st.conn, st.link, st.firstSeen, st.ev, st.evLast = c, linkOf(c), now, map[string]bool{}, map[string]time.Time{}
			}
			if c == nil {
				continue
			}
			stable := before[st.p] == c
			open := !isClosed(c)
			clean := st.link != nil && !mon.faulted[st.link.ID] && !st.link.Dead()
			if !open {
				simrt.Probe("c32_closed_connection_still_registered_at_poll")
			}
			present := map[string]RouteView{}
			for _, r := range views {
				if r.NextHop == pid {
					present[routeKey(m, r)] = r
				}
			}
			if !(stable && open && clean) {
				continue
			}
			// routes added in this window by announcements that travelled only over this connection
			for _, a := range adds {
				if a.NextHop != pid || a.Network == nil {
					continue
				}
				k := CanonCIDR(a.Network.String())
				if !mon.onlyOver(st, k) {
					simrt.Probe("c32_add_not_attributable")
					continue
				}
				simrt.Probe("c32_add_attributed_to_current_connection")
				st.ev["cidr|"+k+"|"+m.NameOf(a.OriginAgent)] = true
				st.evLast["cidr|"+k+"|"+m.NameOf(a.OriginAgent)] = mon.lastPollAt
			}
			// R3b
			var missing []string
			for k := range st.ev {
				if _, ok := present[k]; !ok {
					missing = append(missing, k)
				}
			}
			sort.Strings(missing)
			for _, k := range missing {
				parts := strings.Split(k, "|")
				// a route that has not been refreshed for a TTL may expire
				last := st.evLast[k]
				if time.Since(last) > mon.w.ttl-2*time.Second || mon.withdraws[x] > 0 {
					simrt.Probe("c32_r3_guard_skipped")
					delete(st.ev, k)
					continue
				}
				at := last.Sub(mon.t0)
				what := parts[0]
				if strings.HasPrefix(k, "cidr|10.68.") {
					// announced by the peer whose reconnect the harness plays
					what = "cidr, harness-played reconnect"
				}
				simrt.Failf("route-removed-under-live-connection", "a route learned over the registered, open connection disappeared although that connection was never torn down ("+what+")",
					"%s lost %s (next hop %s) while link %d stayed registered and open since t=%v; last refreshed at t=%v, now t=%v; relay=%v",
					nd.Name, k, m.Nodes[st.p].Name, st.link.ID, st.firstSeen, at, now, nd.A.VerifRelaySizes()["tcp"])
			}
			if now > st.firstSeen {
				for k, r := range present {
					st.ev[k] = true
					st.evLast[k] = r.LastUpdate
				}
			}
		}
	}
}

// onlyOver reports whether every recent announcement of CIDR k sent to st.x in
// the name of identity st.p travelled over st's current link, and no stalled
// link of the pair may still hold undelivered announcements.
func (mon *monitor) onlyOver(st *pairState, k string) bool {
	found := false
	for _, r := range mon.recent {
		if r.to != st.x || r.from != st.p {
			continue
		}
		has := false
		for _, kk := range r.keys {
			if kk == k {
				has = true
			}
		}
		if !has {
			continue
		}
		if r.link != st.link.ID {
			return false
		}
		found = true
	}
	if !found {
		return false
	}
	for _, l := range mon.m.Net.Links() {
		if l.Kind != "peer" || l == st.link || !mon.stalled[l.ID] || l.Dead() {
			continue
		}
		a, aok := mon.identOf(l.DialNode)
		b, bok := mon.identOf(l.AccNode)
		if aok && bok && ((a == st.x && b == st.p) || (a == st.p && b == st.x)) {
			return false
		}
	}
	return true
}
