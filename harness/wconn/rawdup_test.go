package wconn

import (
	"context"
	"errors"
	"fmt"
	"os"
	"time"

	"github.com/postalsys/muti-metroo/internal/identity"
	"github.com/postalsys/muti-metroo/internal/protocol"
	"github.com/postalsys/muti-metroo/internal/transport"
	"github.com/postalsys/muti-metroo/internal/verifrt/simnet"
	"github.com/postalsys/muti-metroo/internal/verifrt/simtransport"
)

// rawDup is a harness-controlled peer that performs a genuine handshake with an
// agent but presents an identity chosen by the harness (meshkit.RawPeer always
// uses its own identity).
type rawDup struct {
	name    string
	claimed identity.AgentID
	conn    transport.PeerConn
	stream  transport.Stream
	w       *protocol.FrameWriter
	link    *simnet.Link
	gotAck  bool
	sentOK  int // frames written without error after the hello
	dialErr error
	// the agent closed the connection right after the handshake
	remoteClosed bool
}

func fakeOrigin(k int) identity.AgentID {
	var id identity.AgentID
	for i := range id {
		id[i] = byte(0xc0 + k)
	}
	id[0] = 0xee
	return id
}

func markerFrames(claimed identity.AgentID, k int, marker [4]byte) []*protocol.Frame {
	org := fakeOrigin(k)
	adv := &protocol.RouteAdvertise{
		OriginAgent:       org,
		OriginDisplayName: fmt.Sprintf("marker%d", k),
		Sequence:          uint64(1000 + k),
		Routes:            []protocol.Route{{AddressFamily: protocol.AddrFamilyIPv4, PrefixLength: 24, Prefix: marker[:], Metric: 0}},
		Path:              []identity.AgentID{claimed, org},
		SeenBy:            []identity.AgentID{org, claimed},
	}
	ka := &protocol.Keepalive{Timestamp: uint64(time.Now().UnixNano())}
	return []*protocol.Frame{
		{Type: protocol.FrameRouteAdvertise, StreamID: protocol.ControlStreamID, Payload: adv.Encode()},
		{Type: protocol.FrameKeepalive, StreamID: protocol.ControlStreamID, Payload: ka.Encode()},
	}
}

// attachDup dials node target's first listener, says hello as `claimed`, and
// sends the frames either pipelined right behind the hello or after the ack.
func (w *world) attachDup(target int, name string, claimed identity.AgentID, frames []*protocol.Frame, pipelined bool) *rawDup {
	rd := w.stageDup(target, name, claimed)
	if rd.dialErr == nil {
		w.greetDup(rd, frames, pipelined)
	}
	return rd
}

// stageDup only dials and opens the control stream: the agent accepts the
// transport connection and waits for the hello.
func (w *world) stageDup(target int, name string, claimed identity.AgentID) *rawDup {
	nd := w.m.Nodes[target]
	lc := nd.Cfg.Listeners[0]
	var tr *simtransport.Transport
	switch lc.Transport {
	case "quic":
		tr = simtransport.NewQUIC()
	case "h2":
		tr = simtransport.NewH2()
	default:
		tr = simtransport.NewWebSocket()
	}
	rd := &rawDup{name: name, claimed: claimed}
	w.m.OnNode(name, "stage-"+name, func() {
		ctx, cancel := context.WithTimeout(context.Background(), 10*time.Second)
		defer cancel()
		var err error
		rd.conn, err = tr.Dial(ctx, lc.Address, transport.DialOptions{})
		if err != nil {
			rd.dialErr = err
			return
		}
		if lk, ok := rd.conn.(interface{ Link() *simnet.Link }); ok {
			rd.link = lk.Link()
		}
		rd.stream, err = rd.conn.OpenStream(ctx)
		if err != nil {
			rd.dialErr = err
			return
		}
		rd.w = protocol.NewFrameWriter(rd.stream)
	})
	return rd
}

// greetDup sends the hello (and the frames) on a staged connection and waits
// for the ack.
func (w *world) greetDup(rd *rawDup, frames []*protocol.Frame, pipelined bool) {
	w.m.OnNode(rd.name, "greet-"+rd.name, func() {
		hello := &protocol.PeerHello{Version: protocol.ProtocolVersion, AgentID: rd.claimed, Timestamp: uint64(time.Now().UnixNano()), DisplayName: rd.name}
		if err := rd.w.Write(&protocol.Frame{Type: protocol.FramePeerHello, StreamID: protocol.ControlStreamID, Payload: hello.Encode()}); err != nil {
			rd.dialErr = err
			return
		}
		send := func() {
			for _, f := range frames {
				if rd.w.Write(f) == nil {
					rd.sentOK++
				}
			}
		}
		if pipelined {
			send()
		}
		rd.stream.SetReadDeadline(time.Now().Add(8 * time.Second))
		r := protocol.NewFrameReader(rd.stream)
		f, rerr := r.Read()
		if rerr == nil && f.Type == protocol.FramePeerHelloAck {
			rd.gotAck = true
		}
		if !pipelined {
			send()
		}
		if rd.gotAck {
			// an agent that rejects the connection closes it: the next read ends
			rd.stream.SetReadDeadline(time.Now().Add(300 * time.Millisecond))
			if _, err := r.Read(); err != nil && !errors.Is(err, os.ErrDeadlineExceeded) {
				rd.remoteClosed = true
			}
		}
	})
}

// dupStillOpen reports whether the agent still holds the raw peer's connection
// open (frames the agent sent meanwhile are drained).
func (w *world) dupStillOpen(rd *rawDup) bool {
	if rd.stream == nil || !rd.gotAck {
		return false
	}
	open := false
	w.m.OnNode(rd.name, "probe-"+rd.name, func() {
		r := protocol.NewFrameReader(rd.stream)
		for i := 0; i < 4096; i++ {
			rd.stream.SetReadDeadline(time.Now().Add(20 * time.Millisecond))
			_, err := r.Read()
			if err == nil {
				continue
			}
			open = errors.Is(err, os.ErrDeadlineExceeded)
			return
		}
	})
	return open
}

func (rd *rawDup) close() {
	if rd.conn != nil {
		rd.conn.Close()
	}
}
