// Package wconn is the simulated world deciding C32 (one live connection per
// peer, and stale teardown never harms the live one): 2-4 real agents over the
// simulated transport, simultaneous dials, keepalive teardown, link resets,
// dial faults, fast reconnects and raw peers that claim the identity of an
// already connected agent.
package wconn

import (
	"testing"
	"time"

	"github.com/postalsys/muti-metroo/internal/verifsim/hc"
)

func TestWorld(t *testing.T) {
	hc.Main(t, &hc.World{
		Name:         "W-conn",
		Run:          run,
		PreemptMeans: []int{0, 2, 3, 6, 12, 30, 100},
		MaxSteps:     40_000_000,
		MaxSimTime:   3 * time.Hour,
	})
}

func run(prop string) {
	switch prop {
	case "C32":
		runC32()
	default:
		panic("W-conn does not decide " + prop)
	}
}
