// Package wfloodcmd is the simulated world "W-flood-cmd": one real flood.Flooder
// (constructed the way agent.go constructs it, with a signing public key), a
// recording PeerSender owned by the harness, the fake clock, and a seeded
// history of genuine, replayed and forged sleep/wake commands interleaved with
// the flooder's own cache maintenance.
//
// It decides C29: an agent acts on a given signed sleep or wake command at
// most once.
package wfloodcmd

import (
	"fmt"
	"testing"
	"time"

	"github.com/postalsys/muti-metroo/internal/crypto"
	"github.com/postalsys/muti-metroo/internal/flood"
	"github.com/postalsys/muti-metroo/internal/identity"
	"github.com/postalsys/muti-metroo/internal/protocol"
	"github.com/postalsys/muti-metroo/internal/routing"
	"github.com/postalsys/muti-metroo/internal/verifrt/simrt"
	"github.com/postalsys/muti-metroo/internal/verifsim/hc"
)

func TestWorld(t *testing.T) {
	hc.Main(t, &hc.World{
		Name:         "W-flood-cmd",
		Run:          run,
		PreemptMeans: []int{0, 2, 5, 20, 80},
		MaxSteps:     6_000_000,
		MaxSimTime:   24 * time.Hour,
	})
}

func run(prop string) {
	switch prop {
	case "C29":
		runC29()
	default:
		panic("W-flood-cmd does not decide " + prop)
	}
}

func must(err error) {
	if err != nil {
		panic(err)
	}
}

// ---------------------------------------------------------------------------
// world state

// cmdKey identifies one signed command: what the signature covers plus the
// signature itself. The frame type is not covered by the signature.
type cmdKey struct {
	origin identity.AgentID
	id     uint64
	ts     uint64
	sig    [protocol.SignatureSize]byte
}

type accept struct {
	start, end uint64 // harness logical clock at call / return
	at         time.Duration
	how        string
}

// cmdRec is one genuine command (signed with the operator key over exactly
// its origin, id and timestamp).
type cmdRec struct {
	n          int
	key        cmdKey
	wake       bool          // frame type it was issued as
	validUntil time.Time     // command timestamp + window: last instant of its validity window
	firstAt    time.Duration // first delivery
	lastAt     time.Duration // most recent delivery (start instant)
	lastDone   time.Duration // start instant of the most recent delivery that has returned
	deliveries int
	inFlight   int
	accepts    []accept
	forgedAt1  int // w.forgedDeliveries when it was first acted on
}

type world struct {
	f       *flood.Flooder
	local   identity.AgentID
	peers   []identity.AgentID
	origins []identity.AgentID
	kp      *crypto.SigningKeypair // operator key (public half configured in the flooder)
	wrong   *crypto.SigningKeypair // some other key

	ttl, window time.Duration
	maxSize     int
	period      time.Duration // cache maintenance period of the flooder (ttl/2), used for aiming only

	cmds   []*cmdRec
	byKey  map[cmdKey]*cmdRec
	nextID uint64
	opSeq  int
	lclock uint64

	forwards    map[cmdKey]int
	forwardsAll int
	sendYield   bool
	isDefault   bool

	forgedDeliveries int // forged commands delivered so far (any kind)
	genuineDelivered int // distinct genuine commands delivered (or locally issued) so far
}

func agentID(tag byte, n int) identity.AgentID {
	var id identity.AgentID
	for i := range id {
		id[i] = tag
	}
	id[0] = tag
	id[15] = byte(n + 1)
	return id
}

// --- PeerSender stub (owned by the harness) --------------------------------

func (w *world) GetPeerIDs() []identity.AgentID {
	return append([]identity.AgentID(nil), w.peers...)
}

func (w *world) SendToPeer(peerID identity.AgentID, frame *protocol.Frame) error {
	if w.sendYield {
		simrt.Yield()
	}
	var k cmdKey
	kind := "?"
	switch frame.Type {
	case protocol.FrameSleepCommand:
		c, err := protocol.DecodeSleepCommand(frame.Payload)
		must(err)
		k = cmdKey{c.OriginAgent, c.CommandID, c.Timestamp, c.Signature}
		kind = "sleep"
	case protocol.FrameWakeCommand:
		c, err := protocol.DecodeWakeCommand(frame.Payload)
		must(err)
		k = cmdKey{c.OriginAgent, c.CommandID, c.Timestamp, c.Signature}
		kind = "wake"
	default:
		return nil
	}
	w.forwardsAll++
	simrt.Probe("forwarded_frames")
	if rec := w.byKey[k]; rec != nil {
		w.forwards[k]++
		simrt.Eventf("fwd %s cmd=%d to=peer%d", kind, rec.n, peerID[15])
	} else {
		simrt.Probe("forwarded_unknown_command")
		simrt.Eventf("fwd %s unknown id=%d to=peer%d", kind, k.id, peerID[15])
	}
	return nil
}

// --- helpers ----------------------------------------------------------------

func (w *world) now() time.Duration { return simrt.Elapsed() }

func (w *world) sleepUntil(target time.Duration) {
	if d := target - w.now(); d > 0 {
		simrt.Sleep(d)
	}
}

// nextTick returns the first cache-maintenance instant strictly after t.
func (w *world) nextTick(t time.Duration) time.Duration {
	return (t/w.period + 1) * w.period
}

func (w *world) sign(origin identity.AgentID, id, ts uint64, kp *crypto.SigningKeypair) [protocol.SignatureSize]byte {
	c := &protocol.SleepCommand{OriginAgent: origin, CommandID: id, Timestamp: ts}
	return crypto.Sign(kp.PrivateKey, c.SignableBytes())
}

func (w *world) freshID() uint64 {
	w.nextID++
	return uint64(time.Now().UnixNano()) + w.nextID
}

// newGenuine creates a genuine command with the given timestamp.
func (w *world) newGenuine(origin identity.AgentID, ts uint64, wake bool) *cmdRec {
	id := w.freshID()
	sig := w.sign(origin, id, ts, w.kp)
	// the helpers of the repository must agree that this is a valid signature
	chk := &protocol.SleepCommand{OriginAgent: origin, CommandID: id, Timestamp: ts, Signature: sig}
	if !crypto.Verify(w.kp.PublicKey, chk.SignableBytes(), sig) {
		panic("harness: freshly signed command does not verify")
	}
	rec := &cmdRec{n: len(w.cmds), key: cmdKey{origin, id, ts, sig}, wake: wake,
		validUntil: time.Unix(int64(ts), 0).Add(w.window), firstAt: -1, lastAt: -1, lastDone: -1}
	w.cmds = append(w.cmds, rec)
	w.byKey[rec.key] = rec
	return rec
}

func seenByName(v int) string {
	return [...]string{"origin", "empty", "origin+peer", "has-local"}[v]
}

func (w *world) seenBy(k cmdKey, variant int) []identity.AgentID {
	switch variant {
	case 0:
		return []identity.AgentID{k.origin}
	case 1:
		return nil
	case 2:
		return []identity.AgentID{k.origin, w.peers[len(w.peers)-1]}
	default:
		return []identity.AgentID{k.origin, w.local}
	}
}

// deliver hands one command frame to the flooder exactly as agent.handleSleepCommand /
// handleWakeCommand do (decode the payload, call Handle*Command) and applies the oracle.
// The boolean result is what makes the agent change its sleep state.
func (w *world) deliver(op int, k cmdKey, asWake bool, from identity.AgentID, seenBy []identity.AgentID, label string, quiet bool) bool {
	rec := w.byKey[k]
	var payload []byte
	if asWake {
		payload = (&protocol.WakeCommand{OriginAgent: k.origin, CommandID: k.id, Timestamp: k.ts, Signature: k.sig, SeenBy: seenBy}).Encode()
	} else {
		payload = (&protocol.SleepCommand{OriginAgent: k.origin, CommandID: k.id, Timestamp: k.ts, Signature: k.sig, SeenBy: seenBy}).Encode()
	}
	simrt.Yield()
	at := w.now()
	prev := time.Duration(-1)
	if rec != nil {
		prev = rec.lastDone
		if rec.firstAt < 0 {
			rec.firstAt = at
			w.genuineDelivered++
		}
		rec.lastAt = at
		rec.deliveries++
		if rec.inFlight > 0 {
			simrt.Probe("concurrent_same_command")
		}
		rec.inFlight++
	}
	w.lclock++
	start := w.lclock
	var ok bool
	if asWake {
		cmd, err := protocol.DecodeWakeCommand(payload)
		must(err)
		ok = w.f.HandleWakeCommand(from, cmd)
	} else {
		cmd, err := protocol.DecodeSleepCommand(payload)
		must(err)
		ok = w.f.HandleSleepCommand(from, cmd)
	}
	w.lclock++
	end := w.lclock
	typ := "sleep"
	if asWake {
		typ = "wake"
	}
	if rec == nil {
		w.forgedDeliveries++
		if !quiet {
			simrt.Eventf("deliver op=%d %s forged(%s) id=%d from=peer%d acted=%v", op, typ, label, k.id, from[15], ok)
		}
		if ok {
			// not C29's business (a forged command never counts), but worth seeing
			simrt.Probe("forged_accepted")
			simrt.Eventf("NOTE forged command accepted op=%d %s", op, label)
		}
		return ok
	}
	rec.inFlight--
	if at > rec.lastDone {
		rec.lastDone = at
	}
	simrt.Eventf("deliver op=%d %s cmd=%d(%s) from=peer%d acted=%v", op, typ, rec.n, label, from[15], ok)
	if ok {
		w.acted(rec, accept{start: start, end: end, at: at, how: fmt.Sprintf("%s frame from peer%d (%s, op %d)", typ, from[15], label, op)}, prev)
	}
	return ok
}

// acted is the C29 oracle: the agent acted on genuine command rec once more.
func (w *world) acted(rec *cmdRec, a accept, prevDelivery time.Duration) {
	simrt.Probe("acted")
	if len(rec.accepts) == 0 {
		rec.accepts = append(rec.accepts, a)
		rec.forgedAt1 = w.forgedDeliveries
		return
	}
	first := rec.accepts[len(rec.accepts)-1]
	nowT := time.Now()
	sig := ""
	switch {
	case a.start < first.end:
		sig = "concurrent deliveries of one command both acted on"
	case nowT.After(rec.validUntil):
		sig = "replay acted on outside the validity window"
	case prevDelivery >= 0 && a.at-prevDelivery > w.ttl:
		sig = "replay acted on after the seen-cache TTL, timestamp still inside the validity window"
	default:
		sig = "replay acted on within the seen-cache TTL (seen entry lost)"
	}
	simrt.Failf("command-acted-twice", sig,
		"genuine command #%d (issued as %s, timestamp = first receipt %+v, valid until t=%v) was acted on at t=%v via %s and again at t=%v via %s; previous completed delivery of it: %s; config ttl=%v window=%v max_seen=%d%s; %d deliveries of this command so far; %d forged commands delivered between the two actions; %d distinct genuine commands delivered in the run",
		rec.n, map[bool]string{false: "sleep", true: "wake"}[rec.wake],
		time.Unix(int64(rec.key.ts), 0).Sub(epoch().Add(rec.firstAt)).Round(time.Millisecond),
		rec.validUntil.Sub(epoch()), first.at, first.how, a.at, a.how, prevStr(prevDelivery), w.ttl, w.window, w.maxSize,
		map[bool]string{false: "", true: " (the defaults agent.go uses)"}[w.isDefault], rec.deliveries, w.forgedDeliveries-rec.forgedAt1, w.genuineDelivered)
}

func prevStr(d time.Duration) string {
	if d < 0 {
		return "none"
	}
	return "t=" + d.String()
}

var epochT time.Time

func epoch() time.Time { return epochT }

// ---------------------------------------------------------------------------
// the run

type ttlWin struct{ ttl, win time.Duration }

var ttlWins = []ttlWin{
	{5 * time.Minute, 5 * time.Minute}, // DefaultFloodConfig, what agent.go uses
	{10 * time.Second, 10 * time.Second},
	{60 * time.Second, 10 * time.Second}, // ttl well above twice the window
	{10 * time.Second, 60 * time.Second}, // ttl below the window
	{5 * time.Minute, 0},                 // window left unset (= default 5 min)
}

var maxSizes = []int{10000, 4, 16}

func runC29() {
	epochT = time.Now().Add(-simrt.Elapsed())
	w := &world{byKey: map[cmdKey]*cmdRec{}, forwards: map[cmdKey]int{}}
	w.local = agentID(0xA0, 0)
	for i := 0; i < 3; i++ {
		w.peers = append(w.peers, agentID(0xB0, i))
	}
	kp, err := crypto.GenerateSigningKeypair()
	must(err)
	w.kp = kp
	var seed [crypto.Ed25519SeedSize]byte
	seed[0] = 0x77
	w.wrong = crypto.SigningKeypairFromSeed(seed)

	// scripted rare scenario: the default-size cache flooded past its limit
	bigFlood := simrt.Choose(120, "bigflood") == 119

	tw := ttlWins[simrt.Choose(len(ttlWins), "ttlwin")]
	w.maxSize = maxSizes[simrt.Choose(len(maxSizes), "maxsize")]
	if bigFlood {
		tw = ttlWins[0]
		w.maxSize = 10000
	}
	nOrigins := 1 + simrt.Choose(3, "origins")
	for i := 0; i < nOrigins; i++ {
		w.origins = append(w.origins, agentID(0xC0, i))
	}
	w.sendYield = simrt.Chance(1, 2, "sendyield")

	// constructed as in agent.go: DefaultFloodConfig + signing public key; the
	// drawn limits go in through the public config fields only
	cfg := flood.DefaultFloodConfig()
	cfg.LocalDisplayName = "sim"
	pub := w.kp.PublicKey
	cfg.SigningPublicKey = &pub
	cfg.SeenCacheTTL = tw.ttl
	cfg.TimestampWindow = tw.win
	cfg.MaxSeenCacheSize = w.maxSize
	w.ttl = tw.ttl
	w.window = tw.win
	if w.window == 0 {
		w.window = 5 * time.Minute // documented default
	}
	w.period = w.ttl / 2
	w.f = flood.NewFlooder(cfg, w.local, routing.NewManager(w.local), w)
	defer w.f.Stop()

	simrt.Eventf("C29 ttl=%v window=%v max=%d origins=%d bigflood=%v", w.ttl, tw.win, w.maxSize, nOrigins, bigFlood)
	if w.maxSize == 10000 && (tw == ttlWins[0] || tw == ttlWins[4]) {
		w.isDefault = true
		simrt.Probe("config_default")
	}

	// start at a seeded phase relative to whole seconds and to the maintenance ticks
	switch simrt.Choose(4, "phase") {
	case 1:
		simrt.Sleep(time.Duration(1+simrt.Choose(999, "phase-ms")) * time.Millisecond)
	case 2:
		simrt.Sleep(w.period - time.Duration(1+simrt.Choose(3000, "phase-before-tick"))*time.Millisecond)
	case 3:
		simrt.Sleep(time.Duration(simrt.Choose(int(w.period/time.Millisecond)*2, "phase-any")) * time.Millisecond)
	}

	if bigFlood {
		w.bigFlood()
		w.finish()
		return
	}

	nActors := 1 + simrt.Choose(2, "actors")
	var g simrt.Group
	for a := 0; a < nActors; a++ {
		a := a
		nOps := 3 + simrt.Choose(10, "ops")
		g.Go(fmt.Sprintf("actor%d", a), func() {
			for i := 0; i < nOps; i++ {
				w.step(a)
			}
		})
	}
	g.Wait()
	w.finish()
}

func (w *world) finish() {
	if w.forwardsAll > 0 {
		simrt.Probe("runs_with_forwards")
	}
	simrt.Eventf("end cmds=%d cache=%d forwards=%d", len(w.cmds), w.f.SleepCommandSeenCacheSize(), w.forwardsAll)
}

func (w *world) step(actor int) {
	w.opSeq++
	op := w.opSeq
	kind := simrt.Choose(10, "op")
	switch {
	case kind <= 2 || len(w.cmds) == 0:
		w.opGenuine(op)
	case kind <= 5:
		w.opReplay(op)
	case kind == 6:
		w.opForged(op)
	case kind == 7:
		w.opAdvance(op)
	case kind == 8:
		w.opLocal(op)
	default:
		p := w.peers[simrt.Choose(len(w.peers), "peer")]
		simrt.Eventf("op=%d peer-connected peer%d", op, p[15])
		w.f.OnPeerConnected(p)
	}
}

// timestamp for a new genuine command: the sender's clock is the receiver's
// clock plus an offset in [-window, +window].
func (w *world) drawTimestamp() (ts uint64, label string) {
	now := time.Now()
	maxFuture := now.Add(w.window).Unix() // floor: |ts-now| <= window
	oldest := now.Add(-w.window).Unix()
	if time.Unix(oldest, 0).Before(now.Add(-w.window)) {
		oldest++ // ceil
	}
	var v int64
	switch simrt.Choose(10, "ts") {
	case 0:
		v, label = now.Unix(), "no-skew"
	case 1:
		v, label = maxFuture, "future+window"
	case 2:
		v, label = maxFuture-1, "future+window-1s"
	case 3:
		v, label = now.Unix()+1+int64(simrt.Choose(5, "skew-s")), "future-few-seconds"
	case 4:
		v, label = now.Unix()+int64(w.window/time.Second)/2, "future+window/2"
	case 5:
		v, label = oldest, "past-window"
	case 6:
		v, label = oldest+1, "past-window+1s"
	case 7:
		v, label = oldest+int64(simrt.Choose(int(maxFuture-oldest)+1, "ts-any")), "any-in-window"
	case 8:
		v, label = maxFuture+1, "outside-future"
		simrt.Probe("issued_outside_window")
	default:
		v, label = oldest-1, "outside-past"
		simrt.Probe("issued_outside_window")
	}
	if v > now.Unix() && v <= maxFuture {
		simrt.Probe("issued_future_dated")
	}
	if v == maxFuture || v == oldest {
		simrt.Probe("issued_at_window_edge")
	}
	return uint64(v), label
}

func (w *world) opGenuine(op int) {
	wake := simrt.Chance(1, 3, "wake")
	origin := w.origins[simrt.Choose(len(w.origins), "origin")]
	ts, label := w.drawTimestamp()
	rec := w.newGenuine(origin, ts, wake)
	simrt.Eventf("op=%d genuine cmd=%d wake=%v origin=%d ts=%s(%+d s)", op, rec.n, wake, origin[15], label, int64(ts)-time.Now().Unix())
	w.deliverGroup(op, rec, wake, "first", 0)
}

// deliverGroup delivers rec from 1-3 different peers "at the same time".
func (w *world) deliverGroup(op int, rec *cmdRec, asWake bool, label string, sbVariant int) {
	n := 1 + simrt.Choose(3, "deliverers")
	if n == 1 {
		from := w.peers[simrt.Choose(len(w.peers), "peer")]
		w.deliver(op, rec.key, asWake, from, w.seenBy(rec.key, sbVariant), label, false)
		return
	}
	simrt.Probe("concurrent_delivery_groups")
	first := simrt.Choose(len(w.peers), "peer")
	var g simrt.Group
	for i := 0; i < n; i++ {
		from := w.peers[(first+i)%len(w.peers)]
		g.Go(fmt.Sprintf("op%d.d%d", op, i), func() {
			w.deliver(op, rec.key, asWake, from, w.seenBy(rec.key, sbVariant), label, false)
		})
	}
	g.Wait()
}

func (w *world) opReplay(op int) {
	rec := w.cmds[simrt.Choose(len(w.cmds), "pick")]
	if rec.firstAt < 0 {
		// issued but not yet delivered by its actor
		w.opAdvance(op)
		return
	}
	now := w.now()
	vu := rec.validUntil.Sub(epoch())
	target := now
	aim := simrt.Choose(10, "aim")
	aimName := ""
	switch aim {
	case 0:
		aimName = "now"
	case 1:
		target, aimName = w.nextTick(now), "at-cleanup-tick"
	case 2:
		target, aimName = w.nextTick(now)+time.Millisecond, "after-cleanup-tick"
	case 3:
		target, aimName = rec.lastAt+w.ttl-time.Millisecond, "before-ttl"
	case 4:
		target, aimName = rec.lastAt+w.ttl+time.Millisecond, "after-ttl"
	case 5:
		target, aimName = w.nextTick(rec.lastAt+w.ttl)+time.Millisecond, "after-ttl-and-cleanup"
	case 6:
		target, aimName = vu, "window-end"
	case 7:
		target, aimName = vu-time.Duration(simrt.Choose(1500, "ms"))*time.Millisecond, "just-before-window-end"
	case 8:
		target, aimName = vu+time.Millisecond, "just-after-window-end"
	default:
		target, aimName = now+time.Duration(simrt.Choose(int(2*w.window/time.Millisecond), "ms"))*time.Millisecond, "any"
	}
	asWake := rec.wake
	if simrt.Chance(1, 8, "crosstype") {
		asWake = !asWake
		simrt.Probe("replay_as_other_type")
	}
	sb := simrt.Choose(4, "seenby")
	w.sleepUntil(target)
	at := w.now()
	ticks := int64(at/w.period) - int64(rec.lastAt/w.period)
	inWin := !time.Now().After(rec.validUntil)
	simrt.Eventf("op=%d replay cmd=%d aim=%s ticks-since=%d since-last=%v in-window=%v seenby=%s", op, rec.n, aimName, ticks, at-rec.lastAt, inWin, seenByName(sb))
	if ticks > 0 {
		simrt.Probe("replay_after_cleanup")
	}
	if inWin {
		simrt.Probe("replay_in_window")
		if at-rec.lastAt > w.ttl {
			simrt.Probe("replay_after_ttl_in_window")
			if int64(rec.key.ts) > epoch().Add(rec.firstAt).Unix() {
				simrt.Probe("replay_future_dated_after_ttl")
			}
		}
	} else {
		simrt.Probe("replay_outside_window")
	}
	if sb == 3 {
		simrt.Probe("seenby_contains_local")
	}
	w.deliverGroup(op, rec, asWake, "replay/"+aimName, sb)
}

// forgedKey builds a command that is not genuine.
func (w *world) forgedKey(variant int, base *cmdRec) (cmdKey, string) {
	origin := w.origins[0]
	ts := uint64(time.Now().Unix())
	switch variant {
	case 1: // signed with some other key
		id := w.freshID()
		return cmdKey{origin, id, ts, w.sign(origin, id, ts, w.wrong)}, "wrong-key"
	case 2: // genuine signature, new id
		if base != nil {
			return cmdKey{base.key.origin, w.freshID(), base.key.ts, base.key.sig}, "altered-id"
		}
	case 3: // genuine signature, same origin and id (same dedup identity), altered timestamp
		if base != nil {
			return cmdKey{base.key.origin, base.key.id, base.key.ts + 1, base.key.sig}, "altered-ts"
		}
	case 4: // genuine signature, other origin
		if base != nil {
			o := agentID(0xD0, int(base.key.origin[15]))
			return cmdKey{o, base.key.id, base.key.ts, base.key.sig}, "altered-origin"
		}
	case 5: // same origin and id as a genuine command, unsigned
		if base != nil {
			return cmdKey{origin: base.key.origin, id: base.key.id, ts: base.key.ts}, "unsigned-same-id"
		}
	}
	return cmdKey{origin: origin, id: w.freshID(), ts: ts}, "unsigned"
}

func (w *world) opForged(op int) {
	sizes := []int{1, 3, w.maxSize + 1, 2*w.maxSize + 3}
	if w.maxSize > 100 {
		sizes = []int{1, 3, 8, 20} // the default limit is only reached in the scripted big-flood runs
	}
	n := sizes[simrt.Choose(len(sizes), "burst")]
	from := w.peers[simrt.Choose(len(w.peers), "peer")]
	simrt.Eventf("op=%d forged-burst n=%d from=peer%d", op, n, from[15])
	simrt.Probe("forged_bursts")
	for i := 0; i < n; i++ {
		var base *cmdRec
		if len(w.cmds) > 0 {
			base = w.cmds[simrt.Choose(len(w.cmds), "pick")]
		}
		k, label := w.forgedKey(simrt.Choose(6, "forge"), base)
		if w.byKey[k] != nil {
			continue // cannot happen: every variant changes a signed field or the signature
		}
		w.deliver(op, k, simrt.Chance(1, 3, "wake"), from, []identity.AgentID{k.origin}, label, false)
		simrt.ProbeN("forged_delivered", 1)
	}
	w.noteCacheSize(op)
}

func (w *world) noteCacheSize(op int) {
	sz := w.f.SleepCommandSeenCacheSize()
	simrt.Eventf("op=%d cache-size=%d", op, sz)
	if sz >= w.maxSize {
		simrt.Probe("cache_at_size_limit")
	}
	if sz > w.maxSize {
		simrt.Probe("cache_over_size_limit")
		if simrt.Chance(1, 2, "wait-evict") {
			w.sleepUntil(w.nextTick(w.now()) + time.Millisecond)
			sz2 := w.f.SleepCommandSeenCacheSize()
			simrt.Eventf("op=%d cache-size-after-tick=%d", op, sz2)
			if sz2 < sz {
				simrt.Probe("size_eviction_seen")
			}
		}
	}
}

func (w *world) opAdvance(op int) {
	var d time.Duration
	switch simrt.Choose(7, "adv") {
	case 0:
		d = time.Millisecond
	case 1:
		d = time.Duration(1+simrt.Choose(2000, "ms")) * time.Millisecond
	case 2:
		d = w.nextTick(w.now()) - w.now() // exactly to the next maintenance tick
	case 3:
		d = w.period + time.Millisecond
	case 4:
		d = w.ttl
	case 5:
		d = w.window / 2
	default:
		d = time.Duration(simrt.Choose(int(w.window/time.Millisecond), "ms")) * time.Millisecond
	}
	simrt.Eventf("op=%d advance %v", op, d)
	simrt.Sleep(d)
}

// opLocal: this agent itself issues a command (agent.TriggerSleep / TriggerWake:
// build, sign, flood, then act). That is the one time it may act on it.
func (w *world) opLocal(op int) {
	wake := simrt.Chance(1, 3, "wake")
	ts := uint64(time.Now().Unix())
	rec := w.newGenuine(w.local, ts, wake)
	// Nobody else can hold this command before the agent has flooded it (it is
	// built and signed here), so it only becomes replayable (firstAt >= 0) once
	// the flood call has returned. (A replay racing the issuing call itself was
	// an artefact of the harness, found by the thorough tier.)
	issuedAt := w.now()
	rec.firstAt = -1
	simrt.Eventf("op=%d local-trigger cmd=%d wake=%v", op, rec.n, wake)
	simrt.Probe("local_trigger")
	w.lclock++
	start := w.lclock
	if wake {
		must(w.f.FloodWakeCommand(&protocol.WakeCommand{OriginAgent: w.local, CommandID: rec.key.id, Timestamp: ts, Signature: rec.key.sig, SeenBy: []identity.AgentID{w.local}}))
	} else {
		must(w.f.FloodSleepCommand(&protocol.SleepCommand{OriginAgent: w.local, CommandID: rec.key.id, Timestamp: ts, Signature: rec.key.sig, SeenBy: []identity.AgentID{w.local}}))
	}
	rec.firstAt, rec.lastAt, rec.lastDone = issuedAt, issuedAt, w.now()
	rec.deliveries++
	w.genuineDelivered++
	w.lclock++
	w.acted(rec, accept{start: start, end: w.lclock, at: rec.lastAt, how: fmt.Sprintf("local trigger (op %d)", op)}, -1)
}

// bigFlood is the scripted history for the default configuration (cache limit
// 10000): one genuine command, then more than twice the limit of distinct
// unsigned commands before the next maintenance tick, then a replay of the
// genuine command right after the tick, well inside TTL and validity window.
func (w *world) bigFlood() {
	w.opSeq++
	op := w.opSeq
	rec := w.newGenuine(w.origins[0], uint64(time.Now().Unix()), false)
	simrt.Eventf("op=%d genuine cmd=%d (big flood scenario)", op, rec.n)
	w.deliver(op, rec.key, false, w.peers[0], w.seenBy(rec.key, 0), "first", false)
	n := w.maxSize + 1 + simrt.Choose(2*w.maxSize, "bigburst")
	simrt.Eventf("op=%d forged-burst n=%d unsigned", op, n)
	for i := 0; i < n; i++ {
		k := cmdKey{origin: w.origins[0], id: w.freshID(), ts: rec.key.ts}
		w.deliver(op, k, false, w.peers[1], []identity.AgentID{k.origin}, "unsigned", true)
	}
	simrt.ProbeN("forged_delivered", int64(n))
	simrt.Probe("flooded_past_default_limit")
	sz := w.f.SleepCommandSeenCacheSize()
	simrt.Eventf("op=%d cache-size=%d", op, sz)
	if sz > w.maxSize {
		simrt.Probe("cache_at_size_limit")
		simrt.Probe("cache_over_size_limit")
		simrt.Probe("default_cache_over_size_limit")
	}
	w.sleepUntil(w.nextTick(w.now()) + time.Millisecond)
	sz2 := w.f.SleepCommandSeenCacheSize()
	simrt.Eventf("op=%d cache-size-after-tick=%d", op, sz2)
	if sz2 < sz {
		simrt.Probe("size_eviction_seen")
	}
	w.opSeq++
	simrt.Probe("replay_after_cleanup")
	simrt.Probe("replay_in_window")
	simrt.Eventf("op=%d replay cmd=%d after flood and one cleanup, since-last=%v", w.opSeq, rec.n, w.now()-rec.lastAt)
	w.deliver(w.opSeq, rec.key, false, w.peers[2], w.seenBy(rec.key, 0), "replay/after-flood", false)
}
