// Package wreconnect is world W-reconnect: the real peer.Reconnector (and, in a
// second scenario, the real peer.Manager over a transport whose dials always
// fail) driven by a seeded history of Schedule / Pause / Resume / Cancel /
// Reset / ResetAll, with a simulator-owned reconnect callback. It decides C31.
//
// Oracle (written from the property statement and docs/docs/configuration/peers.md
// "Reconnection Algorithm" + Architecture.md 10.3 "Retry sequence"; see oracle.go).
package wreconnect

import (
	"context"
	"errors"
	"fmt"
	"testing"
	"time"

	"github.com/postalsys/muti-metroo/internal/identity"
	"github.com/postalsys/muti-metroo/internal/peer"
	"github.com/postalsys/muti-metroo/internal/transport"
	"github.com/postalsys/muti-metroo/internal/verifrt/simrt"
	"github.com/postalsys/muti-metroo/internal/verifsim/hc"
)

func TestWorld(t *testing.T) {
	hc.Main(t, &hc.World{
		Name:         "W-reconnect",
		Run:          run,
		PreemptMeans: []int{0, 2, 5, 20, 80},
		MaxSteps:     3_000_000,
		MaxSimTime:   3 * time.Hour,
	})
}

func run(prop string) {
	switch prop {
	case "C31":
		runC31()
	default:
		panic("W-reconnect does not decide " + prop)
	}
}

var errDial = errors.New("simulated dial failure")

// swarm tables; index 0 is the simplest option.
var (
	initials = []time.Duration{1 * time.Second, 5 * time.Second}
	maxes    = []time.Duration{8 * time.Second, 60 * time.Second}
	mults    = []float64{2, 1.5, 3}
	jitters  = []float64{0, 0.1, 0.2}
)

func drawBackoff() backoff {
	b := backoff{
		initial: initials[simrt.Choose(len(initials), "initial")],
		max:     maxes[simrt.Choose(len(maxes), "max")],
		mult:    mults[simrt.Choose(len(mults), "mult")],
		jitter:  jitters[simrt.Choose(len(jitters), "jitter")],
	}
	return b
}

// nsNoise makes instants fall off whole microseconds so that any jitter source
// keyed on the clock is exercised over its whole range.
func nsNoise() time.Duration { return time.Duration(simrt.Choose(1000, "ns")) }

// drawGap is the pause between two driver operations.
func drawGap() time.Duration {
	var d time.Duration
	switch simrt.Choose(6, "gapkind") {
	case 0:
		d = time.Duration(1+simrt.Choose(5, "gap")) * time.Second
	case 1:
		d = time.Duration(1+simrt.Choose(900, "gap")) * time.Millisecond
	case 2, 3:
		d = time.Duration(2+simrt.Choose(40, "gap")) * time.Second
	case 4:
		d = time.Duration(30+simrt.Choose(90, "gap")) * time.Second
	default:
		d = time.Duration(simrt.Choose(4, "gap")) * time.Second // whole seconds incl. 0: coincide with timers
		return d
	}
	return d + nsNoise()
}

// drawAttemptDuration is how long one connection attempt takes.
func drawAttemptDuration(limit time.Duration) time.Duration {
	var d time.Duration
	switch simrt.Choose(6, "durkind") {
	case 0:
		return 0 // fails immediately
	case 1:
		d = time.Duration(1+simrt.Choose(500, "dur")) * time.Millisecond
	case 2, 3:
		d = time.Duration(1+simrt.Choose(5, "dur")) * time.Second
	case 4:
		d = time.Duration(8+simrt.Choose(14, "dur")) * time.Second
	default:
		return time.Duration(1+simrt.Choose(3, "dur")) * time.Second // whole seconds
	}
	d += nsNoise()
	if limit > 0 && d > limit {
		d = limit
	}
	return d
}

// world is the per-run state shared by drivers, callback and oracle.
type world struct {
	o     *oracle
	addrs []*addrState
	r     *peer.Reconnector // scenario "direct"
	m     *peer.Manager     // scenario "manager"
}

func (w *world) addr(name string) *addrState {
	for _, a := range w.addrs {
		if a.name == name {
			return a
		}
	}
	simrt.Failf("harness", "callback for unknown address", "addr=%q", name)
	return nil
}

func runC31() {
	b := drawBackoff()
	n := 1 + simrt.Choose(3, "naddrs")
	w := &world{o: newOracle(b)}
	for i := 0; i < n; i++ {
		w.addrs = append(w.addrs, &addrState{name: fmt.Sprintf("peer%d.sim:4433", i), ghostAt: -1})
	}
	w.o.addrs = w.addrs
	scenario := "direct"
	if simrt.Chance(1, 4, "scenario") {
		scenario = "manager"
	}
	simrt.Eventf("C31 scenario=%s initial=%v max=%v mult=%v jitter=%v addrs=%d", scenario, b.initial, b.max, b.mult, b.jitter, n)
	if scenario == "direct" {
		w.runDirect(b)
	} else {
		w.runManager(b)
	}
}

// ---------------------------------------------------------------- scenario 1

func (w *world) runDirect(b backoff) {
	simrt.Probe("scenario_direct")
	w.r = peer.NewReconnector(peer.ReconnectConfig{
		InitialDelay: b.initial, MaxDelay: b.max, Multiplier: b.mult, Jitter: b.jitter, MaxAttempts: 0,
	}, w.callback)

	var g simrt.Group
	for _, a := range w.addrs {
		a := a
		nops := 2 + simrt.Choose(5, "nops")
		g.Go("drv-"+a.name, func() { w.addrDriver(a, nops) })
	}
	cycles := simrt.Choose(4, "pausecycles")
	g.Go("pauser", func() { w.pauser(cycles) })
	g.Wait()

	// let consequences play out, then stop and drain
	simrt.Sleep(time.Duration(simrt.Choose(5, "tail")) * 20 * time.Second)
	w.o.stopped = true
	simrt.Eventf("op Stop")
	w.r.Stop()
	w.drain()
}

func (w *world) drain() {
	for i := 0; i < 200; i++ {
		busy := false
		for _, a := range w.addrs {
			if a.inflight > 0 {
				busy = true
			}
		}
		if !busy {
			return
		}
		simrt.Sleep(time.Second)
	}
	simrt.Failf("harness", "attempt callbacks did not finish", "")
}

// callback is the simulator-owned reconnect callback (one connection attempt).
func (w *world) callback(addr string) error {
	a := w.addr(addr)
	tok := w.o.attemptStart(a)
	d := drawAttemptDuration(0)
	ok := simrt.Chance(1, 6, "outcome")
	simrt.Sleep(d)
	w.o.attemptEnd(a, tok, ok)
	if ok {
		a.connected = true
		return nil
	}
	return errDial
}

func (w *world) schedule(a *addrState) {
	if a.inflight > 0 {
		simrt.Probe("schedule_during_attempt")
	}
	w.o.scheduleInvoke(a)
	w.r.Schedule(a.name)
	simrt.Eventf("op Schedule return addr=%s", a.name)
}

// addrDriver plays the link of one peer: it loses the connection (Schedule),
// re-requests reconnection, and occasionally cancels / resets.
func (w *world) addrDriver(a *addrState, nops int) {
	for i := 0; i < nops; i++ {
		if i > 0 {
			simrt.Sleep(drawGap())
		} else {
			simrt.Sleep(time.Duration(simrt.Choose(3, "start")) * time.Second)
		}
		if a.connected {
			a.connected = false
			simrt.Eventf("link lost addr=%s", a.name)
			w.schedule(a)
			continue
		}
		switch op := simrt.Choose(10, "aop"); {
		case i == 0 || op <= 4:
			w.schedule(a)
		case op <= 6:
			// nothing: let the chain run
		default:
			if a.inflight > 0 {
				simrt.Probe("cancel_during_attempt")
			}
			simrt.Eventf("op Cancel invoke addr=%s variant=%d", a.name, op)
			if op == 7 {
				w.r.Reset(a.name)
			} else {
				w.r.Cancel(a.name)
			}
			w.o.resetReturn(a, "cancel")
			if op == 9 {
				w.schedule(a)
			}
		}
	}
}

// sleepBeforePause either waits a drawn time or aims the Pause at the instant a
// pending retry timer is due (known from the configured delays).
func (w *world) sleepBeforePause() {
	if simrt.Chance(2, 5, "aim") {
		if t, ok := w.o.predictTimer(simrt.Choose(2, "aimvariant")); ok {
			if now := simrt.Elapsed(); t > now {
				simrt.Sleep(t - now)
				return
			}
		}
	}
	simrt.Sleep(drawGap())
}

func drawHold() time.Duration {
	switch simrt.Choose(4, "holdkind") {
	case 0:
		return time.Duration(1+simrt.Choose(10, "hold"))*time.Second + nsNoise()
	case 1:
		return time.Duration(1+simrt.Choose(900, "hold")) * time.Millisecond
	case 2:
		return time.Duration(20+simrt.Choose(100, "hold"))*time.Second + nsNoise()
	default:
		return 0
	}
}

func (w *world) pauser(cycles int) {
	for c := 0; c < cycles; c++ {
		w.sleepBeforePause()
		w.o.pauseInvoke()
		w.r.Pause()
		w.o.pauseReturn()
		simrt.Sleep(drawHold())
		if simrt.Chance(1, 2, "resetall") {
			for _, a := range w.addrs {
				if a.inflight > 0 {
					simrt.Probe("resetall_during_attempt")
					break
				}
			}
			simrt.Eventf("op ResetAll invoke")
			w.r.ResetAll()
			for _, a := range w.addrs {
				w.o.resetReturn(a, "resetall")
			}
		}
		w.o.resumeInvoke()
		w.r.Resume()
		simrt.Eventf("op Resume return")
		if simrt.Chance(3, 4, "resched") {
			for _, a := range w.addrs {
				if !a.connected {
					w.schedule(a)
				}
			}
		}
	}
}

// ---------------------------------------------------------------- scenario 2

const driverName = "mgr-driver"

// stubTransport is a transport.Transport whose dials always fail after a drawn
// simulated time. It is the observation point of the manager scenario.
type stubTransport struct{ w *world }

func (s *stubTransport) Dial(ctx context.Context, addr string, opts transport.DialOptions) (transport.PeerConn, error) {
	w := s.w
	a := w.addr(addr)
	g := simrt.CurG()
	if g != nil && g.Name() == driverName {
		// an explicit Connect / ReconnectAll of the driver, not a reconnection attempt
		simrt.Eventf("driver dial start addr=%s", addr)
		simrt.Sleep(drawAttemptDuration(time.Second))
		w.o.driverDialFailed(a)
		return nil, errDial
	}
	tok := w.o.attemptStart(a)
	simrt.Sleep(drawAttemptDuration(9 * time.Second))
	w.o.attemptEnd(a, tok, false)
	return nil, errDial
}

func (s *stubTransport) Listen(addr string, opts transport.ListenOptions) (transport.Listener, error) {
	return nil, errors.New("stub transport does not listen")
}
func (s *stubTransport) Type() transport.TransportType { return transport.TransportQUIC }
func (s *stubTransport) Close() error                  { return nil }

func (w *world) runManager(b backoff) {
	simrt.Probe("scenario_manager")
	var id identity.AgentID
	for i := range id {
		id[i] = byte(0xA0 + i)
	}
	tr := &stubTransport{w: w}
	cfg := peer.DefaultManagerConfig(id, tr)
	cfg.ReconnectConfig = peer.ReconnectConfig{
		InitialDelay: b.initial, MaxDelay: b.max, Multiplier: b.mult, Jitter: b.jitter, MaxAttempts: 0,
	}
	w.m = peer.NewManager(cfg)
	for _, a := range w.addrs {
		w.m.AddPeer(peer.PeerInfo{Address: a.name, Persistent: true})
	}
	var g simrt.Group
	g.Go(driverName, func() {
		ctx := context.Background()
		for _, a := range w.addrs {
			simrt.Sleep(time.Duration(simrt.Choose(3, "start"))*time.Second + nsNoise())
			simrt.Eventf("op Connect invoke addr=%s", a.name)
			_, err := w.m.Connect(ctx, a.name)
			if err == nil {
				simrt.Failf("harness", "stub dial succeeded", "")
			}
		}
		cycles := simrt.Choose(4, "pausecycles")
		for c := 0; c < cycles; c++ {
			w.sleepBeforePause()
			w.o.pauseInvoke()
			w.m.DisconnectAll() // Pause
			w.o.pauseReturn()
			simrt.Sleep(drawHold())
			// ReconnectAll = ResetAll + Resume + dial every persistent peer
			for _, a := range w.addrs {
				if a.inflight > 0 {
					simrt.Probe("resetall_during_attempt")
					break
				}
			}
			simrt.Eventf("op ReconnectAll invoke")
			for _, a := range w.addrs {
				w.o.resetReturn(a, "resetall")
			}
			w.o.resumeInvoke()
			w.m.ReconnectAll(ctx)
			simrt.Eventf("op ReconnectAll return")
		}
		simrt.Sleep(time.Duration(1+simrt.Choose(5, "tail")) * 20 * time.Second)
	})
	g.Wait()
	w.o.stopped = true
	simrt.Eventf("op Close")
	w.m.Close()
	w.drain()
}
