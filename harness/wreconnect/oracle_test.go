package wreconnect

import (
	"fmt"
	"math"
	"time"

	"github.com/postalsys/muti-metroo/internal/verifrt/simrt"
)

// The C31 oracle. It is a safety monitor over what is observable from outside
// the reconnector: driver operations (stamped at invoke / return) and the start
// and end of every connection attempt (callback entry / exit).
//
// Reference model (from the property statement and the user documentation:
// docs/docs/configuration/peers.md "delay = min(initial_delay * multiplier^attempt,
// max_delay) * (1 + random(jitter))", "initial_delay: First retry delay", and
// Architecture.md 10.3 "Attempt 1: 1s +-0.2s, Attempt 2: 2s +-0.4s ... capped"):
//
//   * A peer has one retry chain. The first retry of a chain (k = 0) is delayed
//     by the initial delay; after k consecutive failed retries the next one is
//     delayed by d_k = min(initial * multiplier^k, max); jitter j allows
//     [(1-j) d_k, (1+j) d_k] (the cap is applied before jitter, as documented).
//     A successful attempt and an explicit reset (Cancel / Reset / ResetAll,
//     "resets backoff delays to initial values") end the chain: k restarts at 0
//     and nothing is pending until the next Schedule.
//   * The delay of a retry is measured from the end of its trigger. Triggers are:
//     the failure of the previous attempt, a Schedule call for that peer (a
//     repeated Schedule may either restart the pending delay or be ignored, both
//     are accepted), and Resume (an implementation may re-arm on resume). All
//     triggers that accumulate before an attempt starts justify ONE attempt.
//   * While paused (a Pause call has returned and no Resume call has been invoked
//     since) no attempt starts. An attempt that starts at the very simulated
//     instant at which Pause returned is treated as concurrent with the Pause
//     ("in progress"): between the reconnector's decision to start and the
//     callback's first instruction no implementation can exclude a complete
//     Pause call, and no simulated time passes in that window. It is counted
//     (probe) but not reported.
//
// Where the statement is silent the monitor is lenient:
//   * with overlapping attempts, k may be anything between the number of failed
//     and the number of started attempts of the chain (sLo..fHi below);
//   * operations at the same simulated instant are treated as concurrent (their
//     linearisation order is not observable from outside): a trigger that
//     arrives at the instant of an attempt start is not consumed by that start,
//     a trigger that arrives at the instant of a reset survives the reset, an
//     attempt that starts at the instant of a reset may still be justified by
//     the triggers and the k of the chain that was reset;
//   * an attempt that started before a reset (or at its instant) and ends after
//     it counts towards the upper bound of k only; its success does not have to
//     end the new chain;
//   * overlapping attempts for one address are not reported (probe only): the
//     statement does not forbid them.
// The monitor never demands that an attempt happens (safety only).

type backoff struct {
	initial, max time.Duration
	mult, jitter float64
}

const tolerance = float64(time.Millisecond)

func (b backoff) raw(k int) float64 { return float64(b.initial) * math.Pow(b.mult, float64(k)) }

// base returns d_k in nanoseconds.
func (b backoff) base(k int) float64 {
	d := b.raw(k)
	if d > float64(b.max) {
		d = float64(b.max)
	}
	return d
}

// fits reports -1 (gap too short), 0 (inside the jitter window) or +1 (too long).
func (b backoff) fits(gap time.Duration, k int) int {
	d := b.base(k)
	lo, hi := (1-b.jitter)*d-tolerance, (1+b.jitter)*d+tolerance
	switch g := float64(gap); {
	case g < lo:
		return -1
	case g > hi:
		return 1
	}
	return 0
}

// cand is one trigger waiting in a peer's slot.
type cand struct {
	t      time.Duration
	kind   string
	paused bool          // arrived while definitely paused
	kLo    int           // lower bound of k when the trigger arrived (it may have taken effect before a concurrent attempt start)
	deadAt time.Duration // -1: live; otherwise the instant it was cleared by a reset / success
}

type addrState struct {
	name string
	// Bounds on the number of started / failed attempts of the current chain.
	// Lo counts only attempts that surely belong to it; Hi also counts attempts
	// that may belong to the previous chain (started at the instant of a reset,
	// or started before a reset and finished after it).
	sLo, sHi, fLo, fHi int
	staleSeq           uint64 // attempts started before this instant may have lost their claim on the chain
	epoch              int    // number of chain resets so far
	ghostLo            int    // k range of the chain ended at ghostAt (same-instant tolerance)
	ghostHi            int
	ghostAt            time.Duration
	inflight           int
	slot               []cand
	connected          bool
	nAttempts          int
}

type oracle struct {
	b     backoff
	addrs []*addrState

	pausedDefinite bool // a Pause returned and no Resume has been invoked since
	pauseRetT      time.Duration
	pauseInvT      time.Duration
	pauseInvoked   bool
	stopped        bool
}

func newOracle(b backoff) *oracle { return &oracle{b: b, pauseInvT: -1} }

func (a *addrState) liveSlot() int {
	n := 0
	for _, c := range a.slot {
		if c.deadAt < 0 {
			n++
		}
	}
	return n
}

func (a *addrState) add(o *oracle, kind string) {
	lo, _ := a.krange()
	a.slot = append(a.slot, cand{t: simrt.Elapsed(), kind: kind, paused: o.pausedDefinite, deadAt: -1, kLo: lo})
}

func (o *oracle) scheduleInvoke(a *addrState) {
	simrt.Eventf("op Schedule invoke addr=%s seq=%d paused=%v", a.name, simrt.Seq(), o.pausedDefinite)
	if o.pausedDefinite {
		simrt.Probe("schedule_while_paused")
	}
	a.add(o, "schedule")
}

func (o *oracle) driverDialFailed(a *addrState) {
	simrt.Eventf("driver dial failed addr=%s seq=%d", a.name, simrt.Seq())
	a.add(o, "driver-connect-failed")
}

// attempt is the token of one running attempt.
type attempt struct {
	epoch     int
	ambiguous bool   // started at the instant of a reset: may belong to either chain
	startSeq  uint64 // global sequence number at its start
}

func (a *addrState) krange() (int, int) {
	lo, hi := a.sLo, a.sHi
	if a.fLo < lo {
		lo = a.fLo
	}
	if a.fHi > hi {
		hi = a.fHi
	}
	return lo, hi
}

// resetReturn ends the chain of a (Cancel / Reset / ResetAll returned, or an attempt succeeded).
func (o *oracle) resetReturn(a *addrState, why string) {
	now := simrt.Elapsed()
	simrt.Eventf("chain reset addr=%s why=%s seq=%d", a.name, why, simrt.Seq())
	lo, hi := a.krange()
	if a.ghostAt == now {
		if a.ghostLo < lo {
			lo = a.ghostLo
		}
		if a.ghostHi > hi {
			hi = a.ghostHi
		}
	}
	a.ghostLo, a.ghostHi, a.ghostAt = lo, hi, now
	a.sLo, a.sHi, a.fLo, a.fHi = 0, 0, 0, 0
	a.epoch++
	for i := range a.slot {
		c := &a.slot[i]
		if c.deadAt >= 0 {
			continue
		}
		if c.t == now {
			continue // arrived at this very instant: may take effect after the reset
		}
		c.deadAt = now
	}
}

func (o *oracle) pauseInvoke() {
	now := simrt.Elapsed()
	simrt.Eventf("op Pause invoke seq=%d", simrt.Seq())
	o.pauseInvoked, o.pauseInvT = true, now
	for _, a := range o.addrs {
		if a.inflight > 0 {
			simrt.Probe("pause_during_attempt")
			break
		}
	}
	if o.b.jitter == 0 {
		for _, a := range o.addrs {
			if t, ok := o.predictFor(a, 0); ok && t == now {
				simrt.Probe("pause_at_timer_instant")
				break
			}
		}
	}
}

func (o *oracle) pauseReturn() {
	o.pausedDefinite, o.pauseRetT = true, simrt.Elapsed()
	simrt.Eventf("op Pause return seq=%d", simrt.Seq())
}

func (o *oracle) resumeInvoke() {
	simrt.Eventf("op Resume invoke seq=%d", simrt.Seq())
	o.pausedDefinite, o.pauseInvoked = false, false
	for _, a := range o.addrs {
		if a.liveSlot() > 0 {
			a.add(o, "resume")
		}
	}
}

// predictFor returns the instant at which the pending retry of a is due if the
// implementation applies the lowest (variant 1, jitter > 0) or no (variant 0)
// jitter. Only used to aim driver operations and to count reach.
func (o *oracle) predictFor(a *addrState, variant int) (time.Duration, bool) {
	if a.inflight > 0 || o.pausedDefinite {
		return 0, false
	}
	for i := len(a.slot) - 1; i >= 0; i-- {
		c := a.slot[i]
		if c.deadAt >= 0 || c.paused {
			continue
		}
		d := o.b.base(a.sHi)
		if variant == 1 {
			d = d - d*o.b.jitter
		}
		return c.t + time.Duration(d), true
	}
	return 0, false
}

func (o *oracle) predictTimer(variant int) (time.Duration, bool) {
	now := simrt.Elapsed()
	var best time.Duration
	found := false
	for _, a := range o.addrs {
		if t, ok := o.predictFor(a, variant); ok && t > now && (!found || t < best) {
			best, found = t, true
		}
	}
	return best, found
}

func (o *oracle) attemptStart(a *addrState) attempt {
	now := simrt.Elapsed()
	a.nAttempts++
	tok := attempt{epoch: a.epoch, ambiguous: a.ghostAt == now, startSeq: simrt.Seq()}
	simrt.Eventf("attempt start addr=%s n=%d seq=%d inflight=%d fails=%d..%d starts=%d..%d paused=%v", a.name, a.nAttempts, simrt.Seq(), a.inflight, a.fLo, a.fHi, a.sLo, a.sHi, o.pausedDefinite)
	if o.stopped {
		a.inflight++
		return tok
	}
	if a.inflight > 0 {
		simrt.Probe("overlapping_attempts_same_addr") // (3): the statement does not forbid it; reach only
	}
	if o.pauseInvoked && o.pauseInvT == now {
		simrt.Probe("pause_at_timer_instant")
	}

	// drop triggers cleared at an earlier instant
	kept := a.slot[:0]
	for _, c := range a.slot {
		if c.deadAt < 0 || c.deadAt == now {
			kept = append(kept, c)
		}
	}
	a.slot = kept

	// (1) no attempt starts while paused
	if o.pausedDefinite {
		if o.pauseRetT < now {
			origin := "no pending trigger"
			if n := len(a.slot); n > 0 {
				c := a.slot[n-1]
				origin = "last trigger: " + c.kind
				if c.paused {
					origin += " while paused"
				} else {
					origin += " before pause"
				}
			}
			simrt.Failf("attempt-started-while-paused", origin,
				"attempt %d for %s started at t=%v; Pause had returned at t=%v and no Resume was invoked since (triggers pending: %s)",
				a.nAttempts, a.name, now, o.pauseRetT, a.slotString(now))
		}
		simrt.Probe("start_same_instant_as_pause_return")
	}

	// (2) the start must be justified by a pending trigger with the right delay
	lo, hi := a.krange()
	if a.ghostAt == now {
		if a.ghostLo < lo {
			lo = a.ghostLo
		}
		if a.ghostHi > hi {
			hi = a.ghostHi
		}
	}
	if len(a.slot) == 0 {
		simrt.Failf("unjustified-attempt", "no pending trigger",
			"attempt %d for %s started at t=%v with no Schedule call and no failed attempt pending since the last attempt start / success / reset (in flight: %d, failed so far in this chain: %d)",
			a.nAttempts, a.name, now, a.inflight, a.fHi)
	}
	okK, early, late := -1, false, false
	var used cand
search:
	for i := len(a.slot) - 1; i >= 0; i-- {
		clo := lo
		if a.slot[i].kLo < clo {
			clo = a.slot[i].kLo
		}
		for k := clo; k <= hi; k++ {
			switch o.b.fits(now-a.slot[i].t, k) {
			case 0:
				okK, used = k, a.slot[i]
				break search
			case -1:
				early = true
			default:
				late = true
			}
		}
	}
	if okK < 0 {
		dir := "too early"
		if late && !early {
			dir = "too late"
		} else if late && early {
			dir = "matches no trigger"
		}
		simrt.Failf("backoff-delay-out-of-window", dir,
			"attempt %d for %s started at t=%v; k in [%d,%d], d_k=%v..%v, jitter=%v; pending triggers: %s",
			a.nAttempts, a.name, now, lo, hi, time.Duration(o.b.base(lo)), time.Duration(o.b.base(hi)), o.b.jitter, a.slotString(now))
	}
	if okK >= 3 {
		simrt.Probe("retry_k_ge_3")
	}
	if o.b.raw(okK) >= float64(o.b.max) {
		simrt.Probe("hit_max_delay")
	}
	if gap := float64(now - used.t); math.Abs(gap-o.b.base(okK)) > tolerance {
		simrt.Probe("jitter_observed")
	}
	if used.kind == "schedule" && a.sHi > 0 {
		simrt.Probe("delay_restarted_by_schedule")
	}

	// consume the slot: everything pending justified this one attempt. Triggers
	// that arrived at this very instant are concurrent with the start (the
	// decision to start may have preceded them) and stay.
	kept = a.slot[:0]
	for _, c := range a.slot {
		if c.deadAt < 0 && c.t == now {
			kept = append(kept, c)
		}
	}
	a.slot = kept
	a.sHi++
	if !tok.ambiguous {
		a.sLo++
	}
	a.inflight++
	return tok
}

func (o *oracle) attemptEnd(a *addrState, tok attempt, ok bool) {
	a.inflight--
	// an attempt that was already running when an attempt of an earlier chain
	// succeeded may have lost its claim on the chain with that success
	sure := tok.epoch == a.epoch && !tok.ambiguous && tok.startSeq > a.staleSeq
	simrt.Eventf("attempt end addr=%s ok=%v seq=%d inflight=%d current-chain=%v", a.name, ok, simrt.Seq(), a.inflight, sure)
	if o.stopped {
		return
	}
	if ok {
		simrt.Probe("attempt_succeeded")
		if sure {
			// A Schedule call that arrived while this attempt was running and
			// has not started an attempt of its own may stay pending across the
			// success (the connection just made was lost again before the
			// callback returned); the chain restarts, so it counts as a trigger
			// for retry 0 from the instant of the success. The statement does
			// not require that it is honoured, only how long the wait is.
			carried := false
			for _, c := range a.slot {
				if c.deadAt < 0 && (c.kind == "schedule" || c.kind == "driver-connect-failed") {
					carried = true
				}
			}
			o.resetReturn(a, "success")
			if carried {
				simrt.Probe("schedule_carried_over_success")
				a.add(o, "schedule-during-successful-attempt")
			}
		} else {
			// success of an attempt of an earlier chain: the implementation may or
			// may not end the current chain
			simrt.Probe("old_attempt_succeeded_after_reset")
			a.sLo, a.fLo = 0, 0
			a.staleSeq = simrt.Seq()
			// two attempts for one address can overlap (Schedule while the first
			// is still running); a Schedule pending across the second success may
			// be re-armed from that instant just as from the first one
			for _, c := range a.slot {
				if c.deadAt < 0 && (c.kind == "schedule" || c.kind == "driver-connect-failed" || c.kind == "schedule-during-successful-attempt") {
					simrt.Probe("schedule_carried_over_old_success")
					a.add(o, "schedule-during-successful-attempt")
					break
				}
			}
		}
		return
	}
	a.fHi++
	if sure {
		a.fLo++
	} else {
		simrt.Probe("old_attempt_failed_after_reset")
	}
	if o.pausedDefinite {
		simrt.Probe("attempt_failed_while_paused")
	}
	a.add(o, "failure")
}

func (a *addrState) slotString(now time.Duration) string {
	if len(a.slot) == 0 {
		return "none"
	}
	s := ""
	for i, c := range a.slot {
		if i > 0 {
			s += ", "
		}
		s += fmt.Sprintf("%s@%v(gap %v)", c.kind, c.t, now-c.t)
		if c.paused {
			s += "[paused]"
		}
		if c.deadAt >= 0 {
			s += "[cleared]"
		}
	}
	return s
}
