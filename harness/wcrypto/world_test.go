package wcrypto

import (
	"bytes"
	"encoding/binary"
	"fmt"
	"testing"

	"github.com/postalsys/muti-metroo/internal/crypto"
	"github.com/postalsys/muti-metroo/internal/verifrt/simrt"
	"github.com/postalsys/muti-metroo/internal/verifsim/hc"
)

func TestWorld(t *testing.T) {
	hc.Main(t, &hc.World{
		Name:         "W-crypto",
		Run:          run,
		PreemptMeans: []int{0, 2, 5, 20, 80},
		MaxSteps:     3_000_000,
	})
}

// produced is one genuine ciphertext.
type produced struct {
	end   int // producing end: 0 initiator, 1 responder
	seq   int // per-end completion order
	plain []byte
	ct    []byte
}

type session struct {
	streamID   uint64
	iPub       [32]byte
	rPub       [32]byte
	shared     [32]byte
	keys       [2]*crypto.SessionKey
	prod       [2][]*produced // genuine ciphertexts by producing end
	accepted   [2][][]byte    // inputs accepted by each end, in order (for shadow replay)
	lastCtr    [2]int64       // highest embedded counter accepted by each end (-1 none)
	accSet     [2]map[string]bool
	nSenders   int
	nReceivers int
	accIv      [2][]accInterval // accepted deliveries with invoke/return stamps (concurrent receivers)
}

type accInterval struct {
	inv, ret uint64
	ctr      uint64
	seq      int
}

func newSession(streamID uint64) *session {
	ip, iPub, err := crypto.GenerateEphemeralKeypair()
	must(err)
	rp, rPub, err := crypto.GenerateEphemeralKeypair()
	must(err)
	s1, err := crypto.ComputeECDH(ip, rPub)
	must(err)
	s2, err := crypto.ComputeECDH(rp, iPub)
	must(err)
	if s1 != s2 {
		simrt.Fail("ecdh", "shared secret mismatch", "")
	}
	s := &session{streamID: streamID, iPub: iPub, rPub: rPub, shared: s1}
	s.keys[0] = crypto.DeriveSessionKey(s1, streamID, iPub, rPub, true)
	s.keys[1] = crypto.DeriveSessionKey(s2, streamID, iPub, rPub, false)
	s.lastCtr = [2]int64{-1, -1}
	s.accSet = [2]map[string]bool{{}, {}}
	return s
}

func (s *session) fresh(end int) *crypto.SessionKey {
	return crypto.DeriveSessionKey(s.shared, s.streamID, s.iPub, s.rPub, end == 0)
}

func must(err error) {
	if err != nil {
		panic(err)
	}
}

func run(prop string) {
	switch prop {
	case "C01":
		runC01()
	case "C02":
		runC02()
	default:
		panic("W-crypto does not decide " + prop)
	}
}

var specialCounters = []uint64{0, 1, 2, 1 << 31, 1 << 32, 1 << 62, 1 << 63, (1 << 63) + 1, ^uint64(0) - 1, ^uint64(0)}

func runC01() {
	s := newSession(uint64(simrt.Choose(1<<16, "streamid")) + 1)
	other := newSession(s.streamID) // a different session with the same stream id (cross-session injection)
	nSenders := 1 + simrt.Choose(3, "senders")
	s.nSenders = nSenders
	perSender := 2 + simrt.Choose(12, "msgs")
	deliveries := 10 + simrt.Choose(60, "deliveries")
	// frames of one tunnel are normally handled by one loop, but datagram
	// tunnels are dispatched by parallel workers: 1-3 concurrent deliverers per end
	s.nReceivers = 1 + simrt.Choose(3, "receivers")
	simrt.Eventf("C01 senders=%d per=%d deliveries=%d receivers=%d", nSenders, perSender, deliveries, s.nReceivers)

	done := 0
	total := 2 * nSenders
	var doneQ simrt.WaitQ
	for end := 0; end < 2; end++ {
		for k := 0; k < nSenders; k++ {
			end, k := end, k
			simrt.Go(fmt.Sprintf("sender%d.%d", end, k), func() {
				for m := 0; m < perSender; m++ {
					plain := []byte(fmt.Sprintf("msg end=%d sender=%d m=%d|%s", end, k, m, pad(simrt.Choose(40, "len"))))
					ct, err := s.keys[end].Encrypt(plain)
					if err != nil {
						simrt.Failf("encrypt-error", "Encrypt failed", "%v", err)
					}
					p := &produced{end: end, seq: len(s.prod[end]), plain: plain, ct: ct}
					s.prod[end] = append(s.prod[end], p)
					simrt.Eventf("enc end=%d seq=%d len=%d h=%x", end, p.seq, len(ct), simrt.FNV(ct))
					simrt.Yield()
				}
				done++
				doneQ.WakeAll()
			})
		}
	}
	// the other session also produces a few frames
	for end := 0; end < 2; end++ {
		for m := 0; m < 3; m++ {
			ct, err := other.keys[end].Encrypt([]byte(fmt.Sprintf("other %d %d", end, m)))
			must(err)
			other.prod[end] = append(other.prod[end], &produced{end: end, seq: m, ct: ct})
		}
	}
	// adversarial network: one delivery loop per receiving end
	advDone := 0
	nextShared := [2]int{}
	for end := 0; end < 2; end++ {
		for rcv := 0; rcv < s.nReceivers; rcv++ {
			end, rcv := end, rcv
			simrt.Go(fmt.Sprintf("adversary%d.%d", end, rcv), func() {
				next := 0 // next in-order genuine frame of the other end not yet offered
				_ = rcv
				for d := 0; d < deliveries; d++ {
					simrt.Yield()
					src := s.prod[1-end]
					own := s.prod[end]
					kind := simrt.Choose(12, "adv")
					var ct []byte
					var genuine *produced
					label := ""
					switch {
					case kind <= 3 && nextShared[end] < len(src): // in-order delivery (most common)
						next = nextShared[end]
						genuine = src[next]
						nextShared[end] = next + 1
						label = "inorder"
					case kind == 4 && len(src) > 0: // replay / duplicate / reorder: any frame
						genuine = src[simrt.Choose(len(src), "pick")]
						if genuine.seq >= nextShared[end] {
							nextShared[end] = genuine.seq + 1 // skipped ahead: earlier ones become late
						}
						label = "any"
					case kind == 5 && len(own) > 0: // reflect to sender
						p := own[simrt.Choose(len(own), "pick")]
						ct = p.ct
						label = "reflect"
						simrt.Probe("reflect_delivered")
					case kind == 6 && len(src) > 0: // bit flip
						p := src[simrt.Choose(len(src), "pick")]
						ct = append([]byte(nil), p.ct...)
						bit := simrt.Choose(len(ct)*8, "bit")
						ct[bit/8] ^= 1 << (bit % 8)
						label = "bitflip"
						simrt.Probe("bitflip_delivered")
					case kind == 7 && len(src) > 0: // truncation
						p := src[simrt.Choose(len(src), "pick")]
						ct = append([]byte(nil), p.ct[:simrt.Choose(len(p.ct), "cut")]...)
						label = "truncate"
					case kind == 8: // forged frame with chosen counter and random body
						ct = forge(end, nil)
						label = "forge"
						simrt.Probe("forged_delivered")
					case kind == 9 && len(src) > 0: // genuine body under an altered counter
						p := src[simrt.Choose(len(src), "pick")]
						ct = forge(end, p.ct)
						label = "renumber"
						simrt.Probe("forged_delivered")
					case kind == 10: // frame of another session with the same stream id
						p := other.prod[simrt.Choose(2, "oend")][simrt.Choose(3, "pick")]
						ct = p.ct
						label = "cross-session"
					default:
						simrt.Yield()
						continue
					}
					if genuine != nil {
						ct = genuine.ct
					}
					in := append([]byte(nil), ct...)
					inv := simrt.Seq()
					plain, err := s.keys[end].Decrypt(in)
					ret := simrt.Seq()
					acc := err == nil
					simrt.Eventf("dec end=%d kind=%s acc=%v h=%x", end, label, acc, simrt.FNV(ct))
					s.check(end, ct, genuine, label, plain, acc, inv, ret)
				}
				advDone++
				doneQ.WakeAll()
			})
		}
	}
	for done < total || advDone < 2*s.nReceivers {
		doneQ.Park()
	}
}

func pad(n int) string { return string(bytes.Repeat([]byte{'x'}, n)) }

// forge builds a frame addressed to `end`: 4-byte prefix (either direction or
// arbitrary), a chosen counter, and either random bytes or the body of a genuine frame.
func forge(end int, body []byte) []byte {
	var nonce [12]byte
	switch simrt.Choose(3, "prefix") {
	case 0: // prefix of frames this end receives
		if end == 0 {
			nonce[0] = 0x80
		}
	case 1: // prefix of frames this end sends
		if end == 1 {
			nonce[0] = 0x80
		}
	default:
		nonce[0] = byte(simrt.Choose(256, "pb"))
		nonce[3] = byte(simrt.Choose(256, "pb"))
	}
	ctr := specialCounters[simrt.Choose(len(specialCounters), "ctr")]
	if simrt.Chance(1, 3, "small") {
		ctr = uint64(simrt.Choose(40, "ctrsmall"))
	}
	binary.BigEndian.PutUint64(nonce[4:], ctr)
	out := append([]byte(nil), nonce[:]...)
	if body != nil && len(body) > 12 {
		if bytes.Equal(body[:12], nonce[:]) {
			nonce[11] ^= 1
			copy(out, nonce[:])
		}
		out = append(out, body[12:]...)
	} else {
		n := 16 + simrt.Choose(32, "flen")
		for i := 0; i < n; i++ {
			out = append(out, byte(simrt.Choose(256, "fb")))
		}
	}
	return out
}

// check is the C01 oracle for one delivery to `end`.
func (s *session) check(end int, ct []byte, genuine *produced, label string, plain []byte, acc bool, inv, ret uint64) {
	// identify the input against everything the other end ever produced
	var match *produced
	for _, p := range s.prod[1-end] {
		if bytes.Equal(p.ct, ct) {
			match = p
			break
		}
	}
	if acc {
		if match == nil {
			simrt.Failf("accepted-not-from-peer", "accepted("+label+")", "end %d accepted an input (%s, %d bytes) that the opposite end never produced", end, label, len(ct))
		}
		if !bytes.Equal(plain, match.plain) {
			simrt.Failf("wrong-plaintext", "accepted("+label+")", "end %d returned plaintext that differs from what was sealed", end)
		}
		key := string(ct)
		if s.accSet[end][key] {
			simrt.Failf("accepted-twice", "duplicate accepted", "end %d accepted the same payload twice (seq %d)", end, match.seq)
		}
		ctr := int64(binary.BigEndian.Uint64(ct[4:12]))
		if s.nReceivers > 1 {
			// concurrent deliverers: "increasing send order" is demanded of
			// deliveries that did not overlap (a returned before b was invoked)
			simrt.Probe("accepted_with_concurrent_receivers")
			for _, a := range s.accIv[end] {
				if a.ret < inv && a.ctr >= uint64(ctr) {
					simrt.Failf("accepted-out-of-order", "order", "end %d accepted counter %d in a delivery that began after the delivery of counter %d had returned", end, ctr, a.ctr)
				}
				if ret < a.inv && uint64(ctr) >= a.ctr {
					simrt.Failf("accepted-out-of-order", "order", "end %d accepted counter %d in a delivery that returned before the delivery of counter %d began", end, ctr, a.ctr)
				}
			}
			s.accIv[end] = append(s.accIv[end], accInterval{inv: inv, ret: ret, ctr: uint64(ctr), seq: match.seq})
			s.accSet[end][key] = true
			s.accepted[end] = append(s.accepted[end], append([]byte(nil), ct...))
			simrt.Probe("accepted")
			return
		}
		if s.nSenders == 1 {
			// single sender: send order is the call order
			if int64(match.seq) <= s.lastCtr[end] {
				simrt.Failf("accepted-out-of-order", "order", "end %d accepted seq %d after seq %d", end, match.seq, s.lastCtr[end])
			}
			s.lastCtr[end] = int64(match.seq)
		} else {
			if ctr <= s.lastCtr[end] {
				simrt.Failf("accepted-out-of-order", "order", "end %d accepted counter %d after counter %d", end, ctr, s.lastCtr[end])
			}
			s.lastCtr[end] = ctr
		}
		s.accSet[end][key] = true
		s.accepted[end] = append(s.accepted[end], append([]byte(nil), ct...))
		simrt.Probe("accepted")
		return
	}
	simrt.Probe("rejected")
	if match == nil || s.nReceivers > 1 {
		// with concurrent deliverers the accepted history has no single order to
		// replay into a shadow endpoint; the shadow check runs in the
		// single-receiver runs
		return
	}
	// A genuine payload of the opposite end was rejected. That is fine if it is
	// late or a duplicate; it is a violation if an endpoint that had seen only
	// the accepted inputs would have taken it (a rejected input changed what is
	// accepted afterwards).
	shadow := s.fresh(end)
	for _, a := range s.accepted[end] {
		if _, err := shadow.Decrypt(append([]byte(nil), a...)); err != nil {
			simrt.Failf("shadow-diverged", "shadow", "replaying the accepted history into a fresh endpoint failed: %v", err)
		}
	}
	if _, err := shadow.Decrypt(append([]byte(nil), ct...)); err == nil {
		simrt.Failf("rejected-input-changed-acceptance", "genuine payload refused after rejected input", "end %d refused genuine seq %d which an endpoint with the same accepted history (but none of the rejected inputs) accepts", end, match.seq)
	}
}

func runC02() {
	s := newSession(uint64(simrt.Choose(1<<16, "streamid")) + 1)
	nSenders := 2 + simrt.Choose(7, "senders")
	perSender := 1 + simrt.Choose(10, "msgs")
	simrt.Eventf("C02 senders=%d per=%d", nSenders, perSender)
	type rec struct {
		end, sender, m int
	}
	seen := map[[12]byte]rec{}
	done := 0
	var q simrt.WaitQ
	for end := 0; end < 2; end++ {
		for k := 0; k < nSenders; k++ {
			end, k := end, k
			simrt.Go(fmt.Sprintf("sender%d.%d", end, k), func() {
				for m := 0; m < perSender; m++ {
					ct, err := s.keys[end].Encrypt([]byte{byte(end), byte(k), byte(m)})
					if err != nil {
						simrt.Failf("encrypt-error", "Encrypt failed", "%v", err)
					}
					var n [12]byte
					copy(n[:], ct[:12])
					simrt.Eventf("enc end=%d k=%d m=%d nonce=%x", end, k, m, n)
					if prev, dup := seen[n]; dup {
						cls := "nonce-reuse-same-end"
						if prev.end != end {
							cls = "nonce-reuse-across-directions"
						}
						simrt.Failf(cls, cls, "nonce %x sealed twice under one key: end %d sender %d msg %d and end %d sender %d msg %d", n, prev.end, prev.sender, prev.m, end, k, m)
					}
					seen[n] = rec{end, k, m}
				}
				done++
				q.WakeAll()
			})
		}
	}
	for done < 2*nSenders {
		q.Park()
	}
	// both ends hold the same key (otherwise "under a session key" is vacuous)
	if s.keys[0].Key() != s.keys[1].Key() {
		simrt.Fail("key-mismatch", "ends derived different keys", "")
	}
}
