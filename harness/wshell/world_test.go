// Package wshell is the simulated world deciding C25 (remote shell runs only
// authorised commands; concurrent sessions never exceed the maximum).
//
// Real code: shell.Executor and the shell stream Handler (streaming / non-PTY
// path), driven exactly the way agent.go drives them: HandleStreamOpen with
// the client's ephemeral key, then the end-to-end encrypted META message
// through HandleStreamData, optionally HandleStreamClose. The harness owns the
// stream writer (DataWriter) and the process-creation seam (simexec).
//
// "Starts a process" is observed at the os/exec seam: every
// exec.CommandContext call of internal/shell is recorded by simexec before
// the real os/exec function runs. The workload only uses command names that
// do not exist, so cmd.Start fails right after the recorded attempt and no
// real child process (which would stall the fake clock) ever exists. The
// seam hook additionally sleeps a drawn simulated duration inside
// CommandContext ("creating the process takes time"): during that time the
// session slot is held by the real handler code, which is what lets sessions
// overlap, reach the maximum, and be released by the real failure path.
package wshell

import (
	"fmt"
	"io"
	"log/slog"
	"path/filepath"
	"strings"
	"testing"
	"time"

	"github.com/postalsys/muti-metroo/internal/crypto"
	"github.com/postalsys/muti-metroo/internal/identity"
	"github.com/postalsys/muti-metroo/internal/shell"
	"github.com/postalsys/muti-metroo/internal/verifrt/simexec"
	"github.com/postalsys/muti-metroo/internal/verifrt/simrt"
	"github.com/postalsys/muti-metroo/internal/verifsim/hc"
)

func TestWorld(t *testing.T) {
	hc.Main(t, &hc.World{
		Name:         "W-shell",
		Run:          run,
		PreemptMeans: []int{0, 2, 5, 20, 80},
		MaxSteps:     3_000_000,
		MaxSimTime:   2 * time.Hour,
	})
}

func run(prop string) {
	switch prop {
	case "C25":
		runC25()
	default:
		panic("W-shell does not decide " + prop)
	}
}

// ---------------------------------------------------------------------------
// configuration and vocabulary

const (
	pwPlain = "vfy-correct-horse-7f3a"
	// bcrypt cost 4 hash of pwPlain (generated once with golang.org/x/crypto/bcrypt)
	pwHash = "$2a$04$Fl8D4IIuR9wYqKvFvKf4peSMtNvSxYx24IGtAaGTHP8H4RYK70rx6"
	// not a bcrypt hash at all: a password is configured, none can match it
	pwGarbageHash = "vfy-not-a-bcrypt-hash"

	nameLs  = "vfy-ls-7f3a" // none of these exist on PATH or anywhere else
	nameCat = "vfy-cat-7f3a"
	nameID  = "vfy-id-7f3a"
	nameAbs = "/opt/vfy-7f3a/bin/vfy-abs-7f3a" // a whitelist entry that is not a base name
	nameOth = "vfy-other-7f3a"
)

type config struct {
	enabled   bool
	wlKind    string
	whitelist []string
	pwMode    int // 0 no password configured, 1 valid hash of pwPlain, 2 unusable hash
	max       int // 0 = unlimited (docs: "max_sessions: 0 # unlimited")
}

// The reference set of shell metacharacters. It is written from the POSIX shell
// grammar, not from the implementation: control and redirection operators,
// expansion introducers, the escape character, and the pattern / brace / tilde /
// history characters. Whitespace (blank, tab, newline, CR) and quotes are
// deliberately NOT in the set: the user documentation promises that
// `bash -c "echo hello"` (an argument with a space) works, and the statement does
// not say whether the other whitespace characters count; arguments containing
// them are therefore unconstrained (an implementation may accept or refuse them).
var metachars = []struct{ name, ch string }{
	{"semicolon", ";"}, {"pipe", "|"}, {"ampersand", "&"}, {"dollar", "$"}, {"backtick", "`"},
	{"gt", ">"}, {"lt", "<"}, {"lparen", "("}, {"rparen", ")"},
	{"lbrace", "{"}, {"rbrace", "}"}, {"lbracket", "["}, {"rbracket", "]"},
	{"star", "*"}, {"question", "?"}, {"tilde", "~"}, {"bang", "!"}, {"backslash", "\\"},
}

// arguments the statement does not forbid (an implementation may still refuse them)
var plainArgs = []string{
	"-la", "file.txt", "./rel/path", "../up", "echo hello", "k=v", "--file=/etc/hosts", "it's", "\"q\"", "#c",
	"a\tb", "a\rb", "a\nb", "a\x00b", "\uff1b", "", "..", "-", "C:/x", "100%", "^caret", "a,b", "@host", "+x", "name:tag",
}

var absArgs = []string{"/etc/passwd", "/", "/tmp/../etc/shadow", "//double"}

var holds = []time.Duration{0, time.Millisecond, 50 * time.Millisecond, 500 * time.Millisecond, 2 * time.Second, 5 * time.Second}
var gaps = []time.Duration{0, time.Millisecond, 100 * time.Millisecond, time.Second, 3 * time.Second}

func drawConfig() config {
	var c config
	c.enabled = simrt.Choose(8, "enabled") != 7
	switch simrt.Choose(10, "whitelist") {
	case 0, 1, 2:
		c.wlKind, c.whitelist = "one", []string{nameLs}
	case 3, 4:
		c.wlKind, c.whitelist = "three", []string{nameLs, nameCat, nameID}
	case 5, 6:
		c.wlKind, c.whitelist = "wildcard", []string{"*"}
	case 7:
		c.wlKind, c.whitelist = "empty", []string{}
	case 8:
		c.wlKind, c.whitelist = "names+wildcard", []string{nameLs, "*"}
	default:
		c.wlKind, c.whitelist = "names+path-entry", []string{nameAbs, nameLs}
	}
	switch simrt.Choose(8, "pwmode") {
	case 0, 1, 2:
		c.pwMode = 1
	case 3, 4, 5, 6:
		c.pwMode = 0
	default:
		c.pwMode = 2
	}
	c.max = []int{1, 2, 0, 5}[simrt.Choose(4, "max")]
	return c
}

func (c config) wildcard() bool {
	// "the whitelist is the wildcard": read generously (any "*" entry), so the
	// oracle never demands more than the statement.
	for _, w := range c.whitelist {
		if w == "*" {
			return true
		}
	}
	return false
}

func (c config) baseNames() []string {
	var out []string
	for _, w := range c.whitelist {
		if w != "*" && !strings.Contains(w, "/") {
			out = append(out, w)
		}
	}
	return out
}

func (c config) shellCfg() shell.Config {
	sc := shell.Config{Enabled: c.enabled, Whitelist: append([]string(nil), c.whitelist...), MaxSessions: c.max}
	switch c.pwMode {
	case 1:
		sc.PasswordHash = pwHash
	case 2:
		sc.PasswordHash = pwGarbageHash
	}
	return sc
}

// ---------------------------------------------------------------------------
// requests

type request struct {
	id        int
	marker    string // unique argument; "" when the request has no arguments at all
	gname     string // simulated goroutine that issues it (attribution fallback)
	rawKind   string // "" = well-formed META; otherwise what is sent instead
	meta      *shell.ShellMeta
	eff       *shell.ShellMeta // the META as the handler decodes it from the wire (nil: none)
	cmdKind   string
	argKind   string
	pwKind    string
	burst     bool
	authOK    bool   // reference model: may start a process
	reason    string // stable refusal reason of the model ("" when authOK)
	peer      identity.AgentID
	streamID  uint64
	requestID uint64
	key       *crypto.SessionKey // client end of the E2E session
	// observations
	attempts int
	inHook   bool
	openErr  uint16
	errText  string
	closedBy bool // handler wrote STREAM_CLOSE
}

type world struct {
	cfg      config
	ex       *shell.Executor
	h        *shell.Handler
	reqs     []*request
	byMarker map[string]*request
	byStream map[uint64]*request
	byG      map[string]*request
	inHook   int // requests currently between CommandContext entry and return
	hookSeen int
	bursting bool
	closers  simrt.Group
}

func (w *world) newRequest(gname string) *request {
	r := &request{id: len(w.reqs) + 1, gname: gname}
	r.marker = fmt.Sprintf("vfyreq-%04d", r.id)
	r.streamID = uint64(1000 + r.id)
	r.requestID = uint64(500000 + r.id)
	r.peer[0] = 0xC2
	r.peer[1] = byte(r.id)
	w.reqs = append(w.reqs, r)
	w.byMarker[r.marker] = r
	w.byStream[r.streamID] = r
	return r
}

// validCommand returns a command the configuration authorises (if any can be).
func (w *world) validCommand(r *request) string {
	if w.cfg.wildcard() {
		r.cmdKind = "wildcard-any"
		return []string{nameLs, nameOth, "/bin/" + nameLs, "./" + nameLs, nameLs + ";x", ""}[simrt.Choose(6, "wcmd")]
	}
	names := w.cfg.baseNames()
	if len(names) == 0 {
		r.cmdKind = "none-whitelisted"
		return nameLs
	}
	r.cmdKind = "exact"
	return names[simrt.Choose(len(names), "name")]
}

func (w *world) badCommand(r *request) string {
	base := nameLs
	if names := w.cfg.baseNames(); len(names) > 0 {
		base = names[simrt.Choose(len(names), "name")]
	}
	kinds := []struct{ kind, cmd string }{
		{"abs-prefix", "/bin/" + base},
		{"dot-prefix", "./" + base},
		{"dotdot-prefix", "../" + base},
		{"truncated", base[:len(base)-1]},
		{"extended", base + "x"},
		{"uppercase", strings.ToUpper(base)},
		{"empty", ""},
		{"trailing-space", base + " "},
		{"leading-space", " " + base},
		{"trailing-nul", base + "\x00"},
		{"nul-infix", base + "\x00x"},
		{"unrelated", nameOth},
		{"name-plus-arg", base + " -rf"},
		{"star", "*"},
		{"backslash-path", "dir\\" + base},
		{"path-entry", nameAbs},
		{"two-names", base + ";" + nameCat},
		{"name-newline", base + "\n"},
		{"subdir", "sub/" + base},
	}
	k := kinds[simrt.Choose(len(kinds), "badcmd")]
	r.cmdKind = k.kind
	return k.cmd
}

func drawPlainArgs() []string {
	n := simrt.Choose(3, "nargs")
	var out []string
	for i := 0; i < n; i++ {
		out = append(out, plainArgs[simrt.Choose(len(plainArgs), "plain")])
	}
	return out
}

func badArg(r *request) string {
	if simrt.Choose(5, "argclass") == 0 {
		r.argKind = "absolute-path"
		return absArgs[simrt.Choose(len(absArgs), "abs")]
	}
	m := metachars[simrt.Choose(len(metachars), "meta")]
	r.argKind = "metachar-" + m.name
	switch simrt.Choose(5, "place") {
	case 0:
		return "a" + m.ch + "b"
	case 1:
		return m.ch
	case 2:
		return "x" + m.ch
	case 3:
		return m.ch + " rm -rf x"
	default:
		return "--opt=" + m.ch + m.ch
	}
}

func (w *world) goodPassword(r *request) string {
	switch w.cfg.pwMode {
	case 1:
		r.pwKind = "right"
		return pwPlain
	case 2:
		r.pwKind = "right-but-hash-unusable"
		return pwPlain
	}
	if simrt.Choose(2, "anypw") == 0 {
		r.pwKind = "none-needed-empty"
		return ""
	}
	r.pwKind = "none-needed-any"
	return "whatever"
}

func (w *world) badPassword(r *request) string {
	kinds := []struct{ kind, pw string }{
		{"wrong", "vfy-wrong"},
		{"empty", ""},
		{"truncated", pwPlain[:len(pwPlain)-1]},
		{"extended", pwPlain + "x"},
		{"uppercase", strings.ToUpper(pwPlain)},
		{"trailing-space", pwPlain + " "},
		{"the-hash-itself", pwHash},
		{"trailing-nul", pwPlain + "\x00"},
		{"leading-space", " " + pwPlain},
	}
	k := kinds[simrt.Choose(len(kinds), "badpw")]
	r.pwKind = k.kind
	return k.pw
}

var rawKinds = []string{"empty-frame", "not-meta", "bad-json", "undecryptable", "zero-key-open", "no-open"}

// drawMeta fills r.meta / r.rawKind from the vocabulary.
func (w *world) drawMeta(r *request) {
	m := &shell.ShellMeta{}
	r.meta = m
	mode := simrt.Choose(12, "mode")
	var extra []string
	switch {
	case mode <= 5: // everything the configuration asks for
		m.Command = w.validCommand(r)
		m.Password = w.goodPassword(r)
		extra = drawPlainArgs()
		r.argKind = "plain"
		if w.cfg.wildcard() && simrt.Choose(3, "wildarg") == 0 {
			extra = append(extra, badArg(r)) // the wildcard lifts the argument rules
		}
	case mode == 6:
		m.Command = w.badCommand(r)
		m.Password = w.goodPassword(r)
		extra = drawPlainArgs()
		r.argKind = "plain"
	case mode == 7 || mode == 8:
		m.Command = w.validCommand(r)
		m.Password = w.goodPassword(r)
		extra = drawPlainArgs()
		extra = append(extra, badArg(r))
	case mode == 9:
		m.Command = w.validCommand(r)
		m.Password = w.badPassword(r)
		extra = drawPlainArgs()
		r.argKind = "plain"
	case mode == 10: // every dimension drawn independently
		if simrt.Choose(2, "c") == 0 {
			m.Command = w.validCommand(r)
		} else {
			m.Command = w.badCommand(r)
		}
		if simrt.Choose(2, "p") == 0 {
			m.Password = w.goodPassword(r)
		} else {
			m.Password = w.badPassword(r)
		}
		extra = drawPlainArgs()
		r.argKind = "plain"
		if simrt.Choose(2, "a") == 1 {
			extra = append(extra, badArg(r))
		}
	default: // something that is not a META message at all
		r.rawKind = rawKinds[simrt.Choose(len(rawKinds), "raw")]
		m.Command = w.validCommand(r)
		m.Password = w.goodPassword(r)
		r.argKind = "plain"
	}
	// the unique marker argument (first or last); rarely no arguments at all
	switch simrt.Choose(8, "marker") {
	case 7:
		if r.argKind == "plain" {
			r.marker = ""
			m.Args = nil
			r.argKind = "none"
			break
		}
		fallthrough
	case 0, 1, 2, 3:
		m.Args = append(extra, r.marker)
	default:
		m.Args = append([]string{r.marker}, extra...)
	}
	if simrt.Choose(10, "tty") == 9 {
		m.TTY = &shell.TTYSettings{Rows: 24, Cols: 80} // stream is not interactive: still the streaming path
	}
}

func (w *world) validMeta(r *request) {
	r.meta = &shell.ShellMeta{Command: w.validCommand(r), Password: w.goodPassword(r), Args: []string{r.marker}}
	r.argKind = "plain"
}

// ---------------------------------------------------------------------------
// reference model (written from the property statement)

func isBaseName(s string) bool { return s != "" && !strings.Contains(s, "/") }

func firstMetachar(arg string) string {
	for _, m := range metachars {
		if strings.Contains(arg, m.ch) {
			return m.name
		}
	}
	return ""
}

// authorise decides whether the statement allows a process to be started for
// this request, and if not gives a stable reason.
func (w *world) authorise(r *request) (bool, string) {
	if r.eff == nil {
		return false, "no-valid-meta(" + r.rawKind + ")"
	}
	if !w.cfg.enabled {
		return false, "disabled"
	}
	switch w.cfg.pwMode {
	case 1:
		if r.eff.Password != pwPlain {
			return false, "bad-password(" + r.pwKind + ")"
		}
	case 2:
		return false, "bad-password(configured-hash-unusable)"
	}
	if w.cfg.wildcard() {
		return true, ""
	}
	listed := false
	for _, wl := range w.cfg.whitelist {
		if wl == r.eff.Command {
			listed = true
		}
	}
	if !listed || !isBaseName(r.eff.Command) {
		return false, "command-not-whitelisted(" + r.cmdKind + ")"
	}
	for _, a := range r.eff.Args {
		if name := firstMetachar(a); name != "" {
			return false, "arg-metachar(" + name + ")"
		}
		if strings.HasPrefix(a, "/") {
			return false, "arg-absolute-path"
		}
	}
	return true, ""
}

func probeClass(reason string) string {
	switch {
	case strings.HasPrefix(reason, "disabled"):
		return "rejected_disabled"
	case strings.HasPrefix(reason, "bad-password"):
		return "rejected_auth"
	case strings.HasPrefix(reason, "command-not-whitelisted"):
		return "rejected_not_whitelisted"
	case strings.HasPrefix(reason, "arg-metachar"):
		return "rejected_metachar"
	case strings.HasPrefix(reason, "arg-absolute-path"):
		return "rejected_abs_path"
	default:
		return "rejected_no_meta"
	}
}

// ---------------------------------------------------------------------------
// the seams the harness owns

// sample reads the executor's own session count: it must never exceed the maximum.
func (w *world) sample(where string) int {
	n := w.ex.ActiveSessions()
	if w.cfg.max > 0 {
		if n > w.cfg.max {
			simrt.Failf("max-sessions-exceeded", "executor session count above max_sessions",
				"ActiveSessions()=%d with max_sessions=%d (sampled at %s, %d process starts in progress)", n, w.cfg.max, where, w.inHook)
		}
		if n == w.cfg.max {
			simrt.Probe("sessions_at_max")
		}
	}
	return n
}

func sameArgs(a, b []string) bool {
	if len(a) != len(b) {
		return false
	}
	for i := range a {
		if a[i] != b[i] {
			return false
		}
	}
	return true
}

// onExec runs inside simexec.CommandContext, in the goroutine of the handler
// that is about to create the process.
func (w *world) onExec(rec *simexec.Record) {
	w.hookSeen++
	var r *request
	for _, a := range rec.Args {
		if x := w.byMarker[a]; x != nil {
			r = x
			break
		}
	}
	if r == nil {
		if x := w.byG[rec.G]; x != nil && x.marker == "" {
			r = x
		}
	}
	simrt.Eventf("exec.enter seq=%d kind=%s name=%q args=%q g=%s", rec.Seq, rec.Kind, rec.Name, rec.Args, rec.G)
	if r == nil {
		simrt.Failf("unattributed-start", "process start attempt matches no issued request",
			"%s(%q, %q) from goroutine %s carries no known marker", rec.Kind, rec.Name, rec.Args, rec.G)
	}
	if r.eff == nil {
		simrt.Failf("unauthorised-start", "no-valid-meta("+r.rawKind+")",
			"request %d never sent a valid META (%s) yet %s(%q, %q) was called", r.id, r.rawKind, rec.Kind, rec.Name, rec.Args)
	}
	// (an implementation may resolve the base name to a full path before exec)
	sameCmd := rec.Name == r.eff.Command || (isBaseName(r.eff.Command) && filepath.Base(rec.Name) == r.eff.Command)
	if !sameCmd || !sameArgs(rec.Args, r.eff.Args) {
		simrt.Failf("unattributed-start", "started command differs from the requested one",
			"request %d asked for %q %q, the process start attempt is %q %q", r.id, r.eff.Command, r.eff.Args, rec.Name, rec.Args)
	}
	r.attempts++
	if !r.authOK {
		simrt.Failf("unauthorised-start", r.reason,
			"request %d (command %q [%s], args %q [%s], password kind %s) reached %s although the model refuses it: %s; config enabled=%v whitelist=%q pwmode=%d max=%d",
			r.id, r.eff.Command, r.cmdKind, r.eff.Args, r.argKind, r.pwKind, rec.Kind, r.reason, w.cfg.enabled, w.cfg.whitelist, w.cfg.pwMode, w.cfg.max)
	}
	simrt.Probe("start_attempt")
	if w.cfg.wildcard() {
		simrt.Probe("wildcard_start")
	}
	w.inHook++
	r.inHook = true
	if w.inHook >= 2 {
		simrt.Probe("concurrent_starts")
	}
	if w.cfg.max > 0 && w.inHook > w.cfg.max {
		simrt.Failf("max-sessions-exceeded", "more concurrent process starts than max_sessions",
			"%d sessions are creating their process at the same time (request %d is the latest) with max_sessions=%d", w.inHook, r.id, w.cfg.max)
	}
	w.sample("exec-enter")
	d := 10 * time.Second // burst: all of them must overlap
	if !w.bursting {
		d = holds[simrt.Choose(len(holds), "hold")]
	}
	if d > 0 {
		simrt.Sleep(d)
	} else {
		simrt.Yield()
	}
	w.sample("exec-exit")
	w.inHook--
	r.inHook = false
	simrt.Eventf("exec.exit r=%d held=%v", r.id, d)
}

type recWriter struct{ w *world }

func (rw *recWriter) WriteStreamData(peerID identity.AgentID, streamID uint64, data []byte, flags uint8) error {
	w := rw.w
	r := w.byStream[streamID]
	kind := "opaque"
	if r != nil && r.key != nil {
		if pt, err := r.key.Decrypt(append([]byte(nil), data...)); err == nil && len(pt) > 0 {
			kind = shell.MsgTypeName(pt[0])
			switch pt[0] {
			case shell.MsgError:
				if e, err := shell.DecodeError(pt[1:]); err == nil {
					r.errText = e.Message
				}
			case shell.MsgAck:
				if a, err := shell.DecodeAck(pt[1:]); err == nil && a.Success {
					// cannot happen: no command name of this world resolves to an executable
					panic("wshell: handler acknowledged a started session - a real process would be running")
				}
			}
		}
	}
	id := 0
	if r != nil {
		id = r.id
	}
	simrt.Eventf("writer.data r=%d stream=%d kind=%s len=%d", id, streamID, kind, len(data))
	w.sample("writer-data")
	return nil
}

func (rw *recWriter) WriteStreamClose(peerID identity.AgentID, streamID uint64) error {
	w := rw.w
	id := 0
	if r := w.byStream[streamID]; r != nil {
		r.closedBy = true
		id = r.id
	}
	simrt.Eventf("writer.close r=%d stream=%d", id, streamID)
	w.sample("writer-close")
	return nil
}

// ---------------------------------------------------------------------------
// one request, issued the way agent.go feeds the handler

func (w *world) issue(r *request) {
	// what the handler will decode from the wire is what the model judges
	var wire []byte
	switch r.rawKind {
	case "":
		b, err := shell.EncodeMeta(r.meta)
		if err != nil {
			panic(err)
		}
		wire = b
		eff, err := shell.DecodeMeta(b[1:])
		if err != nil {
			panic(err)
		}
		r.eff = eff
	case "empty-frame":
		wire = []byte{}
	case "not-meta":
		wire = shell.EncodeStdin([]byte(r.meta.Command + "\n"))
	case "bad-json":
		wire = shell.EncodeMessage(shell.MsgMeta, []byte(`{"command": "`+nameLs+`", "args": [`))
	default:
		b, _ := shell.EncodeMeta(r.meta)
		wire = b
	}
	r.authOK, r.reason = w.authorise(r)
	w.byG[r.gname] = r
	simrt.Eventf("req r=%d g=%s raw=%q cmd=%q[%s] args=%q[%s] pw=%s burst=%v model=%v %s",
		r.id, r.gname, r.rawKind, r.meta.Command, r.cmdKind, r.meta.Args, r.argKind, r.pwKind, r.burst, r.authOK, r.reason)

	// STREAM_OPEN: ephemeral key exchange
	priv, pub, err := crypto.GenerateEphemeralKeypair()
	if err != nil {
		panic(err)
	}
	if r.rawKind == "zero-key-open" {
		pub = [crypto.KeySize]byte{}
	}
	opened := false
	if r.rawKind != "no-open" {
		code, srvPub := w.h.HandleStreamOpen(r.peer, r.streamID, r.requestID, false, pub)
		r.openErr = code
		simrt.Eventf("open r=%d code=%d", r.id, code)
		if code == 0 {
			opened = true
			shared, err := crypto.ComputeECDH(priv, srvPub)
			if err != nil {
				panic(err)
			}
			r.key = crypto.DeriveSessionKey(shared, r.requestID, pub, srvPub, true)
		}
	}
	w.sample("after-open")

	// optionally the client gives up early: STREAM_CLOSE races the META processing
	if opened && !r.burst && simrt.Choose(5, "earlyclose") == 4 {
		delay := gaps[simrt.Choose(4, "closedelay")]
		w.closers.Go(fmt.Sprintf("closer%d", r.id), func() {
			if delay > 0 {
				simrt.Sleep(delay)
			}
			if r.inHook {
				simrt.Probe("close_during_process_start")
			}
			simrt.Eventf("earlyclose r=%d", r.id)
			w.h.HandleStreamClose(r.streamID)
			w.sample("after-earlyclose")
		})
	}

	// STREAM_DATA with the (encrypted) first message. A client whose open was
	// refused may still send it; the handler has to ignore it.
	if opened || simrt.Choose(2, "data-after-refused-open") == 1 {
		var frame []byte
		if r.key != nil && r.rawKind != "undecryptable" {
			ct, err := r.key.Encrypt(wire)
			if err != nil {
				panic(err)
			}
			frame = ct
		} else {
			frame = append([]byte("garbage-not-a-ciphertext-"), wire...)
		}
		w.h.HandleStreamData(r.peer, r.streamID, frame, 0)
	}
	n := w.sample("after-data")

	// outcome
	switch {
	case r.attempts > 0:
		simrt.Probe("start_failed_no_such_command")
	case r.authOK:
		simrt.Probe("authorised_refused")
		if strings.Contains(r.errText, "max sessions") {
			simrt.Probe("at_max_sessions")
		}
	default:
		simrt.Probe(probeClass(r.reason))
	}
	simrt.Eventf("done r=%d attempts=%d err=%q closed=%v active=%d", r.id, r.attempts, r.errText, r.closedBy, n)
	if opened {
		w.h.HandleStreamClose(r.streamID) // the client closes its side (idempotent)
		w.sample("after-close")
	}
	delete(w.byG, r.gname)
}

// ---------------------------------------------------------------------------

func runC25() {
	simexec.Reset()
	w := &world{cfg: drawConfig(), byMarker: map[string]*request{}, byStream: map[uint64]*request{}, byG: map[string]*request{}}
	simexec.SetHook(w.onExec)
	defer simexec.Reset()
	w.ex = shell.NewExecutor(w.cfg.shellCfg())
	w.h = shell.NewHandler(w.ex, &recWriter{w}, slog.New(slog.NewTextHandler(io.Discard, nil)))

	nReq := 2 + simrt.Choose(5, "requesters")
	simrt.Eventf("C25 enabled=%v whitelist=%s%q pwmode=%d max=%d requesters=%d", w.cfg.enabled, w.cfg.wlKind, w.cfg.whitelist, w.cfg.pwMode, w.cfg.max, nReq)

	// periodic sampling of the executor's own count (in addition to every harness step)
	stop := false
	var mon simrt.Group
	if tick := []time.Duration{0, 100 * time.Millisecond, time.Second}[simrt.Choose(3, "tick")]; tick > 0 {
		mon.Go("monitor", func() {
			for !stop {
				simrt.Sleep(tick)
				w.sample("tick")
			}
		})
	}

	var g simrt.Group
	for i := 0; i < nReq; i++ {
		name := fmt.Sprintf("requester%d", i)
		g.Go(name, func() {
			k := 1 + simrt.Choose(4, "nreq")
			for j := 0; j < k; j++ {
				if d := gaps[simrt.Choose(len(gaps), "gap")]; d > 0 {
					simrt.Sleep(d)
				} else {
					simrt.Yield()
				}
				r := w.newRequest(name)
				w.drawMeta(r)
				w.issue(r)
			}
		})
	}
	g.Wait()
	w.closers.Wait()

	// Everything has ended. No slot may have leaked: with max_sessions = N > 0,
	// N fresh authorised requests issued together must all be admitted.
	simrt.Sleep(10 * time.Second)
	idle := w.sample("idle")
	starts := 0
	for _, r := range w.reqs {
		starts += r.attempts
	}
	simrt.Eventf("idle active=%d starts=%d streams=%d", idle, starts, w.h.ActiveStreams())
	canAuth := w.cfg.enabled && w.cfg.pwMode != 2 && (w.cfg.wildcard() || len(w.cfg.baseNames()) > 0)
	if w.cfg.max > 0 && canAuth {
		w.bursting = true
		var bg simrt.Group
		var burst []*request
		for i := 0; i < w.cfg.max; i++ {
			name := fmt.Sprintf("burst%d", i)
			r := w.newRequest(name)
			r.burst = true
			w.validMeta(r)
			burst = append(burst, r)
			bg.Go(name, func() { w.issue(r) })
		}
		bg.Wait()
		for _, r := range burst {
			if r.attempts == 0 {
				simrt.Failf("slot-leak", "fresh request refused after all sessions ended",
					"after every earlier session had ended (%d process start attempts, ActiveSessions()=%d while idle), %d fresh authorised requests were issued together with max_sessions=%d; request %d was refused with %q",
					starts, idle, w.cfg.max, w.cfg.max, r.id, r.errText)
			}
		}
		simrt.Probe("burst_admitted")
		if starts > 0 {
			simrt.Probe("slot_released_after_failure")
		}
		w.bursting = false
	}

	stop = true
	mon.Wait()
	w.h.Close()

	// every recorded process-creation call went through the oracle
	if n := simexec.Len(); n != w.hookSeen {
		simrt.Failf("unattributed-start", "process start attempt not seen by the oracle", "%d recorded, %d checked", n, w.hookSeen)
	}
	if simexec.Suppressed() != 0 {
		panic("wshell: a command name of the workload resolved to a real executable")
	}
}
