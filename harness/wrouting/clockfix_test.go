package wrouting

import (
	"reflect"
	"unsafe"

	"github.com/postalsys/muti-metroo/internal/verifrt/simrt"
)

// bubbleKick works around a defect of the shared scheduler (rt/simrt/sched.go,
// which this world must not edit): Run creates the driver's kick channel before
// entering the synctest bubble, so the driver's `<-s.kick` is not a durable
// block and the fake clock can never advance (every simrt.Sleep with all
// goroutines asleep hangs). Called first thing by the root goroutine, inside
// the bubble and while the driver sits in synctest.Wait, it swaps in a channel
// created inside the bubble. Harmless once the scheduler creates the channel
// inside the bubble itself.
func bubbleKick() {
	s := simrt.Cur()
	if s == nil {
		return
	}
	f := reflect.ValueOf(s).Elem().FieldByName("kick")
	if !f.IsValid() || f.Kind() != reflect.Chan {
		return
	}
	p := (*chan struct{})(unsafe.Pointer(f.UnsafeAddr()))
	*p = make(chan struct{}, 1)
}
