package wrouting

// Reference model of the four route tables, written from the statements of
// C08, C09 and C10 (properties.jsonl), not from the implementation:
//
//   - a table is a set of routes, at most one per identity. Identity is
//     (pattern/prefix/key, origin) and, for agent-presence routes, additionally
//     the next hop (documented on AgentTable.AddRoute; the statements are silent).
//   - add: never stored if the path contains the local agent; stored if there
//     is no route with that identity; otherwise replaces the stored one only if
//     the sequence is newer, or equal with a strictly lower metric.
//   - peer disconnect removes exactly the routes whose next hop is that peer.
//   - stale cleanup removes routes not refreshed within maxAge, never routes
//     originated by the local agent.
//   - CIDR lookup: some route of the longest containing prefix with the lowest
//     metric among the routes of that prefix; nothing iff no prefix contains it.
//   - domain lookup: exact pattern (case-insensitive) before the wildcard of
//     the name minus its first label; a wildcard never matches deeper; lowest
//     metric inside the chosen pattern. forward / agent lookup: lowest metric.
//
// Where the statements are silent (which of two equal-metric routes is
// returned, order of a dump) every outcome is accepted.

import (
	"fmt"
	"sort"
	"strings"
)

type fam uint8

const (
	famCIDR fam = iota
	famDomain
	famForward
	famAgent
	nFam
)

var famName = [nFam]string{"cidr", "domain", "forward", "agent"}

const localIdx int8 = 0 // index of the local agent in the id universe

type opKind uint8

const (
	kAdd         opKind = iota // learned route (advertisement or direct table add)
	kAddLocal                  // locally originated route through the manager
	kRemoveLocal               // remove locally originated route through the manager
	kWithdraw                  // remove the route of (key, origin)
	kDisconnect                // remove every route learned through a peer
	kCleanup                   // stale-route cleanup
	kLookup
	kDump // full table contents
)

// rkey is the identity of a stored route.
type rkey struct {
	fam    fam
	key    string
	origin int8
	via    int8 // next hop; part of the identity in the agent table only (-1 otherwise)
}

type mroute struct {
	nexthop int8
	metric  uint16
	seq     uint64 // 0 for locally originated routes (the manager numbers them; not modelled)
	tag     uint32 // unique per learned add (0 for local routes)
	t       int64  // simulated time of the last accepted add
}

// mstate is immutable once published (porcupine caches states).
type mstate struct {
	m map[rkey]mroute
	h uint64
}

func newState() *mstate { return &mstate{m: map[rkey]mroute{}} }

func mixh(h, v uint64) uint64 {
	h ^= v
	h *= 1099511628211
	return h
}

func entryHash(k rkey, r mroute) uint64 {
	h := uint64(14695981039346656037)
	h = mixh(h, uint64(k.fam))
	for i := 0; i < len(k.key); i++ {
		h = mixh(h, uint64(k.key[i]))
	}
	h = mixh(h, uint64(uint8(k.origin)))
	h = mixh(h, uint64(uint8(k.via)))
	h = mixh(h, uint64(uint8(r.nexthop)))
	h = mixh(h, uint64(r.metric))
	h = mixh(h, r.seq)
	h = mixh(h, uint64(r.tag))
	h = mixh(h, uint64(r.t))
	return h
}

func (s *mstate) clone() *mstate {
	m := make(map[rkey]mroute, len(s.m)+1)
	for k, v := range s.m {
		m[k] = v
	}
	return &mstate{m: m, h: s.h}
}

func (s *mstate) with(k rkey, r mroute) *mstate {
	n := s.clone()
	if old, ok := n.m[k]; ok {
		n.h ^= entryHash(k, old)
	}
	n.m[k] = r
	n.h ^= entryHash(k, r)
	return n
}

func (s *mstate) without(keys []rkey) *mstate {
	if len(keys) == 0 {
		return s
	}
	n := s.clone()
	for _, k := range keys {
		if old, ok := n.m[k]; ok {
			n.h ^= entryHash(k, old)
			delete(n.m, k)
		}
	}
	return n
}

func (s *mstate) equal(o *mstate) bool {
	if s.h != o.h || len(s.m) != len(o.m) {
		return false
	}
	for k, v := range s.m {
		if ov, ok := o.m[k]; !ok || ov != v {
			return false
		}
	}
	return true
}

// sortedKeys gives a deterministic order for messages.
func (s *mstate) sortedKeys(f fam) []rkey {
	var ks []rkey
	for k := range s.m {
		if k.fam == f {
			ks = append(ks, k)
		}
	}
	sort.Slice(ks, func(i, j int) bool { return rkeyLess(ks[i], ks[j]) })
	return ks
}

func rkeyLess(a, b rkey) bool {
	if a.key != b.key {
		return a.key < b.key
	}
	if a.origin != b.origin {
		return a.origin < b.origin
	}
	return a.via < b.via
}

// opIn is the input of one recorded operation.
type opIn struct {
	fam     fam
	kind    opKind
	key     string // model key of the route (add / local / withdraw)
	origin  int8
	nexthop int8
	metric  uint16 // metric the stored route must carry
	seq     uint64
	tag     uint32
	self    bool   // the advertised path contains the local agent
	peer    int8   // disconnect
	maxAge  int64  // cleanup
	t       int64  // simulated time of the invocation (no time passes inside an operation)
	q       string // lookup query in model form: raw address bytes / lower-case name / key / agent key

	// how the real call is made (not used by the model)
	spell    string // spelling of the pattern / queried name / address text
	viaTable bool   // direct table call instead of the manager API
	dynamic  bool   // local CIDR route managed through AddDynamicRoute/RemoveDynamicRoute
	wide     bool   // IPv4 address passed in 16-byte form
	selfPos  int
}

// rdesc is a route as observed from the real tables.
type rdesc struct {
	key      string
	origin   int8
	nexthop  int8
	metric   uint16
	seq      uint64
	tag      uint32
	selfPath bool // the stored path contains the local agent
}

func (r rdesc) String() string {
	return fmt.Sprintf("{%s o=%d nh=%d m=%d seq=%d tag=%d}", r.key, r.origin, r.nexthop, r.metric, r.seq, r.tag)
}

type opOut struct {
	ok    int8 // 1 true, 0 false, -1 not observable for this sub-operation
	count int
	found bool
	r     rdesc
	dump  []rdesc
}

type verdict struct{ class, sig, detail string }

// terse is set while porcupine explores candidate orders: only the yes/no of a
// step matters there, so no message is formatted.
var (
	terse  bool
	terseV = &verdict{class: "terse"}
)

func bad(class, sig, format string, a ...any) *verdict {
	if terse {
		return terseV
	}
	return &verdict{class: class, sig: sig, detail: fmt.Sprintf(format, a...)}
}

func (in *opIn) rkey() rkey {
	k := rkey{fam: in.fam, key: in.key, origin: in.origin, via: -1}
	if in.fam == famAgent {
		k.via = in.nexthop
	}
	return k
}

func describe(k rkey, r mroute) string {
	return fmt.Sprintf("{%s o=%d nh=%d m=%d seq=%d tag=%d t=%ds}", k.key, k.origin, r.nexthop, r.metric, r.seq, r.tag, r.t/1e9)
}

// matches reports whether an observed route is the stored route (k, r).
func matches(d rdesc, k rkey, r mroute) bool {
	if d.key != k.key || d.origin != k.origin || d.nexthop != r.nexthop || d.metric != r.metric || d.tag != r.tag {
		return false
	}
	if k.origin == localIdx {
		return true // sequence of local routes is chosen by the manager
	}
	return d.seq == r.seq
}

// acceptRule is the update rule of C10.
func acceptRule(cur mroute, exists bool, in *opIn) (bool, string) {
	switch {
	case in.self:
		return false, "path contains the local agent"
	case !exists:
		return true, "no stored route with this identity"
	case in.seq > cur.seq:
		return true, "newer sequence"
	case in.seq == cur.seq && in.metric < cur.metric:
		return true, "same sequence, strictly lower metric"
	case in.seq == cur.seq:
		return false, "same sequence, metric not lower"
	default:
		return false, "older sequence"
	}
}

// step applies one operation to the model and judges the observed output.
func step(st *mstate, in *opIn, out *opOut) (*mstate, *verdict) {
	switch in.kind {
	case kAdd:
		k := in.rkey()
		cur, exists := st.m[k]
		accept, why := acceptRule(cur, exists, in)
		if out.ok >= 0 && (out.ok == 1) != accept {
			if terse {
				return st, terseV
			}
			return st, bad("update-rule", fmt.Sprintf("add reported accepted=%v but: %s", out.ok == 1, why),
				"add %s seq=%d metric=%d, stored %v %s", k.key, in.seq, in.metric, exists, describe(k, cur))
		}
		if !accept {
			return st, nil
		}
		return st.with(k, mroute{nexthop: in.nexthop, metric: in.metric, seq: in.seq, tag: in.tag, t: in.t}), nil

	case kAddLocal:
		if out.ok == 0 {
			return st, bad("local-route", "adding a locally originated route failed", "%s metric=%d", in.key, in.metric)
		}
		k := in.rkey()
		return st.with(k, mroute{nexthop: localIdx, metric: in.metric, t: in.t}), nil

	case kRemoveLocal, kWithdraw:
		k := in.rkey()
		_, exists := st.m[k]
		if out.ok >= 0 && (out.ok == 1) != exists {
			if terse {
				return st, terseV
			}
			return st, bad("remove-result", fmt.Sprintf("remove reported removed=%v but route stored=%v", out.ok == 1, exists), "%s origin=%d", k.key, k.origin)
		}
		if !exists {
			return st, nil
		}
		return st.without([]rkey{k}), nil

	case kDisconnect:
		var del []rkey
		for k, r := range st.m {
			if k.fam == in.fam && r.nexthop == in.peer {
				del = append(del, k)
			}
		}
		if out.count != len(del) {
			return st, bad("disconnect", "disconnect removed a different number of routes than were learned through the peer",
				"peer=%d reported=%d learned-through-peer=%d", in.peer, out.count, len(del))
		}
		return st.without(del), nil

	case kCleanup:
		var del []rkey
		for k, r := range st.m {
			if k.fam == in.fam && k.origin != localIdx && in.t-r.t > in.maxAge {
				del = append(del, k)
			}
		}
		if out.count != len(del) {
			return st, bad("cleanup", "cleanup removed a different number of routes than were stale and not local",
				"maxAge=%ds now=%ds reported=%d stale-nonlocal=%d", in.maxAge/1e9, in.t/1e9, out.count, len(del))
		}
		return st.without(del), nil

	case kLookup:
		return st, judgeLookup(st, in, out)

	case kDump:
		return st, judgeDump(st, in, out)
	}
	panic("unknown op kind")
}

type ent struct {
	k rkey
	r mroute
}

// groupsFor returns, in order of preference, the keys whose routes may answer
// the query; the first key that has any stored route decides.
func groupsFor(st *mstate, in *opIn) []string {
	switch in.fam {
	case famCIDR:
		// containing prefixes, longest first (only prefixes that are stored matter)
		seen := map[string]bool{}
		var ps []*pfx
		for k := range st.m {
			if k.fam != famCIDR || seen[k.key] {
				continue
			}
			seen[k.key] = true
			p := cidrByKey[k.key]
			if p != nil && p.contains([]byte(in.q)) {
				ps = append(ps, p)
			}
		}
		sort.Slice(ps, func(i, j int) bool {
			if ps[i].bits != ps[j].bits {
				return ps[i].bits > ps[j].bits
			}
			return ps[i].key < ps[j].key
		})
		var out []string
		for _, p := range ps {
			out = append(out, p.key)
		}
		return out
	case famDomain:
		name := in.q // lower case
		out := []string{"e|" + name}
		if i := strings.IndexByte(name, '.'); i > 0 && i < len(name)-1 {
			out = append(out, "w|"+name[i+1:])
		}
		return out
	default:
		return []string{in.q}
	}
}

func routesOf(st *mstate, f fam, key string) []ent {
	var es []ent
	for k, r := range st.m {
		if k.fam == f && k.key == key {
			es = append(es, ent{k, r})
		}
	}
	sort.Slice(es, func(i, j int) bool { return rkeyLess(es[i].k, es[j].k) })
	return es
}

func judgeLookup(st *mstate, in *opIn, out *opOut) *verdict {
	groups := groupsFor(st, in)
	var chosen []ent
	chosenKey := ""
	for _, g := range groups {
		if es := routesOf(st, in.fam, g); len(es) > 0 {
			chosen, chosenKey = es, g
			break
		}
	}
	if !out.found {
		if len(chosen) == 0 {
			return nil
		}
		if terse {
			return terseV
		}
		return bad("lookup", "returned nothing although a stored route matches", "query %s: stored %s matches", in.spell, describe(chosen[0].k, chosen[0].r))
	}
	d := out.r
	if d.selfPath {
		return bad("self-in-path", "lookup returned a route whose path contains the local agent", "%v", d)
	}
	if terse {
		return judgeLookupTerse(chosen, chosenKey, d)
	}
	if len(chosen) == 0 {
		// is it at least stored?
		return bad("lookup", "returned a route although no stored route matches: "+whereIs(st, in, d, groups), "query %s: got %v", in.spell, d)
	}
	if d.key != chosenKey {
		return bad("lookup", "returned a route of the wrong pattern: "+whereIs(st, in, d, groups), "query %s: got %v, best pattern is %s", in.spell, d, chosenKey)
	}
	min := chosen[0].r.metric
	for _, e := range chosen {
		if e.r.metric < min {
			min = e.r.metric
		}
	}
	for _, e := range chosen {
		if matches(d, e.k, e.r) {
			if e.r.metric != min {
				return bad("lookup", "returned a route that is not the lowest metric of its pattern", "query %s: got %v, lowest metric stored for %s is %d", in.spell, d, chosenKey, min)
			}
			return nil
		}
	}
	return bad("lookup", "returned a route of the right pattern that is not stored (stale or never accepted)", "query %s: got %v; stored for %s: %s", in.spell, d, chosenKey, listEnts(chosen))
}

// judgeLookupTerse is judgeLookup's decision without any message.
func judgeLookupTerse(chosen []ent, chosenKey string, d rdesc) *verdict {
	if len(chosen) == 0 || d.key != chosenKey {
		return terseV
	}
	min := chosen[0].r.metric
	for _, e := range chosen {
		if e.r.metric < min {
			min = e.r.metric
		}
	}
	for _, e := range chosen {
		if matches(d, e.k, e.r) {
			if e.r.metric != min {
				return terseV
			}
			return nil
		}
	}
	return terseV
}

// whereIs classifies a wrongly returned route for the violation signature.
func whereIs(st *mstate, in *opIn, d rdesc, groups []string) string {
	for i, g := range groups {
		if g == d.key {
			if in.fam == famCIDR {
				return "a shorter containing prefix was preferred"
			}
			if in.fam == famDomain && i > 0 {
				return "wildcard preferred over exact pattern"
			}
			return "pattern matches but holds no such route"
		}
	}
	stored := false
	for k := range st.m {
		if k.fam == in.fam && k.key == d.key {
			stored = true
		}
	}
	switch {
	case in.fam == famCIDR:
		return "prefix does not contain the address"
	case in.fam == famDomain && strings.HasPrefix(d.key, "w|") && strings.HasSuffix(in.q, "."+d.key[2:]):
		return "wildcard matched more than one label deep"
	case stored:
		return "pattern does not match the query"
	default:
		return "route not stored at all"
	}
}

func listEnts(es []ent) string {
	var parts []string
	for _, e := range es {
		parts = append(parts, describe(e.k, e.r))
	}
	return strings.Join(parts, " ")
}

func judgeDump(st *mstate, in *opIn, out *opOut) *verdict {
	if terse {
		// same decision as below, without messages
		n := 0
		for k := range st.m {
			if k.fam == in.fam {
				n++
			}
		}
		if n != len(out.dump) {
			return terseV
		}
	}
	seen := map[rkey]bool{}
	for _, d := range out.dump {
		if d.selfPath {
			return bad("self-in-path", "table stores a route whose path contains the local agent", "%s table: %v", famName[in.fam], d)
		}
		k := rkey{fam: in.fam, key: d.key, origin: d.origin, via: -1}
		if in.fam == famAgent {
			k.via = d.nexthop
		}
		if seen[k] {
			return bad("table-contents", "table stores two routes with the same identity", "%s table: %v", famName[in.fam], d)
		}
		seen[k] = true
		r, ok := st.m[k]
		if !ok {
			return bad("table-contents", "table stores a route the model does not (not removed, or stored against the rules)", "%s table: %v", famName[in.fam], d)
		}
		if !matches(d, k, r) {
			if terse {
				return terseV
			}
			return bad("table-contents", "stored route differs from the model (replaced against the update rule, or a rightful update lost)", "%s table: stored %v, model %s", famName[in.fam], d, describe(k, r))
		}
	}
	for _, k := range st.sortedKeys(in.fam) {
		if !seen[k] {
			return bad("table-contents", "table lacks a route the model stores (removed though it should have stayed, or a rightful add lost)", "%s table lacks %s", famName[in.fam], describe(k, st.m[k]))
		}
	}
	return nil
}

// ---- reach probes (evaluated on sequential histories, where the state before each op is known)

func probesFor(st *mstate, in *opIn, out *opOut, probe func(string)) {
	switch in.kind {
	case kAdd:
		cur, exists := st.m[in.rkey()]
		accept, _ := acceptRule(cur, exists, in)
		switch {
		case in.self:
			probe("add_self_in_path")
		case !exists:
			probe("add_new")
		case accept && in.seq > cur.seq:
			probe("add_newer_seq_replaces")
		case accept:
			probe("add_same_seq_lower_metric")
		case in.seq == cur.seq:
			probe("add_same_seq_not_lower_rejected")
		default:
			probe("add_older_seq_rejected")
		}
	case kWithdraw:
		if _, ok := st.m[in.rkey()]; ok {
			probe("withdraw_removed")
		}
	case kRemoveLocal:
		if _, ok := st.m[in.rkey()]; ok {
			probe("local_removed")
		}
	case kDisconnect:
		kept := 0
		for k, r := range st.m {
			if k.fam == in.fam && r.nexthop != in.peer {
				kept++
			}
		}
		if out.count > 0 {
			probe("disconnect_removed")
			if kept > 0 {
				probe("disconnect_removed_some_kept_others")
			}
		}
	case kCleanup:
		if out.count > 0 {
			probe("cleanup_removed")
		}
		for k, r := range st.m {
			if k.fam != in.fam {
				continue
			}
			if k.origin == localIdx && in.t-r.t > in.maxAge {
				probe("cleanup_spared_old_local")
			}
			if k.origin != localIdx && in.t-r.t <= in.maxAge && in.t > r.t {
				probe("cleanup_kept_fresh")
			}
		}
	case kLookup:
		if !out.found {
			probe("lookup_miss")
			return
		}
		probe("lookup_hit")
		groups := groupsFor(st, in)
		nonEmpty := 0
		var first []ent
		for _, g := range groups {
			if es := routesOf(st, in.fam, g); len(es) > 0 {
				if nonEmpty == 0 {
					first = es
				}
				nonEmpty++
			}
		}
		if nonEmpty >= 2 {
			if in.fam == famCIDR {
				probe("lookup_shorter_prefix_shadowed")
			} else {
				probe("lookup_exact_over_wildcard")
			}
		}
		if len(first) >= 2 {
			probe("lookup_several_origins")
			min, n := first[0].r.metric, 0
			for _, e := range first {
				if e.r.metric < min {
					min = e.r.metric
				}
			}
			for _, e := range first {
				if e.r.metric == min {
					n++
				}
			}
			if n >= 2 {
				probe("lookup_metric_tie")
			}
		}
		if in.fam == famDomain {
			// a stored wildcard whose base is a proper suffix deeper than one label
			for k := range st.m {
				if k.fam == famDomain && strings.HasPrefix(k.key, "w|") && strings.HasSuffix(in.q, "."+k.key[2:]) {
					rest := strings.TrimSuffix(in.q, "."+k.key[2:])
					if strings.Contains(rest, ".") {
						probe("lookup_name_deeper_than_stored_wildcard")
						break
					}
				}
			}
		}
	case kDump:
		probe("dump_compared")
	}
}
