// Package wrouting is the simulated world W-routing: one real routing.Manager
// (Table, DomainTable, ForwardTable, AgentTable) driven by concurrent simulated
// callers under the fake clock. It decides C08, C09 and C10.
package wrouting

import (
	"encoding/binary"
	"fmt"
	"net"
	"sort"
	"strings"
	"testing"
	"time"

	"github.com/anishathalye/porcupine"

	"github.com/postalsys/muti-metroo/internal/identity"
	"github.com/postalsys/muti-metroo/internal/protocol"
	"github.com/postalsys/muti-metroo/internal/routing"
	"github.com/postalsys/muti-metroo/internal/verifrt/simrt"
	"github.com/postalsys/muti-metroo/internal/verifsim/hc"
)

func TestWorld(t *testing.T) {
	hc.Main(t, &hc.World{
		Name:         "W-routing",
		Run:          run,
		PreemptMeans: []int{0, 1, 3, 8, 25, 80},
		MaxSteps:     3_000_000,
		MaxSimTime:   48 * time.Hour,
	})
}

func run(prop string) {
	switch prop {
	case "C08":
		runC08()
	case "C09":
		runC09()
	case "C10":
		runC10()
	default:
		panic("W-routing does not decide " + prop)
	}
}

const (
	maxClients      = 5
	maxOpsPerClient = 40
	porcupineBudget = 400_000 // model steps per history; beyond that the run is inconclusive
)

// rec is one recorded (sub-)operation.
type rec struct {
	in        *opIn
	out       *opOut
	call, ret uint64
	client    int
}

// action is one real API call; a multi-entry advertisement or withdrawal is
// recorded as several sub-operations sharing the call's interval, because the
// manager applies the entries one by one (the statements do not make a
// multi-entry announcement atomic).
type action struct {
	ins []*opIn
}

type world struct {
	m        *routing.Manager
	nClients int
	fams     []fam
	hot      [nFam][]int
	hist     [nFam][]*rec
	nextTag  uint32
	ops      [maxClients + 1]int // sub-operations recorded per client (index maxClients = root)
}

func newWorld(nClients int, fams []fam) *world {
	w := &world{m: routing.NewManager(aid(localIdx)), nClients: nClients, fams: fams}
	for _, f := range fams {
		n := universeSize(f)
		k := 2 + simrt.Choose(5, "hot")
		for i := 0; i < k && i < n; i++ {
			w.hot[f] = append(w.hot[f], simrt.Choose(n, "hotkey"))
		}
	}
	return w
}

func (w *world) pickKey(f fam) int {
	if simrt.Chance(1, 5, "cold") {
		return simrt.Choose(universeSize(f), "key")
	}
	return w.hot[f][simrt.Choose(len(w.hot[f]), "hotpick")]
}

func keyOf(f fam, i int) string {
	switch f {
	case famCIDR:
		return cidrU[i].key
	case famDomain:
		return domU[i].key
	case famForward:
		return fwdU[i]
	default:
		return agentU[i]
	}
}

// ownedKey picks a key whose locally originated route is managed by client c
// (local-route bookkeeping in the manager is per key and not atomic with the
// table, so each key has a single owner; owners still run concurrently).
func (w *world) ownedKey(f fam, c int) (int, bool) {
	var owned []int
	n := universeSize(f)
	for i := 0; i < n; i++ {
		if i%w.nClients != c%w.nClients {
			continue
		}
		if f == famDomain && !domU[i].localOK {
			continue
		}
		owned = append(owned, i)
	}
	if len(owned) == 0 {
		return 0, false
	}
	return owned[simrt.Choose(len(owned), "ownkey")], true
}

var maxAges = []time.Duration{15 * time.Second, 5 * time.Second, 25 * time.Second, 45 * time.Second, time.Hour}

// gen draws the next action of client c on family f.
func (w *world) gen(c int, f fam) *action {
	k := simrt.Choose(20, "op")
	switch {
	case k <= 6:
		return w.genAdd(f)
	case k == 7 && f != famAgent:
		if i, ok := w.ownedKey(f, c); ok {
			in := &opIn{fam: f, kind: kAddLocal, key: keyOf(f, i), origin: localIdx, nexthop: localIdx, metric: uint16(simrt.Choose(4, "metric"))}
			w.localSpelling(in, i)
			return &action{ins: []*opIn{in}}
		}
	case k == 8 && f != famAgent:
		if i, ok := w.ownedKey(f, c); ok {
			in := &opIn{fam: f, kind: kRemoveLocal, key: keyOf(f, i), origin: localIdx, nexthop: localIdx}
			w.localSpelling(in, i)
			return &action{ins: []*opIn{in}}
		}
	case k <= 10 && f != famAgent:
		return w.genWithdraw(f)
	case k == 11:
		return &action{ins: []*opIn{{fam: f, kind: kDisconnect, peer: int8(1 + simrt.Choose(nPeers, "peer"))}}}
	case k == 12:
		return &action{ins: []*opIn{{fam: f, kind: kCleanup, maxAge: int64(maxAges[simrt.Choose(len(maxAges), "maxage")])}}}
	}
	return w.genLookup(f, simrt.Choose(probeCount(f), "probe"))
}

func (w *world) localSpelling(in *opIn, i int) {
	switch in.fam {
	case famCIDR:
		in.dynamic = i%2 == 1
	case famDomain:
		in.spell = spell(domU[i].pattern, 2) // one fixed spelling per locally configured pattern
	}
}

func (w *world) genAdd(f fam) *action {
	origin := int8(1 + simrt.Choose(nOrigins, "origin"))
	from := int8(1 + simrt.Choose(nPeers, "from"))
	seq := uint64(1 + simrt.Choose(4, "seq"))
	self := simrt.Chance(1, 8, "self")
	selfPos := 0
	if self {
		selfPos = simrt.Choose(2, "selfpos")
	}
	viaTable := simrt.Chance(1, 3, "viatable")
	n := 1
	if !viaTable && f != famAgent && simrt.Chance(1, 4, "multi") {
		n = 2 + simrt.Choose(2, "entries")
	}
	w.nextTag++
	tag := w.nextTag
	a := &action{}
	used := map[int]bool{}
	for e := 0; e < n; e++ {
		i := w.pickKey(f)
		if used[i] {
			continue
		}
		used[i] = true
		in := &opIn{fam: f, kind: kAdd, key: keyOf(f, i), origin: origin, nexthop: from, seq: seq, tag: tag,
			metric: uint16(1 + simrt.Choose(4, "metric")), self: self, selfPos: selfPos, viaTable: viaTable}
		switch f {
		case famDomain:
			in.spell = spell(domU[i].pattern, simrt.Choose(3, "spell"))
		case famAgent:
			// the announced agent is normally the origin itself
			if !simrt.Chance(1, 6, "foreignagent") {
				in.origin = int8(i + 1)
			}
		}
		a.ins = append(a.ins, in)
	}
	return a
}

func (w *world) genWithdraw(f fam) *action {
	origin := int8(1 + simrt.Choose(nOrigins, "origin"))
	viaTable := f != famCIDR || simrt.Chance(1, 2, "viatable")
	n := 1
	if !viaTable && simrt.Chance(1, 4, "multi") {
		n = 2
	}
	a := &action{}
	used := map[int]bool{}
	for e := 0; e < n; e++ {
		i := w.pickKey(f)
		if used[i] {
			continue
		}
		used[i] = true
		in := &opIn{fam: f, kind: kWithdraw, key: keyOf(f, i), origin: origin, viaTable: viaTable}
		if f == famDomain {
			in.spell = spell(domU[i].pattern, simrt.Choose(3, "spell"))
		}
		a.ins = append(a.ins, in)
	}
	return a
}

func (w *world) genLookup(f fam, p int) *action {
	in := &opIn{fam: f, kind: kLookup}
	switch f {
	case famCIDR:
		in.q = string(cidrProbe[p].raw)
		in.spell = cidrProbe[p].text
		in.wide = len(cidrProbe[p].raw) == 4 && simrt.Chance(1, 2, "wide")
		in.viaTable = simrt.Chance(1, 4, "viatable")
	case famDomain:
		in.q = domProbe[p]
		in.spell = spell(domProbe[p], simrt.Choose(3, "spell"))
	case famForward:
		in.q = fwdProbe[p]
		in.spell = in.q
	default:
		in.q = agentKey(int8(p))
		in.spell = in.q
		in.peer = int8(p)
	}
	return &action{ins: []*opIn{in}}
}

// ---- execution against the real manager

func mkPath(in *opIn) []identity.AgentID {
	p := []identity.AgentID{aid(in.nexthop)}
	if in.self && in.selfPos == 0 {
		p = append(p, aid(localIdx))
	}
	if in.origin != in.nexthop {
		p = append(p, aid(in.origin))
	}
	if in.self && in.selfPos == 1 {
		p = append(p, aid(localIdx))
	}
	return p
}

func mkEnc(tag uint32) *protocol.EncryptedData {
	b := make([]byte, 4)
	binary.BigEndian.PutUint32(b, tag)
	return &protocol.EncryptedData{Encrypted: true, Data: b}
}

func tagOf(e *protocol.EncryptedData) uint32 {
	if e == nil || len(e.Data) != 4 {
		return 0
	}
	return binary.BigEndian.Uint32(e.Data)
}

func hasLocal(p []identity.AgentID) bool {
	for _, id := range p {
		if id == aid(localIdx) {
			return true
		}
	}
	return false
}

func b2i(b bool) int8 {
	if b {
		return 1
	}
	return 0
}

func descCIDR(r *routing.Route) rdesc {
	return rdesc{key: r.Network.String(), origin: idxOf(r.OriginAgent), nexthop: idxOf(r.NextHop), metric: r.Metric, seq: r.Sequence, tag: tagOf(r.EncPath), selfPath: hasLocal(r.Path)}
}
func descDomain(r *routing.DomainRoute) rdesc {
	return rdesc{key: domKey(r.Pattern), origin: idxOf(r.OriginAgent), nexthop: idxOf(r.NextHop), metric: r.Metric, seq: r.Sequence, tag: tagOf(r.EncPath), selfPath: hasLocal(r.Path)}
}
func descForward(r *routing.ForwardRoute) rdesc {
	return rdesc{key: r.Key, origin: idxOf(r.OriginAgent), nexthop: idxOf(r.NextHop), metric: r.Metric, seq: r.Sequence, tag: tagOf(r.EncPath), selfPath: hasLocal(r.Path)}
}
func descAgent(r *routing.AgentRoute) rdesc {
	return rdesc{key: agentKey(idxOf(r.AgentID)), origin: idxOf(r.OriginAgent), nexthop: idxOf(r.NextHop), metric: r.Metric, seq: r.Sequence, tag: tagOf(r.EncPath), selfPath: hasLocal(r.Path)}
}

func sortDescs(ds []rdesc) {
	sort.Slice(ds, func(i, j int) bool {
		a, b := ds[i], ds[j]
		if a.key != b.key {
			return a.key < b.key
		}
		if a.origin != b.origin {
			return a.origin < b.origin
		}
		if a.nexthop != b.nexthop {
			return a.nexthop < b.nexthop
		}
		return a.tag < b.tag
	})
}

// exec performs the real call of an action and returns one output per sub-operation.
func (w *world) exec(a *action) []*opOut {
	m := w.m
	first := a.ins[0]
	outs := make([]*opOut, len(a.ins))
	for i := range outs {
		outs[i] = &opOut{ok: -1}
	}
	switch first.kind {
	case kAdd:
		w.execAdd(a, outs)
	case kAddLocal:
		switch first.fam {
		case famCIDR:
			n := cidrByKey[first.key].net
			if first.dynamic {
				outs[0].ok = b2i(m.AddDynamicRoute(n, first.metric) == nil)
			} else {
				outs[0].ok = b2i(m.AddLocalRoute(n, first.metric))
			}
		case famDomain:
			outs[0].ok = b2i(m.AddLocalDomainRoute(first.spell, first.metric))
		case famForward:
			outs[0].ok = b2i(m.AddLocalForwardRoute(first.key, "127.0.0.1:80", first.metric))
		}
	case kRemoveLocal:
		switch first.fam {
		case famCIDR:
			n := cidrByKey[first.key].net
			if first.dynamic {
				outs[0].ok = b2i(m.RemoveDynamicRoute(n) == nil)
			} else {
				outs[0].ok = b2i(m.RemoveLocalRoute(n))
			}
		case famDomain:
			outs[0].ok = b2i(m.RemoveLocalDomainRoute(first.spell))
		case famForward:
			outs[0].ok = b2i(m.RemoveLocalForwardRoute(first.key))
		}
	case kWithdraw:
		switch first.fam {
		case famCIDR:
			if first.viaTable {
				outs[0].ok = b2i(m.Table().RemoveRoute(cidrByKey[first.key].net, aid(first.origin)))
				break
			}
			var es []routing.RouteEntry
			for _, in := range a.ins {
				es = append(es, routing.RouteEntry{Network: cidrByKey[in.key].net})
			}
			any := m.ProcessRouteWithdraw(aid(first.origin), es)
			for i := range outs {
				switch {
				case !any:
					outs[i].ok = 0
				case len(outs) == 1:
					outs[i].ok = 1
				}
			}
		case famDomain:
			outs[0].ok = b2i(m.DomainTable().RemoveRoute(first.spell, aid(first.origin)))
		case famForward:
			outs[0].ok = b2i(m.ForwardTable().RemoveRoute(first.key, aid(first.origin)))
		}
	case kDisconnect:
		switch first.fam {
		case famCIDR:
			outs[0].count = m.HandlePeerDisconnect(aid(first.peer))
		case famDomain:
			outs[0].count = m.HandlePeerDisconnectDomain(aid(first.peer))
		case famForward:
			outs[0].count = m.HandlePeerDisconnectForward(aid(first.peer))
		default:
			outs[0].count = m.HandlePeerDisconnectAgent(aid(first.peer))
		}
	case kCleanup:
		d := time.Duration(first.maxAge)
		switch first.fam {
		case famCIDR:
			outs[0].count = m.CleanupStaleRoutes(d)
		case famDomain:
			outs[0].count = m.CleanupStaleDomainRoutes(d)
		case famForward:
			outs[0].count = m.CleanupStaleForwardRoutes(d)
		default:
			outs[0].count = m.CleanupStaleAgentRoutes(d)
		}
	case kLookup:
		o := outs[0]
		switch first.fam {
		case famCIDR:
			ip := net.IP([]byte(first.q))
			if first.wide {
				ip = ip.To16()
			}
			var r *routing.Route
			if first.viaTable {
				r = m.Table().Lookup(ip)
			} else {
				r = m.Lookup(ip)
			}
			if r != nil {
				o.found, o.r = true, descCIDR(r)
			}
		case famDomain:
			if r := m.LookupDomain(first.spell); r != nil {
				o.found, o.r = true, descDomain(r)
			}
		case famForward:
			if r := m.LookupForward(first.q); r != nil {
				o.found, o.r = true, descForward(r)
			}
		default:
			if r := m.LookupAgent(aid(first.peer)); r != nil {
				o.found, o.r = true, descAgent(r)
			}
		}
	case kDump:
		o := outs[0]
		switch first.fam {
		case famCIDR:
			for _, r := range m.Table().GetAllRoutes() {
				o.dump = append(o.dump, descCIDR(r))
			}
		case famDomain:
			for _, r := range m.DomainTable().GetAllRoutes() {
				o.dump = append(o.dump, descDomain(r))
			}
		case famForward:
			for _, r := range m.ForwardTable().GetAllRoutes() {
				o.dump = append(o.dump, descForward(r))
			}
		default:
			for _, r := range m.AgentTable().GetAllRoutes() {
				o.dump = append(o.dump, descAgent(r))
			}
		}
		sortDescs(o.dump)
	}
	return outs
}

func (w *world) execAdd(a *action, outs []*opOut) {
	m := w.m
	first := a.ins[0]
	path, enc := mkPath(first), mkEnc(first.tag)
	from, origin := aid(first.nexthop), aid(first.origin)
	if len(a.ins) > 1 {
		simrt.Probe("multi_entry_advertisement")
	}
	switch first.fam {
	case famCIDR:
		if first.viaTable {
			outs[0].ok = b2i(m.Table().AddRoute(&routing.Route{Network: cidrByKey[first.key].net, NextHop: from, OriginAgent: origin,
				Metric: first.metric, Path: path, EncPath: enc, Sequence: first.seq}))
			return
		}
		var es []routing.RouteEntry
		for _, in := range a.ins {
			es = append(es, routing.RouteEntry{Network: cidrByKey[in.key].net, Metric: in.metric - 1})
		}
		acc := m.ProcessRouteAdvertise(from, origin, first.seq, es, path, enc)
		for i, in := range a.ins {
			outs[i].ok = 0
			for _, r := range acc {
				if r.Network.String() == in.key {
					outs[i].ok = 1
				}
			}
		}
	case famDomain:
		if first.viaTable {
			wild := strings.HasPrefix(first.spell, "*.")
			base := first.spell
			if wild {
				base = first.spell[2:]
			}
			outs[0].ok = b2i(m.DomainTable().AddRoute(&routing.DomainRoute{Pattern: first.spell, IsWildcard: wild, BaseDomain: base,
				NextHop: from, OriginAgent: origin, Metric: first.metric, Path: path, EncPath: enc, Sequence: first.seq}))
			return
		}
		var es []routing.DomainRouteEntry
		for _, in := range a.ins {
			es = append(es, routing.DomainRouteEntry{Pattern: in.spell, IsWildcard: strings.HasPrefix(in.spell, "*."), Metric: in.metric - 1})
		}
		acc := m.ProcessDomainRouteAdvertise(from, origin, first.seq, es, path, enc)
		for i, in := range a.ins {
			outs[i].ok = 0
			for _, r := range acc {
				if domKey(r.Pattern) == in.key {
					outs[i].ok = 1
				}
			}
		}
	case famForward:
		if first.viaTable {
			outs[0].ok = b2i(m.ForwardTable().AddRoute(&routing.ForwardRoute{Key: first.key, Target: "10.9.9.9:80", NextHop: from, OriginAgent: origin,
				Metric: first.metric, Path: path, EncPath: enc, Sequence: first.seq}))
			return
		}
		var es []routing.ForwardRouteEntry
		for _, in := range a.ins {
			es = append(es, routing.ForwardRouteEntry{Key: in.key, Target: "10.9.9.9:80", Metric: in.metric - 1})
		}
		acc := m.ProcessForwardRouteAdvertise(from, origin, first.seq, es, path, enc)
		for i, in := range a.ins {
			outs[i].ok = 0
			for _, r := range acc {
				if r.Key == in.key {
					outs[i].ok = 1
				}
			}
		}
	default:
		var agent int8
		fmt.Sscanf(first.key, "agent%d", &agent)
		if first.viaTable {
			outs[0].ok = b2i(m.AgentTable().AddRoute(&routing.AgentRoute{AgentID: aid(agent), NextHop: from, OriginAgent: origin,
				Metric: first.metric, Path: path, EncPath: enc, Sequence: first.seq}))
			return
		}
		outs[0].ok = b2i(m.ProcessAgentRouteAdvertise(from, origin, first.seq, aid(agent), path, enc, first.metric))
	}
}

// ---- logging

func (in *opIn) String() string {
	f := famName[in.fam]
	switch in.kind {
	case kAdd:
		s := fmt.Sprintf("%s.add(%s o=%d nh=%d seq=%d m=%d tag=%d", f, in.key, in.origin, in.nexthop, in.seq, in.metric, in.tag)
		if in.self {
			s += " SELF-IN-PATH"
		}
		if in.viaTable {
			s += " direct"
		}
		if in.spell != "" {
			s += " as=" + in.spell
		}
		return s + ")"
	case kAddLocal:
		return fmt.Sprintf("%s.addlocal(%s m=%d dyn=%v)", f, in.key, in.metric, in.dynamic)
	case kRemoveLocal:
		return fmt.Sprintf("%s.removelocal(%s dyn=%v)", f, in.key, in.dynamic)
	case kWithdraw:
		return fmt.Sprintf("%s.withdraw(%s o=%d direct=%v as=%s)", f, in.key, in.origin, in.viaTable, in.spell)
	case kDisconnect:
		return fmt.Sprintf("%s.disconnect(peer=%d)", f, in.peer)
	case kCleanup:
		return fmt.Sprintf("%s.cleanup(maxAge=%ds)", f, in.maxAge/1e9)
	case kLookup:
		return fmt.Sprintf("%s.lookup(%s wide=%v)", f, in.spell, in.wide)
	default:
		return f + ".dump()"
	}
}

func (o *opOut) str(in *opIn) string {
	switch in.kind {
	case kLookup:
		if !o.found {
			return "none"
		}
		return o.r.String()
	case kDisconnect, kCleanup:
		return fmt.Sprintf("removed=%d", o.count)
	case kDump:
		var parts []string
		for _, d := range o.dump {
			parts = append(parts, d.String())
		}
		return fmt.Sprintf("%d routes %s", len(o.dump), strings.Join(parts, ""))
	default:
		return fmt.Sprintf("ok=%d", o.ok)
	}
}

// do performs one action for client c and records it.
func (w *world) do(c int, a *action) {
	t := int64(simrt.Elapsed())
	var names []string
	for _, in := range a.ins {
		in.t = t
		names = append(names, in.String())
	}
	simrt.Eventf("c%d inv %s", c, strings.Join(names, " + "))
	call := simrt.Seq()
	outs := w.exec(a)
	ret := simrt.Seq()
	var res []string
	for i, in := range a.ins {
		w.hist[in.fam] = append(w.hist[in.fam], &rec{in: in, out: outs[i], call: call, ret: ret, client: c})
		w.ops[c]++
		res = append(res, outs[i].str(in))
	}
	simrt.Eventf("c%d ret %s", c, strings.Join(res, " + "))
}

// clients runs one concurrent phase: every client performs perClient actions.
func (w *world) clients(perClient int) {
	var g simrt.Group
	for c := 0; c < w.nClients; c++ {
		c := c
		g.Go(fmt.Sprintf("client%d", c), func() {
			for n := 0; n < perClient && w.ops[c] < maxOpsPerClient; n++ {
				if simrt.Chance(1, 6, "sleep") {
					// the clock only moves when every caller is asleep or done
					simrt.Sleep(time.Duration(1+simrt.Choose(3, "sleepfor")) * 10 * time.Second)
				}
				f := w.fams[simrt.Choose(len(w.fams), "fam")]
				w.do(c, w.gen(c, f))
			}
		})
	}
	g.Wait()
}

// ---- history checking

func isSequential(h []*rec) bool {
	for i := 1; i < len(h); i++ {
		if h[i].call == h[i-1].call {
			continue // sub-operations of one call, applied in order
		}
		if h[i].call < h[i-1].ret {
			return false
		}
	}
	return true
}

// check judges the recorded history of every family.
func (w *world) check() {
	for _, f := range w.fams {
		h := w.hist[f]
		sort.SliceStable(h, func(i, j int) bool { return h[i].call < h[j].call })
		if len(h) == 0 {
			continue
		}
		if isSequential(h) {
			simrt.Probe("history_sequential")
			checkSequential(f, h)
		} else {
			simrt.Probe("history_concurrent")
			checkLinearizable(f, h)
		}
	}
}

func checkSequential(f fam, h []*rec) {
	st := newState()
	for i, r := range h {
		ns, v := step(st, r.in, r.out)
		if v != nil {
			simrt.Failf(v.class, famName[f]+": "+v.sig, "sequential history, op #%d by c%d %s -> %s: %s", i, r.client, r.in, r.out.str(r.in), v.detail)
		}
		probesFor(st, r.in, r.out, simrt.Probe)
		st = ns
	}
}

func checkLinearizable(f fam, h []*rec) {
	steps, over := 0, false
	model := porcupine.Model{
		Init: func() interface{} { return newState() },
		Step: func(state, input, output interface{}) (bool, interface{}) {
			steps++
			if steps > porcupineBudget {
				over = true
				return false, state
			}
			ns, v := step(state.(*mstate), input.(*opIn), output.(*opOut))
			return v == nil, ns
		},
		Equal: func(a, b interface{}) bool { return a.(*mstate).equal(b.(*mstate)) },
		Hash:  func(s interface{}) uint64 { return s.(*mstate).h },
	}
	ops := make([]porcupine.Operation, len(h))
	for i, r := range h {
		ops[i] = porcupine.Operation{ClientId: r.client, Input: r.in, Call: int64(r.call), Output: r.out, Return: int64(r.ret)}
		if r.in.kind == kLookup {
			if r.out.found {
				simrt.Probe("lookup_hit")
			} else {
				simrt.Probe("lookup_miss")
			}
		}
	}
	// The fake clock cannot expire the time-out while porcupine computes (time
	// only moves when every goroutine is blocked), so the bound that matters is
	// the deterministic step budget above.
	terse = true
	res := porcupine.CheckOperationsTimeout(model, ops, 30*time.Second)
	terse = false
	if over || res == porcupine.Unknown {
		simrt.Probe("porcupine_unknown")
		simrt.Eventf("porcupine %s: inconclusive after %d model steps", famName[f], steps)
		return
	}
	simrt.Eventf("porcupine %s: %s ops=%d", famName[f], res, len(h))
	if res == porcupine.Illegal {
		steps = 0
		simrt.Failf("not-linearizable", famName[f], "history of %d operations by concurrent callers has no sequential explanation under the reference model; %s", len(h), stuckAt(model, ops, h))
	}
}

// stuckAt names the earliest operation outside the longest linearizable prefix (diagnostics only).
func stuckAt(model porcupine.Model, ops []porcupine.Operation, h []*rec) string {
	terse = true
	_, info := porcupine.CheckOperationsVerbose(model, ops, 0)
	terse = false
	pls := info.PartialLinearizations()
	if len(pls) == 0 {
		return ""
	}
	var longest []int
	for _, p := range pls[0] {
		if len(p) > len(longest) {
			longest = p
		}
	}
	in := map[int]bool{}
	for _, id := range longest {
		in[id] = true
	}
	for i, r := range h {
		if !in[i] {
			return fmt.Sprintf("longest explanation covers %d operations; first operation outside it: c%d %s -> %s", len(longest), r.client, r.in, r.out.str(r.in))
		}
	}
	return ""
}

// ---- the three checks

func (w *world) dumpAll(c int) {
	for _, f := range w.fams {
		w.do(c, &action{ins: []*opIn{{fam: f, kind: kDump}}})
	}
}

// sweep looks up every probe of every family at quiescence.
func (w *world) sweep(c int) {
	for _, f := range w.fams {
		for p := 0; p < probeCount(f); p++ {
			w.do(c, w.genLookup(f, p))
		}
	}
}

// C08: CIDR table under concurrent callers; lookups must be explained by
// longest-prefix match with lowest-metric tie-break over the stored routes.
func runC08() {
	n := 2 + simrt.Choose(maxClients-1, "clients")
	per := 3 + simrt.Choose(maxOpsPerClient-2, "ops")
	w := newWorld(n, []fam{famCIDR})
	simrt.Eventf("C08 clients=%d per=%d hot=%v", n, per, w.hot[famCIDR])
	w.clients(per)
	w.sweep(maxClients)
	w.check()
}

// C09: domain, forward-key and agent-presence tables.
func runC09() {
	n := 2 + simrt.Choose(maxClients-1, "clients")
	per := 3 + simrt.Choose(maxOpsPerClient-2, "ops")
	sets := [][]fam{{famDomain}, {famForward}, {famAgent}, {famDomain, famForward, famAgent}, {famDomain, famForward, famAgent}}
	w := newWorld(n, sets[simrt.Choose(len(sets), "fams")])
	simrt.Eventf("C09 clients=%d per=%d fams=%v", n, per, w.fams)
	w.clients(per)
	w.sweep(maxClients)
	w.check()
}

// C10: all four tables; contents are compared with the model after every
// operation (single caller) or at every quiescent point (concurrent callers:
// the dump is an operation of the history, so some sequential order of the
// concurrent operations must produce exactly the dumped contents).
func runC10() {
	all := []fam{famCIDR, famDomain, famForward, famAgent}
	sets := [][]fam{all, {famCIDR}, {famDomain}, {famForward}, {famAgent}, all}
	if simrt.Choose(3, "mode") == 0 {
		w := newWorld(1, sets[simrt.Choose(len(sets), "fams")])
		nOps := 5 + simrt.Choose(60, "ops")
		simrt.Eventf("C10 single caller ops=%d fams=%v", nOps, w.fams)
		for i := 0; i < nOps; i++ {
			if simrt.Chance(1, 6, "sleep") {
				simrt.Sleep(time.Duration(1+simrt.Choose(3, "sleepfor")) * 10 * time.Second)
			}
			f := w.fams[simrt.Choose(len(w.fams), "fam")]
			a := w.gen(0, f)
			w.do(0, a)
			w.dumpAll(0) // every table, after every single operation
		}
		simrt.Probe("single_caller_run")
		w.check()
		return
	}
	n := 2 + simrt.Choose(maxClients-1, "clients")
	phases := 1 + simrt.Choose(3, "phases")
	per := 2 + simrt.Choose(maxOpsPerClient/phases-1, "ops")
	w := newWorld(n, sets[simrt.Choose(len(sets), "fams")])
	simrt.Eventf("C10 clients=%d phases=%d per=%d fams=%v", n, phases, per, w.fams)
	for p := 0; p < phases; p++ {
		w.clients(per)
		w.dumpAll(maxClients)
		if p+1 < phases && simrt.Chance(1, 2, "gap") {
			simrt.Sleep(time.Duration(1+simrt.Choose(3, "sleepfor")) * 10 * time.Second)
		}
	}
	simrt.Probe("concurrent_run")
	w.check()
}
