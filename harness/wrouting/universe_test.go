package wrouting

// The small overlapping universe every workload draws from.

import (
	"net"
	"strings"

	"github.com/postalsys/muti-metroo/internal/identity"
)

// ---- agent ids: 0 local, 1..4 origins (1..3 are also the directly connected peers), 5 never used by routes

const (
	nIDs     = 6
	nOrigins = 4
	nPeers   = 3
)

var (
	ids   [nIDs]identity.AgentID
	idIdx = map[identity.AgentID]int8{}
)

func aid(i int8) identity.AgentID { return ids[i] }

func idxOf(id identity.AgentID) int8 {
	if i, ok := idIdx[id]; ok {
		return i
	}
	return -9
}

// ---- CIDR prefixes and probe addresses

type pfx struct {
	key  string // canonical text, also the model key
	net  *net.IPNet
	ip   []byte // 4 or 16 bytes
	bits int
}

// contains is the model's notion of "the network contains the address":
// same family and the first bits bits agree.
func (p *pfx) contains(addr []byte) bool {
	if len(addr) != len(p.ip) {
		return false
	}
	for i := 0; i < p.bits; i++ {
		m := byte(0x80) >> (uint(i) % 8)
		if (addr[i/8]^p.ip[i/8])&m != 0 {
			return false
		}
	}
	return true
}

type addr struct {
	text string
	raw  []byte // 4 or 16 bytes
}

var (
	cidrU     []*pfx
	cidrByKey = map[string]*pfx{}
	cidrProbe []addr
)

func addPfx(base string, bits int) {
	ip := net.ParseIP(base)
	var raw []byte
	total := 128
	if v4 := ip.To4(); v4 != nil {
		raw, total = v4, 32
	} else {
		raw = ip.To16()
	}
	masked := make([]byte, len(raw))
	for i := 0; i < bits; i++ {
		masked[i/8] |= raw[i/8] & (0x80 >> (uint(i) % 8))
	}
	n := &net.IPNet{IP: net.IP(masked), Mask: net.CIDRMask(bits, total)}
	key := n.String()
	if cidrByKey[key] != nil {
		return
	}
	p := &pfx{key: key, net: n, ip: masked, bits: bits}
	cidrU = append(cidrU, p)
	cidrByKey[key] = p
}

func addProbe(text string) {
	ip := net.ParseIP(text)
	if v4 := ip.To4(); v4 != nil {
		cidrProbe = append(cidrProbe, addr{text, []byte(v4)})
		return
	}
	cidrProbe = append(cidrProbe, addr{text, []byte(ip.To16())})
}

// ---- domain patterns and probe names

type dpat struct {
	key     string // "e|name" or "w|base", lower case
	pattern string // lower case pattern text
	localOK bool   // passes the documented validation for locally configured patterns
}

var (
	domU     []*dpat
	domProbe []string
)

// spellings of a name: 0 lower, 1 upper, 2 alternating
func spell(s string, mode int) string {
	switch mode {
	case 1:
		return strings.ToUpper(s)
	case 2:
		b := []byte(s)
		for i := range b {
			if i%2 == 0 && b[i] >= 'a' && b[i] <= 'z' {
				b[i] -= 'a' - 'A'
			}
		}
		return string(b)
	}
	return s
}

func domKey(pattern string) string {
	p := strings.ToLower(pattern)
	if strings.HasPrefix(p, "*.") {
		return "w|" + p[2:]
	}
	return "e|" + p
}

// ---- forward keys and agents

var (
	fwdU     = []string{"web", "db", "ssh", "api"}
	fwdProbe = []string{"web", "db", "ssh", "api", "nokey"}
	agentU   []string // "agent1".."agent4"
)

func agentKey(i int8) string { return "agent" + string(rune('0'+i)) }

func init() {
	for i := range ids {
		for j := range ids[i] {
			ids[i][j] = byte(0xA0 + i)
		}
		ids[i][0] = byte(i + 1)
		idIdx[ids[i]] = int8(i)
	}
	for _, b := range []string{"10.1.2.3", "10.1.2.200", "10.77.0.9"} {
		for _, bits := range []int{0, 8, 16, 24, 32} {
			addPfx(b, bits)
		}
	}
	for _, b := range []string{"2001:db8:1:2::3", "2001:db8:1:2::c8", "2001:db8:77::9"} {
		for _, bits := range []int{0, 32, 64, 128} {
			addPfx(b, bits)
		}
	}
	for _, a := range []string{
		"10.1.2.3", "10.1.2.200", "10.77.0.9", "10.1.2.4", "10.1.3.3", "10.2.2.3", "10.77.0.10", "10.77.1.9",
		"11.1.2.3", "192.168.1.1", "0.0.0.0", "255.255.255.255",
		"2001:db8:1:2::3", "2001:db8:1:2::c8", "2001:db8:77::9", "2001:db8:1:2::4", "2001:db8:1:3::3",
		"2001:db8:2:2::3", "2001:db9::1", "2001:db8:77::a", "2001:db8:77:0:1::9", "2001:db8:77:1::9", "::1", "ff02::1",
	} {
		addProbe(a)
	}
	for _, p := range []string{
		"example.com", "a.example.com", "b.a.example.com", "example.org", "x.com",
		"*.example.com", "*.a.example.com", "*.b.a.example.com", "*.example.org", "*.com",
	} {
		domU = append(domU, &dpat{key: domKey(p), pattern: p, localOK: p != "*.com"})
	}
	domProbe = []string{
		"example.com", "a.example.com", "b.example.com", "b.a.example.com", "c.a.example.com", "c.b.a.example.com",
		"d.c.b.a.example.com", "example.org", "a.example.org", "a.b.example.org", "x.com", "y.com", "com", "example.net",
	}
	for i := int8(1); i <= nOrigins; i++ {
		agentU = append(agentU, agentKey(i))
	}
}

func universeSize(f fam) int {
	switch f {
	case famCIDR:
		return len(cidrU)
	case famDomain:
		return len(domU)
	case famForward:
		return len(fwdU)
	default:
		return len(agentU)
	}
}

func probeCount(f fam) int {
	switch f {
	case famCIDR:
		return len(cidrProbe)
	case famDomain:
		return len(domProbe)
	case famForward:
		return len(fwdProbe)
	default:
		return nIDs
	}
}
