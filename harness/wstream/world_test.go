// Package wstream is the simulated world that decides C18 (half-close and close
// behave per protocol for every frame sequence).
//
// Real code: stream.Manager and stream.Stream (internal/stream/manager.go, with
// a scheduler preemption point before every statement). The simulator owns the
// actors around it:
//
//   - 1-2 frame feeders (the per-connection frame dispatch goroutines) calling
//     HandleStreamData / HandleStreamClose / HandleStreamReset from a generated
//     sequence: data, FIN-flagged data, empty FIN, close, reset, duplicates after
//     close, frames for other and for unknown stream ids;
//   - 1-2 readers per stream calling Read, usually already blocked when the FIN
//     arrives;
//   - 0-2 writers per stream: CanWrite-gated writes (the gate meshConn.Write
//     uses), CloseWrite, CanRead, and occasionally a local close (RemoveStream).
//
// The reference model is written from the statement of C18 and from the stream
// state machine documented in /repo/Architecture.md section 7.1 ("STREAM STATE
// MACHINE") and the state comments at the top of internal/stream/manager.go:
//
//	OPENING -> OPEN                      (Recv ACK / Send ACK)
//	OPEN -> HALF_CLOSED_REMOTE           (Recv FIN_WRITE)
//	OPEN -> HALF_CLOSED_LOCAL            (Send FIN_WRITE)
//	HALF_CLOSED_REMOTE -> CLOSED         (Send FIN_WRITE)
//	HALF_CLOSED_LOCAL  -> CLOSED         (Recv FIN_WRITE)
//	OPEN / HALF_CLOSED_* -> CLOSED       (close, STREAM_RESET from either side)
//
// Per stream the model keeps: the FIFO of offered data cells, remoteFin,
// localFin, closed. It does not look at any field of the implementation.
package wstream

import (
	"context"
	"errors"
	"fmt"
	"io"
	"net"
	"testing"
	"time"

	"github.com/postalsys/muti-metroo/internal/crypto"
	"github.com/postalsys/muti-metroo/internal/identity"
	"github.com/postalsys/muti-metroo/internal/protocol"
	"github.com/postalsys/muti-metroo/internal/stream"
	"github.com/postalsys/muti-metroo/internal/verifrt/simrt"
	"github.com/postalsys/muti-metroo/internal/verifsim/hc"
)

func TestWorld(t *testing.T) {
	hc.Main(t, &hc.World{
		Name:         "W-stream",
		Run:          run,
		PreemptMeans: []int{0, 2, 5, 20, 80},
		MaxSteps:     3_000_000,
		MaxSimTime:   time.Hour,
	})
}

func run(prop string) {
	switch prop {
	case "C18":
		runC18()
	default:
		panic("W-stream does not decide " + prop)
	}
}

// ---------------------------------------------------------------------------
// documented transition graph
// ---------------------------------------------------------------------------

type st = stream.StreamState

var edges = map[st][]st{
	stream.StateOpening:          {stream.StateOpen},
	stream.StateOpen:             {stream.StateHalfClosedLocal, stream.StateHalfClosedRemote, stream.StateClosed},
	stream.StateHalfClosedLocal:  {stream.StateClosed},
	stream.StateHalfClosedRemote: {stream.StateClosed},
	stream.StateClosed:           nil,
}

// reachable reports whether b can follow a on a path of the documented graph
// (two consecutive samples may have skipped intermediate states).
func reachable(a, b st) bool {
	if a == b {
		return true
	}
	for _, n := range edges[a] {
		if reachable(n, b) {
			return true
		}
	}
	return false
}

func known(s st) bool { _, ok := edges[s]; return ok }

// ---------------------------------------------------------------------------
// model
// ---------------------------------------------------------------------------

const cellSize = 4

// chunk is one data payload offered to a stream by the feeder.
type chunk struct {
	first, n  int  // cell positions [first, first+n) in the stream's byte sequence
	withFin   bool // carried by the frame that also carried the first FIN
	postFin   bool // offered after a FIN had already been offered: outside the statement
	postClose bool // offered after a close/reset of the stream had been invoked
	status    int  // 0 handler still running, 1 accepted (nil), 2 refused (error)
}

const (
	chInFlight = iota
	chAccepted
	chRefused
)

// sm is the harness record + reference model of one stream.
type sm struct {
	idx    int
	id     uint64
	st     *stream.Stream
	feeder int

	chunks    []*chunk
	cellChunk []*chunk // cell position -> chunk
	delivered []bool   // cell position -> handed to some reader
	nDeliv    int

	opened                      bool
	finInvoked, finReturned     bool // a FIN-flagged frame was offered / its handler returned nil
	cwInvoked, cwReturned       bool // CloseWrite called / returned
	closeInvoked, closeReturned bool // close / reset / local close called / returned
	closeKind                   string
	closeInflight, cwInflight   int // calls in progress; *Returned is set when the last one has returned

	eofNoClose bool   // some reader got EOF while no close had been invoked
	eofSeq     uint64 // stamp of that first EOF return

	pendingReads int
	readSince    []time.Duration // simulated invocation time of every Read in progress
	inflight     int             // state-affecting calls on this stream in progress
	started      int             // state-affecting calls on this stream started so far

	observed []st
	closeCb  int
}

func (s *sm) begin() { s.inflight++; s.started++ }
func (s *sm) end()   { s.inflight-- }

// modelState is the documented state after all completed events (only
// meaningful while no state-affecting call is in progress).
func (s *sm) modelState() st {
	switch {
	case !s.opened:
		return stream.StateOpening
	case s.closeReturned:
		return stream.StateClosed
	case s.finReturned && s.cwReturned:
		return stream.StateClosed
	case s.finReturned:
		return stream.StateHalfClosedRemote
	case s.cwReturned:
		return stream.StateHalfClosedLocal
	default:
		return stream.StateOpen
	}
}

type world struct {
	mgr      *stream.Manager
	streams  []*sm
	byPtr    map[*stream.Stream]*sm
	feedDone bool
	teardown bool
}

func cellCheck(sidx, pos int) byte { return byte((sidx*131 + pos*31 + 7) ^ (pos >> 3) ^ 0x5a) }

// payload builds n position-coded cells for stream s: every byte of every
// stream is attributable to (stream, position).
func (s *sm) payload(n int) ([]byte, *chunk) {
	c := &chunk{first: len(s.cellChunk), n: n}
	b := make([]byte, 0, n*cellSize)
	for i := 0; i < n; i++ {
		pos := c.first + i
		b = append(b, byte(s.idx+1), byte(pos>>8), byte(pos), cellCheck(s.idx, pos))
		s.cellChunk = append(s.cellChunk, c)
		s.delivered = append(s.delivered, false)
	}
	s.chunks = append(s.chunks, c)
	return b, c
}

// parse returns the cell positions in data, failing on anything that is not a
// sequence of cells of stream s.
func (w *world) parse(s *sm, data []byte, where string) []int {
	if len(data) == 0 || len(data)%cellSize != 0 {
		simrt.Failf("data-corrupt", where+": payload is not a sequence of cells", "stream #%d: %d bytes", s.idx, len(data))
	}
	var out []int
	for i := 0; i < len(data); i += cellSize {
		sidx := int(data[i]) - 1
		pos := int(data[i+1])<<8 | int(data[i+2])
		if sidx != s.idx {
			simrt.Failf("cross-stream-data", where+": bytes of another stream", "stream #%d got a cell of stream #%d (pos %d)", s.idx, sidx, pos)
		}
		if pos >= len(s.cellChunk) || data[i+3] != cellCheck(sidx, pos) {
			simrt.Failf("data-corrupt", where+": bytes never offered to this stream", "stream #%d cell pos %d", s.idx, pos)
		}
		out = append(out, pos)
	}
	return out
}

// ---------------------------------------------------------------------------
// state sampling
// ---------------------------------------------------------------------------

// sample reads the state getter of s and checks the observed sequence against
// the documented graph.
func (w *world) sample(s *sm) {
	if s.st == nil || w.teardown {
		return
	}
	idle, c0 := s.inflight == 0, s.started
	v := s.st.State() // the load is the last thing State does: v is current until our next call into the repo
	if !known(v) {
		simrt.Failf("illegal-state-transition", "undocumented state value", "stream #%d state %d", s.idx, int32(v))
	}
	n := len(s.observed)
	if n == 0 || s.observed[n-1] != v {
		if n > 0 && !reachable(s.observed[n-1], v) {
			simrt.Failf("illegal-state-transition", s.observed[n-1].String()+" -> "+v.String(),
				"stream #%d: observed state sequence %v then %v is not a path of the documented graph", s.idx, s.observed, v)
		}
		s.observed = append(s.observed, v)
		simrt.Eventf("state #%d %s", s.idx, v)
		simrt.Probe("state_" + v.String())
	}
	// every documented edge has a trigger: the state may only be where an
	// already *invoked* event can have moved it (flags only ever get set, so
	// reading them after the load is sound)
	switch v {
	case stream.StateOpen:
		if !s.opened {
			simrt.Failf("state-without-cause", "OPEN before the open was acknowledged", "stream #%d observed %v", s.idx, s.observed)
		}
	case stream.StateHalfClosedLocal:
		if !s.cwInvoked {
			simrt.Failf("state-without-cause", "HALF_CLOSED_LOCAL without a local half-close", "stream #%d observed %v", s.idx, s.observed)
		}
	case stream.StateHalfClosedRemote:
		if !s.finInvoked {
			simrt.Failf("state-without-cause", "HALF_CLOSED_REMOTE without a remote FIN", "stream #%d observed %v", s.idx, s.observed)
		}
	case stream.StateClosed:
		if !s.closeInvoked && !(s.cwInvoked && s.finInvoked) {
			simrt.Failf("state-without-cause", "CLOSED without close, reset or both half-closes",
				"stream #%d observed %v (fin=%v localfin=%v)", s.idx, s.observed, s.finInvoked, s.cwInvoked)
		}
	}
	// no state-affecting call was in progress around the load: the state must be
	// the one the documented machine is in after the completed events
	if idle && s.inflight == 0 && s.started == c0 {
		if m := s.modelState(); m != v {
			simrt.Failf("state-mismatch", "quiescent state "+v.String()+", documented machine is in "+m.String(),
				"stream #%d: fin=%v localfin=%v closed=%v observed %v", s.idx, s.finReturned, s.cwReturned, s.closeReturned, s.observed)
		}
	}
}

func (w *world) sampleAll() {
	for _, s := range w.streams {
		w.sample(s)
	}
}

// checkOthers is the isolation clause, evaluated after a close/reset/unknown-id
// frame addressed to `addressed` (nil: unknown id): every stream that was never
// the target of a close or reset is still registered and not torn down.
func (w *world) checkOthers(addressed *sm, what string) {
	for _, t := range w.streams {
		if t == addressed || !t.opened {
			continue
		}
		closed := t.st.IsClosed()
		got := w.mgr.GetStream(t.id)
		if t.closeInvoked {
			continue // flags read after the calls: if not invoked now, it was not invoked during them
		}
		if closed {
			simrt.Failf("close-affected-other-stream", what+" closed another stream", "stream #%d is closed but was never addressed", t.idx)
		}
		if got != t.st {
			simrt.Failf("close-affected-other-stream", what+" unregistered another stream", "stream #%d is no longer registered but was never addressed", t.idx)
		}
		if addressed != nil {
			simrt.Probe("close_with_other_streams_live")
		}
	}
}

// ---------------------------------------------------------------------------
// run
// ---------------------------------------------------------------------------

func agentID(b byte) identity.AgentID {
	var id identity.AgentID
	for i := range id {
		id[i] = b
	}
	return id
}

func runC18() {
	w := &world{byPtr: map[*stream.Stream]*sm{}}
	w.mgr = stream.NewManager(stream.DefaultManagerConfig(), agentID(1))
	w.mgr.SetCallbacks(
		func(x *stream.Stream) {},
		func(x *stream.Stream, err error) { // onStreamClose
			s := w.byPtr[x]
			if s == nil || w.teardown {
				return
			}
			s.closeCb++
			simrt.Eventf("cb close #%d", s.idx)
			if !s.closeInvoked {
				simrt.Failf("close-affected-other-stream", "close callback for a stream that was never addressed", "stream #%d", s.idx)
			}
		},
		func(x *stream.Stream, data []byte) { // onStreamData
			if s := w.byPtr[x]; s != nil {
				w.parse(s, data, "data callback")
			}
		},
	)

	nStreams := 1 + simrt.Choose(4, "streams")
	nFeeders := 1 + simrt.Choose(2, "feeders")
	simrt.Eventf("C18 streams=%d feeders=%d", nStreams, nFeeders)
	for i := 0; i < nStreams; i++ {
		s := &sm{idx: i, id: uint64(10 + 3*i), feeder: i % nFeeders}
		w.streams = append(w.streams, s)
		w.open(s, simrt.Choose(3, "openmode"))
	}
	w.sampleAll()

	var actors, readers simrt.Group
	for _, s := range w.streams {
		s := s
		nr := 1 + simrt.Choose(2, "readers")
		for k := 0; k < nr; k++ {
			k := k
			readers.Go(fmt.Sprintf("reader%d.%d", s.idx, k), func() { w.reader(s, k) })
		}
		nw := simrt.Choose(3, "writers")
		for k := 0; k < nw; k++ {
			k := k
			actors.Go(fmt.Sprintf("writer%d.%d", s.idx, k), func() { w.writer(s, k) })
		}
	}
	for f := 0; f < nFeeders; f++ {
		f := f
		actors.Go(fmt.Sprintf("feeder%d", f), func() { w.feeder(f) })
	}
	actors.Wait()
	w.feedDone = true
	simrt.Eventf("feed done")
	readers.Wait()
	w.final()
	w.teardown = true
	w.mgr.Close()
}

// open brings stream s into the manager: as an accepted stream (mode 0) or
// through OpenStream + STREAM_OPEN_ACK (modes 1, 2), observing OPENING on the way.
func (w *world) open(s *sm, mode int) {
	if mode == 0 {
		s.begin()
		x, err := w.mgr.AcceptStream(s.id, uint64(100+s.idx), agentID(2), "dest.example", 80)
		if err != nil {
			panic(err)
		}
		s.st, s.opened = x, true
		s.end()
		w.byPtr[x] = s
		simrt.Eventf("accept #%d id=%d", s.idx, s.id)
		w.sample(s)
		return
	}
	pend := w.mgr.OpenStream(s.id, agentID(2), "dest.example", 80, 30*time.Second)
	x := w.mgr.VerifPendingStream(pend.RequestID)
	if x == nil {
		panic("no pending stream")
	}
	s.st = x
	w.byPtr[x] = s
	simrt.Eventf("open #%d id=%d req=%d", s.idx, s.id, pend.RequestID)
	w.sample(s)
	simrt.Probe("opening_observed")
	if mode == 2 {
		// a frame for the id of a stream that is not open yet addresses no stream
		// (whether it is refused is not part of C18; the state must stay on the graph)
		err := w.mgr.HandleStreamData(s.id, protocol.FlagFinWrite, nil)
		simrt.Eventf("early fin #%d -> %v", s.idx, err)
		w.sample(s)
	}
	s.begin()
	s.opened = true
	got, err := w.mgr.HandleStreamOpenAck(pend.RequestID, net.IPv4(10, 0, 0, 1), 1234, [crypto.KeySize]byte{})
	s.end()
	if err != nil || got != x {
		simrt.Failf("open-failed", "STREAM_OPEN_ACK did not open the pending stream", "stream #%d: %v", s.idx, err)
	}
	res := simrt.Recv1(pend.ResultCh)
	if res == nil || res.Error != nil || res.Stream != x {
		simrt.Failf("open-failed", "open result does not carry the stream", "stream #%d", s.idx)
	}
	simrt.Eventf("ack #%d", s.idx)
	w.sample(s)
}

// ---------------------------------------------------------------------------
// feeder: the frame dispatch goroutine of a peer connection
// ---------------------------------------------------------------------------

func (w *world) feeder(f int) {
	var mine []*sm
	for _, s := range w.streams {
		if s.feeder == f {
			mine = append(mine, s)
		}
	}
	frames := 1 + simrt.Choose(30, "frames")
	for i := 0; i < frames; i++ {
		kind := simrt.Choose(16, "frame")
		if kind == 13 || kind == 14 {
			simrt.Sleep(time.Duration(1+simrt.Choose(3, "gap")) * time.Millisecond)
			continue
		}
		if kind == 12 || len(mine) == 0 {
			w.feedUnknown(f)
			w.sampleAll()
			continue
		}
		s := mine[simrt.Choose(len(mine), "target")]
		switch kind {
		case 7, 8:
			w.feedData(s, 1+simrt.Choose(6, "cells"), true)
		case 9:
			w.feedData(s, 0, true)
		case 10:
			w.feedClose(s, false)
		case 11:
			w.feedClose(s, true)
		default:
			w.feedData(s, 1+simrt.Choose(6, "cells"), false)
		}
		w.sampleAll()
	}
}

// readerBlocked: some Read on s is in progress and the simulated clock has moved
// since it was invoked. The clock only moves while every goroutine is blocked,
// so that reader was parked inside Read and has not returned since.
func (w *world) readerBlocked(s *sm) bool {
	now := simrt.Elapsed()
	for _, t := range s.readSince {
		if t < now {
			return true
		}
	}
	return false
}

func (w *world) feedData(s *sm, cells int, fin bool) {
	var data []byte
	var c *chunk
	if cells > 0 {
		data, c = s.payload(cells)
		c.postFin = s.finInvoked
		c.postClose = s.closeInvoked
		c.withFin = fin && !s.finInvoked
	}
	var flags uint8
	if fin {
		flags = protocol.FlagFinWrite
		if !s.finInvoked && !s.closeInvoked {
			if cells > 0 {
				simrt.Probe("fin_with_data")
			} else {
				simrt.Probe("empty_fin")
			}
			if w.readerBlocked(s) {
				simrt.Probe("fin_while_reader_blocked")
				if cells > 0 {
					simrt.Probe("fin_with_data_while_reader_blocked")
				}
			}
		}
		s.finInvoked = true
	}
	if s.closeInvoked {
		simrt.Probe("dup_after_close")
	}
	closedBefore := s.closeReturned
	simrt.Eventf("feed #%d data cells=%d fin=%v h=%x", s.idx, cells, fin, simrt.FNV(data))
	s.begin()
	err := w.mgr.HandleStreamData(s.id, flags, data)
	s.end()
	simrt.Eventf("feed #%d -> %v", s.idx, err)
	if err == nil {
		if fin {
			s.finReturned = true
		}
		if c != nil {
			c.status = chAccepted
		}
		if closedBefore && cells > 0 {
			simrt.Failf("close-did-not-tear-down", "data accepted for a stream after its close/reset completed", "stream #%d (%s)", s.idx, s.closeKind)
		}
		return
	}
	if c != nil {
		c.status = chRefused
	}
	if !s.closeInvoked {
		simrt.Failf("frame-refused-on-live-stream", "data frame refused although the stream was never closed or reset", "stream #%d: %v", s.idx, err)
	}
}

func (w *world) feedClose(s *sm, reset bool) {
	kind := "close"
	if reset {
		kind = "reset"
	}
	if s.closeInvoked {
		simrt.Probe("dup_after_close")
	} else {
		s.closeKind = kind
		simrt.Probe(kind + "_frame")
	}
	simrt.Eventf("feed #%d %s", s.idx, kind)
	w.doClose(s, kind, func() {
		if reset {
			w.mgr.HandleStreamReset(s.id, protocol.ErrConnectionTimeout)
		} else {
			w.mgr.HandleStreamClose(s.id)
		}
	})
}

// doClose runs one close/reset/local close addressed to s. Several may overlap
// (a frame and a local close); the stream must be gone once the last of them
// has returned, and every other stream must be untouched.
func (w *world) doClose(s *sm, kind string, f func()) {
	s.closeInvoked = true
	s.closeInflight++
	s.begin()
	f()
	s.end()
	s.closeInflight--
	if s.closeInflight == 0 {
		s.closeReturned = true
		w.checkTornDown(s, kind)
	}
	w.checkOthers(s, kind)
}

// checkTornDown: after a close/reset addressed to s completed, s is gone.
func (w *world) checkTornDown(s *sm, kind string) {
	if !s.st.IsClosed() {
		simrt.Failf("close-did-not-tear-down", kind+" left the addressed stream open", "stream #%d", s.idx)
	}
	if w.mgr.GetStream(s.id) != nil {
		simrt.Failf("close-did-not-tear-down", kind+" left the addressed stream registered", "stream #%d", s.idx)
	}
}

func (w *world) feedUnknown(f int) {
	id := uint64(9000 + 10*f + simrt.Choose(3, "unk"))
	k := simrt.Choose(4, "unkkind")
	simrt.Probe("unknown_id_frame")
	simrt.Eventf("feed unknown id=%d kind=%d", id, k)
	switch k {
	case 0:
		w.mgr.HandleStreamData(id, 0, []byte{0xee, 1, 2, 3})
	case 1:
		w.mgr.HandleStreamData(id, protocol.FlagFinWrite, nil)
	case 2:
		w.mgr.HandleStreamClose(id)
	default:
		w.mgr.HandleStreamReset(id, protocol.ErrConnectionTimeout)
	}
	w.checkOthers(nil, "frame for an unknown id")
}

// ---------------------------------------------------------------------------
// reader
// ---------------------------------------------------------------------------

type readCtx struct {
	invSeq        uint64
	closeRetBefor bool
	finRetBefore  bool
	cwRetBefore   bool
}

func (w *world) readOnce(s *sm, who string, timeout time.Duration, lastPos *int) (gotData, eof bool) {
	rc := readCtx{invSeq: simrt.Seq(), closeRetBefor: s.closeReturned, finRetBefore: s.finReturned, cwRetBefore: s.cwReturned}
	ctx, cancel := context.WithTimeout(context.Background(), timeout)
	s.pendingReads++
	since := simrt.Elapsed()
	s.readSince = append(s.readSince, since)
	data, err := s.st.Read(ctx)
	s.pendingReads--
	for i, t := range s.readSince {
		if t == since {
			s.readSince = append(s.readSince[:i], s.readSince[i+1:]...)
			break
		}
	}
	cancel()
	switch {
	case err == nil:
		w.onData(s, who, data, rc, lastPos)
		return true, false
	case err == io.EOF:
		w.onEOF(s, who)
		return false, true
	case errors.Is(err, context.DeadlineExceeded) || errors.Is(err, context.Canceled):
		simrt.Eventf("read #%d %s timeout", s.idx, who)
		if rc.closeRetBefor {
			simrt.Failf("read-blocked-after-close", "Read blocked on a stream whose close/reset had completed", "stream #%d %s", s.idx, who)
		}
		if rc.finRetBefore {
			simrt.Failf("read-blocked-after-fin", "Read blocked although the remote FIN had been processed", "stream #%d %s", s.idx, who)
		}
		return false, false
	default:
		simrt.Failf("read-unexpected-error", "Read returned an error that is neither end-of-stream nor the caller's deadline", "stream #%d %s: %v", s.idx, who, err)
	}
	return false, false
}

func (w *world) onData(s *sm, who string, data []byte, rc readCtx, lastPos *int) {
	pos := w.parse(s, data, "read")
	simrt.Eventf("read #%d %s data cells=%d first=%d h=%x", s.idx, who, len(pos), pos[0], simrt.FNV(data))
	for _, p := range pos {
		if s.delivered[p] {
			simrt.Failf("data-duplicated", "a byte was delivered twice", "stream #%d %s cell %d", s.idx, who, p)
		}
		s.delivered[p] = true
		s.nDeliv++
		if p <= *lastPos {
			simrt.Failf("data-reordered", "a reader received bytes out of order", "stream #%d %s cell %d after %d", s.idx, who, p, *lastPos)
		}
		*lastPos = p
		c := s.cellChunk[p]
		if c.postFin || c.postClose {
			continue // outside the statement: data the peer sent after its own FIN / after the stream was closed
		}
		// c arrived before or together with the FIN
		if s.eofNoClose && rc.invSeq > s.eofSeq {
			sig := "data that arrived before the FIN was delivered after end-of-stream"
			if c.withFin {
				sig = "data that arrived together with the FIN was delivered after end-of-stream"
			}
			simrt.Failf("eof-before-data", sig, "stream #%d %s: cell %d returned by a Read that started after a reader had already been given EOF", s.idx, who, p)
		}
		if rc.cwRetBefore {
			simrt.Probe("read_after_half_close")
		}
	}
}

func (w *world) onEOF(s *sm, who string) {
	simrt.Eventf("read #%d %s EOF", s.idx, who)
	if s.closeInvoked {
		simrt.Probe("eof_after_close")
		return
	}
	if !s.finInvoked {
		sig := "EOF without remote FIN, close or reset"
		if s.cwInvoked {
			sig = "EOF after local half-close without remote FIN, close or reset"
		}
		simrt.Failf("spurious-eof", sig, "stream #%d %s", s.idx, who)
	}
	// all data accepted before/with the FIN must already be with a reader;
	// a Read of another reader that is still in progress may hold one chunk
	missing := 0
	first := -1
	for _, c := range s.chunks {
		if c.postFin || c.postClose || c.status != chAccepted {
			continue
		}
		if !s.delivered[c.first] {
			missing++
			if first < 0 {
				first = c.first
			}
		}
	}
	if missing > s.pendingReads {
		simrt.Failf("eof-before-data", "reader was given end-of-stream while accepted data was still undelivered",
			"stream #%d %s: %d chunk(s) accepted before/with the FIN not delivered (first cell %d), %d other Read(s) in progress", s.idx, who, missing, first, s.pendingReads)
	}
	if !s.eofNoClose {
		s.eofNoClose = true
		s.eofSeq = simrt.Seq()
	}
	simrt.Probe("eof_after_fin")
}

func (w *world) reader(s *sm, k int) {
	who := fmt.Sprintf("r%d", k)
	last := -1
	sawEOF := false
	for {
		done := w.feedDone // sampled before the read: a read that starts after the feed ended and finds nothing ends the reader
		timeout := time.Duration(2+simrt.Choose(6, "rto")) * time.Millisecond
		got, eof := w.readOnce(s, who, timeout, &last)
		w.sampleAll()
		if eof {
			sawEOF = true
		}
		if done && !got {
			return
		}
		if eof || (sawEOF && !got) {
			// keep polling after EOF (not in a busy loop): data must not show up later
			simrt.Sleep(4 * time.Millisecond)
		}
	}
}

// ---------------------------------------------------------------------------
// writer
// ---------------------------------------------------------------------------

func (w *world) writer(s *sm, k int) {
	who := fmt.Sprintf("w%d", k)
	ops := 1 + simrt.Choose(8, "wops")
	for i := 0; i < ops; i++ {
		switch simrt.Choose(8, "wop") {
		case 3, 4:
			simrt.Eventf("closewrite #%d %s", s.idx, who)
			s.cwInvoked = true
			s.cwInflight++
			s.begin()
			s.st.CloseWrite()
			s.end()
			s.cwInflight--
			if s.cwInflight == 0 {
				s.cwReturned = true
			}
			simrt.Probe("close_write")
		case 5:
			// "reads continue": the stream's own read gate stays open until the
			// remote side finishes or the stream is closed
			ok := s.st.CanRead()
			simrt.Eventf("canread #%d %s -> %v", s.idx, who, ok)
			if !ok && !s.finInvoked && !s.closeInvoked {
				sig := "read gate closed on an open stream"
				if s.cwInvoked {
					sig = "read gate closed by the local half-close"
				}
				simrt.Failf("read-refused", sig, "stream #%d %s", s.idx, who)
			}
		case 6:
			simrt.Sleep(time.Duration(1+simrt.Choose(3, "wgap")) * time.Millisecond)
			continue
		case 7:
			if !simrt.Chance(1, 3, "localclose") {
				w.tryWrite(s, who)
				break
			}
			if !s.closeInvoked {
				s.closeKind = "local close"
				simrt.Probe("local_close")
			}
			simrt.Eventf("remove #%d %s", s.idx, who)
			w.doClose(s, "local close", func() { w.mgr.RemoveStream(s.id) })
		default:
			w.tryWrite(s, who)
		}
		w.sampleAll()
	}
}

// tryWrite is a write attempt the way the mesh connection does it: the write is
// sent iff the stream's write gate (CanWrite) is open.
func (w *world) tryWrite(s *sm, who string) {
	halfClosedBefore := s.cwReturned
	ok := s.st.CanWrite()
	simrt.Eventf("write #%d %s accepted=%v", s.idx, who, ok)
	if halfClosedBefore {
		if ok {
			simrt.Failf("write-after-half-close", "write accepted after the local half-close completed", "stream #%d %s", s.idx, who)
		}
		simrt.Probe("write_refused_after_half_close")
		return
	}
	if !ok && !s.cwInvoked && !s.closeInvoked {
		simrt.Failf("write-refused-on-open-stream", "write refused although this stream was never half-closed locally, closed or reset", "stream #%d %s", s.idx, who)
	}
}

// ---------------------------------------------------------------------------
// end of run
// ---------------------------------------------------------------------------

func (w *world) final() {
	w.sampleAll()
	live := 0
	for _, s := range w.streams {
		if s.closeInvoked {
			w.checkTornDown(s, s.closeKind)
			continue
		}
		live++
		// drain what is still buffered (a Read that starts now, after every EOF)
		last := -1
		for i := 0; ; i++ {
			got, eof := w.readOnce(s, "drain", time.Millisecond, &last)
			if !got {
				if s.finReturned && !eof {
					simrt.Failf("read-blocked-after-fin", "Read blocked although the remote FIN had been processed", "stream #%d drain", s.idx)
				}
				break
			}
		}
		for _, c := range s.chunks {
			if c.postFin || c.status != chAccepted {
				continue
			}
			for p := c.first; p < c.first+c.n; p++ {
				if !s.delivered[p] {
					simrt.Failf("data-lost", "accepted data was never delivered to a reader", "stream #%d cell %d (chunk of %d cells, with_fin=%v)", s.idx, p, c.n, c.withFin)
				}
			}
		}
		if s.closeCb != 0 {
			simrt.Failf("close-affected-other-stream", "close callback for a stream that was never addressed", "stream #%d", s.idx)
		}
		simrt.Eventf("final #%d cells=%d delivered=%d state=%v", s.idx, len(s.cellChunk), s.nDeliv, s.observed)
	}
	w.checkOthers(nil, "end of run")
	w.sampleAll()
	if n := w.mgr.StreamCount(); n != live {
		simrt.Failf("close-affected-other-stream", "number of registered streams differs from the number never closed", "registered %d, never closed %d", n, live)
	}
}
