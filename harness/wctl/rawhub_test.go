package wctl

import (
	"context"
	"fmt"
	"time"

	"github.com/postalsys/muti-metroo/internal/identity"
	"github.com/postalsys/muti-metroo/internal/protocol"
	"github.com/postalsys/muti-metroo/internal/transport"
	"github.com/postalsys/muti-metroo/internal/verifrt/simrt"
	"github.com/postalsys/muti-metroo/internal/verifrt/simtransport"
)

// rawHub is a harness-controlled *listening* peer: an agent that has it in its
// peer list dials it (at start, in every poll window while asleep, and again
// after waking), the hub completes a genuine handshake as the acceptor, answers
// keepalives, records what it receives and can write arbitrary frames.
//
// It exists because an agent that owns a listener cannot be put to sleep in this
// world: agent.acceptLoop keeps calling Accept on the listener that enterSleep
// closed, without any delay, so simulated time stops (see the C28 notes). Agents
// that may sleep are therefore pure dialers, and the adversary listens.
type rawHub struct {
	Name  string
	ID    identity.AgentID
	Addr  string
	lis   transport.Listener
	conns []*rawConn
	stop  bool
	// onAccept is called when a transport connection arrives (before the handshake)
	onAccept func()
}

type rawConn struct {
	hub      *rawHub
	remote   identity.AgentID
	pc       transport.PeerConn
	w        *protocol.FrameWriter
	closed   bool
	openedAt time.Duration
	received []*protocol.Frame
}

func newRawHub(name string, id identity.AgentID, addr string, onAccept func()) *rawHub {
	h := &rawHub{Name: name, ID: id, Addr: addr, onAccept: onAccept}
	var g simrt.Group
	g.Go("listen-"+name, func() {
		simrt.SetNode(name)
		l, err := simtransport.NewWebSocket().Listen(addr, transport.ListenOptions{PlainText: true, Path: "/mesh"})
		if err != nil {
			panic(fmt.Sprintf("raw hub %s: %v", name, err))
		}
		h.lis = l
	})
	g.Wait()
	simrt.GoNode("accept-"+name, name, h.acceptLoop)
	return h
}

func (h *rawHub) acceptLoop() {
	for !h.stop {
		ctx, cancel := context.WithTimeout(context.Background(), time.Hour)
		pc, err := h.lis.Accept(ctx)
		cancel()
		if err != nil {
			if h.stop {
				return
			}
			simrt.Sleep(time.Second) // never spin on a failing listener
			continue
		}
		if h.onAccept != nil {
			h.onAccept()
		}
		simrt.GoNode("serve-"+h.Name, h.Name, func() { h.serve(pc) })
	}
}

func (h *rawHub) serve(pc transport.PeerConn) {
	ctx, cancel := context.WithTimeout(context.Background(), 20*time.Second)
	defer cancel()
	st, err := pc.AcceptStream(ctx)
	if err != nil {
		pc.Close()
		return
	}
	r, w := protocol.NewFrameReader(st), protocol.NewFrameWriter(st)
	f, err := r.Read()
	if err != nil || f.Type != protocol.FramePeerHello {
		pc.Close()
		return
	}
	hello, err := protocol.DecodePeerHello(f.Payload)
	if err != nil {
		pc.Close()
		return
	}
	ack := &protocol.PeerHello{Version: protocol.ProtocolVersion, AgentID: h.ID, Timestamp: hello.Timestamp, DisplayName: h.Name}
	if err := w.Write(&protocol.Frame{Type: protocol.FramePeerHelloAck, StreamID: protocol.ControlStreamID, Payload: ack.Encode()}); err != nil {
		pc.Close()
		return
	}
	c := &rawConn{hub: h, remote: hello.AgentID, pc: pc, w: w, openedAt: simrt.Elapsed()}
	h.conns = append(h.conns, c)
	simrt.Eventf("raw hub %s: connection %d from %x", h.Name, len(h.conns), hello.AgentID[:2])
	for {
		fr, rerr := r.Read()
		if rerr != nil {
			c.closed = true
			simrt.Eventf("raw hub %s: connection from %x closed", h.Name, hello.AgentID[:2])
			return
		}
		if fr.Type == protocol.FrameKeepalive {
			if ka, e := protocol.DecodeKeepalive(fr.Payload); e == nil {
				w.Write(&protocol.Frame{Type: protocol.FrameKeepaliveAck, StreamID: protocol.ControlStreamID, Payload: (&protocol.Keepalive{Timestamp: ka.Timestamp}).Encode()})
			}
			continue
		}
		c.received = append(c.received, fr)
	}
}

// live returns the newest open connection, or nil.
func (h *rawHub) live() *rawConn {
	for i := len(h.conns) - 1; i >= 0; i-- {
		if !h.conns[i].closed {
			return h.conns[i]
		}
	}
	return nil
}

func (h *rawHub) shutdown() {
	h.stop = true
	var g simrt.Group
	g.Go("close-"+h.Name, func() {
		simrt.SetNode(h.Name)
		h.lis.Close()
		for _, c := range h.conns {
			c.pc.Close()
		}
	})
	g.Wait()
}
