// Package wctl is the simulated world for the two "command and control" properties
// of the mesh: C28 (signed sleep/wake commands) and C39 (control responses reach only
// the asker). Both run whole agents over meshkit.
package wctl

import (
	"os"
	"testing"
	"time"

	"github.com/postalsys/muti-metroo/internal/verifsim/hc"
)

func TestWorld(t *testing.T) {
	w := &hc.World{
		Name:         "W-ctl",
		Run:          run,
		PreemptMeans: []int{0, 0, 20, 100, 500},
		MaxSteps:     5_000_000,
		MaxSimTime:   12 * time.Hour,
	}
	if os.Getenv("VERIF_PROP") == "C28" {
		// C28 runs are long in simulated time (poll cycles, minutes of waiting for windows to
		// pass) and the property is about inputs, not interleavings: coarser preemption keeps
		// the choice lists (and the minimiser's work) short
		w.PreemptMeans = []int{0, 0, 0, 300, 2000}
		w.MaxSteps = 3_000_000
	}
	hc.Main(t, w)
}

func run(prop string) {
	switch prop {
	case "C28":
		runC28()
	case "C39":
		runC39()
	default:
		panic("W-ctl does not decide " + prop)
	}
}
