// Package wctl is the simulated world for the two "command and control" properties
// of the mesh: C28 (signed sleep/wake commands) and C39 (control responses reach only
// the asker). Both run whole agents over meshkit.
package wctl

import (
	"testing"
	"time"

	"github.com/postalsys/muti-metroo/internal/verifsim/hc"
)

func TestWorld(t *testing.T) {
	hc.Main(t, &hc.World{
		Name:         "W-ctl",
		Run:          run,
		PreemptMeans: []int{0, 0, 20, 100, 500},
		MaxSteps:     30_000_000,
		MaxSimTime:   12 * time.Hour,
	})
}

func run(prop string) {
	switch prop {
	case "C28":
		runC28()
	case "C39":
		runC39()
	default:
		panic("W-ctl does not decide " + prop)
	}
}
