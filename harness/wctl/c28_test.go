package wctl

import (
	"crypto/ed25519"
	"encoding/hex"
	"fmt"
	"time"

	"github.com/postalsys/muti-metroo/internal/config"
	"github.com/postalsys/muti-metroo/internal/identity"
	"github.com/postalsys/muti-metroo/internal/protocol"
	"github.com/postalsys/muti-metroo/internal/sleep"
	"github.com/postalsys/muti-metroo/internal/verifrt/simrt"
	. "github.com/postalsys/muti-metroo/internal/verifsim/meshkit"
)

// ---------------------------------------------------------------------------
// C28: with a signing public key configured, an agent changes its sleep state,
// or forwards a sleep/wake command, only for a command whose signature over
// (origin, id, timestamp) verifies and whose timestamp is inside the validity
// window - on every frame type that can carry a command (SLEEP_COMMAND,
// WAKE_COMMAND, QUEUED_STATE).
//
// The reference model is written from the statement and the user documentation
// (docs/cli/signing-key.md: Ed25519 over origin+id+timestamp; "Agents reject
// commands with timestamps more than 5 minutes from the current time"):
//   valid(cmd, t) = ed25519.Verify(pub, origin||be64(id)||be64(ts), sig)
//                   && |t - ts| <= 5 min
// It is evaluated by the wire tap for every command-carrying frame that is
// written toward an agent ("delivery") or by an agent ("emission").
//
//  state-change-without-valid-command: an agent's awake/asleep state changed and
//     neither a harness API call on that agent nor a delivery of a valid command
//     of that direction (sleep -> asleep, wake -> awake) in the preceding 25 s
//     accounts for it. Each delivery / API call accounts for one change.
//  forwarded-invalid-command: an agent wrote a command frame whose command it
//     had received before (or whose origin is another agent) and that command
//     does not verify, or was outside the window every time it was delivered.
// Within 3 s of the window edge either verdict is accepted.
// ---------------------------------------------------------------------------

const (
	c28Window = 5 * time.Minute
	c28Edge   = 3 * time.Second
)

type cmdFields struct {
	kind   string // "sleep" or "wake": what the carrying frame tells the receiver to do
	origin identity.AgentID
	id, ts uint64
	sig    [64]byte
	seenBy []identity.AgentID
}

func (c *cmdFields) key() string {
	return fmt.Sprintf("%x|%d|%d|%x", c.origin[:], c.id, c.ts, c.sig[:])
}

func (c *cmdFields) String() string {
	k := c.kind
	if k == "" {
		k = "command"
	}
	return fmt.Sprintf("%s origin=%x id=%d ts=%d sig=%x", k, c.origin[:2], c.id, c.ts, simrt.FNV(c.sig[:]))
}

// signable returns the bytes the repository signs for (origin, id, timestamp).
// The harness does not assume their layout: the oracle never asks "do these
// bytes verify" but "was this very signature made by the key holder for exactly
// this origin, identifier and timestamp" (signedFor), which is what the
// statement demands whatever the encoding is.
func signable(origin identity.AgentID, id, ts uint64) []byte {
	return (&protocol.SleepCommand{OriginAgent: origin, CommandID: id, Timestamp: ts}).SignableBytes()
}

func tripleKey(origin identity.AgentID, id, ts uint64) string {
	return fmt.Sprintf("%x/%d/%d", origin[:], id, ts)
}

// signedFor reports whether sig is a signature the key holder made for exactly (origin, id, ts).
func (w *c28World) signedFor(c *cmdFields) bool {
	s, ok := w.signed[tripleKey(c.origin, c.id, c.ts)]
	return ok && s == c.sig
}

type credit struct {
	at   time.Duration
	kind string
	used bool
	desc string
}

type delivery struct {
	okOnce bool // verified and inside (or at the edge of) the window at least once
	sigOK  bool
}

type agentObs struct {
	asleep    bool
	credits   []*credit
	delivered map[string]*delivery
	firstSeen map[string]time.Duration // when a command was first delivered to / written by this agent
	recent    []string                 // last deliveries, for violation details
	lastInval string                   // carrier/kind of the last delivery that was not valid
}

type c28World struct {
	m        *Mesh
	byName   map[string]int
	pub      ed25519.PublicKey
	priv     ed25519.PrivateKey
	wrong    ed25519.PrivateKey
	op       int
	obs      []*agentObs
	captured []cmdFields         // genuine commands issued by the operator, as seen on the wire
	signed   map[string][64]byte // (origin, id, timestamp) -> the signature the key holder made for it
	capKeys  map[string]bool
	nextID   uint64
	raws     []*RawPeer
	rawN     int
	attached map[int]*RawPeer // hub node -> raw peer dialled into it
	hubs     map[int]*rawHub  // sleeper node -> the raw hub it dials
	sleeper  []bool
	rawStart map[string]time.Duration // raw peer name -> when its (last) connection attempt began
}

func fixedKey(b byte) ed25519.PrivateKey {
	seed := make([]byte, 32)
	for i := range seed {
		seed[i] = b + byte(i*7)
	}
	return ed25519.NewKeyFromSeed(seed)
}

// verdict: 2 = valid, 1 = signature fine and timestamp at the window edge, 0 = invalid
func (w *c28World) verdict(c *cmdFields) (int, string) {
	if !w.signedFor(c) {
		return 0, "signature does not verify"
	}
	if c.ts > 1<<40 {
		return 0, "timestamp outside the window"
	}
	d := time.Since(time.Unix(int64(c.ts), 0))
	if d < 0 {
		d = -d
	}
	switch {
	case d <= c28Window-c28Edge:
		return 2, "valid"
	case d <= c28Window+c28Edge:
		return 1, "window edge"
	}
	return 0, "timestamp outside the window"
}

func carrierName(t uint8) string {
	switch t {
	case protocol.FrameSleepCommand:
		return "SLEEP_COMMAND"
	case protocol.FrameWakeCommand:
		return "WAKE_COMMAND"
	case protocol.FrameQueuedState:
		return "QUEUED_STATE"
	}
	return fmt.Sprintf("0x%02x", t)
}

// commandsIn decodes the commands a frame carries (with the repository's own codec:
// what the frame says is what the receiving agent will read).
func commandsIn(ev *FrameEvent) ([]cmdFields, error) {
	switch ev.Type {
	case protocol.FrameSleepCommand:
		c, err := protocol.DecodeSleepCommand(ev.Payload)
		if err != nil {
			return nil, err
		}
		return []cmdFields{{"sleep", c.OriginAgent, c.CommandID, c.Timestamp, c.Signature, c.SeenBy}}, nil
	case protocol.FrameWakeCommand:
		c, err := protocol.DecodeWakeCommand(ev.Payload)
		if err != nil {
			return nil, err
		}
		return []cmdFields{{"wake", c.OriginAgent, c.CommandID, c.Timestamp, c.Signature, c.SeenBy}}, nil
	case protocol.FrameQueuedState:
		q, err := protocol.DecodeQueuedState(ev.Payload)
		if err != nil {
			return nil, err
		}
		var out []cmdFields
		if c := q.SleepCmd; c != nil {
			out = append(out, cmdFields{"sleep", c.OriginAgent, c.CommandID, c.Timestamp, c.Signature, c.SeenBy})
		}
		if c := q.WakeCmd; c != nil {
			out = append(out, cmdFields{"wake", c.OriginAgent, c.CommandID, c.Timestamp, c.Signature, c.SeenBy})
		}
		return out, nil
	}
	return nil, nil
}

func (w *c28World) onFrame(ev *FrameEvent) {
	if ev.Type != protocol.FrameSleepCommand && ev.Type != protocol.FrameWakeCommand && ev.Type != protocol.FrameQueuedState {
		return
	}
	from, fromAgent := w.byName[ev.From]
	to, toAgent := w.byName[ev.To]
	cmds, err := commandsIn(ev)
	if err != nil {
		if fromAgent {
			simrt.Failf("undecodable-command-frame", "an agent wrote a command frame that does not decode", "%s: %v", ev, err)
		}
		simrt.Eventf("wire %s %s->%s undecodable", carrierName(ev.Type), ev.From, ev.To)
		return
	}
	carrier := carrierName(ev.Type)
	for i := range cmds {
		c := &cmds[i]
		k := c.key()
		if fromAgent && from == w.op && c.origin == w.m.Nodes[from].ID && w.obs[from].delivered[k] == nil &&
			ed25519.Verify(w.pub, signable(c.origin, c.id, c.ts), c.sig[:]) {
			// the operator's own API call (never delivered to it, names it as origin):
			// it holds the key and signed exactly this triple
			w.signed[tripleKey(c.origin, c.id, c.ts)] = c.sig
		}
		v, why := w.verdict(c)
		simrt.Eventf("wire %s %s->%s %s seenby=%d : %s", carrier, ev.From, ev.To, c, len(c.seenBy), why)
		if fromAgent {
			w.judgeEmission(from, ev, carrier, c, k)
		}
		if toAgent {
			o := w.obs[to]
			if _, ok := o.firstSeen[k]; !ok {
				o.firstSeen[k] = simrt.Elapsed()
			}
			d := o.delivered[k]
			if d == nil {
				d = &delivery{}
				o.delivered[k] = d
			}
			if v > 0 {
				d.okOnce = true
				o.credits = append(o.credits, &credit{at: simrt.Elapsed(), kind: c.kind, desc: fmt.Sprintf("%s from %s (%s)", carrier, ev.From, c)})
			} else {
				o.lastInval = carrier + " carrying a " + c.kind + " command"
			}
			o.recent = append(o.recent, fmt.Sprintf("t=%v %s from %s: %s -> %s", simrt.Elapsed(), carrier, ev.From, c, why))
			if len(o.recent) > 6 {
				o.recent = o.recent[1:]
			}
		}
	}
}

// judgeEmission is the forwarding oracle.
func (w *c28World) judgeEmission(x int, ev *FrameEvent, carrier string, c *cmdFields, k string) {
	nd := w.m.Nodes[x]
	o := w.obs[x]
	d := o.delivered[k]
	if first, ok := o.firstSeen[k]; !ok {
		o.firstSeen[k] = simrt.Elapsed()
	} else if at, isRaw := w.rawStart[ev.To]; isRaw && c.kind == "wake" && at > first {
		// the receiver connected after x had the command: the connect-time (pending wake) path
		simrt.Probe("c28_pending_wake_forwarded")
	}
	if d == nil && c.origin == nd.ID {
		// never delivered to x and x names itself as the origin: x issued it (API call), this is not a forward
		if x == w.op && ed25519.Verify(w.pub, signable(c.origin, c.id, c.ts), c.sig[:]) && !w.capKeys[k] {
			// the operator's own API call: it holds the key and signed exactly this triple
			w.capKeys[k] = true
			w.captured = append(w.captured, *c)
			w.signed[tripleKey(c.origin, c.id, c.ts)] = c.sig
		}
		return
	}
	simrt.Probe("c28_command_forwarded")
	if !w.signedFor(c) {
		simrt.Failf("forwarded-invalid-command", "forwarded a "+c.kind+" command whose signature does not verify", "%s wrote %s to %s: %s", nd.Name, carrier, ev.To, c)
	}
	if d == nil {
		simrt.Failf("forwarded-invalid-command", "wrote another origin's "+c.kind+" command it had never received", "%s wrote %s to %s: %s", nd.Name, carrier, ev.To, c)
	}
	if !d.okOnce {
		simrt.Failf("forwarded-invalid-command", "forwarded a "+c.kind+" command whose timestamp was outside the window when received", "%s wrote %s to %s: %s", nd.Name, carrier, ev.To, c)
	}
}

// apiCredit notes a harness API call on agent x that may change its state.
func (w *c28World) apiCredit(x int, kind string) {
	w.obs[x].credits = append(w.obs[x].credits, &credit{at: simrt.Elapsed(), kind: kind, desc: "harness API call"})
}

// observe samples every agent's sleep state and judges changes.
func (w *c28World) observe(when string) {
	now := simrt.Elapsed()
	for i, nd := range w.m.Nodes {
		if !nd.Running {
			continue
		}
		o := w.obs[i]
		cur := nd.A.GetSleepState() != sleep.StateAwake
		if cur == o.asleep {
			continue
		}
		want, word := "wake", "awake"
		if cur {
			want, word = "sleep", "asleep"
		}
		var just *credit
		for _, c := range o.credits {
			if !c.used && c.kind == want && now-c.at <= 25*time.Second {
				just = c
				break
			}
		}
		simrt.Eventf("STATE %s -> %s (%s) justified=%v", nd.Name, word, when, just != nil)
		if just == nil {
			last := o.lastInval
			if last == "" {
				last = "nothing"
			}
			simrt.Failf("state-change-without-valid-command", "agent became "+word+" with no valid command delivered; last invalid delivery: "+last,
				"%s became %s (%s) at t=%v; recent deliveries: %v", nd.Name, word, when, now, o.recent)
		}
		just.used = true
		o.asleep = cur
		simrt.Probe("c28_state_change_justified_" + want)
		if just.desc != "harness API call" {
			simrt.Probe("c28_state_change_by_valid_command")
		}
	}
}

func (w *c28World) settle(when string) {
	for _, d := range []time.Duration{150 * time.Millisecond, 350 * time.Millisecond, time.Second} {
		simrt.Sleep(d)
		w.observe(when)
	}
}

// endpoint is where the adversary writes frames toward one agent.
type endpoint struct {
	name   string
	send   func(*protocol.Frame) error
	closed func() bool
	id     identity.AgentID
}

// reach returns an open adversarial connection to node v, waiting up to limit: a listening
// agent (hub) is dialled by a meshkit raw peer; a sleeper dials its raw hub by itself (at
// start, in every poll window and after waking).
func (w *c28World) reach(v int, fresh bool, limit time.Duration) *endpoint {
	nd := w.m.Nodes[v]
	deadline := simrt.Elapsed() + limit
	for {
		w.observe("while connecting")
		if h := w.hubs[v]; h != nil {
			if c := h.live(); c != nil {
				if w.obs[v].asleep {
					simrt.Probe("c28_connected_during_poll")
				}
				return &endpoint{name: h.Name, id: h.ID, closed: func() bool { return c.closed },
					send: func(f *protocol.Frame) (err error) {
						w.m.OnNode(h.Name, "inject", func() { err = c.w.Write(f) })
						return
					}}
			}
		} else {
			rp := w.attached[v]
			if (rp == nil || rp.Closed || fresh) && w.rawN < 7 {
				name := fmt.Sprintf("raw%d", w.rawN)
				w.rawStart[name] = simrt.Elapsed()
				var err error
				rp, err = w.m.AttachRawPeer(v, w.rawN)
				if err != nil {
					rp = nil
					simrt.Eventf("attach to %s failed: %v", nd.Name, err)
				} else {
					w.rawN++
					w.raws = append(w.raws, rp)
					w.attached[v] = rp
					fresh = false
				}
			}
			if rp != nil && !rp.Closed {
				r := rp
				return &endpoint{name: r.Name, id: r.ID, closed: func() bool { return r.Closed },
					send: func(f *protocol.Frame) (err error) {
						w.m.OnNode(r.Name, "inject", func() { err = r.Send(f) })
						return
					}}
			}
		}
		if simrt.Elapsed() >= deadline {
			simrt.Probe("c28_victim_not_reached")
			simrt.Eventf("no connection to %s within %v", nd.Name, limit)
			return nil
		}
		simrt.Sleep(500 * time.Millisecond)
	}
}

func (w *c28World) sign(priv ed25519.PrivateKey, origin identity.AgentID, id, ts uint64) (s [64]byte) {
	copy(s[:], ed25519.Sign(priv, signable(origin, id, ts)))
	if priv.Equal(w.priv) {
		w.signed[tripleKey(origin, id, ts)] = s
	}
	return
}

var forgeryNames = []string{"unsigned", "wrong-key", "altered-origin", "altered-id", "altered-timestamp", "outside-window", "valid", "replay", "random-signature"}

// forge builds the command fields of one injected command.
func (w *c28World) forge(v int) (cmdFields, string) {
	kind := simrt.Choose(len(forgeryNames), "forgery")
	now := uint64(time.Now().Unix())
	w.nextID++
	origin := w.m.Nodes[w.op].ID
	switch simrt.Choose(4, "origin") {
	case 1:
		origin = RawID(12)
	case 2:
		origin = w.m.Nodes[v].ID
	case 3:
		origin = identity.AgentID{}
	}
	c := cmdFields{origin: origin, id: 0x7000_0000 + w.nextID, ts: now}
	// a genuine command to tamper with: one captured from the operator, else one the harness signs itself
	base := c
	base.sig = w.sign(w.priv, base.origin, base.id, base.ts)
	if len(w.captured) > 0 && simrt.Chance(2, 3, "use-captured") {
		base = w.captured[simrt.Choose(len(w.captured), "which-captured")]
	}
	switch forgeryNames[kind] {
	case "unsigned":
	case "wrong-key":
		c.sig = w.sign(w.wrong, c.origin, c.id, c.ts)
	case "altered-origin":
		c = base
		c.origin[3] ^= 0x40
	case "altered-id":
		c = base
		c.id += 1 + uint64(simrt.Choose(3, "id-delta"))
	case "altered-timestamp":
		c = base
		c.ts += 1 + uint64(simrt.Choose(60, "ts-delta"))
	case "outside-window":
		offs := []int64{-306, 306, -320, 320, -3600, 3600, -86400 * 365, 86400 * 365, 86400 * 365 * 293, 86400 * 365 * 400, 86400 * 365 * 5000}
		abs := []uint64{0, ^uint64(0) - 5, 1 << 62, 1<<63 - 1, 1 << 63, 1<<63 + 1000, 1<<40 + 1}
		k := simrt.Choose(len(offs)+len(abs), "ts-offset")
		if k < len(offs) {
			c.ts = uint64(int64(now) + offs[k])
		} else {
			c.ts = abs[k-len(offs)]
			simrt.Probe("c28_extreme_timestamp")
		}
		c.sig = w.sign(w.priv, c.origin, c.id, c.ts)
		simrt.Probe("c28_outside_window")
	case "valid":
		offs := []int64{0, -240, 240, -290, 290, -1, 30}
		c.ts = uint64(int64(now) + offs[simrt.Choose(len(offs), "ts-offset")])
		c.sig = w.sign(w.priv, c.origin, c.id, c.ts)
	case "replay":
		c = base
		// prefer a captured genuine command that has left its window, if there is one
		var expired []cmdFields
		for _, g := range w.captured {
			if int64(now)-int64(g.ts) > int64((c28Window+c28Edge)/time.Second) {
				expired = append(expired, g)
			}
		}
		if len(expired) > 0 && simrt.Chance(1, 2, "replay-expired") {
			c = expired[simrt.Choose(len(expired), "which-expired")]
		}
	case "random-signature":
		for i := range c.sig {
			c.sig[i] = byte(simrt.Choose(256, "sigbyte"))
		}
	}
	return c, forgeryNames[kind]
}

var carrierNames = []string{"SLEEP_COMMAND", "WAKE_COMMAND", "QUEUED_STATE{sleep}", "QUEUED_STATE{wake}", "QUEUED_STATE{sleep,wake}"}

// inject sends one forged / replayed / valid command to node v through a raw peer.
func (w *c28World) inject(v int, ep *endpoint) {
	c, fname := w.forge(v)
	carrier := simrt.Choose(len(carrierNames), "carrier")
	switch simrt.Choose(3, "seenby") {
	case 1:
		c.seenBy = []identity.AgentID{ep.id}
	case 2:
		c.seenBy = []identity.AgentID{ep.id, RawID(13)}
	}
	sc := &protocol.SleepCommand{OriginAgent: c.origin, CommandID: c.id, Timestamp: c.ts, Signature: c.sig, SeenBy: c.seenBy}
	wc := &protocol.WakeCommand{OriginAgent: c.origin, CommandID: c.id, Timestamp: c.ts, Signature: c.sig, SeenBy: c.seenBy}
	f := &protocol.Frame{StreamID: protocol.ControlStreamID}
	switch carrier {
	case 0:
		f.Type, f.Payload = protocol.FrameSleepCommand, sc.Encode()
	case 1:
		f.Type, f.Payload = protocol.FrameWakeCommand, wc.Encode()
	case 2:
		f.Type, f.Payload = protocol.FrameQueuedState, (&protocol.QueuedState{SleepCmd: sc}).Encode()
	case 3:
		f.Type, f.Payload = protocol.FrameQueuedState, (&protocol.QueuedState{WakeCmd: wc}).Encode()
	case 4:
		f.Type, f.Payload = protocol.FrameQueuedState, (&protocol.QueuedState{SleepCmd: sc, WakeCmd: wc}).Encode()
	}
	verd, _ := w.verdict(&c)
	simrt.Eventf("inject %s in %s to %s (%s asleep=%v): %s", fname, carrierNames[carrier], w.m.Nodes[v].Name, ep.name, w.obs[v].asleep, &c)
	simrt.Probe("c28_injected_" + fname)
	if carrier >= 2 {
		simrt.Probe("c28_queued_state_injected")
	}
	if verd == 2 {
		simrt.Probe("c28_valid_command_via_raw_peer")
	} else if verd == 0 {
		simrt.Probe("c28_invalid_command_via_raw_peer")
		if w.obs[v].asleep {
			simrt.Probe("c28_invalid_command_to_sleeping_agent")
		}
	}
	if fname == "replay" && verd == 0 {
		simrt.Probe("c28_replay_after_window")
	}
	if err := ep.send(f); err != nil {
		simrt.Eventf("inject: send failed: %v", err)
	}
	w.settle("after injected " + fname)
}

func runC28() {
	topo := []string{"chain", "star", "ring"}[simrt.Choose(3, "topo")]
	n := 2 + simrt.Choose(3, "n")
	if topo == "ring" && n < 4 {
		topo = "chain"
	}
	// 3 runs in 4: agents that may sleep are pure dialers (see rawhub_test.go); 1 in 4: meshkit's own
	// wiring, every agent may sleep whether it listens or not
	classic := simrt.Chance(1, 4, "sleepers-with-listeners")
	m := NewMesh(n, topo)
	w := &c28World{m: m, byName: map[string]int{}, capKeys: map[string]bool{}, signed: map[string][64]byte{}, rawStart: map[string]time.Duration{},
		attached: map[int]*RawPeer{}, hubs: map[int]*rawHub{}, sleeper: make([]bool, n),
		priv: fixedKey(0x11), wrong: fixedKey(0x77)}
	w.pub = w.priv.Public().(ed25519.PublicKey)
	pollInterval := []time.Duration{2 * time.Hour, 40 * time.Second, 20 * time.Second}[simrt.Choose(3, "poll-interval")]
	w.op = 0
	listenCfg := func(nd *Node) config.ListenerConfig {
		return config.ListenerConfig{Transport: "ws", Address: fmt.Sprintf("%s:4000", nd.IP), PlainText: true, Path: "/mesh"}
	}
	if classic {
		simrt.Probe("c28_mode_sleepers_with_listeners")
		for i, nd := range m.Nodes {
			w.sleeper[i] = true
			if len(nd.Cfg.Listeners) == 0 {
				nd.Cfg.Listeners = append(nd.Cfg.Listeners, listenCfg(nd))
			}
		}
	} else {
		// re-wire: even positions dial, odd positions listen (star: node 1 is the hub)
		for _, nd := range m.Nodes {
			nd.Cfg.Listeners, nd.Cfg.Peers = nil, nil
		}
		var edges [][2]int
		switch topo {
		case "star":
			for i := 0; i < n; i++ {
				if i != 1 {
					edges = append(edges, [2]int{i, 1})
				}
			}
		case "ring":
			edges = [][2]int{{0, 1}, {2, 1}, {2, 3}, {0, 3}}
		default:
			for i := 0; i+1 < n; i++ {
				if i%2 == 0 {
					edges = append(edges, [2]int{i, i + 1})
				} else {
					edges = append(edges, [2]int{i + 1, i})
				}
			}
		}
		m.Edges = edges
		for i := range m.Nodes {
			w.sleeper[i] = true
		}
		for _, e := range edges {
			d, l := m.Nodes[e[0]], m.Nodes[e[1]]
			w.sleeper[e[1]] = false
			if len(l.Cfg.Listeners) == 0 {
				l.Cfg.Listeners = append(l.Cfg.Listeners, listenCfg(l))
			}
			d.Cfg.Peers = append(d.Cfg.Peers, config.PeerConfig{ID: l.IDHex, Transport: "ws", Address: l.Cfg.Listeners[0].Address})
		}
		for i, nd := range m.Nodes {
			if !w.sleeper[i] {
				continue
			}
			name := fmt.Sprintf("rawL%d", i)
			h := newRawHub(name, RawID(8+i), fmt.Sprintf("10.0.9.%d:4000", i+1), func() { w.rawStart[name] = simrt.Elapsed() })
			w.hubs[i] = h
			nd.Cfg.Peers = append(nd.Cfg.Peers, config.PeerConfig{ID: hex.EncodeToString(h.ID[:]), Transport: "ws", Address: h.Addr})
		}
	}
	for i, nd := range m.Nodes {
		w.byName[nd.Name] = i
		w.obs = append(w.obs, &agentObs{delivered: map[string]*delivery{}, firstSeen: map[string]time.Duration{}})
		nd.Cfg.Sleep.Enabled = w.sleeper[i]
		nd.Cfg.Sleep.PersistState = false
		nd.Cfg.Sleep.PollInterval = pollInterval
		nd.Cfg.Sleep.PollIntervalJitter = 0
		nd.Cfg.Sleep.PollDuration = 10 * time.Second
		nd.Cfg.Management.SigningPublicKey = hex.EncodeToString(w.pub)
		if i == w.op {
			nd.Cfg.Management.SigningPrivateKey = hex.EncodeToString(w.priv)
		}
	}
	simrt.Eventf("mesh n=%d topo=%s edges=%v sleepers=%v operator=%s poll=%v", n, topo, m.Edges, w.sleeper, m.Nodes[w.op].Name, pollInterval)
	m.Tap.OnFrame = append(m.Tap.OnFrame, w.onFrame)
	m.StartAll()
	if !m.WaitConnected(3 * time.Minute) {
		simrt.Failf("mesh-did-not-connect", "configured peers did not connect without faults", "edges=%v", m.Edges)
	}
	simrt.Sleep(3 * time.Second)
	w.observe("after boot")

	canPoll := pollInterval < time.Hour
	reachLimit := func(v int) time.Duration {
		if w.obs[v].asleep {
			return pollInterval + 15*time.Second
		}
		return 10 * time.Second
	}
	var bg simrt.Group // background TriggerWake calls
	steps := 2 + simrt.Choose(7, "steps")
	for s := 0; s < steps; s++ {
		v := (1 + simrt.Choose(n, "victim")) % n // choice 0 = node 1; the operator last
		action := simrt.Choose(8, "action")
		switch action {
		case 0, 1, 2: // inject through the adversarial peer
			if w.obs[v].asleep && !canPoll {
				simrt.Probe("c28_victim_unreachable")
				continue
			}
			ep := w.reach(v, false, reachLimit(v))
			if ep == nil {
				continue
			}
			w.inject(v, ep)
			if simrt.Chance(1, 3, "second-injection") && !ep.closed() {
				w.inject(v, ep)
			}
		case 3: // genuine mesh-wide sleep from the operator
			if w.obs[w.op].asleep {
				continue
			}
			simrt.Eventf("operator TriggerSleep")
			simrt.Probe("c28_genuine_sleep")
			w.apiCredit(w.op, "sleep")
			m.On(w.op, "trigger-sleep", func() {
				if err := m.Nodes[w.op].A.TriggerSleep(); err != nil {
					simrt.Eventf("TriggerSleep: %v", err)
				}
			})
			w.settle("after operator TriggerSleep")
		case 4: // genuine mesh-wide wake from the operator (floods for 2 poll cycles in the background)
			if !w.obs[w.op].asleep || !canPoll || bg.Pending() > 0 {
				continue
			}
			simrt.Eventf("operator TriggerWake")
			simrt.Probe("c28_genuine_wake")
			w.apiCredit(w.op, "wake")
			bg.Go("trigger-wake", func() {
				simrt.SetNode(m.Nodes[w.op].Name)
				if err := m.Nodes[w.op].A.TriggerWake(); err != nil {
					simrt.Eventf("TriggerWake: %v", err)
				}
			})
			w.settle("after operator TriggerWake")
		case 5: // the victim's own operator puts it to sleep locally (no private key there: unsigned flood)
			if w.obs[v].asleep || v == w.op || !w.sleeper[v] {
				continue
			}
			simrt.Eventf("local TriggerSleep on %s", m.Nodes[v].Name)
			simrt.Probe("c28_local_sleep_without_key")
			w.apiCredit(v, "sleep")
			m.On(v, "local-sleep", func() {
				if err := m.Nodes[v].A.TriggerSleep(); err != nil {
					simrt.Eventf("TriggerSleep: %v", err)
				}
			})
			w.settle("after local TriggerSleep")
		case 6: // let time pass: captured commands leave their window
			d := []time.Duration{6 * time.Minute, 30 * time.Second, 11 * time.Minute}[simrt.Choose(3, "advance")]
			simrt.Eventf("advance clock %v", d)
			for left := d; left > 0; left -= 10 * time.Second {
				simrt.Sleep(10 * time.Second)
				w.observe("while time passes")
			}
		case 7: // a new peer connects to a listening agent: the connect-time (pending wake) path
			if w.hubs[v] != nil || (w.obs[v].asleep && !canPoll) {
				continue
			}
			if ep := w.reach(v, true, reachLimit(v)); ep != nil {
				simrt.Probe("c28_fresh_peer_connected")
				w.settle("after a new peer connected")
			}
		}
	}
	// quiescence: let in-flight commands and poll cycles play out
	quiet := 5 * time.Second
	if canPoll {
		quiet = pollInterval + 15*time.Second
	}
	for left := quiet; left > 0; left -= 2 * time.Second {
		simrt.Sleep(2 * time.Second)
		w.observe("at quiescence")
	}
	for _, r := range w.raws {
		r.Close()
	}
	for i := range m.Nodes {
		if h := w.hubs[i]; h != nil {
			h.shutdown()
		}
	}
	m.StopAll()
	bg.Wait()
}
