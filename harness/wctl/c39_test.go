package wctl

import (
	"context"
	"encoding/json"
	"fmt"
	"sort"
	"strings"
	"time"

	"github.com/postalsys/muti-metroo/internal/protocol"
	"github.com/postalsys/muti-metroo/internal/verifrt/simnet"
	"github.com/postalsys/muti-metroo/internal/verifrt/simrt"
	. "github.com/postalsys/muti-metroo/internal/verifsim/meshkit"
)

// ---------------------------------------------------------------------------
// C39: a control response is delivered only to the agent that issued the
// matching request, and carries the answer of the agent the request targeted.
//
// Workload: a converged, fault-free mesh (star / chain / diamond, 3-6 agents);
// in each of 1-3 rounds several agents concurrently call
// SendControlRequestWithData (status / peers / routes) toward drawn targets.
// Every agent numbers its requests 1,2,3,..., so in the first round all ids
// are equal. Every request carries a unique tag in its data field, so every
// CONTROL_REQUEST frame on the wire is attributable to one call.
//
// Oracles:
//  caller side  - a call that returns a response must get the answer of the
//                 agent it targeted for the type it asked (status: agent_id;
//                 peers: the target's peer set; routes: the one local route in
//                 the table is the target's).
//  wire side    - every CONTROL_RESPONSE frame is followed hop by hop (a relay
//                 re-emits the same type/success/data); where it stops, that
//                 agent must be an asker of (answerer, type). Stopping at an
//                 agent that lies on the forward path of such a request is a
//                 lost response (probe, not reported); stopping anywhere else
//                 is "response-misrouted".
//  A plain timeout is a probe.
// ---------------------------------------------------------------------------

type ctlReq struct {
	idx      int
	round    int
	from, to int
	typ      uint8
	tag      string
	delay    time.Duration
	done     bool
	timedOut bool
	noRoute  bool
	resp     *protocol.ControlResponse
	hops     []reqHop     // request frames seen on the wire, in order
	onPath   map[int]bool // agents that sent or received a frame of this request
	consumed bool         // a terminal response has been attributed to this call
	mayFail  bool         // a link on (one of) its path(s) is reset during the round: an error answer or a time-out is legitimate
	patience time.Duration // how long the caller waits (0: 12 s)
	follow   *ctlReq       // issued by the same agent right after this call has been given up
}

type reqHop struct {
	from, to int
	id       uint64
}

type respFrame struct {
	seq       uint64
	from, to  int
	id        uint64
	typ       uint8
	success   bool
	key       string
	prev      *respFrame
	next      *respFrame
	closed    bool    // judged as the end of its journey
	answerers []int   // agents whose answer this content can be (nil: cannot tell)
	req       *ctlReq // the call whose request crossed this link, in the other direction, under this id
}

func typName(t uint8) string {
	switch t {
	case protocol.ControlTypeStatus:
		return "status"
	case protocol.ControlTypePeers:
		return "peers"
	case protocol.ControlTypeRoutes:
		return "routes"
	}
	return fmt.Sprintf("type%d", t)
}

type c39World struct {
	open    map[[3]uint64]int // (from, to, id) of requests on the wire that no response has answered yet
	m       *Mesh
	byName  map[string]int
	reqs    []*ctlReq
	byTag   map[string]*ctlReq
	resps   []*respFrame
	checked int // resps[:checked] already judged
	nbr     map[int][]int
}

func (w *c39World) onFrame(ev *FrameEvent) {
	switch ev.Type {
	case protocol.FrameControlRequest:
		req, err := protocol.DecodeControlRequest(ev.Payload)
		if err != nil {
			simrt.Failf("undecodable-control-frame", "control request on the wire does not decode", "%s: %v", ev, err)
		}
		r := w.byTag[string(req.Data)]
		if r == nil {
			simrt.Failf("unattributable-control-request", "control request on the wire carries no known tag", "%s id=%d data=%q", ev, req.RequestID, req.Data)
		}
		f, okf := w.byName[ev.From]
		t, okt := w.byName[ev.To]
		if !okf || !okt {
			return
		}
		r.hops = append(r.hops, reqHop{f, t, req.RequestID})
		if w.open == nil {
			w.open = map[[3]uint64]int{}
		}
		w.open[[3]uint64{uint64(f), uint64(t), req.RequestID}]++
		r.onPath[f] = true
		r.onPath[t] = true
		simrt.Eventf("wire REQ %s->%s id=%d %s tag=%s target=%s", ev.From, ev.To, req.RequestID, typName(req.ControlType), r.tag, w.m.NameOf(req.TargetAgent))
	case protocol.FrameControlResponse:
		resp, err := protocol.DecodeControlResponse(ev.Payload)
		if err != nil {
			simrt.Failf("undecodable-control-frame", "control response on the wire does not decode", "%s: %v", ev, err)
		}
		f, okf := w.byName[ev.From]
		t, okt := w.byName[ev.To]
		if !okf || !okt {
			return
		}
		// a response travels back over the link its request came over, under the
		// id the request carried on that link: anything else is a response sent to
		// an agent that has no matching request outstanding toward the sender
		if k := ([3]uint64{uint64(t), uint64(f), resp.RequestID}); w.open[k] > 0 {
			w.open[k]--
		} else {
			simrt.Failf("response-without-request", "an agent sent a response under an id its receiver has no request outstanding for on that link", "%s->%s response id=%d (%s ok=%v)", ev.From, ev.To, resp.RequestID, typName(resp.ControlType), resp.Success)
		}
		var onLink *ctlReq
		for _, r := range w.reqs {
			for _, h := range r.hops {
				if h.from == t && h.to == f && h.id == resp.RequestID {
					onLink = r
				}
			}
		}
		rf := &respFrame{req: onLink, seq: ev.Seq, from: f, to: t, id: resp.RequestID, typ: resp.ControlType, success: resp.Success,
			key: fmt.Sprintf("%d/%v/%d/%x", resp.ControlType, resp.Success, len(resp.Data), simrt.FNV(resp.Data))}
		// a relay re-emits what it received: unless the content says the sender itself is
		// the answerer, stitch to the oldest unmatched arrival with the same content
		// (same request id preferred; a relay may also translate ids)
		rf.answerers = w.answerers(resp)
		if !containsInt(rf.answerers, f) {
			var cand *respFrame
			for _, p := range w.resps {
				if p.to == f && p.next == nil && !p.closed && p.key == rf.key {
					// two calls through one relay can get answers with the same
					// content: the arrival that belongs to the same call (known from
					// the ids its request carried hop by hop) is the one relayed on
					if rf.req != nil && p.req == rf.req {
						cand = p
						break
					}
					if rf.req != nil && p.req != nil {
						continue
					}
					if p.id == rf.id {
						cand = p
						break
					}
					if cand == nil {
						cand = p
					}
				}
			}
			if cand != nil {
				cand.next, rf.prev = rf, cand
			}
		}
		w.resps = append(w.resps, rf)
		simrt.Eventf("wire RESP %s->%s id=%d %s ok=%v data=%d/%x relayed=%v", ev.From, ev.To, resp.RequestID, typName(resp.ControlType), resp.Success, len(resp.Data), simrt.FNV(resp.Data), rf.prev != nil)
	}
}

// answerers returns the agents whose answer the content of a successful response can be
// (status: the agent_id it states; routes: the origin of its distance-0 route; peers: every
// agent whose neighbour set is the listed set - the mesh is static and fault-free, and two
// agents with the same neighbours give answers nobody can tell apart).
func (w *c39World) answerers(resp *protocol.ControlResponse) []int {
	if !resp.Success {
		return nil
	}
	var out []int
	switch resp.ControlType {
	case protocol.ControlTypeStatus:
		var st map[string]any
		if json.Unmarshal(resp.Data, &st) != nil {
			return nil
		}
		id, _ := st["agent_id"].(string)
		for i, nd := range w.m.Nodes {
			if nd.IDHex == id {
				out = append(out, i)
			}
		}
	case protocol.ControlTypePeers:
		var ps []string
		if json.Unmarshal(resp.Data, &ps) != nil {
			return nil
		}
		sort.Strings(ps)
		got := strings.Join(ps, ",")
		for i := range w.m.Nodes {
			var want []string
			for _, j := range w.nbr[i] {
				want = append(want, w.m.Nodes[j].IDHex)
			}
			sort.Strings(want)
			if strings.Join(want, ",") == got {
				out = append(out, i)
			}
		}
	case protocol.ControlTypeRoutes:
		var rs []struct {
			Origin   string `json:"origin"`
			HopCount int    `json:"hop_count"`
		}
		if json.Unmarshal(resp.Data, &rs) != nil {
			return nil
		}
		for _, x := range rs {
			if x.HopCount != 0 {
				continue
			}
			for i, nd := range w.m.Nodes {
				if nd.ID.ShortString() == x.Origin {
					out = append(out, i)
				}
			}
		}
	}
	return out
}

func containsInt(xs []int, x int) bool {
	for _, y := range xs {
		if y == x {
			return true
		}
	}
	return false
}

// checkAnswer is the caller-side oracle.
func (w *c39World) checkAnswer(r *ctlReq) {
	m := w.m
	tgt := m.Nodes[r.to]
	who := fmt.Sprintf("%s asked %s for %s (tag %s)", m.Nodes[r.from].Name, tgt.Name, typName(r.typ), r.tag)
	resp := r.resp
	if resp.ControlType != r.typ {
		simrt.Failf("wrong-answer", "response of another control type delivered to the caller", "%s: got type %s id=%d", who, typName(resp.ControlType), resp.RequestID)
	}
	if !resp.Success && r.mayFail {
		simrt.Probe("c39_error_answer_after_link_fault")
		return
	}
	if !resp.Success {
		simrt.Failf("wrong-answer", "error response delivered instead of the target's answer ("+typName(r.typ)+")", "%s: %q", who, resp.Data)
	}
	switch r.typ {
	case protocol.ControlTypeStatus:
		var st map[string]any
		if err := json.Unmarshal(resp.Data, &st); err != nil {
			simrt.Failf("wrong-answer", "status answer does not decode", "%s: %v %q", who, err, resp.Data)
		}
		id, _ := st["agent_id"].(string)
		if id != tgt.IDHex {
			other := "?"
			for _, nd := range m.Nodes {
				if nd.IDHex == id {
					other = nd.Name
				}
			}
			simrt.Failf("wrong-answer", "caller received another agent's answer (status)", "%s: answer is from %s (%s)", who, other, id)
		}
	case protocol.ControlTypePeers:
		var ps []string
		if err := json.Unmarshal(resp.Data, &ps); err != nil {
			simrt.Failf("wrong-answer", "peers answer does not decode", "%s: %v %q", who, err, resp.Data)
		}
		sort.Strings(ps)
		var want []string
		for _, id := range tgt.A.GetPeerIDs() {
			want = append(want, id.String())
		}
		sort.Strings(want)
		if strings.Join(ps, ",") != strings.Join(want, ",") {
			simrt.Failf("wrong-answer", "caller received another agent's answer (peers)", "%s: got %v, target's peers are %v", who, ps, want)
		}
	case protocol.ControlTypeRoutes:
		var rs []struct {
			Network  string `json:"network"`
			Origin   string `json:"origin"`
			HopCount int    `json:"hop_count"`
		}
		if err := json.Unmarshal(resp.Data, &rs); err != nil {
			simrt.Failf("wrong-answer", "routes answer does not decode", "%s: %v %q", who, err, resp.Data)
		}
		// the only route an agent holds at distance 0 is its own
		var local []string
		for _, x := range rs {
			if x.HopCount == 0 {
				local = append(local, x.Network+"@"+x.Origin)
			}
		}
		want := CanonCIDR(tgt.Cfg.Exit.Routes[0]) + "@" + tgt.ID.ShortString()
		if len(local) != 1 || local[0] != want {
			simrt.Failf("wrong-answer", "caller received another agent's answer (routes)", "%s: local routes in the answer %v, target's is %s", who, local, want)
		}
	}
	simrt.Probe("c39_answer_checked_" + typName(r.typ))
}

// judgeTerminals is the wire-side oracle, run when no call is outstanding.
func (w *c39World) judgeTerminals() {
	m := w.m
	for _, rf := range w.resps[w.checked:] {
		if rf.next != nil {
			continue
		}
		o := rf
		hops := 1
		for o.prev != nil {
			o = o.prev
			hops++
		}
		origin, z := o.from, rf.to
		rf.closed = true
		match := func(r *ctlReq) bool {
			if !rf.success {
				// an error produced by an agent the request passed; a call that
				// got its target's answer is not what this error belongs to
				return r.onPath[origin] && !(r.resp != nil && r.resp.Success)
			}
			if len(rf.answerers) > 0 {
				return r.typ == rf.typ && containsInt(rf.answerers, r.to)
			}
			return r.typ == rf.typ && r.to == origin
		}
		var asker, transitOf *ctlReq
		// two calls of one agent to one target for the same kind of answer look
		// alike: the one that went out under the id the response carries is the asker
		if rf.req != nil && match(rf.req) && rf.req.from == z && !rf.req.consumed {
			asker = rf.req
		}
		for _, r := range w.reqs {
			if asker == nil && match(r) && r.from == z && !r.consumed && len(r.hops) > 0 && firstID(r) == rf.id {
				asker = r
				break
			}
		}
		for _, r := range w.reqs {
			if !match(r) {
				continue
			}
			if r.from == z && !r.consumed && asker == nil {
				asker = r
			}
			if r.from != z && r.onPath[z] && transitOf == nil {
				transitOf = r
			}
		}
		desc := fmt.Sprintf("%s answer produced by %s (ok=%v, %d hop(s), last id %d) stopped at %s", typName(rf.typ), m.Nodes[origin].Name, rf.success, hops, rf.id, m.Nodes[z].Name)
		switch {
		case asker != nil:
			asker.consumed = true
			simrt.Probe("c39_response_reached_an_asker")
		case transitOf != nil:
			simrt.Probe("c39_response_dropped_at_transit")
			simrt.Eventf("LOST %s, a transit of %s", desc, transitOf.tag)
		default:
			var asked []string
			for _, r := range w.reqs {
				if match(r) {
					asked = append(asked, fmt.Sprintf("%s(%s id %d)", m.Nodes[r.from].Name, r.tag, firstID(r)))
				}
			}
			simrt.Failf("response-misrouted", "response delivered to an agent that neither asked for it nor relays it ("+typName(rf.typ)+")", "%s; askers of that answer: %v", desc, asked)
		}
	}
	w.checked = len(w.resps)
}

func firstID(r *ctlReq) uint64 {
	if len(r.hops) == 0 {
		return 0
	}
	return r.hops[0].id
}

// connectedWithout reports whether a and b are connected in the configured topology minus edge e.
func connectedWithout(m *Mesh, e [2]int, a, b int) bool {
	adj := map[int][]int{}
	for _, x := range m.Edges {
		if (x[0] == e[0] && x[1] == e[1]) || (x[0] == e[1] && x[1] == e[0]) {
			continue
		}
		adj[x[0]] = append(adj[x[0]], x[1])
		adj[x[1]] = append(adj[x[1]], x[0])
	}
	seen := map[int]bool{a: true}
	todo := []int{a}
	for len(todo) > 0 {
		x := todo[0]
		todo = todo[1:]
		for _, y := range adj[x] {
			if !seen[y] {
				seen[y] = true
				todo = append(todo, y)
			}
		}
	}
	return seen[b]
}

func runC39() {
	topo := []string{"star", "chain", "diamond"}[simrt.Choose(3, "topo")]
	n := 3 + simrt.Choose(4, "n")
	if topo == "diamond" && n < 4 {
		n = 4
	}
	m := NewMesh(n, topo)
	for j, nd := range m.Nodes {
		nd.Cfg.Routing.AdvertiseInterval = 5 * time.Second
		nd.Cfg.Routing.RouteTTL = 5 * time.Minute
		nd.Cfg.Exit.Enabled = true
		nd.Cfg.Exit.Routes = []string{fmt.Sprintf("10.%d.0.0/16", 100+j)}
	}
	// slow links: an answer can arrive after its caller has given up
	lat := []time.Duration{0, 0, 5 * time.Millisecond, 60 * time.Millisecond, 250 * time.Millisecond}[simrt.Choose(5, "latency")]
	m.Net.DefaultLatency = func(l *simnet.Link) [2]time.Duration { return [2]time.Duration{lat, lat} }
	simrt.Eventf("mesh n=%d topo=%s edges=%v latency=%v", n, topo, m.Edges, lat)
	w := &c39World{m: m, byName: map[string]int{}, byTag: map[string]*ctlReq{}, nbr: m.Neighbours()}
	for i, nd := range m.Nodes {
		w.byName[nd.Name] = i
	}
	m.Tap.OnFrame = append(m.Tap.OnFrame, w.onFrame)
	BootAndConverge(m)

	// precondition (routing is not this property's subject): everyone knows a way to everyone
	for i := range m.Nodes {
		known := map[string]bool{}
		for _, rv := range m.RoutesAt(i) {
			if rv.Table == "agent" {
				known[rv.Key] = true
			}
		}
		for j, od := range m.Nodes {
			if j != i && !known[od.Name] && !HasPeer(m.Nodes[i], od.ID) {
				simrt.Probe("c39_not_converged")
				simrt.Eventf("not converged: %s does not know %s", m.Nodes[i].Name, od.Name)
				m.StopAll()
				return
			}
		}
	}

	rounds := 1 + simrt.Choose(3, "rounds")
	delays := []time.Duration{0, 0, time.Millisecond, 5 * time.Millisecond, 50 * time.Millisecond, 300 * time.Millisecond}
	types := []uint8{protocol.ControlTypeStatus, protocol.ControlTypePeers, protocol.ControlTypeRoutes}
	for round := 0; round < rounds; round++ {
		nreq := 2 + simrt.Choose(n+1, "nreq") // more than n: some agents have two calls outstanding
		start := simrt.Choose(n, "first")
		var batch []*ctlReq
		for k := 0; k < nreq; k++ {
			from := (start + 1 + k) % n
			to := (from + 1 + simrt.Choose(n-1, "target")) % n
			r := &ctlReq{idx: len(w.reqs), round: round, from: from, to: to,
				typ:    types[simrt.Choose(3, "type")],
				delay:  delays[simrt.Choose(len(delays), "delay")],
				onPath: map[int]bool{}}
			r.tag = fmt.Sprintf("q%d.%d", round, k)
			w.reqs = append(w.reqs, r)
			w.byTag[r.tag] = r
			batch = append(batch, r)
			simrt.Eventf("plan %s: %s asks %s for %s after %v", r.tag, m.Nodes[from].Name, m.Nodes[to].Name, typName(r.typ), r.delay)
			if lat > 0 && simrt.Chance(1, 3, "impatient") {
				// the caller gives up early and asks somebody else at once: the first
				// target's answer is still on its way then
				r.patience = []time.Duration{2 * time.Millisecond, 30 * time.Millisecond, 150 * time.Millisecond, 600 * time.Millisecond}[simrt.Choose(4, "patience")]
				to2 := (from + 1 + simrt.Choose(n-1, "follow-target")) % n
				f := &ctlReq{idx: len(w.reqs), round: round, from: from, to: to2, typ: types[simrt.Choose(3, "follow-type")], onPath: map[int]bool{}}
				f.tag = fmt.Sprintf("q%d.%df", round, k)
				w.reqs = append(w.reqs, f)
				w.byTag[f.tag] = f
				r.follow = f
				simrt.Eventf("plan %s: patience %v, then %s asks %s for %s", r.tag, r.patience, m.Nodes[from].Name, m.Nodes[to2].Name, typName(f.typ))
			}
		}
		all := append([]*ctlReq(nil), batch...)
		for _, r := range batch {
			if r.follow != nil {
				all = append(all, r.follow)
			}
		}
		// fault round: one mesh link is reset while the calls are in flight. Calls
		// whose way to the target does not use that link must be answered as if
		// nothing had happened; the others may fail or time out, but never
		// receive another call's answer.
		faulted := round > 0 && simrt.Chance(1, 2, "fault-round")
		var fg simrt.Group
		if faulted {
			// a peers answer is recognised by comparing it with the agents' peer
			// lists, which the fault changes: fault rounds ask for answers that
			// name their author (status, routes)
			for _, r := range all {
				if r.typ == protocol.ControlTypePeers {
					r.typ = protocol.ControlTypeStatus
				}
			}
			e := m.Edges[simrt.Choose(len(m.Edges), "fault-edge")]
			for _, r := range all {
				r.mayFail = topo == "diamond" || !connectedWithout(m, e, r.from, r.to)
				if !r.mayFail {
					simrt.Probe("c39_call_off_the_faulted_link")
				}
			}
			// at the very instant one of the calls goes out (the order within the
			// instant is the scheduler's), or anywhere in the round
			at := batch[simrt.Choose(len(batch), "fault-with-call")].delay
			if simrt.Chance(1, 3, "fault-anywhere") {
				at = time.Duration(simrt.Choose(320, "fault-at-ms")) * time.Millisecond
			}
			fg.Go("fault", func() {
				simrt.Sleep(at)
				for _, l := range m.Net.Links() {
					if l.Kind != "peer" || l.Dead() {
						continue
					}
					a, b := m.Nodes[e[0]].Name, m.Nodes[e[1]].Name
					if (l.DialNode == a && l.AccNode == b) || (l.DialNode == b && l.AccNode == a) {
						simrt.Eventf("fault: reset mesh link %s-%s", a, b)
						simrt.Probe("c39_link_reset_during_calls")
						l.Reset()
					}
				}
			})
		}
		var g simrt.Group
		for _, r := range batch {
			r := r
			g.Go("ask-"+r.tag, func() {
				simrt.SetNode(m.Nodes[r.from].Name)
				if r.delay > 0 {
					simrt.Sleep(r.delay)
				}
				w.ask(r)
				if r.follow != nil && r.timedOut {
					simrt.Probe("c39_follow_up_after_abandoned_call")
					w.ask(r.follow)
				}
			})
		}
		g.Wait()
		fg.Wait()
		simrt.Sleep(2 * time.Second)
		w.judgeTerminals()
		w.roundProbes(batch)
		if faulted {
			if !m.WaitConnected(3 * time.Minute) {
				simrt.Failf("mesh-did-not-reconnect", "configured peers did not reconnect after the fault", "edges=%v", m.Edges)
			}
			Settle(m)
		}
	}
	// nothing may be left waiting for a response once every call has returned
	for _, nd := range m.Nodes {
		p, f := nd.A.VerifControlTableSizes()
		simrt.Eventf("tables at %s: pending=%d forwarded=%d", nd.Name, p, f)
		if f > 0 {
			simrt.Probe("c39_forward_entry_left_over")
		}
	}
	m.StopAll()
}

// ask performs one call and judges what it returns.
func (w *c39World) ask(r *ctlReq) {
	m := w.m
	patience := 12 * time.Second
	if r.patience > 0 {
		patience = r.patience
	}
	ctx, cancel := context.WithTimeout(context.Background(), patience)
	defer cancel()
	resp, err := m.Nodes[r.from].A.SendControlRequestWithData(ctx, m.Nodes[r.to].ID, r.typ, []byte(r.tag))
	r.done = true
	if err != nil {
		if ctx.Err() != nil {
			r.timedOut = true
			simrt.Probe("c39_timeout")
			simrt.Eventf("call %s: timeout", r.tag)
		} else {
			r.noRoute = true
			simrt.Probe("c39_send_failed")
			simrt.Eventf("call %s: %v", r.tag, err)
		}
		return
	}
	r.resp = resp
	simrt.Eventf("call %s: response id=%d %s ok=%v data=%d/%x", r.tag, resp.RequestID, typName(resp.ControlType), resp.Success, len(resp.Data), simrt.FNV(resp.Data))
	w.checkAnswer(r)
}

// roundProbes measures reach: equal ids through one transit, transit that also asks.
func (w *c39World) roundProbes(batch []*ctlReq) {
	type key struct {
		transit int
		id      uint64
	}
	seen := map[key]*ctlReq{}
	calls := map[int]int{}
	for _, r := range batch {
		calls[r.from]++
		if calls[r.from] == 2 {
			simrt.Probe("c39_two_calls_outstanding_at_one_agent")
		}
	}
	for _, r := range batch {
		if len(r.hops) >= 3 {
			simrt.Probe("c39_request_over_two_transits")
		}
		for hi, h := range r.hops {
			if hi+1 >= len(r.hops) {
				break // last receiver is the target, not a transit
			}
			t := h.to
			simrt.Probe("c39_request_through_transit")
			k := key{t, h.id}
			if o := seen[k]; o != nil && o != r {
				simrt.Probe("c39_equal_ids_through_one_transit")
				if o.to != r.to {
					simrt.Probe("c39_equal_ids_distinct_targets")
				}
			} else {
				seen[k] = r
			}
			for _, q := range batch {
				if q != r && q.from == t && len(q.hops) > 0 {
					simrt.Probe("c39_transit_also_requester")
					if q.hops[0].id == h.id {
						simrt.Probe("c39_transit_own_id_equals_relayed_id")
					}
				}
			}
		}
	}
}
