package meshkit

import (
	"fmt"
	"sort"
	"strings"
	"time"

	"github.com/postalsys/muti-metroo/internal/identity"
)

// RouteView is one learned or local route of any of the four tables.
type RouteView struct {
	Table      string // cidr, domain, forward, agent
	Key        string
	Origin     identity.AgentID
	NextHop    identity.AgentID
	Metric     uint16
	Path       []identity.AgentID
	Seq        uint64
	LastUpdate time.Time
}

// RoutesAt dumps all four route tables of node i (sorted).
func (m *Mesh) RoutesAt(i int) []RouteView {
	nd := m.Nodes[i]
	if nd.A == nil {
		return nil
	}
	rm := nd.A.VerifRouteManager()
	var out []RouteView
	for _, r := range rm.Table().GetAllRoutes() {
		out = append(out, RouteView{"cidr", r.Network.String(), r.OriginAgent, r.NextHop, r.Metric, r.Path, r.Sequence, r.LastUpdate})
	}
	for _, r := range rm.DomainTable().GetAllRoutes() {
		k := r.Pattern
		out = append(out, RouteView{"domain", strings.ToLower(k), r.OriginAgent, r.NextHop, r.Metric, r.Path, r.Sequence, r.LastUpdate})
	}
	for _, r := range rm.ForwardTable().GetAllRoutes() {
		out = append(out, RouteView{"forward", r.Key + "=" + r.Target, r.OriginAgent, r.NextHop, r.Metric, r.Path, r.Sequence, r.LastUpdate})
	}
	for _, r := range rm.AgentTable().GetAllRoutes() {
		out = append(out, RouteView{"agent", m.NameOf(r.AgentID), r.OriginAgent, r.NextHop, r.Metric, r.Path, r.Sequence, r.LastUpdate})
	}
	sort.Slice(out, func(a, b int) bool {
		x, y := out[a], out[b]
		if x.Table != y.Table {
			return x.Table < y.Table
		}
		if x.Key != y.Key {
			return x.Key < y.Key
		}
		return string(x.Origin[:]) < string(y.Origin[:])
	})
	return out
}

func (m *Mesh) PathStr(p []identity.AgentID) string {
	s := make([]string, len(p))
	for i, id := range p {
		s[i] = m.NameOf(id)
	}
	return strings.Join(s, ">")
}

func (m *Mesh) RouteStr(r RouteView) string {
	return fmt.Sprintf("%s %s origin=%s via=%s metric=%d path=%s seq=%d", r.Table, r.Key, m.NameOf(r.Origin), m.NameOf(r.NextHop), r.Metric, m.PathStr(r.Path), r.Seq)
}

// Originated describes what node i originates according to its configuration
// (plus dynamic additions recorded by the harness).
type Originated struct {
	CIDR    []string
	Domain  []string
	Forward []string // key=target
}

func (m *Mesh) OriginatedBy(i int) Originated {
	nd := m.Nodes[i]
	var o Originated
	for _, r := range nd.Cfg.Exit.Routes {
		o.CIDR = append(o.CIDR, CanonCIDR(r))
	}
	for _, d := range nd.Cfg.Exit.DomainRoutes {
		o.Domain = append(o.Domain, strings.ToLower(d))
	}
	for _, f := range nd.Cfg.Forward.Endpoints {
		o.Forward = append(o.Forward, f.Key+"="+f.Target)
	}
	return o
}
