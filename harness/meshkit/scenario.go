package meshkit

import (
	"fmt"
	"net"
	"sort"
	"time"

	"github.com/postalsys/muti-metroo/internal/identity"
	"github.com/postalsys/muti-metroo/internal/protocol"
	"github.com/postalsys/muti-metroo/internal/verifrt/simnet"
	"github.com/postalsys/muti-metroo/internal/verifrt/simrt"
)

func CanonCIDR(s string) string {
	_, n, err := net.ParseCIDR(s)
	if err != nil {
		return s
	}
	return n.String()
}

func DrawMesh(minN, maxN int, topoChoices []string) *Mesh {
	n := minN + simrt.Choose(maxN-minN+1, "n")
	topo := topoChoices[simrt.Choose(len(topoChoices), "topo")]
	m := NewMesh(n, topo)
	iv := AdvIntervals[simrt.Choose(len(AdvIntervals), "advint")]
	for _, nd := range m.Nodes {
		nd.Cfg.Routing.AdvertiseInterval = iv
		nd.Cfg.Routing.RouteTTL = 5 * iv
		if nd.Cfg.Routing.RouteTTL < time.Minute {
			nd.Cfg.Routing.RouteTTL = time.Minute
		}
	}
	simrt.Eventf("mesh n=%d topo=%s edges=%v advint=%v", n, topo, m.Edges, iv)
	return m
}

func PlaceRoutes(m *Mesh, atLeastOne bool) {
	any := false
	for j, nd := range m.Nodes {
		last := j == len(m.Nodes)-1
		if !(simrt.Chance(1, 2, "exit") || (atLeastOne && last && !any)) {
			continue
		}
		any = true
		nd.Cfg.Exit.Enabled = true
		nd.Cfg.Exit.Routes = append(nd.Cfg.Exit.Routes, fmt.Sprintf("10.%d.0.0/16", 100+j))
		if simrt.Chance(1, 2, "more-cidr") {
			nd.Cfg.Exit.Routes = append(nd.Cfg.Exit.Routes, fmt.Sprintf("172.%d.7.0/24", 16+j), fmt.Sprintf("fd00:%d::/32", j+1))
		}
		if simrt.Chance(1, 2, "domain") {
			nd.Cfg.Exit.DomainRoutes = append(nd.Cfg.Exit.DomainRoutes, fmt.Sprintf("svc%d.example.com", j), fmt.Sprintf("*.n%d.mesh.test", j))
		}
		if simrt.Chance(1, 3, "fwd") {
			nd.Cfg.Forward.Endpoints = append(nd.Cfg.Forward.Endpoints, struct {
				Key    string `yaml:"key,omitempty"`
				Target string `yaml:"target,omitempty"`
			}{Key: fmt.Sprintf("fwd%d", j), Target: fmt.Sprintf("192.168.%d.5:8000", j)})
		}
	}
}

type AdvObs struct {
	Seq      uint64
	From, To string
	Origin   identity.AgentID
	AdvSeq   uint64
	Routes   []protocol.Route
	Path     []identity.AgentID
	SeenBy   []identity.AgentID
	At       time.Duration
}

func WatchAdverts(m *Mesh) *[]AdvObs {
	var obs []AdvObs
	m.Tap.OnFrame = append(m.Tap.OnFrame, func(ev *FrameEvent) {
		if ev.Type != protocol.FrameRouteAdvertise {
			return
		}
		adv, err := protocol.DecodeRouteAdvertise(ev.Payload)
		if err != nil {
			simrt.Failf("undecodable-advertisement", "route advertisement on the wire does not decode", "%s: %v", ev, err)
		}
		var path []identity.AgentID
		if adv.EncPath != nil && !adv.EncPath.Encrypted {
			path, _ = protocol.DecodePath(adv.EncPath.Data)
		}
		simrt.Eventf("adv %s>%s origin=%s seq=%d routes=%d path=%d seenby=%d", ev.From, ev.To, m.NameOf(adv.OriginAgent), adv.Sequence, len(adv.Routes), len(path), len(adv.SeenBy))
		obs = append(obs, AdvObs{Seq: ev.Seq, From: ev.From, To: ev.To, Origin: adv.OriginAgent, AdvSeq: adv.Sequence, Routes: adv.Routes, Path: path, SeenBy: adv.SeenBy, At: simrt.Elapsed()})
	})
	return &obs
}

func EdgeSet(m *Mesh) map[[2]int]bool {
	es := map[[2]int]bool{}
	for _, e := range m.Edges {
		es[[2]int{e[0], e[1]}] = true
		es[[2]int{e[1], e[0]}] = true
	}
	return es
}

func Settle(m *Mesh) {
	iv := m.Nodes[0].Cfg.Routing.AdvertiseInterval
	simrt.Sleep(2*iv + 10*time.Second)
}

func BootAndConverge(m *Mesh) {
	m.StartAll()
	if !m.WaitConnected(3 * time.Minute) {
		simrt.Failf("mesh-did-not-connect", "configured peers did not connect without faults", "edges=%v", m.Edges)
	}
	Settle(m)
}

func SortedKeys[V any](mm map[string]V) []string {
	ks := make([]string, 0, len(mm))
	for k := range mm {
		ks = append(ks, k)
	}
	sort.Strings(ks)
	return ks
}

func ContainsStr(xs []string, x string) bool {
	for _, y := range xs {
		if y == x {
			return true
		}
	}
	return false
}

var AdvIntervals = []time.Duration{20 * time.Second, 5 * time.Second, 2 * time.Minute, 45 * time.Second}

var AllTopos = []string{"chain", "star", "ring", "diamond", "tree", "random"}

func EchoServer(c *simnet.TCPConn) {
	buf := make([]byte, 4096)
	for {
		n, err := c.Read(buf)
		if n > 0 {
			if _, werr := c.Write(buf[:n]); werr != nil {
				c.Close()
				return
			}
		}
		if err != nil {
			c.Close()
			return
		}
	}
}
