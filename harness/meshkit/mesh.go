package meshkit

import (
	"context"
	"encoding/hex"
	"fmt"
	"net"
	"sort"
	"time"

	"github.com/postalsys/muti-metroo/internal/agent"
	"github.com/postalsys/muti-metroo/internal/config"
	"github.com/postalsys/muti-metroo/internal/identity"
	"github.com/postalsys/muti-metroo/internal/verifrt/simnet"
	"github.com/postalsys/muti-metroo/internal/verifrt/simrt"
)

// Node is one simulated agent.
type Node struct {
	Idx     int
	Name    string
	ID      identity.AgentID
	IDHex   string
	IP      net.IP
	Cfg     *config.Config
	A       *agent.Agent
	Listen  string // mesh listen address ("" = none)
	Running bool
}

// Mesh is the simulated deployment of one run.
type Mesh struct {
	Nodes []*Node
	Edges [][2]int // [dialer, listener]
	Net   *simnet.World
	Tap   *TapSet
	byID  map[identity.AgentID]*Node
	// TunnelExit is scratch space for worlds that send all tunnels to one exit.
	TunnelExit int
}

func nodeID(i int) (identity.AgentID, string) {
	var id identity.AgentID
	for k := range id {
		id[k] = byte(0xa0 + i)
	}
	id[0] = byte(0x10 + i)
	id[15] = byte(i + 1)
	return id, hex.EncodeToString(id[:])
}

func nodeKey(i int) string {
	b := make([]byte, 32)
	for k := range b {
		b[k] = byte(0x40 + i + k)
	}
	b[0] &= 248
	b[31] &= 127
	b[31] |= 64
	return hex.EncodeToString(b)
}

// MeshOpts are the swarm-drawn parameters of a mesh.
type MeshOpts struct {
	N                 int
	Topology          string
	AdvertiseInterval time.Duration
	RouteTTL          time.Duration
	Keepalive         time.Duration
	KeepaliveTimeout  time.Duration
	Transports        []string // per edge, drawn
}

var topoNames = []string{"chain", "star", "ring", "diamond", "tree", "random", "mutual"}

// DrawTopology returns directed edges [dialer, listener] of a connected graph.
func DrawTopology(n int, kind string) [][2]int {
	var e [][2]int
	add := func(a, b int) {
		if a == b {
			return
		}
		for _, x := range e {
			if (x[0] == a && x[1] == b) || (x[0] == b && x[1] == a) {
				return
			}
		}
		if simrt.Chance(1, 2, "edgedir") {
			a, b = b, a
		}
		e = append(e, [2]int{a, b})
	}
	switch kind {
	case "chain":
		for i := 0; i+1 < n; i++ {
			add(i, i+1)
		}
	case "star":
		for i := 1; i < n; i++ {
			add(i, 0)
		}
	case "ring":
		for i := 0; i < n; i++ {
			add(i, (i+1)%n)
		}
	case "diamond":
		// 0 - {1..n-2} - n-1
		if n < 4 {
			return DrawTopology(n, "chain")
		}
		for i := 1; i < n-1; i++ {
			add(0, i)
			add(i, n-1)
		}
	case "tree":
		for i := 1; i < n; i++ {
			add(i, simrt.Choose(i, "parent"))
		}
	case "lollipop3", "lollipop4":
		// a ring 0..k-1 with a tail k, k+1, ... hanging off node 1
		k := 3
		if kind == "lollipop4" {
			k = 4
		}
		if n <= k {
			return DrawTopology(n, "ring")
		}
		for i := 0; i < k; i++ {
			add(i, (i+1)%k)
		}
		add(1, k)
		for i := k; i+1 < n; i++ {
			add(i, i+1)
		}
	default: // random connected: random spanning tree + extra edges
		for i := 1; i < n; i++ {
			add(i, simrt.Choose(i, "parent"))
		}
		extra := simrt.Choose(n, "extra")
		for k := 0; k < extra; k++ {
			add(simrt.Choose(n, "ea"), simrt.Choose(n, "eb"))
		}
	}
	return e
}

func baseConfig(i int) (*config.Config, identity.AgentID, string) {
	id, hx := nodeID(i)
	cfg := config.Default()
	cfg.Agent.ID = hx
	cfg.Agent.DataDir = ""
	cfg.Agent.PrivateKey = nodeKey(i)
	cfg.Agent.LogLevel = "debug"
	cfg.Agent.DisplayName = fmt.Sprintf("n%d", i)
	cfg.UDP.Enabled = false
	cfg.ICMP.Enabled = false
	cfg.HTTP.Enabled = false
	cfg.SOCKS5.Enabled = false
	cfg.Connections.KeepaliveJitter = 0
	return cfg, id, hx
}

// NewMesh draws a mesh (nothing is started yet).
func NewMesh(n int, topo string) *Mesh {
	m := &Mesh{Net: simnet.Reset(), byID: map[identity.AgentID]*Node{}}
	m.Tap = newTapSet(m)
	m.Net.OnLink = m.Tap.onLink
	for i := 0; i < n; i++ {
		cfg, id, hx := baseConfig(i)
		nd := &Node{Idx: i, Name: fmt.Sprintf("n%d", i), ID: id, IDHex: hx, IP: net.IPv4(10, 0, 0, byte(i+1)), Cfg: cfg}
		m.Nodes = append(m.Nodes, nd)
		m.byID[id] = nd
		m.Net.SetNodeIP(nd.Name, nd.IP)
	}
	m.Edges = DrawTopology(n, topo)
	m.wireEdges()
	return m
}

var transportNames = []string{"ws", "quic", "h2"}

// WireEdges (re)derives listener and peer configuration from m.Edges.
func WireEdges(m *Mesh) { m.wireEdges() }

func (m *Mesh) wireEdges() {
	for _, e := range m.Edges {
		d, l := m.Nodes[e[0]], m.Nodes[e[1]]
		tr := transportNames[0]
		if simrt.Chance(1, 6, "transport") {
			tr = transportNames[1+simrt.Choose(2, "trk")]
		}
		addr := fmt.Sprintf("%s:%d", l.IP, 4000+indexOf(transportNames, tr))
		has := false
		for _, lc := range l.Cfg.Listeners {
			if lc.Address == addr && lc.Transport == tr {
				has = true
			}
		}
		if !has {
			lc := config.ListenerConfig{Transport: tr, Address: addr}
			if tr == "ws" {
				lc.PlainText = true
				lc.Path = "/mesh"
			}
			l.Cfg.Listeners = append(l.Cfg.Listeners, lc)
		}
		pc := config.PeerConfig{ID: l.IDHex, Transport: tr, Address: addr}
		if simrt.Chance(1, 5, "peerid-auto") {
			pc.ID = ""
		}
		d.Cfg.Peers = append(d.Cfg.Peers, pc)
	}
}

func indexOf(xs []string, s string) int {
	for i, x := range xs {
		if x == s {
			return i
		}
	}
	return -1
}

// Start creates and starts node i's agent inside its own node-tagged goroutine.
func (m *Mesh) Start(i int) {
	nd := m.Nodes[i]
	var g simrt.Group
	g.Go("boot-"+nd.Name, func() {
		simrt.SetNode(nd.Name)
		a, err := agent.New(nd.Cfg)
		if err != nil {
			panic(fmt.Sprintf("agent.New(%s): %v", nd.Name, err))
		}
		nd.A = a
		if err := a.Start(); err != nil {
			panic(fmt.Sprintf("agent.Start(%s): %v", nd.Name, err))
		}
		nd.Running = true
		simrt.Eventf("node %s started", nd.Name)
	})
	g.Wait()
}

// StartAll starts every node (in index order, or a drawn order).
func (m *Mesh) StartAll() {
	order := make([]int, len(m.Nodes))
	for i := range order {
		order[i] = i
	}
	if simrt.Chance(1, 2, "startorder") {
		for i := len(order) - 1; i > 0; i-- {
			j := simrt.Choose(i+1, "shuffle")
			order[i], order[j] = order[j], order[i]
		}
	}
	for _, i := range order {
		m.Start(i)
	}
}

// Stop stops node i's agent.
func (m *Mesh) Stop(i int) {
	nd := m.Nodes[i]
	if !nd.Running {
		return
	}
	var g simrt.Group
	g.Go("halt-"+nd.Name, func() {
		simrt.SetNode(nd.Name)
		ctx, cancel := context.WithTimeout(context.Background(), 20*time.Second)
		defer cancel()
		nd.A.StopWithContext(ctx)
		nd.Running = false
		simrt.Eventf("node %s stopped", nd.Name)
	})
	g.Wait()
}

func (m *Mesh) StopAll() {
	for i := range m.Nodes {
		m.Stop(i)
	}
}

// On runs f in a goroutine tagged with node i and waits for it.
func (m *Mesh) On(i int, name string, f func()) {
	var g simrt.Group
	g.Go(name, func() {
		simrt.SetNode(m.Nodes[i].Name)
		f()
	})
	g.Wait()
}

// Neighbours returns the undirected adjacency of the configured topology.
func (m *Mesh) Neighbours() map[int][]int {
	adj := map[int][]int{}
	for _, e := range m.Edges {
		adj[e[0]] = append(adj[e[0]], e[1])
		adj[e[1]] = append(adj[e[1]], e[0])
	}
	for k := range adj {
		sort.Ints(adj[k])
	}
	return adj
}

// Dist returns BFS hop counts from src over the configured topology.
func (m *Mesh) Dist(src int) []int {
	adj := m.Neighbours()
	d := make([]int, len(m.Nodes))
	for i := range d {
		d[i] = -1
	}
	d[src] = 0
	q := []int{src}
	for len(q) > 0 {
		x := q[0]
		q = q[1:]
		for _, y := range adj[x] {
			if d[y] < 0 {
				d[y] = d[x] + 1
				q = append(q, y)
			}
		}
	}
	return d
}

// ConnectedAll reports whether every configured edge currently has both agents
// listing each other as peers.
func (m *Mesh) ConnectedAll() bool {
	for _, e := range m.Edges {
		a, b := m.Nodes[e[0]], m.Nodes[e[1]]
		if !HasPeer(a, b.ID) || !HasPeer(b, a.ID) {
			return false
		}
	}
	return true
}

func HasPeer(n *Node, id identity.AgentID) bool {
	if n.A == nil {
		return false
	}
	for _, p := range n.A.GetPeerIDs() {
		if p == id {
			return true
		}
	}
	return false
}

// WaitConnected polls until all edges are up (bounded simulated time).
func (m *Mesh) WaitConnected(limit time.Duration) bool {
	deadline := simrt.Elapsed() + limit
	for simrt.Elapsed() < deadline {
		if m.ConnectedAll() {
			return true
		}
		simrt.Sleep(200 * time.Millisecond)
	}
	return m.ConnectedAll()
}

func (m *Mesh) NodeByID(id identity.AgentID) *Node { return m.byID[id] }

func (m *Mesh) NameOf(id identity.AgentID) string {
	if n := m.byID[id]; n != nil {
		return n.Name
	}
	return "?" + id.ShortString()
}

// NodeByName returns the node called name, or nil.
func (m *Mesh) NodeByName(name string) *Node {
	for _, n := range m.Nodes {
		if n.Name == name {
			return n
		}
	}
	return nil
}

// IndexOf returns the index of the node whose agent id is id, or -1.
func (m *Mesh) IndexOf(id identity.AgentID) int {
	for i, n := range m.Nodes {
		if n.ID == id {
			return i
		}
	}
	return -1
}
