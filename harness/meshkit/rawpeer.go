package meshkit

import (
	"context"
	"fmt"
	"time"

	"github.com/postalsys/muti-metroo/internal/identity"
	"github.com/postalsys/muti-metroo/internal/protocol"
	"github.com/postalsys/muti-metroo/internal/transport"
	"github.com/postalsys/muti-metroo/internal/verifrt/simrt"
	"github.com/postalsys/muti-metroo/internal/verifrt/simtransport"
)

// RawPeer is a harness-controlled peer: it performs a genuine handshake with an
// agent over the simulated transport and can then send arbitrary frames and
// records everything it receives. It answers keepalives so the link stays up.
type RawPeer struct {
	Name     string
	ID       identity.AgentID
	Remote   identity.AgentID
	conn     transport.PeerConn
	stream   transport.Stream
	w        *protocol.FrameWriter
	Received []*protocol.Frame
	q        simrt.WaitQ
	Closed   bool
	nextSID  uint64
}

// RawID returns a deterministic agent id for raw peer k (distinct from node ids).
func RawID(k int) identity.AgentID {
	var id identity.AgentID
	for i := range id {
		id[i] = byte(0xe0 + k)
	}
	id[0] = byte(0xf0 + k)
	return id
}

// AttachRawPeer dials node i's first mesh listener as a new peer with identity id.
func (m *Mesh) AttachRawPeer(i int, k int) (*RawPeer, error) {
	nd := m.Nodes[i]
	if len(nd.Cfg.Listeners) == 0 {
		return nil, fmt.Errorf("node %s has no listener", nd.Name)
	}
	lc := nd.Cfg.Listeners[0]
	var tr *simtransport.Transport
	switch lc.Transport {
	case "quic":
		tr = simtransport.NewQUIC()
	case "h2":
		tr = simtransport.NewH2()
	default:
		tr = simtransport.NewWebSocket()
	}
	rp := &RawPeer{Name: fmt.Sprintf("raw%d", k), ID: RawID(k), nextSID: 1}
	var err error
	m.OnNode(rp.Name, "attach-"+rp.Name, func() {
		ctx, cancel := context.WithTimeout(context.Background(), 20*time.Second)
		defer cancel()
		rp.conn, err = tr.Dial(ctx, lc.Address, transport.DialOptions{})
		if err != nil {
			return
		}
		rp.stream, err = rp.conn.OpenStream(ctx)
		if err != nil {
			return
		}
		rp.w = protocol.NewFrameWriter(rp.stream)
		hello := &protocol.PeerHello{Version: protocol.ProtocolVersion, AgentID: rp.ID, Timestamp: uint64(time.Now().UnixNano()), DisplayName: rp.Name}
		if err = rp.w.Write(&protocol.Frame{Type: protocol.FramePeerHello, StreamID: protocol.ControlStreamID, Payload: hello.Encode()}); err != nil {
			return
		}
		r := protocol.NewFrameReader(rp.stream)
		var f *protocol.Frame
		f, err = r.Read()
		if err != nil {
			return
		}
		if f.Type != protocol.FramePeerHelloAck {
			err = fmt.Errorf("expected hello ack, got 0x%02x", f.Type)
			return
		}
		ack, derr := protocol.DecodePeerHello(f.Payload)
		if derr != nil {
			err = derr
			return
		}
		rp.Remote = ack.AgentID
		simrt.GoNode("rx-"+rp.Name, rp.Name, func() {
			for {
				fr, rerr := r.Read()
				if rerr != nil {
					rp.Closed = true
					rp.q.WakeAll()
					return
				}
				if fr.Type == protocol.FrameKeepalive {
					if ka, e := protocol.DecodeKeepalive(fr.Payload); e == nil {
						rp.w.Write(&protocol.Frame{Type: protocol.FrameKeepaliveAck, StreamID: protocol.ControlStreamID, Payload: (&protocol.Keepalive{Timestamp: ka.Timestamp}).Encode()})
					}
					continue
				}
				rp.Received = append(rp.Received, fr)
				rp.q.WakeAll()
			}
		})
	})
	if err != nil {
		return nil, err
	}
	simrt.Eventf("raw peer %s attached to %s", rp.Name, nd.Name)
	return rp, nil
}

// Send writes one frame to the agent.
func (rp *RawPeer) Send(f *protocol.Frame) error {
	return rp.w.Write(f)
}

// NextStreamID returns an odd (dialer-side) stream id not used before by this raw peer.
func (rp *RawPeer) NextStreamID() uint64 {
	id := rp.nextSID
	rp.nextSID += 2
	return id
}

// WaitFrame waits (simulated time) for a received frame satisfying pred,
// starting the search at index from; returns the frame and its index.
func (rp *RawPeer) WaitFrame(from int, limit time.Duration, pred func(*protocol.Frame) bool) (*protocol.Frame, int) {
	deadline := time.Now().Add(limit)
	for {
		for i := from; i < len(rp.Received); i++ {
			if pred(rp.Received[i]) {
				return rp.Received[i], i
			}
		}
		from = len(rp.Received)
		left := time.Until(deadline)
		if left <= 0 || rp.Closed {
			return nil, -1
		}
		rp.q.ParkTimeout(left)
	}
}

// Close tears the raw peer's connection down.
func (rp *RawPeer) Close() {
	if rp.conn != nil {
		rp.conn.Close()
	}
}

// OnNode runs f in a goroutine tagged with an arbitrary node name and waits for it.
func (m *Mesh) OnNode(node, name string, f func()) {
	var g simrt.Group
	g.Go(name, func() {
		simrt.SetNode(node)
		f()
	})
	g.Wait()
}
