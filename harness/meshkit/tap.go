package meshkit

import (
	"encoding/binary"
	"fmt"

	"github.com/postalsys/muti-metroo/internal/protocol"
	"github.com/postalsys/muti-metroo/internal/verifrt/simnet"
	"github.com/postalsys/muti-metroo/internal/verifrt/simrt"
)

// FrameEvent is one frame observed on a mesh link (at the moment it is written).
type FrameEvent struct {
	Seq      uint64
	Link     *simnet.Link
	Dir      int
	From, To string
	Type     uint8
	Flags    uint8
	StreamID uint64
	Payload  []byte
}

// TapSet parses the byte stream of every mesh link back into frames.
type TapSet struct {
	m          *Mesh
	bufs       map[[2]int][]byte // (link id, dir) -> unparsed bytes
	OnFrame    []func(ev *FrameEvent)
	Frames     int
	MaxPayload int
	ByType     map[uint8]int
}

func newTapSet(m *Mesh) *TapSet {
	return &TapSet{m: m, bufs: map[[2]int][]byte{}, ByType: map[uint8]int{}}
}

func (t *TapSet) onLink(l *simnet.Link) {
	if l.Kind != "peer" {
		return
	}
	l.Tap = t.tap
}

func (t *TapSet) tap(l *simnet.Link, dir int, b []byte) []byte {
	key := [2]int{l.ID, dir}
	buf := append(t.bufs[key], b...)
	var evs []*FrameEvent
	for {
		if len(buf) < protocol.HeaderSize {
			break
		}
		// header: type(1) flags(1) length(4) streamID(8), big endian
		ftype := buf[0]
		flags := buf[1]
		length := binary.BigEndian.Uint32(buf[2:6])
		sid := binary.BigEndian.Uint64(buf[6:14])
		if int(length) > 1<<24 {
			simrt.Failf("malformed-frame-stream", "frame length absurd", "link %d dir %d: length %d", l.ID, dir, length)
		}
		if len(buf) < protocol.HeaderSize+int(length) {
			break
		}
		payload := append([]byte(nil), buf[protocol.HeaderSize:protocol.HeaderSize+int(length)]...)
		buf = buf[protocol.HeaderSize+int(length):]
		from, to := l.DialNode, l.AccNode
		if dir == 1 {
			from, to = to, from
		}
		if simrt.DebugEnabled() {
			simrt.Debugf("frame %s>%s type=0x%02x sid=%d len=%d", from, to, ftype, sid, len(payload))
		}
		evs = append(evs, &FrameEvent{Seq: simrt.Seq(), Link: l, Dir: dir, From: from, To: to, Type: ftype, Flags: flags, StreamID: sid, Payload: payload})
		t.Frames++
		t.ByType[ftype]++
		if len(payload) > t.MaxPayload {
			t.MaxPayload = len(payload)
		}
	}
	// the parse state is stored before any callback runs: a callback may stall
	// the writer for simulated time (a slow write), during which other
	// goroutines write to other links
	t.bufs[key] = append([]byte(nil), buf...)
	for _, ev := range evs {
		for _, f := range t.OnFrame {
			f(ev)
		}
	}
	return b
}

func (ev *FrameEvent) String() string {
	return fmt.Sprintf("%s->%s type=0x%02x sid=%d len=%d", ev.From, ev.To, ev.Type, ev.StreamID, len(ev.Payload))
}
