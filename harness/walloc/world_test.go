// Package walloc is the simulated world that decides C38 (stream identifiers
// are nonzero, unique per connection under concurrency, odd on the dialing side
// and even on the accepting side).
//
// Real code: transport.StreamIDAllocator (both roles) and peer.Connection
// (NextStreamID) built over a fake transport.PeerConn that never does I/O.
// The simulator owns: the callers (2-8 concurrent goroutines per end), the
// schedule (statement-level yields in transport.go and connection.go, plus one
// at every atomic operation).
package walloc

import (
	"context"
	"errors"
	"fmt"
	"net"
	"sort"
	"testing"

	"github.com/postalsys/muti-metroo/internal/identity"
	"github.com/postalsys/muti-metroo/internal/peer"
	"github.com/postalsys/muti-metroo/internal/transport"
	"github.com/postalsys/muti-metroo/internal/verifrt/simrand"
	"github.com/postalsys/muti-metroo/internal/verifrt/simrt"
	"github.com/postalsys/muti-metroo/internal/verifsim/hc"
)

func TestWorld(t *testing.T) {
	hc.Main(t, &hc.World{
		Name:         "W-alloc",
		Run:          run,
		PreemptMeans: []int{0, 1, 2, 5, 20},
		MaxSteps:     2_000_000,
	})
}

func run(prop string) {
	switch prop {
	case "C38":
		runC38()
	default:
		panic("W-alloc does not decide " + prop)
	}
}

// fakeConn is a transport.PeerConn with a role and nothing else: no stream is
// ever opened on it, so peer.Connection can be built without a network.
type fakeConn struct {
	dialer bool
	closed bool
}

type fakeAddr string

func (a fakeAddr) Network() string { return "sim" }
func (a fakeAddr) String() string  { return string(a) }

func (c *fakeConn) OpenStream(ctx context.Context) (transport.Stream, error) {
	return nil, errors.New("walloc: fake connection has no streams")
}
func (c *fakeConn) AcceptStream(ctx context.Context) (transport.Stream, error) {
	return nil, errors.New("walloc: fake connection has no streams")
}
func (c *fakeConn) Close() error                           { c.closed = true; return nil }
func (c *fakeConn) LocalAddr() net.Addr                    { return fakeAddr("local") }
func (c *fakeConn) RemoteAddr() net.Addr                   { return fakeAddr("remote") }
func (c *fakeConn) IsDialer() bool                         { return c.dialer }
func (c *fakeConn) TransportType() transport.TransportType { return transport.TransportQUIC }

// end is one end of one connection.
type end struct {
	conn   int
	dialer bool
	next   func() uint64 // the real allocation call
	closer func()

	ids      []uint64 // history: every identifier this end handed out, in return order
	inflight int
	other    *end // the opposite end of the same connection
}

const (
	roleDialer   = 0
	roleAcceptor = 1
)

func roleName(r int) string {
	if r == roleDialer {
		return "dialer"
	}
	return "acceptor"
}

// extremeDraws are the 8-byte random values a run may force on the allocator's
// starting point: legal outcomes of a uniform source that no sampled run would
// ever see (the sequence must stay nonzero and unique from any of them).
var extremeDraws = [][8]byte{
	{0xff, 0xff, 0xff, 0xff, 0xff, 0xff, 0xff, 0xff},
	{0, 0, 0, 0, 0, 0, 0, 0},
	{0xff, 0xff, 0xff, 0xff, 0xff, 0xff, 0xff, 0xfe},
	{0x7f, 0xff, 0xff, 0xff, 0xff, 0xff, 0xff, 0xff},
	{0x80, 0, 0, 0, 0, 0, 0, 0},
	{0xff, 0xff, 0xff, 0xff, 0xff, 0xff, 0xff, 0xf0},
}

func runC38() {
	simrand.Force = nil
	if k := simrt.Choose(2*len(extremeDraws), "rand-draw"); k < len(extremeDraws) {
		d := extremeDraws[k]
		simrand.Force = func(b []byte) bool {
			if len(b) != 8 {
				return false
			}
			copy(b, d[:])
			return true
		}
		defer func() { simrand.Force = nil }()
		simrt.Probe("extreme_random_start")
		simrt.Eventf("random starting points forced to %x", d[:])
	}
	nConns := 1 + simrt.Choose(2, "conns")
	var ends [][2]*end
	for c := 0; c < nConns; c++ {
		viaPeer := simrt.Choose(2, "via") == 1
		var pair [2]*end
		for r := 0; r < 2; r++ {
			e := &end{conn: c, dialer: r == roleDialer}
			if viaPeer {
				var id identity.AgentID
				id[0], id[1] = byte(c+1), byte(r+1)
				pc := peer.NewConnection(&fakeConn{dialer: e.dialer}, peer.DefaultConnectionConfig(id))
				if pc.IsDialer() != e.dialer {
					simrt.Failf("role-lost", "peer.Connection reports the wrong role", "conn %d role %s", c, roleName(r))
				}
				e.next = pc.NextStreamID
				e.closer = func() { pc.Close() }
				simrt.Probe("via_peer_connection")
			} else {
				a := transport.NewStreamIDAllocator(e.dialer)
				e.next = a.Next
				e.closer = func() {}
				simrt.Probe("via_bare_allocator")
			}
			pair[r] = e
		}
		pair[0].other, pair[1].other = pair[1], pair[0]
		ends = append(ends, pair)
		simrt.Eventf("conn %d via_peer=%v", c, viaPeer)
	}

	var g simrt.Group
	for c := 0; c < nConns; c++ {
		for r := 0; r < 2; r++ {
			e := ends[c][r]
			callers := 2 + simrt.Choose(7, "callers") // 2..8 per end
			per := 1 + simrt.Choose(12, "allocs")
			simrt.Eventf("conn %d %s callers=%d per=%d", c, roleName(r), callers, per)
			for k := 0; k < callers; k++ {
				c, r, k := c, r, k
				g.Go(fmt.Sprintf("alloc.c%d.%s.%d", c, roleName(r), k), func() {
					for i := 0; i < per; i++ {
						if e.inflight > 0 {
							simrt.Probe("concurrent_alloc")
						}
						e.inflight++
						id := e.next()
						e.inflight--
						simrt.Eventf("alloc conn=%d %s caller=%d id=%d", c, roleName(r), k, id)
						checkOne(e, id)
						checkFresh(e, id)
						e.ids = append(e.ids, id)
						if simrt.Chance(1, 4, "pause") {
							simrt.Yield()
						}
					}
				})
			}
		}
	}
	// a connection may be torn down while allocations are still being made
	// (GetPeer, then a disconnect, then NextStreamID): the identifiers handed
	// out during and after the teardown are subject to the same clauses
	for c := 0; c < nConns; c++ {
		for r := 0; r < 2; r++ {
			if simrt.Chance(1, 4, "close-while-allocating") {
				e := ends[c][r]
				after := simrt.Choose(30, "close-after-yields")
				g.Go(fmt.Sprintf("close.c%d.%s", c, roleName(r)), func() {
					for i := 0; i < after; i++ {
						simrt.Yield()
					}
					simrt.Eventf("close conn=%d %s", e.conn, roleName(r))
					simrt.Probe("closed_while_allocating")
					e.closer()
				})
			}
		}
	}
	g.Wait()
	for c := 0; c < nConns; c++ {
		checkHistory(c, ends[c][roleDialer], ends[c][roleAcceptor])
		ends[c][0].closer()
		ends[c][1].closer()
	}
}

// checkOne applies the per-identifier clauses as soon as the value is known, so
// that the minimiser gets the shortest history.
func checkOne(e *end, id uint64) {
	role := "acceptor"
	if e.dialer {
		role = "dialer"
	}
	if id == 0 {
		simrt.Failf("zero-id", "identifier 0 allocated ("+role+")", "conn %d %s allocated identifier 0", e.conn, role)
	}
	if e.dialer && id%2 == 0 {
		simrt.Failf("wrong-parity", "even identifier on dialing side", "conn %d dialer allocated %d", e.conn, id)
	}
	if !e.dialer && id%2 == 1 {
		simrt.Failf("wrong-parity", "odd identifier on accepting side", "conn %d acceptor allocated %d", e.conn, id)
	}
}

// checkFresh reports, as soon as it happens, an identifier that this end or the
// opposite end has already handed out (same clauses as checkHistory; earlier
// detection gives shorter replays).
func checkFresh(e *end, id uint64) {
	role := "acceptor"
	if e.dialer {
		role = "dialer"
	}
	for _, old := range e.ids {
		if old == id {
			simrt.Failf("duplicate-id", "identifier allocated twice on one end ("+role+")", "conn %d %s allocated %d more than once (history %v)", e.conn, role, id, e.ids)
		}
	}
	for _, old := range e.other.ids {
		if old == id {
			simrt.Failf("ends-collide", "both ends of a connection allocated the same identifier", "conn %d: %d allocated by both ends", e.conn, id)
		}
	}
}

// checkHistory is the oracle over the full recorded history of one connection:
// non-zero, pairwise distinct per end, odd on the dialer, even on the acceptor,
// and the two ends' sets disjoint. Nothing else (no ordering, no density).
func checkHistory(c int, d, a *end) {
	seen := map[uint64]string{}
	for _, e := range []*end{d, a} {
		role := "acceptor"
		if e.dialer {
			role = "dialer"
		}
		ids := append([]uint64(nil), e.ids...)
		sort.Slice(ids, func(i, j int) bool { return ids[i] < ids[j] })
		for i, id := range ids {
			checkOne(e, id)
			if i > 0 && ids[i-1] == id {
				simrt.Failf("duplicate-id", "identifier allocated twice on one end ("+role+")", "conn %d %s allocated %d more than once (history %v)", c, role, id, e.ids)
			}
			if other, dup := seen[id]; dup && other != role {
				simrt.Failf("ends-collide", "both ends of a connection allocated the same identifier", "conn %d: %d allocated by %s and by %s", c, id, other, role)
			}
			seen[id] = role
		}
	}
	simrt.Eventf("conn %d ok dialer=%d acceptor=%d", c, len(d.ids), len(a.ids))
}
