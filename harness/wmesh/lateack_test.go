package wmesh

import (
	"fmt"
	"time"

	"github.com/postalsys/muti-metroo/internal/verifrt/simnet"
	"github.com/postalsys/muti-metroo/internal/verifrt/simrt"
	. "github.com/postalsys/muti-metroo/internal/verifsim/meshkit"
)

// An open acknowledgement that outlives its relay entry (the history behind fix
// e56c6b6, found by the thorough tier of C16). Chain 0 - 1 - .. - E. Agent 0
// opens tunnels to the exit E through agent 1; agent 1 opens tunnels of its own
// to the same exit, over the same next connection. Every destination accepts
// late, agent 1's later than agent 0's, so all opens are pending for a while.
// Both agents have made the same number of opens before, so their pending opens
// carry the same request identifiers (per-agent counters). The link 0 - 1 is
// reset while the opens are pending: agent 1 drops the relay entries of agent
// 0's tunnels, and their acknowledgements, when the exit finally sends them,
// arrive at agent 1 with no relay entry to follow. They belong to nobody at
// agent 1. Agent 1's own tunnels must open with the key their exit holds (C03)
// and carry exactly their own bytes (C16).
func runLateAckAfterRelayLoss(prop string) {
	n := 3 + simrt.Choose(2, "n")
	m := NewMesh(n, "chain")
	m.TunnelExit = n - 1
	for j, nd := range m.Nodes {
		nd.Cfg.Routing.AdvertiseInterval = 20 * time.Second
		nd.Cfg.Routing.RouteTTL = 10 * time.Minute
		if j == 0 {
			continue
		}
		nd.Cfg.Exit.Enabled = true
		nd.Cfg.Exit.Routes = []string{fmt.Sprintf("10.%d.0.0/16", 100+j)}
	}
	lat := []time.Duration{0, 2 * time.Millisecond, 20 * time.Millisecond}[simrt.Choose(3, "latency")]
	m.Net.DefaultLatency = func(l *simnet.Link) [2]time.Duration { return [2]time.Duration{lat, lat} }
	simrt.Eventf("late ack mesh n=%d edges=%v latency=%v", n, m.Edges, lat)
	ts := NewTunnelSet(m)
	ts.connectDelays = map[string]time.Duration{}
	m.Net.ConnectDelay = func(node, address string) time.Duration { return ts.connectDelays[address] }
	mk := func(ingress int, delay time.Duration) *Tunnel {
		t := &Tunnel{Kind: "tcp", Ingress: ingress, Exit: n - 1, Up: 1 + simrt.Choose(30000, "up"), Down: 1 + simrt.Choose(30000, "down"),
			ClientClose: clientCloses[simrt.Choose(len(clientCloses), "cclose")], ServerClose: "after-eof"}
		t.WriteSizes = drawSizes(t.Up)
		ts.Add(t)
		t.ConnectDelay = delay
		ts.connectDelays[t.Addr] = delay
		return t
	}
	// warm-up: the same number of completed opens at both agents moves both request counters along together
	warm := simrt.Choose(3, "warm-up")
	var warmups []*Tunnel
	for i := 0; i < warm; i++ {
		warmups = append(warmups, mk(0, 0), mk(1, 0))
	}
	k := 1 + simrt.Choose(2, "pairs")
	base := time.Duration(600+simrt.Choose(1200, "accept-after-ms")) * time.Millisecond
	var lost, own []*Tunnel
	for i := 0; i < k; i++ {
		lost = append(lost, mk(0, base+time.Duration(simrt.Choose(200, "jitter-ms"))*time.Millisecond))
		own = append(own, mk(1, base+time.Duration(300+simrt.Choose(1500, "own-later-ms"))*time.Millisecond))
	}
	if prop == "C03" {
		ts.OnOpen = ts.checkKey
	}
	BootAndConverge(m)
	for _, t := range warmups {
		ts.Start(t)
	}
	for w := 0; w < 600; w++ {
		done := true
		for _, t := range warmups {
			done = done && t.clientDone
		}
		if done {
			break
		}
		simrt.Sleep(100 * time.Millisecond)
	}
	for i := range lost {
		ts.Start(lost[i])
		ts.Start(own[i])
	}
	simrt.Sleep(time.Duration(50+simrt.Choose(int(base/time.Millisecond)-100, "reset-after-ms")) * time.Millisecond)
	for _, l := range m.Net.Links() {
		a, b := m.Nodes[0].Name, m.Nodes[1].Name
		if l.Kind == "peer" && !l.Dead() && ((l.DialNode == a && l.AccNode == b) || (l.DialNode == b && l.AccNode == a)) {
			for _, t := range lost {
				if !t.Opened {
					simrt.Probe("c16_link_reset_while_open_pending")
				}
				t.faulted = true
			}
			for _, t := range warmups {
				if t.Ingress == 0 && !(t.clientDone && t.serverDone) {
					t.faulted = true // its tail may still be on the way
				}
			}
			simrt.Eventf("fault: reset mesh link %d %s-%s", l.ID, l.DialNode, l.AccNode)
			simrt.Probe("fault_mesh_link_reset")
			l.Reset()
		}
	}
	if !ts.Wait(6 * time.Minute) {
		simrt.Probe("tunnel_wait_timed_out")
	}
	for _, t := range own {
		if t.Opened {
			simrt.Probe("c16_own_tunnel_opened_after_foreign_late_ack")
		}
	}
	ts.CheckComplete()
	m.StopAll()
}
