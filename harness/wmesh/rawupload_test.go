package wmesh

import (
	"bytes"
	"fmt"
	"os"
	"path/filepath"
	"time"

	"github.com/postalsys/muti-metroo/internal/crypto"
	"github.com/postalsys/muti-metroo/internal/filetransfer"
	"github.com/postalsys/muti-metroo/internal/protocol"
	"github.com/postalsys/muti-metroo/internal/verifrt/simrt"
	. "github.com/postalsys/muti-metroo/internal/verifsim/meshkit"
)

// C18, first clause, at the consumer of upload streams (internal/agent): "data
// that arrives before or together with the remote end-of-write signal is
// delivered to the reader before end-of-stream". The built-in uploader ends
// every transfer with an empty FIN frame; any other conforming sender may put
// the flag on its last chunk. The harness is such a sender: a raw peer that
// speaks the upload protocol itself (STREAM_OPEN file:upload with a key of its
// own, the encrypted metadata frame, encrypted chunks of drawn sizes) and ends
// with a drawn final frame: data together with FIN_WRITE, or a sealed empty
// FIN frame (what the built-in uploader sends). When the
// agent confirms the upload, the file it wrote must hold exactly the bytes that
// were sent, the last chunk included.
func runRawUpload() {
	n := 2 + simrt.Choose(2, "n")
	m := NewMesh(n, "chain")
	for _, nd := range m.Nodes {
		nd.Cfg.Routing.AdvertiseInterval = 20 * time.Second
		nd.Cfg.Routing.RouteTTL = 10 * time.Minute
	}
	host := -1
	for j := len(m.Nodes) - 1; j >= 0; j-- {
		if len(m.Nodes[j].Cfg.Listeners) > 0 {
			host = j
			break
		}
	}
	if host < 0 {
		return
	}
	ts := NewTunnelSet(m)
	defer ts.CleanupFiles()
	dir := ts.fileDir()
	tg := m.Nodes[host]
	tg.Cfg.FileTransfer.Enabled = true
	tg.Cfg.FileTransfer.AllowedPaths = []string{dir}
	BootAndConverge(m)
	rp, err := m.AttachRawPeer(host, 7)
	if err != nil {
		simrt.Failf("harness", "raw peer attach failed", "%v", err)
	}
	uploads := 1 + simrt.Choose(3, "uploads")
	for q := 0; q < uploads; q++ {
		total := []int{0, 1, 100, 16000, 16285, 16286, 40000}[simrt.Choose(7, "upsize")]
		if simrt.Chance(1, 2, "upany") {
			total = simrt.Choose(60000, "upanysize")
		}
		content := codeBytes(900+q, 0, 0, total)
		dst := filepath.Join(dir, fmt.Sprintf("raw-upload-%d", q))
		sid := uint64(77001 + 2*q)
		reqID := uint64(5200 + q)
		priv, pub, _ := crypto.GenerateEphemeralKeypair()
		name := protocol.FileTransferUpload
		so := &protocol.StreamOpen{RequestID: reqID, AddressType: protocol.AddrTypeDomain, Address: append([]byte{byte(len(name))}, name...), EphemeralPubKey: pub}
		from := len(rp.Received)
		rp.Send(&protocol.Frame{Type: protocol.FrameStreamOpen, StreamID: sid, Payload: so.Encode()})
		f, _ := rp.WaitFrame(from, 20*time.Second, func(f *protocol.Frame) bool {
			return f.StreamID == sid && (f.Type == protocol.FrameStreamOpenAck || f.Type == protocol.FrameStreamOpenErr)
		})
		if f == nil || f.Type != protocol.FrameStreamOpenAck {
			simrt.Failf("harness", "upload open was not acknowledged", "upload %d: %v", q, f)
		}
		ack, derr := protocol.DecodeStreamOpenAck(f.Payload)
		if derr != nil {
			simrt.Failf("harness", "upload open ack does not decode", "%v", derr)
		}
		shared, serr := crypto.ComputeECDH(priv, ack.EphemeralPubKey)
		if serr != nil {
			simrt.Failf("harness", "ECDH failed", "%v", serr)
		}
		key := crypto.DeriveSessionKey(shared, reqID, pub, ack.EphemeralPubKey, true)
		seal := func(b []byte) []byte {
			out, e := key.Encrypt(b)
			if e != nil {
				panic(e)
			}
			return out
		}
		size := int64(total)
		if simrt.Chance(1, 2, "size-unknown") {
			size = -1
		}
		meta, merr := filetransfer.EncodeMetadata(&filetransfer.TransferMetadata{Path: dst, Mode: 0o644, Size: size})
		if merr != nil {
			panic(merr)
		}
		rp.Send(&protocol.Frame{Type: protocol.FrameStreamData, StreamID: sid, Payload: seal(meta)})
		// chunks
		maxChunk := protocol.MaxPayloadSize - 100 - crypto.EncryptionOverhead
		var chunks [][]byte
		for off := 0; off < total; {
			c := 1 + simrt.Choose(maxChunk, "chunk")
			if simrt.Chance(1, 3, "chunk-full") {
				c = maxChunk
			}
			if off+c > total {
				c = total - off
			}
			chunks = append(chunks, content[off:off+c])
			off += c
		}
		ending := simrt.Choose(2, "ending")
		if len(chunks) == 0 && ending == 0 {
			ending = 1
		}
		for i, c := range chunks {
			fl := uint8(0)
			if ending == 0 && i == len(chunks)-1 {
				fl = protocol.FlagFinWrite
				simrt.Probe("c18_upload_fin_with_data")
			}
			rp.Send(&protocol.Frame{Type: protocol.FrameStreamData, Flags: fl, StreamID: sid, Payload: seal(c)})
			if simrt.Chance(1, 4, "chunk-gap") {
				simrt.Sleep(time.Duration(1+simrt.Choose(30, "chunk-gap-ms")) * time.Millisecond)
			}
		}
		switch ending {
		case 1:
			rp.Send(&protocol.Frame{Type: protocol.FrameStreamData, Flags: protocol.FlagFinWrite, StreamID: sid, Payload: seal(nil)})
			simrt.Probe("c18_upload_sealed_empty_fin")
		}
		done, _ := rp.WaitFrame(from, 60*time.Second, func(f *protocol.Frame) bool {
			return f.StreamID == sid && (f.Type == protocol.FrameStreamClose || f.Type == protocol.FrameStreamOpenErr || f.Type == protocol.FrameStreamReset)
		})
		state := fmt.Sprintf("upload %d of %d bytes in %d chunks, ending=%d (0: FIN on the last chunk, 1: separate sealed empty FIN frame)", q, total, len(chunks), ending)
		if done == nil {
			simrt.Failf("upload-not-confirmed", "an upload that was sent completely was never confirmed", "%s", state)
		}
		if done.Type != protocol.FrameStreamClose {
			msg := ""
			if e, derr := protocol.DecodeStreamOpenErr(done.Payload); derr == nil {
				msg = e.Message
			}
			simrt.Failf("upload-refused", "an upload that was sent completely and correctly was refused", "%s: frame 0x%02x %q", state, done.Type, ts.scrub(msg))
		}
		got, rerr := os.ReadFile(dst)
		if rerr != nil {
			simrt.Failf("fin-data-lost", "bytes that arrived before or together with the end-of-write signal did not reach the reader", "%s: confirmed, but the file cannot be read: %s", state, ts.scrub(rerr.Error()))
		}
		if !bytes.Equal(got, content) {
			simrt.Failf("fin-data-lost", "bytes that arrived before or together with the end-of-write signal did not reach the reader", "%s: confirmed, the file holds %d bytes (common prefix %d)", state, len(got), commonPrefix(got, content))
		}
		simrt.Probe("c18_raw_upload_complete")
	}
	rp.Close()
	m.StopAll()
}

func commonPrefix(a, b []byte) int {
	n := 0
	for n < len(a) && n < len(b) && a[n] == b[n] {
		n++
	}
	return n
}
