package wmesh

import (
	"fmt"
	"net"
	"time"

	"github.com/postalsys/muti-metroo/internal/verifrt/simnet"
	"github.com/postalsys/muti-metroo/internal/verifrt/simrt"
	. "github.com/postalsys/muti-metroo/internal/verifsim/meshkit"
)

// Tunnels opened over a connection that has just replaced a lost one (C16: no
// frame, and no clean-up, of the tunnels that died with the old connection may
// reach the tunnels of the new one). The agents reconnect fast here (a drawn
// initial delay of 1 to 100 ms instead of the default second: a tuning knob the
// configuration offers), so that the tear-down of the old connection and the
// life of its successor can come close to each other. A mesh link on the path is
// reset while a first batch of tunnels is running; as soon as both ends list
// each other as peers again and the ingress has re-learned its route to the
// exit, a second batch is opened. No fault follows: the second batch must
// complete, byte-exact.
func runReopenAfterReconnect() {
	n := 2 + simrt.Choose(3, "n")
	m := NewMesh(n, "chain")
	m.TunnelExit = n - 1
	delay := []time.Duration{time.Millisecond, 10 * time.Millisecond, 100 * time.Millisecond}[simrt.Choose(3, "reconnect-delay")]
	for j, nd := range m.Nodes {
		nd.Cfg.Routing.AdvertiseInterval = 20 * time.Second
		nd.Cfg.Routing.RouteTTL = 10 * time.Minute
		nd.Cfg.Connections.Reconnect.InitialDelay = delay
		if j == 0 {
			continue
		}
		nd.Cfg.Exit.Enabled = true
		nd.Cfg.Exit.Routes = []string{fmt.Sprintf("10.%d.0.0/16", 100+j)}
	}
	lat := []time.Duration{0, 0, 2 * time.Millisecond, 20 * time.Millisecond}[simrt.Choose(4, "latency")]
	m.Net.DefaultLatency = func(l *simnet.Link) [2]time.Duration { return [2]time.Duration{lat, lat} }
	simrt.Eventf("reopen mesh n=%d edges=%v reconnect-delay=%v latency=%v", n, m.Edges, delay, lat)
	ts := NewTunnelSet(m)
	mk := func() *Tunnel {
		t := &Tunnel{Kind: "tcp", Ingress: 0, Exit: n - 1, Up: 1 + simrt.Choose(40000, "up"), Down: 1 + simrt.Choose(40000, "down"),
			ClientClose: clientCloses[simrt.Choose(len(clientCloses), "cclose")], ServerClose: "after-eof"}
		t.WriteSizes = drawSizes(t.Up)
		ts.Add(t)
		return t
	}
	k1, k2 := 1+simrt.Choose(2, "batch1"), 1+simrt.Choose(3, "batch2")
	var first, second []*Tunnel
	for i := 0; i < k1; i++ {
		t := mk()
		if simrt.Chance(1, 2, "slowstart") {
			t.SlowStart = time.Duration(simrt.Choose(2000, "slowstartms")) * time.Millisecond // still open when the link goes
		}
		first = append(first, t)
	}
	for i := 0; i < k2; i++ {
		second = append(second, mk())
	}
	BootAndConverge(m)
	for _, t := range first {
		ts.Start(t)
	}
	simrt.Sleep(time.Duration(simrt.Choose(600, "fault-after-ms")) * time.Millisecond)
	var cands []*simnet.Link
	for _, l := range m.Net.Links() {
		if l.Kind == "peer" && !l.Dead() {
			cands = append(cands, l)
		}
	}
	if len(cands) == 0 {
		simrt.Failf("harness", "no live mesh link", "")
	}
	victim := cands[simrt.Choose(len(cands), "link")]
	for _, t := range first {
		if !t.clientDone {
			simrt.Probe("fault_hit_live_tunnel")
		}
		t.faulted = true
	}
	simrt.Eventf("fault: reset mesh link %d %s-%s", victim.ID, victim.DialNode, victim.AccNode)
	simrt.Probe("fault_mesh_link_reset")
	victim.Reset()
	// wait for the successor: both ends list each other and the ingress knows the way again
	exitIP := net.ParseIP(fmt.Sprintf("10.%d.3.4", 100+n-1))
	ready := func() bool {
		if !m.ConnectedAll() {
			return false
		}
		r := m.Nodes[0].A.VerifRouteManager().Lookup(exitIP)
		return r != nil && r.OriginAgent == m.Nodes[n-1].ID
	}
	// Each end has to notice the loss of the old connection first: until the
	// accepting side has, it still lists the peer (through the dead connection)
	// and turns the dialling side's new connections away as duplicates.
	va, vb := m.NodeByName(victim.DialNode), m.NodeByName(victim.AccNode)
	downA, downB := false, false
	stable, it := 0, 0
	var stableSince time.Duration
	deadline := simrt.Elapsed() + 2*time.Minute
	for {
		downA = downA || !HasPeer(va, vb.ID)
		downB = downB || !HasPeer(vb, va.ID)
		if ready() {
			if stable++; stable == 1 {
				stableSince = simrt.Elapsed()
			}
		} else {
			stable = 0
		}
		if downA && downB && stable > 0 {
			break
		}
		if stable > 0 && simrt.Elapsed()-stableSince > 5*time.Second {
			// up for five seconds on end: a loss and return that fell between two looks
			simrt.Probe("c16_reopen_reconnect_not_observed")
			break
		}
		if simrt.Elapsed() > deadline {
			simrt.Failf("mesh-did-not-reconnect", "a lost mesh link was not re-established", "link %s-%s, 2 minutes after the reset (loss noticed by %s: %v, by %s: %v; it=%d stable=%d)", victim.DialNode, victim.AccNode, va.Name, downA, vb.Name, downB, it, stable)
		}
		if it++; it%25000 == 0 {
			r := m.Nodes[0].A.VerifRouteManager().Lookup(exitIP)
			simrt.Debugf("reopen wait: downA=%v downB=%v connectedAll=%v route=%v stable=%d", downA, downB, m.ConnectedAll(), r, stable)
		}
		simrt.Sleep(200 * time.Microsecond)
	}
	simrt.Probe("c16_reopened_after_reconnect")
	if simrt.Chance(1, 2, "reopen-gap") {
		simrt.Sleep(time.Duration(simrt.Choose(30, "reopen-gap-ms")) * time.Millisecond)
	}
	for _, t := range second {
		ts.Start(t)
		if simrt.Chance(1, 2, "stagger") {
			simrt.Sleep(time.Duration(simrt.Choose(50, "stagger-ms")) * time.Millisecond)
		}
	}
	if !ts.Wait(5 * time.Minute) {
		simrt.Probe("tunnel_wait_timed_out")
	}
	ts.CheckComplete()
	m.StopAll()
}
