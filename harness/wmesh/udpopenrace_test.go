package wmesh

import (
	"fmt"
	"time"

	"github.com/postalsys/muti-metroo/internal/verifrt/simnet"
	"github.com/postalsys/muti-metroo/internal/verifrt/simrt"
	. "github.com/postalsys/muti-metroo/internal/verifsim/meshkit"
)

// A UDP association whose open is still unanswered when the transit loses its
// link to the exit (C04: whatever becomes of the open, no datagram may leave the
// ingress unsealed). Chain 0 - 1 - 2 with slow links; the client's first
// datagram triggers the UDP_OPEN; the link 1 - 2 is reset a drawn moment later,
// while the open or its acknowledgement is on its way: the transit's clean-up
// sends UDP_CLOSE upstream for an association the ingress has not seen opened.
// The wire monitor looks at every UDP_DATAGRAM frame on every link.
func runUDPOpenRacesExitLoss() {
	m := NewMesh(3, "chain")
	m.TunnelExit = 2
	for j, nd := range m.Nodes {
		nd.Cfg.Routing.AdvertiseInterval = 20 * time.Second
		nd.Cfg.Routing.RouteTTL = 10 * time.Minute
		nd.Cfg.UDP.IdleTimeout = 60 * time.Second
		if j == 0 {
			continue
		}
		nd.Cfg.Exit.Enabled = true
		nd.Cfg.Exit.Routes = []string{fmt.Sprintf("10.%d.0.0/16", 100+j)}
		if j == 2 {
			nd.Cfg.Exit.Routes = append(nd.Cfg.Exit.Routes, "0.0.0.0/0")
		}
	}
	lat := []time.Duration{5 * time.Millisecond, 20 * time.Millisecond, 120 * time.Millisecond}[simrt.Choose(3, "latency")]
	m.Net.DefaultLatency = func(l *simnet.Link) [2]time.Duration { return [2]time.Duration{lat, lat} }
	ts := NewTunnelSet(m)
	m.Tap.OnFrame = append(m.Tap.OnFrame, ts.inspectData)
	k := 1 + simrt.Choose(3, "associations")
	for i := 0; i < k; i++ {
		ts.Add(&Tunnel{Kind: "udp", Ingress: 0, Exit: 2, Up: 2 + simrt.Choose(10, "udpcount")})
	}
	simrt.Eventf("udp open race mesh edges=%v latency=%v associations=%d", m.Edges, lat, k)
	BootAndConverge(m)
	for _, t := range ts.T {
		t.faulted = true
		ts.Start(t)
	}
	// anywhere between the first datagram and the acknowledgement's return
	simrt.Sleep(time.Duration(simrt.Choose(int(5*lat/time.Millisecond)+1, "reset-after-ms")) * time.Millisecond)
	a, b := m.Nodes[1].Name, m.Nodes[2].Name
	for _, l := range m.Net.Links() {
		if l.Kind == "peer" && !l.Dead() && ((l.DialNode == a && l.AccNode == b) || (l.DialNode == b && l.AccNode == a)) {
			simrt.Eventf("fault: reset mesh link %d %s-%s", l.ID, l.DialNode, l.AccNode)
			simrt.Probe("c04_exit_link_reset_during_udp_open")
			l.Reset()
		}
	}
	ts.Wait(5 * time.Minute)
	m.StopAll()
}
