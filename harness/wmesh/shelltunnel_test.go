package wmesh

import (
	"context"
	"encoding/binary"
	"fmt"
	"strconv"
	"time"

	"golang.org/x/crypto/bcrypt"

	"github.com/postalsys/muti-metroo/internal/protocol"
	"github.com/postalsys/muti-metroo/internal/shell"
	"github.com/postalsys/muti-metroo/internal/verifrt/simexec"
	"github.com/postalsys/muti-metroo/internal/verifrt/simrt"
	. "github.com/postalsys/muti-metroo/internal/verifsim/meshkit"
)

// Remote shell tunnels (streaming mode, no PTY): the ingress side is the agent's
// own client API (agent.OpenShellStream and the channels of the
// health.ShellSession it returns, exactly what the HTTP/WebSocket front end
// uses); STREAM_OPEN "shell:stream" / STREAM_DATA / STREAM_CLOSE relaying
// through the mesh; the real shell.Handler and shell.Executor at the exit. Only
// the child process is simulated: os/exec of internal/shell is redirected to
// rt/simexec's fake process layer, whose programs are registered below.
//
// Byte codes: what the client writes to stdin is codeBytes(t, 0, ...); what a
// generating process writes to stdout is codeBytes(t, 1, ...), to stderr
// codeBytes(t+stderrCodeBase, 1, ...) (a third code that no other tunnel uses).
//
// Programs (argv[1] is always the tunnel id):
//   simcat  t n        copies stdin to stdout until n bytes were copied (or EOF), exit 0
//   simgen  t o e c    writes o coded bytes to stdout and e to stderr, in drawn chunks, exit c
//   simsink t n c      reads n bytes of stdin (or to EOF), checks the code, prints the count, exit c
// (The shell protocol has no message that closes the remote stdin, so the
// byte count stands in for end-of-file.)

const stderrCodeBase = 4096

const shellPassword = "verif-shell-password"

// cost 4: the cheapest bcrypt accepts
var shellPasswordHash = func() string {
	h, err := bcrypt.GenerateFromPassword([]byte(shellPassword), 4)
	if err != nil {
		panic(err)
	}
	return string(h)
}()

var shellProgs = []string{"simcat", "simgen", "simsink"}

// whitelisted everywhere, registered nowhere: starting it fails like a command that is not installed
const shellMissingProg = "simmissing"

var shellExitCodes = []int{0, 1, 3, 255}

// write / output totals, biased to the frame-size boundary
var shellEdgeTotals = []int{0, 1, 16355, 16356, 16357, 16383, 16384, 16385, 32712, 65536}

func drawShellTotal(prop string) int {
	switch simrt.Choose(5, "shtotal") {
	case 0:
		return 1 + simrt.Choose(2000, "shsmall")
	case 1:
		return shellEdgeTotals[simrt.Choose(len(shellEdgeTotals), "shedge")]
	case 2:
		return simrt.Choose(70000, "shmid")
	case 3:
		return simrt.Choose(200000, "shbig")
	default:
		if prop == "C07" {
			return simrt.Choose(1<<20+1, "shhuge")
		}
		return 0
	}
}

// drawShellTunnel draws one shell tunnel (ingress node 0, the run's exit).
func drawShellTunnel(m *Mesh, prop string) *Tunnel {
	t := &Tunnel{Kind: "shell", Ingress: 0, Exit: m.TunnelExit}
	t.Prog = shellProgs[simrt.Choose(len(shellProgs), "shprog")]
	t.ClientClose, t.ServerClose = "close-after-read", "after-eof"
	if prop == "C17" && simrt.Chance(1, 5, "shmissing") {
		// a command that passes every admission check (enabled, password,
		// whitelist, arguments, free session slot) and then cannot be started:
		// it is not installed on that agent. The session fails; nothing of it
		// may remain.
		t.Prog = shellMissingProg
		t.faulted = true // the session cannot succeed; completeness is not demanded of it
		simrt.Probe("shell_command_not_installed")
		return t
	}
	switch t.Prog {
	case "simcat":
		t.Up = drawShellTotal(prop)
		t.Down = t.Up
	case "simgen":
		t.Down = drawShellTotal(prop)
		if simrt.Chance(1, 2, "shstderr") {
			t.ErrBytes = drawShellTotal(prop)
		}
		t.WantExit = shellExitCodes[simrt.Choose(len(shellExitCodes), "shexit")]
	case "simsink":
		t.Up = drawShellTotal(prop)
		t.Down = len(strconv.Itoa(t.Up))
		t.WantExit = shellExitCodes[simrt.Choose(len(shellExitCodes), "shexit")]
	}
	t.WriteSizes = drawSizes(t.Up)
	if (prop == "C17" || prop == "C16") && simrt.Chance(1, 5, "shabandon") {
		// the client walks away while the command is still running (it never
		// sends the last byte the command waits for / stops reading its output)
		t.Abandon = true
		t.faulted = true // completeness is not demanded of this session
		t.AbandonAfter = time.Duration(simrt.Choose(2000, "shabandonms")) * time.Millisecond
		simrt.Probe("shell_client_abandons_session")
	}
	return t
}

func (ts *TunnelSet) addShell(t *Tunnel) {
	t.Addr = protocol.ShellStream
	t.Dial = fmt.Sprintf("%s %d", t.Prog, t.ID)
	ex := ts.m.Nodes[t.Exit]
	if !ex.Cfg.Shell.Enabled {
		ex.Cfg.Shell.Enabled = true
		switch simrt.Choose(3, "shwhitelist") {
		case 0:
			ex.Cfg.Shell.Whitelist = append([]string{shellMissingProg}, shellProgs...)
		case 1:
			ex.Cfg.Shell.Whitelist = []string{"*"}
		default:
			ex.Cfg.Shell.Whitelist = []string{"whoami", "simsink", "simgen", "ls", "simcat", shellMissingProg}
		}
		if simrt.Chance(1, 3, "shpassword") {
			ex.Cfg.Shell.PasswordHash = shellPasswordHash
		}
		simrt.Eventf("shell enabled at %s whitelist=%v password=%v", ex.Name, ex.Cfg.Shell.Whitelist, ex.Cfg.Shell.PasswordHash != "")
	}
	ts.registerShellPrograms()
	ts.watchOpens()
	// markers for the plaintext search: stdin code, stdout code, stderr code
	mark := func(id, d, n int) {
		for blk := 0; blk*64 < n; blk++ {
			b := codeBlock(id, d, uint64(blk))
			ts.markers[binary.LittleEndian.Uint64(b[:8])] = t.ID
		}
	}
	mark(t.ID, 0, t.Up)
	if t.Prog == "simgen" {
		mark(t.ID, 1, t.Down)
		mark(t.ID+stderrCodeBase, 1, t.ErrBytes)
	}
	simrt.Probe("shell_tunnel")
	simrt.Probe("shell_tunnel_" + t.Prog)
}

// shellTunnelOf maps a fake process to its tunnel (argv[1]).
func (ts *TunnelSet) shellTunnelOf(p *simexec.Proc) *Tunnel {
	if len(p.Args) < 2 {
		simrt.Failf("shell-process-arguments-wrong", "the process was started with other arguments than the client asked for", "argv=%q", p.Args)
	}
	id, err := strconv.Atoi(p.Args[1])
	if err != nil || id < 0 || id >= len(ts.T) || ts.T[id].Kind != "shell" {
		simrt.Failf("shell-process-arguments-wrong", "the process was started with other arguments than the client asked for", "argv=%q", p.Args)
	}
	t := ts.T[id]
	want := ts.shellArgs(t)
	ok := p.Args[0] == t.Prog && len(p.Args) == len(want)+1
	for i := 0; ok && i < len(want); i++ {
		ok = p.Args[i+1] == want[i]
	}
	if !ok {
		ts.fail(t, "shell-process-arguments-wrong", "the process was started with other arguments than the client asked for", fmt.Sprintf("argv=%q want %s %q", p.Args, t.Prog, want))
	}
	if p.Node != ts.m.Nodes[t.Exit].Name {
		ts.fail(t, "shell-process-at-wrong-agent", "the command was started by an agent that is not the tunnel's exit", fmt.Sprintf("node=%s", p.Node))
	}
	if t.ServerSeen {
		ts.fail(t, "shell-process-started-twice", "one shell session started two processes", fmt.Sprintf("argv=%q", p.Args))
	}
	t.ServerSeen = true
	return t
}

func (ts *TunnelSet) shellArgs(t *Tunnel) []string {
	switch t.Prog {
	case "simcat":
		return []string{strconv.Itoa(t.ID), strconv.Itoa(t.Up)}
	case "simgen":
		return []string{strconv.Itoa(t.ID), strconv.Itoa(t.Down), strconv.Itoa(t.ErrBytes), strconv.Itoa(t.WantExit)}
	default:
		return []string{strconv.Itoa(t.ID), strconv.Itoa(t.Up), strconv.Itoa(t.WantExit)}
	}
}

// shellStdin reads up to max bytes of the process' stdin, checking the code.
func (ts *TunnelSet) shellStdin(t *Tunnel, p *simexec.Proc, buf []byte) (int, error) {
	n, err := p.Stdin.Read(buf)
	if n > 0 {
		if i, ok := codeCheck(t.ID, 0, t.serverGot, buf[:n]); !ok {
			ts.deliveryWrong(t, "shell process (stdin)", t.serverGot+i, buf[:n])
		}
		t.serverGot += n
		if t.serverGot > t.Up {
			ts.deliveryWrong(t, "shell process (stdin)-excess", t.serverGot, nil)
		}
	}
	return n, err
}

func (ts *TunnelSet) registerShellPrograms() {
	if ts.shellProgsRegistered {
		return
	}
	ts.shellProgsRegistered = true
	simexec.RegisterProgram("simcat", func(p *simexec.Proc) {
		t := ts.shellTunnelOf(p)
		defer func() { t.serverDone = true }()
		buf := make([]byte, 32768)
		for t.serverGot < t.Up {
			rb := buf[:1+simrt.Choose(len(buf), "catbuf")]
			if left := t.Up - t.serverGot; len(rb) > left {
				rb = rb[:left]
			}
			n, err := ts.shellStdin(t, p, rb)
			if n > 0 {
				if _, werr := p.Stdout.Write(rb[:n]); werr != nil {
					t.serverErr = werr
					return
				}
			}
			if err != nil {
				t.serverErr = err
				return
			}
		}
		t.serverEOF = true
	})
	simexec.RegisterProgram("simgen", func(p *simexec.Proc) {
		t := ts.shellTunnelOf(p)
		defer func() { t.serverDone = true }()
		out, errb := 0, 0
		for out < t.Down || errb < t.ErrBytes {
			toErr := errb < t.ErrBytes && (out >= t.Down || simrt.Chance(1, 2, "genstream"))
			var n int
			if simrt.Chance(1, 2, "genedge") {
				n = edgeSizes[simrt.Choose(len(edgeSizes), "genedgesz")]
			} else {
				n = 1 + simrt.Choose(40000, "genchunk")
			}
			if toErr {
				if n > t.ErrBytes-errb {
					n = t.ErrBytes - errb
				}
				if _, err := p.Stderr.Write(codeBytes(t.ID+stderrCodeBase, 1, errb, n)); err != nil {
					t.serverErr = err
					return
				}
				errb += n
			} else {
				if n > t.Down-out {
					n = t.Down - out
				}
				if _, err := p.Stdout.Write(codeBytes(t.ID, 1, out, n)); err != nil {
					t.serverErr = err
					return
				}
				out += n
			}
			if simrt.Chance(1, 8, "genpause") {
				if !p.Sleep(time.Duration(1+simrt.Choose(200, "genpausems")) * time.Millisecond) {
					return
				}
			}
		}
		t.serverEOF = true
		p.Exit(t.WantExit)
	})
	simexec.RegisterProgram("simsink", func(p *simexec.Proc) {
		t := ts.shellTunnelOf(p)
		defer func() { t.serverDone = true }()
		buf := make([]byte, 32768)
		for t.serverGot < t.Up {
			rb := buf[:1+simrt.Choose(len(buf), "sinkbuf")]
			if left := t.Up - t.serverGot; len(rb) > left {
				rb = rb[:left]
			}
			if _, err := ts.shellStdin(t, p, rb); err != nil {
				t.serverErr = err
				return
			}
		}
		t.serverEOF = true
		if _, err := p.Stdout.Write([]byte(strconv.Itoa(t.serverGot))); err != nil {
			t.serverErr = err
			return
		}
		p.Exit(t.WantExit)
	})
}

// watchOpens installs the wire tap that learns the hops of shell and file
// tunnels: their STREAM_OPEN carries a well-known domain address and port 0, so
// a tunnel is identified by its ephemeral public key, which is bound to the
// tunnel when the open leaves the ingress (opens of these kinds leave the
// ingress one at a time, see beginOpen).
func (ts *TunnelSet) watchOpens() {
	if ts.xEph != nil {
		return
	}
	ts.xEph = map[[32]byte]*Tunnel{}
	ts.m.Tap.OnFrame = append(ts.m.Tap.OnFrame, func(ev *FrameEvent) {
		switch ev.Type {
		case protocol.FrameStreamOpen:
			so, err := protocol.DecodeStreamOpen(ev.Payload)
			if err != nil || so.AddressType != protocol.AddrTypeDomain || len(so.Address) < 1 {
				return
			}
			name := string(so.Address[1:])
			if name != protocol.ShellStream && name != protocol.FileTransferUpload && name != protocol.FileTransferDownload {
				return
			}
			t := ts.xEph[so.EphemeralPubKey]
			if t == nil && ts.opening != nil && ev.From == ts.m.Nodes[ts.opening.Ingress].Name && name == ts.opening.Addr {
				t = ts.opening
				t.EphPub = so.EphemeralPubKey
				t.FirstHopID = ev.StreamID
				ts.xEph[so.EphemeralPubKey] = t
				ts.opening = nil
				ts.openQ.WakeAll()
			}
			if t != nil {
				t.hops = append(t.hops, hop{From: ev.From, To: ev.To, ID: ev.StreamID, Link: ev.Link.ID})
			}
		case protocol.FrameStreamOpenAck:
			ts.onFileOpenAck(ev)
		case protocol.FrameStreamData:
			ts.onFileData(ev)
		}
	})
}

// beginOpen serialises the moment at which opens of shell / file tunnels leave
// the ingress, so that the tap can bind the ephemeral key it sees to the tunnel.
func (ts *TunnelSet) beginOpen(t *Tunnel) {
	for ts.opening != nil {
		ts.openQ.ParkTimeout(time.Second)
	}
	ts.opening = t
}

func (ts *TunnelSet) endOpen(t *Tunnel) {
	if ts.opening == t {
		ts.opening = nil
		ts.openQ.WakeAll()
	}
}

// recvOr waits for a value on ch, for done to close, or for d to pass:
// returns 0 (value), 1 (done) or 2 (timeout).
func recvOr[T any](ch <-chan T, done <-chan struct{}, d time.Duration) (T, int) {
	tm := time.NewTimer(d)
	defer tm.Stop()
	rc := simrt.RecvCase(ch)
	i := simrt.Select(false, rc, simrt.RecvCase(done), simrt.RecvCase(tm.C))
	if i == 0 && !rc.OK {
		i = 1 // a closed channel: the session is over
	}
	return rc.V, i
}

func (ts *TunnelSet) startShell(t *Tunnel) {
	nd := ts.m.Nodes[t.Ingress]
	ts.group.Go(fmt.Sprintf("shellclient-%d", t.ID), func() {
		simrt.SetNode(nd.Name)
		defer func() { t.clientDone = true }()
		t.started = simrt.Elapsed()
		ctx, cancel := context.WithTimeout(context.Background(), 45*time.Second)
		defer cancel()
		meta := &shell.ShellMeta{Command: t.Prog, Args: ts.shellArgs(t)}
		if ts.m.Nodes[t.Exit].Cfg.Shell.PasswordHash != "" {
			meta.Password = shellPassword
		}
		ts.beginOpen(t)
		sess, err := nd.A.OpenShellStream(ctx, ts.m.Nodes[t.Exit].ID, meta, false)
		ts.endOpen(t)
		simrt.Eventf("tunnel %d shell open %s %v err=%v", t.ID, t.Prog, meta.Args, err)
		if err != nil {
			t.OpenErr = err
			return
		}
		t.Opened = true
		if t.FirstHopID != sess.StreamID {
			simrt.Failf("harness", "shell open not observed on the first hop", "tunnel %d: session stream id %d, tap saw %d", t.ID, sess.StreamID, t.FirstHopID)
		}
		if ts.OnOpen != nil {
			ts.OnOpen(t)
		}
		var wg simrt.Group
		wg.Go(fmt.Sprintf("shellclient-w-%d", t.ID), func() {
			simrt.SetNode(nd.Name)
			sent := 0
			limit := t.Up
			if t.Abandon && limit > 0 {
				limit-- // the command keeps waiting for the rest
			}
			for k := 0; sent < limit || k < len(t.WriteSizes); k++ {
				n := limit - sent
				if k < len(t.WriteSizes) && t.WriteSizes[k] < n {
					n = t.WriteSizes[k]
				}
				if n > protocol.MaxPayloadSize-29 {
					simrt.Probe("c07_shell_write_over_frame_limit")
				}
				if n == 0 {
					simrt.Probe("shell_stdin_write_of_zero_bytes")
				}
				msg := shell.EncodeStdin(codeBytes(t.ID, 0, sent, n))
				sc := simrt.SendCase(sess.Send)
				sc.Set(msg)
				tm := time.NewTimer(3 * time.Minute)
				i := simrt.Select(false, sc, simrt.RecvCase(sess.Done), simrt.RecvCase(tm.C))
				tm.Stop()
				if i != 0 {
					simrt.Eventf("tunnel %d shell stdin write %d cut at offset %d (case %d)", t.ID, k, sent, i)
					return
				}
				simrt.Eventf("tunnel %d shell stdin write %d len=%d h=%x", t.ID, k, n, simrt.FNV(msg[1:]))
				sent += n
				t.shStdinSent = sent
			}
		})
		sinkOut := ""
		handle := func(msg []byte) {
			typ, payload, derr := shell.DecodeMessage(msg)
			if derr != nil {
				ts.deliveryFail(t, "shell-message-malformed", "the client received a message without a type", fmt.Sprintf("%v", derr))
			}
			switch typ {
			case shell.MsgAck:
				ack, aerr := shell.DecodeAck(payload)
				if aerr != nil {
					ts.deliveryFail(t, "shell-message-malformed", "the client received an acknowledgement that does not decode", fmt.Sprintf("%v", aerr))
				}
				t.shAcked = ack.Success
				if !ack.Success {
					t.shRemoteErr = "ack: " + ack.Error
				}
				simrt.Eventf("tunnel %d shell ack success=%v", t.ID, ack.Success)
			case shell.MsgStdout:
				simrt.Eventf("tunnel %d shell stdout len=%d h=%x", t.ID, len(payload), simrt.FNV(payload))
				if t.shExitSeen {
					ts.deliveryFail(t, "shell-output-after-exit", "process output arrived after the exit status", fmt.Sprintf("stdout, %d bytes at offset %d", len(payload), t.clientGot))
				}
				if len(payload) > 0 {
					simrt.Probe("shell_stdout_received")
				}
				switch t.Prog {
				case "simsink":
					sinkOut += string(payload)
					t.clientGot += len(payload)
					if t.clientGot > 20 {
						ts.deliveryWrong(t, "shell client (stdout)-excess", t.clientGot, payload)
					}
				default:
					d := 1
					if t.Prog == "simcat" {
						d = 0
					}
					if i, ok := codeCheck(t.ID, d, t.clientGot, payload); !ok {
						ts.deliveryWrong(t, "shell client (stdout)", t.clientGot+i, payload)
					}
					t.clientGot += len(payload)
					if t.clientGot > t.Down {
						ts.deliveryWrong(t, "shell client (stdout)-excess", t.clientGot, nil)
					}
				}
			case shell.MsgStderr:
				simrt.Eventf("tunnel %d shell stderr len=%d h=%x", t.ID, len(payload), simrt.FNV(payload))
				if t.shExitSeen {
					ts.deliveryFail(t, "shell-output-after-exit", "process output arrived after the exit status", fmt.Sprintf("stderr, %d bytes at offset %d", len(payload), t.shErrGot))
				}
				if len(payload) > 0 {
					simrt.Probe("shell_stderr_received")
				}
				if i, ok := codeCheck(t.ID+stderrCodeBase, 1, t.shErrGot, payload); !ok {
					ts.deliveryWrong(t, "shell client (stderr)", t.shErrGot+i, payload)
				}
				t.shErrGot += len(payload)
				if t.shErrGot > t.ErrBytes {
					ts.deliveryWrong(t, "shell client (stderr)-excess", t.shErrGot, nil)
				}
			case shell.MsgExit:
				code, xerr := shell.DecodeExit(payload)
				if xerr != nil {
					ts.deliveryFail(t, "shell-message-malformed", "the client received an exit message that does not decode", fmt.Sprintf("%v", xerr))
				}
				simrt.Eventf("tunnel %d shell exit status=%d", t.ID, code)
				if t.shExitSeen {
					ts.deliveryFail(t, "shell-exit-status-twice", "the exit status arrived twice", fmt.Sprintf("%d then %d", t.shExit, code))
				}
				t.shExitSeen, t.shExit = true, int(code)
				simrt.Probe("shell_exit_received")
			case shell.MsgError:
				if e, eerr := shell.DecodeError(payload); eerr == nil {
					t.shRemoteErr = e.Message
				} else {
					t.shRemoteErr = "undecodable error message"
				}
				simrt.Eventf("tunnel %d shell remote error %q", t.ID, t.shRemoteErr)
			default:
				ts.deliveryFail(t, "shell-message-malformed", "the client received a message of a type the exit never sends", fmt.Sprintf("type 0x%02x len=%d", typ, len(payload)))
			}
		}
		if t.SlowStart > 0 {
			simrt.Sleep(t.SlowStart)
		}
		walkAway := simrt.Elapsed() + t.AbandonAfter
		for {
			wait := 3 * time.Minute
			if t.Abandon {
				if wait = walkAway - simrt.Elapsed(); wait <= 0 {
					simrt.Eventf("tunnel %d shell client walks away", t.ID)
					break
				}
			}
			msg, st := recvOr(sess.Receive, sess.Done, wait)
			if st == 0 {
				handle(msg)
				continue
			}
			if st == 2 && t.Abandon {
				continue
			}
			if st == 2 {
				t.clientErr = fmt.Errorf("nothing received for 3 minutes")
				break
			}
			// session over: whatever was delivered before the end is still queued
			for {
				rc := simrt.RecvCase(sess.Receive)
				if simrt.Select(true, rc) != 0 || !rc.OK {
					break
				}
				handle(rc.V)
			}
			t.clientEOF = true
			break
		}
		sess.Close()
		wg.Wait()
		if t.Prog == "simsink" && t.shExitSeen && sinkOut != strconv.Itoa(t.Up) {
			ts.deliveryFail(t, "tunnel-bytes-wrong", "endpoint received bytes that its counterpart did not send at that offset", fmt.Sprintf("shell client (stdout) of tunnel %d got %q, the process wrote %q", t.ID, sinkOut, strconv.Itoa(t.serverGot)))
		}
		simrt.Eventf("tunnel %d shell client done prog=%s stdout=%d/%d stderr=%d/%d stdin=%d/%d exit=%v/%d remoteErr=%q eof=%v err=%v", t.ID, t.Prog, t.clientGot, t.Down, t.shErrGot, t.ErrBytes, t.serverGot, t.Up, t.shExitSeen, t.shExit, t.shRemoteErr, t.clientEOF, t.clientErr)
		ts.checkShellDone(t)
	})
}

// deliveryFail reports that a shell session or a file transfer did not deliver
// what was written into it (bytes missing, altered, duplicated, reordered, the
// closing status lost). "Every write arrives as the same bytes in the same
// order" is what C07 states for these two kinds, so it is a violation in C07
// runs. The other properties of the tunnel family (keys, sealing, bookkeeping)
// are decided on such a tunnel all the same; there the failure is counted and
// logged, and the tunnel is treated like one that a fault has cut.
func (ts *TunnelSet) deliveryFail(t *Tunnel, class, sig, detail string) {
	if ts.DecideDelivery {
		ts.fail(t, class, sig, detail)
	}
	if !t.deliverySoftFailed {
		t.deliverySoftFailed = true
		simrt.Probe("delivery_failure_not_decided_by_this_property_" + t.Kind)
		simrt.Eventf("tunnel %d (%s) delivery failure (decided by C07 only): %s: %s: %s", t.ID, t.Kind, class, sig, detail)
	}
	t.faulted = true
}

// deliveryWrong is deliveryFail for bytes that are not the counterpart's bytes at that offset.
func (ts *TunnelSet) deliveryWrong(t *Tunnel, where string, off int, got []byte) {
	if ts.DecideDelivery {
		ts.misdelivery(t, where, off, got)
	}
	ts.deliveryFail(t, "tunnel-bytes-wrong", "endpoint received bytes that its counterpart did not send at that offset", fmt.Sprintf("%s of tunnel %d at offset %d", where, t.ID, off))
}

// checkShellDone is the end-to-end oracle of one shell session, evaluated when
// the client side of the session is over and no fault was injected: everything
// the client wrote to stdin reached the process, everything the process wrote
// to stdout and to stderr reached the client, and the exit status arrived.
func (ts *TunnelSet) checkShellDone(t *Tunnel) {
	if t.faulted || t.Abandon {
		return
	}
	if t.Prog == shellMissingProg {
		if t.shRemoteErr != "" || !t.shAcked {
			simrt.Probe("shell_start_failure_reported")
		}
		return
	}
	state := fmt.Sprintf("prog=%s stdin %d of %d, stdout %d of %d, stderr %d of %d, acknowledged=%v, exit status seen=%v, remote error %q, client error %v", t.Prog, t.serverGot, t.Up, t.clientGot, t.Down, t.shErrGot, t.ErrBytes, t.shAcked, t.shExitSeen, t.shRemoteErr, t.clientErr)
	if t.shRemoteErr != "" {
		ts.fail(t, "tunnel-open-failed", "shell session was refused or aborted by the exit without any fault", state)
	}
	if t.serverGot != t.Up {
		ts.deliveryFail(t, "tunnel-bytes-missing", "shell process did not receive everything the client wrote to stdin", state)
	}
	if t.clientGot != t.Down {
		ts.deliveryFail(t, "tunnel-bytes-missing", "shell client did not receive everything the process wrote to stdout", state)
	}
	if t.shErrGot != t.ErrBytes {
		ts.deliveryFail(t, "tunnel-bytes-missing", "shell client did not receive everything the process wrote to stderr", state)
	}
	if !t.shExitSeen {
		ts.deliveryFail(t, "shell-exit-status-missing", "the session ended without the exit status of the process", state)
	}
	if t.shExit != t.WantExit {
		// Not part of any property decided here (the statements speak about the
		// bytes written to a tunnel, its keys and its bookkeeping): the exit
		// handler reports -1 when reaping the process takes longer than its
		// 500 ms backstop. Counted, logged, not a violation.
		simrt.Probe("shell_exit_status_differs")
		simrt.Eventf("tunnel %d shell exit status differs: got %d, the process ended with %d", t.ID, t.shExit, t.WantExit)
	} else {
		simrt.Probe("shell_exit_status_matches")
	}
	simrt.Probe("shell_session_complete")
}

// checkShellKey is the C03 oracle for a shell tunnel.
func (ts *TunnelSet) checkShellKey(t *Tunnel) {
	if len(t.hops) == 0 {
		simrt.Failf("harness", "tunnel hops not observed", "tunnel %d", t.ID)
	}
	last := t.hops[len(t.hops)-1]
	ik, present := ts.m.Nodes[t.Ingress].A.VerifShellClientKeys()[t.FirstHopID]
	if !present {
		// a command that ends at once: the session is over (and its client
		// record gone) before this check runs
		simrt.Probe("c03_initiator_record_gone")
		return
	}
	if ik == nil {
		simrt.Failf("tunnel-without-key", "opened tunnel has no session key at the ingress", "tunnel %d (shell)", t.ID)
	}
	k := ik.Key()
	if k == ([32]byte{}) {
		simrt.Failf("tunnel-without-key", "opened tunnel has an all-zero session key at the ingress", "tunnel %d (shell)", t.ID)
	}
	ts.noteKey(t, k)
	var ek *[32]byte
	if h := ts.m.Nodes[t.Exit].A.VerifShellHandler(); h != nil {
		if sk := h.VerifStreamKeys()[last.ID]; sk != nil {
			kk := sk.Key()
			ek = &kk
		}
	}
	if ek == nil {
		simrt.Probe("c03_responder_record_gone")
		return
	}
	simrt.Probe("c03_key_pair_compared_shell")
	if *ek != k {
		simrt.Failf("ends-derived-different-keys", "ingress and exit hold different session keys (shell)", "tunnel %d", t.ID)
	}
}

// noteKey: tunnels that differ in request identifier or ephemeral key have different keys.
func (ts *TunnelSet) noteKey(t *Tunnel, k [32]byte) {
	if ts.keys == nil {
		ts.keys = map[[32]byte]int{}
	}
	if o, dup := ts.keys[k]; dup && o != t.ID {
		simrt.Failf("tunnels-share-a-key", "two tunnels derived the same session key", "tunnels %d and %d", o, t.ID)
	}
	ts.keys[k] = t.ID
}

// shellLeftovers is the shell part of the C17 oracle for one agent.
func shellLeftovers(nd *Node) string {
	left := ""
	if h := nd.A.VerifShellHandler(); h != nil {
		if n := h.ActiveStreams(); n != 0 {
			left += fmt.Sprintf(" shell.streams=%d", n)
		}
		if n := h.VerifActiveSessions(); n != 0 {
			left += fmt.Sprintf(" shell.sessions=%d", n)
		}
	}
	for _, k := range []string{"shell_client_streams", "file_streams"} {
		if n := nd.A.VerifBookkeepingSizes()[k]; n != 0 {
			left += fmt.Sprintf(" %s=%d", k, n)
		}
	}
	return left
}

// shellProcessesLeft: fake processes still running although every session is over.
func shellProcessesLeft() string {
	if n := simexec.P().Running; n != 0 {
		return fmt.Sprintf(" shell.processes_running=%d", n)
	}
	return ""
}
