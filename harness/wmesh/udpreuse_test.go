package wmesh

import (
	"context"
	"fmt"
	"net"
	"time"

	"github.com/postalsys/muti-metroo/internal/protocol"
	"github.com/postalsys/muti-metroo/internal/socks5"
	"github.com/postalsys/muti-metroo/internal/verifrt/simnet"
	"github.com/postalsys/muti-metroo/internal/verifrt/simrt"
	. "github.com/postalsys/muti-metroo/internal/verifsim/meshkit"
)

// Several UDP associations at one ingress, opened and closed in a drawn order
// while the others keep sending (C16: isolation of concurrent tunnels, UDP
// associations included; the ingress side of C22: replies go to the client that
// owns the association). Every client has its own relay socket, control
// connection and reply socket; the destination echoes 'D', client, k to
// whatever 'U', client, k it receives. Whatever a client's socket receives must
// be a reply to a datagram that very client sent, exactly once.

type udpClient struct {
	id     int
	sid    uint64
	assoc  *socks5.UDPAssociation
	ctl    *simnet.TCPConn
	cs     *simnet.UDPConn
	sent   int
	got    map[int]bool
	closed bool
	rdone  bool
	via    map[int]bool
}

func runUDPAssociationChurn() {
	m := tunnelMesh(true, 4)
	// every exit of the chain relays UDP: one association may address
	// destinations behind several exits (which all share the ingress' next hop
	// in a chain); each datagram must leave the mesh at the exit whose route
	// covers its destination
	const destPort = 20999
	served := map[[2]int]bool{}
	destOf := map[int]net.IP{}
	var exits []int
	for j := 1; j < len(m.Nodes); j++ {
		j := j
		exn := m.Nodes[j]
		exn.Cfg.UDP.Enabled = true
		exits = append(exits, j)
		destIP := net.ParseIP(fmt.Sprintf("10.%d.7.7", 100+j)).To4()
		destOf[j] = destIP
		m.Net.ServeUDP(&net.UDPAddr{IP: destIP, Port: destPort}, func(c *simnet.UDPConn, from *net.UDPAddr, data []byte) {
			if len(data) < 8 || data[0] != 'U' {
				simrt.Failf("tunnel-bytes-wrong", "endpoint received bytes that its counterpart did not send at that offset", "udp destination got a datagram that no client sent (%d bytes)", len(data))
			}
			t := int(data[1])<<8 | int(data[2])
			k, bad := udpCheck('U', t, data)
			if bad != "" {
				simrt.Failf("tunnel-bytes-wrong", "endpoint received bytes that its counterpart did not send at that offset", "udp destination got a %s (client %d, k=%d)", bad, t, k)
			}
			if !from.IP.Equal(exn.IP) {
				simrt.Failf("datagram-through-wrong-tunnel", "a datagram left the mesh through another tunnel's exit", "datagram %d of client %d for %s (behind %s, %s) was emitted from %s", k, t, destIP, exn.Name, exn.IP, from)
			}
			if served[[2]int{t, k}] {
				simrt.Failf("datagram-duplicated", "a datagram was delivered twice", "udp destination got datagram %d of client %d twice", k, t)
			}
			served[[2]int{t, k}] = true
			c.WriteToUDP(udpPayload('D', t, k, 1+(k*37)%600), from)
		})
	}
	BootAndConverge(m)
	nd := m.Nodes[0]
	hdrs := map[int][]byte{}
	for _, j := range exits {
		hdrs[j] = socks5.BuildUDPHeader(protocol.AddrTypeIPv4, destOf[j], uint16(destPort))
	}
	var clients []*udpClient
	live := func() []*udpClient {
		var out []*udpClient
		for _, c := range clients {
			if !c.closed {
				out = append(out, c)
			}
		}
		return out
	}
	openClient := func() {
		c := &udpClient{id: len(clients), got: map[int]bool{}}
		var err error
		m.On(0, fmt.Sprintf("udp-open-%d", c.id), func() {
			ctx, cancel := context.WithTimeout(context.Background(), 30*time.Second)
			defer cancel()
			c.sid, err = nd.A.CreateUDPAssociation(ctx, nil)
		})
		if err != nil {
			simrt.Failf("tunnel-open-failed", "tunnel open failed without any fault", "udp associate: %v", err)
		}
		clientIP := net.IPv4(172, 29, 0, byte(10+c.id))
		var srvSide *simnet.TCPConn
		c.ctl, srvSide = m.Net.Pair(fmt.Sprintf("uclient-%d", c.id), nd.Name, &net.TCPAddr{IP: clientIP, Port: 52000 + c.id}, &net.TCPAddr{IP: nd.IP, Port: 1080})
		c.assoc, err = socks5.NewUDPAssociation(srvSide, nd.A, nd.IP)
		if err != nil {
			simrt.Failf("harness", "UDP association could not be created", "%v", err)
		}
		c.assoc.SetStreamID(c.sid)
		nd.A.SetSOCKS5UDPAssociation(c.sid, c.assoc)
		simrt.GoNode(fmt.Sprintf("udprelay-%d", c.id), nd.Name, c.assoc.ReadLoop)
		c.cs, err = simnet.ListenUDP("udp4", &net.UDPAddr{IP: clientIP, Port: 0})
		if err != nil {
			panic(err)
		}
		clients = append(clients, c)
		simrt.Eventf("udp client %d opened (association %d)", c.id, c.sid)
		simrt.Probe("udp_churn_open")
		simrt.GoNode(fmt.Sprintf("uclient-r-%d", c.id), nd.Name, func() {
			defer func() { c.rdone = true }()
			buf := make([]byte, 4096)
			for {
				n, _, err := c.cs.ReadFromUDP(buf)
				if err != nil {
					return
				}
				h, payload, perr := socks5.ParseUDPHeader(buf[:n])
				if perr != nil || h == nil {
					simrt.Failf("tunnel-bytes-wrong", "endpoint received bytes that its counterpart did not send at that offset", "udp client %d got a reply without a valid SOCKS5 UDP header: %v", c.id, perr)
				}
				k, bad := udpCheck('D', c.id, payload)
				if bad != "" {
					simrt.Failf("tunnel-bytes-wrong", "endpoint received bytes that its counterpart did not send at that offset", "udp client %d (association %d) got a %s (k=%d): a reply that belongs to another association", c.id, c.sid, bad, k)
				}
				if k >= c.sent {
					simrt.Failf("tunnel-bytes-wrong", "endpoint received bytes that its counterpart did not send at that offset", "udp client %d got a reply to datagram %d which it never sent (sent %d)", c.id, k, c.sent)
				}
				if c.got[k] {
					simrt.Failf("datagram-duplicated", "a datagram was delivered twice", "udp client %d got reply %d twice", c.id, k)
				}
				c.got[k] = true
				simrt.Probe("udp_churn_reply")
			}
		})
	}
	closeClient := func(c *udpClient) {
		c.closed = true
		c.ctl.Close()
		c.assoc.Close()
		c.cs.Close()
		simrt.Eventf("udp client %d closed", c.id)
		simrt.Probe("udp_churn_close")
	}
	ops := 4 + simrt.Choose(10, "udp-ops")
	for o := 0; o < ops; o++ {
		lv := live()
		switch k := simrt.Choose(4, "udp-op"); {
		case k == 0 && len(lv) < 4 || len(lv) == 0:
			openClient()
		case k == 1 && len(lv) > 0:
			closeClient(lv[simrt.Choose(len(lv), "udp-close-which")])
		default:
			c := lv[simrt.Choose(len(lv), "udp-send-which")]
			n := 1 + (c.sent*53)%900
			via := m.TunnelExit
			if simrt.Chance(1, 2, "udp-other-exit") {
				via = exits[simrt.Choose(len(exits), "udp-via")]
			}
			if c.via == nil {
				c.via = map[int]bool{}
			}
			c.via[via] = true
			if len(c.via) > 1 {
				simrt.Probe("udp_association_addresses_several_exits")
			}
			pkt := append(append([]byte(nil), hdrs[via]...), udpPayload('U', c.id, c.sent, n)...)
			c.sent++
			c.cs.WriteToUDP(pkt, c.assoc.LocalAddr())
			simrt.Probe("udp_churn_send")
		}
		if simrt.Chance(1, 2, "udp-op-gap") {
			simrt.Sleep(time.Duration(1+simrt.Choose(1500, "udp-op-gap-ms")) * time.Millisecond)
		}
	}
	simrt.Sleep(4 * time.Second)
	for _, c := range live() {
		closeClient(c)
	}
	for _, c := range clients {
		for w := 0; w < 100 && !c.rdone; w++ {
			simrt.Sleep(100 * time.Millisecond)
		}
	}
	m.StopAll()
}
