package wmesh

import (
	"fmt"
	"time"

	"github.com/postalsys/muti-metroo/internal/verifrt/simnet"
	"github.com/postalsys/muti-metroo/internal/verifrt/simrt"
	. "github.com/postalsys/muti-metroo/internal/verifsim/meshkit"
)

// A transit that could serve the destination itself (C04: transit agents never
// hold a tunnel's key). Chain 0 - .. - T - E: every agent between the ingress
// and the exit E is also an exit for a prefix that covers E's more specific
// one. Tunnels to E's prefix are opened while the link T-E is down (reset just
// before, or a moment before, the open; the ingress still holds the route).
// Such an open may fail. It must never be answered by T: the destination sees
// a connection from E or none at all, and T holds no end-point record.
func runTransitFallback() {
	n := 3 + simrt.Choose(3, "n")
	m := NewMesh(n, "chain")
	m.TunnelExit = n - 1
	for j, nd := range m.Nodes {
		nd.Cfg.Routing.AdvertiseInterval = 20 * time.Second
		nd.Cfg.Routing.RouteTTL = 10 * time.Minute
		if j == 0 {
			continue
		}
		nd.Cfg.Exit.Enabled = true
		if j == n-1 {
			nd.Cfg.Exit.Routes = []string{fmt.Sprintf("10.%d.0.0/16", 100+j)}
		} else {
			// covers the exit's prefix, less specific
			nd.Cfg.Exit.Routes = []string{"10.0.0.0/8"}
		}
	}
	simrt.Eventf("transit fallback mesh n=%d edges=%v", n, m.Edges)
	ts := NewTunnelSet(m)
	m.Tap.OnFrame = append(m.Tap.OnFrame, ts.inspectData)
	k := 2 + simrt.Choose(3, "tunnels")
	for i := 0; i < k; i++ {
		t := &Tunnel{Kind: "tcp", Ingress: 0, Exit: n - 1, Up: 1 + simrt.Choose(3000, "up"), Down: 1 + simrt.Choose(3000, "down"),
			ClientClose: "closewrite-then-read", ServerClose: "after-eof"}
		t.WriteSizes = []int{t.Up}
		ts.Add(t)
	}
	BootAndConverge(m)
	// the first tunnel runs on the healthy mesh
	ts.Start(ts.T[0])
	for w := 0; w < 300 && !(ts.T[0].clientDone && ts.T[0].serverDone); w++ {
		simrt.Sleep(200 * time.Millisecond)
	}
	simrt.Sleep(2 * time.Second)
	exitName, transitName := m.Nodes[n-1].Name, m.Nodes[n-2].Name
	for i := 1; i < k; i++ {
		var victim *simnet.Link
		for _, l := range m.Net.Links() {
			if l.Kind == "peer" && !l.Dead() && ((l.DialNode == exitName && l.AccNode == transitName) || (l.DialNode == transitName && l.AccNode == exitName)) {
				victim = l
			}
		}
		if victim != nil {
			simrt.Eventf("fault: reset mesh link %s-%s before tunnel %d opens", transitName, exitName, i)
			simrt.Probe("c04_exit_link_reset_before_open")
			victim.Reset()
		}
		if simrt.Chance(1, 2, "open-a-moment-later") {
			simrt.Sleep(time.Duration(1+simrt.Choose(600, "open-after-ms")) * time.Millisecond)
		}
		ts.T[i].faulted = true
		ts.Start(ts.T[i])
		simrt.Sleep(time.Duration(1500+simrt.Choose(3000, "next-after-ms")) * time.Millisecond)
	}
	ts.Wait(5 * time.Minute)
	for _, d := range m.Net.Dials {
		for _, t := range ts.T {
			if d.Address == t.Addr && d.Node != exitName {
				simrt.Failf("tunnel-terminated-at-transit", "a transit agent connected to the destination itself (it then holds the tunnel's key and sees every byte)", "tunnel %d to %s (exit %s) was dialled by %s", t.ID, t.Addr, exitName, d.Node)
			}
		}
	}
	for j := 1; j < n-1; j++ {
		if h := m.Nodes[j].A.VerifExitHandler(); h != nil && h.ConnectionCount() != 0 {
			simrt.Failf("transit-holds-tunnel-state", "pure transit agent holds an end-point record (and thus a key) for a relayed tunnel", "%s: exit.connections=%d", m.Nodes[j].Name, h.ConnectionCount())
		}
	}
	for _, t := range ts.T[1:] {
		if t.Opened {
			simrt.Probe("c04_open_succeeded_despite_link_reset")
		} else {
			simrt.Probe("c04_open_failed_while_exit_link_down")
		}
	}
	ts.CheckComplete()
	m.StopAll()
}
