package wmesh

import (
	"context"
	"encoding/binary"
	"fmt"
	"io"
	"net"
	"time"

	"github.com/postalsys/muti-metroo/internal/health"
	"github.com/postalsys/muti-metroo/internal/protocol"
	"github.com/postalsys/muti-metroo/internal/socks5"
	"github.com/postalsys/muti-metroo/internal/verifrt/simicmp"
	"github.com/postalsys/muti-metroo/internal/verifrt/simrt"
	. "github.com/postalsys/muti-metroo/internal/verifsim/meshkit"
)

// ICMP sessions: the ingress side is either the SOCKS5 path (a real
// socks5.ICMPAssociation over a simulated control connection plus the agent's
// CreateICMPSession / RelayICMPEcho / CloseICMPSession) or the ping API path
// (agent.OpenICMPSession and its channels); ICMP_OPEN / ICMP_ECHO / ICMP_CLOSE
// relaying through the mesh; the real icmp.Handler at the exit on a simulated
// ICMP socket (rt/simicmp), whose echo responder is the destination.
//
// Echo k of tunnel t carries 'I', t, k + codeBytes(t, 0, k*2048, n); the
// destination answers 'J', t, k + codeBytes(t, 1, k*2048, m) under the same
// identifier and sequence number, sometimes late, sometimes never. Replies may
// legitimately be lost (echo timeout, full channel), so the oracle is exactness,
// isolation and no duplication of what is delivered, not completeness.

func icmpDest(t *Tunnel) net.IP {
	return net.IPv4(10, byte(100+t.Exit), 8, byte(1+t.ID)).To4()
}

func (ts *TunnelSet) icmpByDest(ip net.IP) *Tunnel {
	for _, t := range ts.T {
		if t.Kind == "icmp" && icmpDest(t).Equal(ip) {
			return t
		}
	}
	return nil
}

func (ts *TunnelSet) addICMP(t *Tunnel) {
	t.Addr = icmpDest(t).String()
	t.Dial = t.Addr
	ex := ts.m.Nodes[t.Exit]
	ex.Cfg.ICMP.Enabled = true
	if t.ICMPVia == "" {
		t.ICMPVia = []string{"socks", "ping-api"}[simrt.Choose(2, "icmpvia")]
	}
	w := simicmp.W()
	if w.Responder == nil {
		seen := map[[2]int]bool{}
		w.Responder = func(rq *simicmp.Request) []simicmp.Reply {
			x := ts.icmpByDest(rq.Dst)
			if x == nil {
				simrt.Failf("icmp-request-to-unknown-destination", "exit sent an echo request to an address nobody asked for", "node=%s dst=%s", rq.Node, rq.Dst)
			}
			if rq.Node != ts.m.Nodes[x.Exit].Name {
				ts.fail(x, "icmp-request-from-wrong-agent", "echo request left the mesh at an agent that is not the tunnel's exit", fmt.Sprintf("node=%s", rq.Node))
			}
			x.ServerSeen = true
			k, bad := udpCheck('I', x.ID, rq.Data)
			if bad != "" {
				ts.fail(x, "tunnel-bytes-wrong", "endpoint received bytes that its counterpart did not send at that offset", fmt.Sprintf("icmp destination of tunnel %d got a %s (k=%d)", x.ID, bad, k))
			}
			if rq.ID != 1000+x.ID || rq.SeqN != k&0xffff {
				ts.fail(x, "tunnel-bytes-wrong", "endpoint received bytes that its counterpart did not send at that offset", fmt.Sprintf("icmp destination of tunnel %d: echo %d arrived with identifier %d sequence %d", x.ID, k, rq.ID, rq.SeqN))
			}
			if seen[[2]int{x.ID, k}] {
				ts.fail(x, "datagram-duplicated", "a datagram was delivered twice", fmt.Sprintf("icmp destination of tunnel %d got echo %d twice", x.ID, k))
			}
			seen[[2]int{x.ID, k}] = true
			x.serverGot++
			rp := simicmp.Reply{ID: rq.ID, SeqN: rq.SeqN, Data: udpPayload('J', x.ID, k, 1+(k*41)%1200)}
			if ts.holdICMPReplies && simrt.Chance(1, 3, "icmphold") {
				// arrives together with the frame that closes the session (see watchICMPClose)
				rp.Hold = true
				simrt.Probe("icmp_reply_held_until_close")
				return []simicmp.Reply{rp}
			}
			switch simrt.Choose(8, "icmpreply") {
			case 5:
				rp.Delay = time.Duration(1+simrt.Choose(3000, "icmpdelayms")) * time.Millisecond
			case 6:
				rp.Delay = 6 * time.Second // later than the exit's echo timeout
				simrt.Probe("icmp_reply_after_timeout")
			case 7:
				simrt.Probe("icmp_reply_lost")
				return nil
			}
			return []simicmp.Reply{rp}
		}
	}
	for k := 0; k < t.Up; k++ {
		for d := 0; d < 2; d++ {
			blk := codeBlock(t.ID, d, uint64(k*2048/64))
			ts.markers[binary.LittleEndian.Uint64(blk[:8])] = t.ID
		}
	}
}

// onICMPOpen learns an ICMP tunnel's hops from ICMP_OPEN frames (destination address = identity).
func (ts *TunnelSet) onICMPOpen(ev *FrameEvent) {
	op, err := protocol.DecodeICMPOpen(ev.Payload)
	if err != nil {
		return
	}
	if x := ts.icmpByDest(op.GetDestinationIP()); x != nil {
		x.EphPub = op.EphemeralPubKey
		x.hops = append(x.hops, hop{From: ev.From, To: ev.To, ID: ev.StreamID, Link: ev.Link.ID})
	}
}

func (ts *TunnelSet) icmpReply(t *Tunnel, got map[int]bool, ident, seq uint16, payload []byte) {
	k, bad := udpCheck('J', t.ID, payload)
	if bad != "" {
		ts.fail(t, "tunnel-bytes-wrong", "endpoint received bytes that its counterpart did not send at that offset", fmt.Sprintf("icmp client of tunnel %d got a %s (k=%d)", t.ID, bad, k))
	}
	if int(ident) != 1000+t.ID || int(seq) != k&0xffff {
		ts.fail(t, "tunnel-bytes-wrong", "endpoint received bytes that its counterpart did not send at that offset", fmt.Sprintf("icmp client of tunnel %d: reply %d arrived with identifier %d sequence %d", t.ID, k, ident, seq))
	}
	if got[k] {
		ts.fail(t, "datagram-duplicated", "a datagram was delivered twice", fmt.Sprintf("icmp client of tunnel %d got reply %d twice", t.ID, k))
	}
	got[k] = true
	t.clientGot++
}

func (ts *TunnelSet) startICMP(t *Tunnel) {
	nd := ts.m.Nodes[t.Ingress]
	ts.group.Go(fmt.Sprintf("icmpclient-%d", t.ID), func() {
		simrt.SetNode(nd.Name)
		defer func() { t.clientDone = true }()
		t.started = simrt.Elapsed()
		ctx, cancel := context.WithTimeout(context.Background(), 45*time.Second)
		defer cancel()
		dest := icmpDest(t)
		got := map[int]bool{}
		gap := func(k int) {
			if simrt.Chance(1, 3, "icmpgap") {
				simrt.Sleep(time.Duration(1+simrt.Choose(400, "icmpgapms")) * time.Millisecond)
			}
			if k == 0 && ts.OnOpen != nil {
				simrt.Sleep(500 * time.Millisecond)
				ts.OnOpen(t)
			}
		}
		if t.ICMPVia == "ping-api" {
			sess, err := nd.A.OpenICMPSession(ctx, ts.m.Nodes[t.Exit].ID, dest)
			simrt.Eventf("tunnel %d icmp ping-api open err=%v", t.ID, err)
			if err != nil {
				t.OpenErr = err
				return
			}
			t.Opened = true
			t.FirstHopID = sess.StreamID
			readerDone, stop := false, make(chan struct{})
			simrt.GoNode(fmt.Sprintf("icmpclient-r-%d", t.ID), nd.Name, func() {
				defer func() { readerDone = true }()
				for {
					rc, dc, sc := simrt.RecvCase(sess.ReceiveEcho), simrt.RecvCase(sess.Done), simrt.RecvCase(stop)
					if simrt.Select(false, rc, dc, sc) != 0 {
						return
					}
					r := rc.V
					if r == nil {
						return
					}
					if r.Error != "" {
						// a reply overtaken by a later one is refused by the receive
						// window (datagram semantics): a lost reply, not a wrong one
						simrt.Probe("icmp_reply_refused_by_window")
						if len(r.Payload) != 0 {
							ts.fail(t, "tunnel-bytes-wrong", "endpoint received bytes that its counterpart did not send at that offset", fmt.Sprintf("icmp client of tunnel %d: a reply that failed authentication still carries %d payload bytes", t.ID, len(r.Payload)))
						}
						continue
					}
					ts.icmpReply(t, got, r.Identifier, r.Sequence, r.Payload)
				}
			})
			for k := 0; k < t.Up; k++ {
				simrt.Chan(sess.SendEcho).Send(&health.ICMPEchoRequest{Identifier: uint16(1000 + t.ID), Sequence: uint16(k), Payload: udpPayload('I', t.ID, k, 1+(k*53)%1100)})
				gap(k)
			}
			if ts.holdICMPReplies && simrt.Chance(1, 2, "icmp-close-early") {
				// the client gives up while the exit is still waiting for replies
				simrt.Sleep(time.Duration(simrt.Choose(1500, "icmplinger-ms")) * time.Millisecond)
			} else {
				simrt.Sleep(time.Duration(3+simrt.Choose(5, "icmplinger")) * time.Second)
			}
			sess.Close()
			close(stop)
			for !readerDone {
				simrt.Sleep(100 * time.Millisecond)
			}
		} else {
			clientIP := net.IPv4(172, 30, byte(t.Ingress), byte(10+t.ID))
			ctl, srvSide := ts.m.Net.Pair(fmt.Sprintf("client-%d", t.ID), nd.Name, &net.TCPAddr{IP: clientIP, Port: 51000 + t.ID}, &net.TCPAddr{IP: nd.IP, Port: 1080})
			assoc, err := socks5.NewICMPAssociation(srvSide, nd.A, dest)
			if err != nil {
				t.OpenErr = err
				return
			}
			sid, err := nd.A.CreateICMPSession(ctx, dest)
			simrt.Eventf("tunnel %d icmp socks open err=%v", t.ID, err)
			if err != nil {
				assoc.Close()
				t.OpenErr = err
				return
			}
			assoc.SetStreamID(sid)
			nd.A.SetSOCKS5ICMPAssociation(sid, assoc)
			t.Opened = true
			t.FirstHopID = sid
			relayDone := false
			simrt.GoNode(fmt.Sprintf("icmprelay-%d", t.ID), nd.Name, func() {
				assoc.RelayLoop()
				assoc.Close()
				relayDone = true
			})
			readerDone := false
			simrt.GoNode(fmt.Sprintf("icmpclient-r-%d", t.ID), nd.Name, func() {
				defer func() { readerDone = true }()
				hdr := make([]byte, 6)
				for {
					ctl.SetReadDeadline(time.Now().Add(30 * time.Second))
					if _, err := io.ReadFull(ctl, hdr); err != nil {
						return
					}
					p := make([]byte, binary.BigEndian.Uint16(hdr[4:]))
					if _, err := io.ReadFull(ctl, p); err != nil {
						return
					}
					ts.icmpReply(t, got, binary.BigEndian.Uint16(hdr[0:]), binary.BigEndian.Uint16(hdr[2:]), p)
				}
			})
			for k := 0; k < t.Up; k++ {
				p := udpPayload('I', t.ID, k, 1+(k*53)%1100)
				msg := make([]byte, 6, 6+len(p))
				binary.BigEndian.PutUint16(msg[0:], uint16(1000+t.ID))
				binary.BigEndian.PutUint16(msg[2:], uint16(k))
				binary.BigEndian.PutUint16(msg[4:], uint16(len(p)))
				if _, err := ctl.Write(append(msg, p...)); err != nil {
					break
				}
				gap(k)
			}
			if ts.holdICMPReplies && simrt.Chance(1, 2, "icmp-close-early") {
				// the client gives up while the exit is still waiting for replies
				simrt.Sleep(time.Duration(simrt.Choose(1500, "icmplinger-ms")) * time.Millisecond)
			} else {
				simrt.Sleep(time.Duration(3+simrt.Choose(5, "icmplinger")) * time.Second)
			}
			ctl.Close()
			for !readerDone || !relayDone {
				simrt.Sleep(100 * time.Millisecond)
			}
		}
		if t.clientGot > 0 {
			simrt.Probe("icmp_reply_received")
		}
		simrt.Eventf("tunnel %d icmp client done via=%s replies=%d/%d destination got %d", t.ID, t.ICMPVia, t.clientGot, t.Up, t.serverGot)
	})
}

// watchICMPClose releases the echo replies that the simulated internet holds
// back for an exit at the very instant an ICMP_CLOSE frame is written to that
// exit: the reply is read from the socket while the session is being closed
// (C04: whatever the exit still sends for that session must be sealed).
func (ts *TunnelSet) watchICMPClose() {
	ts.holdICMPReplies = true
	ts.m.Tap.OnFrame = append(ts.m.Tap.OnFrame, func(ev *FrameEvent) {
		if ev.Type != protocol.FrameICMPClose {
			return
		}
		if n := simicmp.W().ReleaseHeld(ev.To); n > 0 {
			simrt.Probe("icmp_reply_arrives_with_close")
		}
	})
}
