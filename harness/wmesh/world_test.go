package wmesh

import (
	"testing"
	"time"

	"github.com/postalsys/muti-metroo/internal/verifrt/simrt"
	"github.com/postalsys/muti-metroo/internal/verifsim/hc"
)

func TestWorld(t *testing.T) {
	hc.Main(t, &hc.World{
		Name:         "W-mesh",
		Run:          run,
		PreemptMeans: []int{0, 0, 50, 200, 1000},
		MaxSteps:     30_000_000,
		MaxSimTime:   12 * time.Hour,
		FreezeOneIn:  10,
		// an agent that panics takes every tunnel through it down
		PanicIsViolation: map[string]bool{"C16": true, "C17": true, "C07": true},
		FreezeMax:        3000,
	})
}

func run(prop string) {
	switch prop {
	case "SMOKE":
		runSmoke()
	case "C12":
		runC12()
	case "C13":
		runC13()
	case "C15":
		runC15()
	case "C11":
		runC11()
	case "C14":
		runC14()
	case "C06":
		runC06()
	case "C02":
		runDuplicateAck(prop)
	case "C18":
		if simrt.Chance(1, 2, "raw-upload") {
			runRawUpload()
		} else {
			runForeignClose()
		}
	case "C03", "C04", "C07", "C16", "C17":
		if prop == "C16" && simrt.Chance(1, 8, "udp-association-churn") {
			runUDPAssociationChurn()
			return
		}
		if prop == "C16" && simrt.Chance(1, 10, "foreign-close") {
			runForeignClose()
			return
		}
		if (prop == "C03" || prop == "C04") && simrt.Chance(1, 12, "duplicated-open-ack") {
			runDuplicateAck(prop)
			return
		}
		if prop == "C17" && simrt.Chance(1, 8, "open-races-upstream-loss") {
			runOpenRacesUpstreamLoss()
			return
		}
		if (prop == "C16" || prop == "C03") && simrt.Chance(1, 10, "late-ack-after-relay-loss") {
			runLateAckAfterRelayLoss(prop)
			return
		}
		if prop == "C16" && simrt.Chance(1, 6, "reopen-after-reconnect") {
			runReopenAfterReconnect()
			return
		}
		if prop == "C04" && simrt.Chance(1, 10, "udp-open-races-exit-loss") {
			runUDPOpenRacesExitLoss()
			return
		}
		if prop == "C04" && simrt.Chance(1, 8, "transit-fallback") {
			runTransitFallback()
			return
		}
		runTunnels(prop)
	default:
		panic("W-mesh does not decide " + prop)
	}
}
