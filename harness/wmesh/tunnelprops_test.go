package wmesh

import (
	"bytes"
	"context"
	"crypto/cipher"
	"encoding/binary"
	"encoding/hex"
	"fmt"
	"net"
	"time"

	"golang.org/x/crypto/chacha20poly1305"

	"github.com/postalsys/muti-metroo/internal/agent"
	"github.com/postalsys/muti-metroo/internal/crypto"
	"github.com/postalsys/muti-metroo/internal/health"
	"github.com/postalsys/muti-metroo/internal/identity"

	"github.com/postalsys/muti-metroo/internal/protocol"
	"github.com/postalsys/muti-metroo/internal/verifrt/simnet"
	"github.com/postalsys/muti-metroo/internal/verifrt/simrt"
	. "github.com/postalsys/muti-metroo/internal/verifsim/meshkit"
)

// tunnelMesh draws a mesh for the tunnel family. collisionFree => a chain whose
// tunnels all enter at node 0 (stream ids are then unique at every agent).
func tunnelMesh(collisionFree bool, maxN int) *Mesh {
	var m *Mesh
	if collisionFree {
		n := 2 + simrt.Choose(maxN-1, "n")
		m = NewMesh(n, "chain")
	} else {
		n := 3 + simrt.Choose(maxN-2, "n")
		m = NewMesh(n, []string{"star", "diamond", "tree", "ring", "random"}[simrt.Choose(5, "topo")])
	}
	iv := []time.Duration{20 * time.Second, 5 * time.Second}[simrt.Choose(2, "advint")]
	m.TunnelExit = 1 + simrt.Choose(len(m.Nodes)-1, "exit")
	for j, nd := range m.Nodes {
		nd.Cfg.Routing.AdvertiseInterval = iv
		nd.Cfg.Routing.RouteTTL = 10 * time.Minute
		nd.Cfg.Connections.IdleThreshold = 60 * time.Second // keepalive interval and idle timeout of exit connections
		nd.Cfg.UDP.IdleTimeout = 60 * time.Second
		if j == 0 && collisionFree {
			continue
		}
		nd.Cfg.Exit.Enabled = true
		nd.Cfg.Exit.Routes = []string{fmt.Sprintf("10.%d.0.0/16", 100+j)}
		if collisionFree && j == m.TunnelExit {
			// a UDP association needs a route that covers 0.0.0.0
			nd.Cfg.Exit.Routes = append(nd.Cfg.Exit.Routes, "0.0.0.0/0")
		}
		nd.Cfg.Exit.DomainRoutes = []string{fmt.Sprintf("*.svc%d.example.com", j)}
	}
	lat := []time.Duration{0, 2 * time.Millisecond, 20 * time.Millisecond, 120 * time.Millisecond}[simrt.Choose(4, "latency")]
	m.Net.DefaultLatency = func(l *simnet.Link) [2]time.Duration { return [2]time.Duration{lat, lat} }
	simrt.Eventf("tunnel mesh n=%d collisionFree=%v edges=%v latency=%v exit=%d", len(m.Nodes), collisionFree, m.Edges, lat, m.TunnelExit)
	return m
}

var tunnelKinds = []string{"tcp", "domain", "forward"}
var clientCloses = []string{"closewrite-then-read", "close-after-read"}
var serverCloses = []string{"after-eof", "after-send"}

func drawTunnel(m *Mesh, collisionFree bool, maxBytes int) *Tunnel {
	t := &Tunnel{}
	t.Kind = tunnelKinds[simrt.Choose(len(tunnelKinds), "kind")]
	if collisionFree {
		// one ingress and ONE exit per run: every agent then sees the tunnels'
		// stream ids on one inbound and one outbound connection only. (Tunnels
		// that leave the chain at different agents are not collision-free: a
		// close frame arriving from downstream for id k after its relay entry is
		// gone falls through to the local exit/forward handler's stream k.)
		t.Ingress = 0
		t.Exit = m.TunnelExit
	} else {
		t.Ingress = simrt.Choose(len(m.Nodes), "ingress")
		t.Exit = simrt.Choose(len(m.Nodes), "exit")
		if t.Exit == t.Ingress {
			t.Exit = (t.Exit + 1) % len(m.Nodes)
		}
		if !m.Nodes[t.Exit].Cfg.Exit.Enabled {
			t.Exit = len(m.Nodes) - 1
			if t.Exit == t.Ingress {
				t.Exit--
			}
		}
	}
	t.Up = drawTotal(maxBytes)
	t.Down = drawTotal(maxBytes)
	t.WriteSizes = drawSizes(t.Up)
	t.ClientClose = clientCloses[simrt.Choose(len(clientCloses), "cclose")]
	t.ServerClose = serverCloses[simrt.Choose(len(serverCloses), "sclose")]
	if t.ClientClose == "close-after-read" && t.ServerClose == "after-eof" {
		// nobody would ever finish: the client waits for Down bytes, then closes; fine
	}
	return t
}

func drawTotal(maxBytes int) int {
	switch simrt.Choose(5, "total") {
	case 0:
		return 1 + simrt.Choose(2000, "small")
	case 1:
		return edgeSizes[simrt.Choose(len(edgeSizes), "edgetotal")]
	case 2:
		return 0
	default:
		return simrt.Choose(maxBytes, "big")
	}
}

func runTunnels(prop string) {
	// "collision-free" = a chain with one ingress. Since per-connection stream ids
	// start at a random point (fix 03b8eea) no topology makes honest agents share
	// an id any more; the other topologies (several ingresses toward one transit
	// or exit, rings, diamonds) are drawn for every property of the family.
	collisionFree := !simrt.Chance(1, 4, "collision-prone")
	m := tunnelMesh(collisionFree, 5)
	if prop == "C03" {
		// every exit also answers UDP_OPEN and ICMP_OPEN (crafted opens with degenerate keys)
		for _, nd := range m.Nodes {
			if nd.Cfg.Exit.Enabled {
				nd.Cfg.UDP.Enabled = true
				nd.Cfg.ICMP.Enabled = true
			}
		}
	}
	ts := NewTunnelSet(m)
	defer ts.CleanupFiles()
	ts.DecideDelivery = prop == "C07"
	ts.SlowConnects = prop == "C16" || prop == "C17"
	maxBytes := 200_000
	if prop == "C07" && simrt.Chance(1, 8, "huge") {
		maxBytes = 4 << 20
	}
	k := 1 + simrt.Choose(8, "tunnels")
	if prop == "C07" {
		k = 1 + simrt.Choose(3, "tunnels")
	}
	for i := 0; i < k; i++ {
		ts.Add(drawTunnel(m, collisionFree, maxBytes))
	}
	if prop == "C04" {
		// the client walks away while the destination is still sending: the exit
		// tears the tunnel down with data of the destination in hand
		for _, t := range ts.T {
			if (t.Kind == "tcp" || t.Kind == "domain" || t.Kind == "forward") && t.Down > 2000 && simrt.Chance(1, 3, "early-close") {
				t.EarlyClose = 1 + simrt.Choose(t.Down/2, "early-close-at")
				t.ClientClose = "close-after-read"
				t.faulted = true // completeness is not demanded of it
			}
		}
	}
	if prop == "C17" || prop == "C16" {
		// opens that fail at the exit: nothing listens at the destination
		for q := simrt.Choose(3, "refused-opens"); q > 0; q-- {
			t := drawTunnel(m, collisionFree, 1000)
			if t.Kind == "domain" {
				t.Kind = "tcp"
			}
			t.NoServer = true
			ts.Add(t)
		}
	}
	if collisionFree && prop != "C07" && simrt.Chance(1, 3, "udp-tunnel") {
		u := &Tunnel{Kind: "udp", Ingress: 0, Exit: m.TunnelExit, Up: 1 + simrt.Choose(30, "udpcount")}
		ts.Add(u)
		simrt.Probe("udp_tunnel")
	}
	if collisionFree && prop != "C07" && simrt.Chance(1, 3, "icmp-tunnel") {
		for q := 1 + simrt.Choose(2, "icmpsessions"); q > 0; q-- {
			ts.Add(&Tunnel{Kind: "icmp", Ingress: 0, Exit: m.TunnelExit, Up: 1 + simrt.Choose(24, "icmpcount")})
		}
		simrt.Probe("icmp_tunnel")
	}
	if collisionFree {
		// remote shell sessions and file transfers (ingress node 0, the run's exit);
		// C07 draws them often, never more than a few at a time
		num, den := 1, 4
		if prop == "C07" {
			num, den = 1, 2
		}
		if simrt.Chance(num, den, "shell-tunnel") {
			for q := 1 + simrt.Choose(2, "shellsessions"); q > 0; q-- {
				ts.Add(drawShellTunnel(m, prop))
			}
		}
		if simrt.Chance(num, den, "file-tunnel") {
			for q := 1 + simrt.Choose(2, "filetransfers"); q > 0; q-- {
				ts.Add(drawFileTunnel(m, prop))
			}
		}
	}
	if (prop == "C16" || prop == "C07") && collisionFree && simrt.Chance(1, 8, "stall-scenario") {
		// a slow reader on one tunnel while a sibling on the same connections
		// moves more frames than any per-connection queue holds
		slow := drawTunnel(m, true, maxBytes)
		slow.Down, slow.Up = 1_200_000, 10
		slow.WriteSizes = []int{10}
		slow.SlowStart = time.Duration(2+simrt.Choose(12, "slowfor")) * time.Second
		slow.ClientClose, slow.ServerClose = "closewrite-then-read", "after-eof"
		ts.Add(slow)
		big := drawTunnel(m, true, maxBytes)
		big.Down, big.Up = 6_000_000, 100
		big.WriteSizes = []int{100}
		big.ClientClose, big.ServerClose = "closewrite-then-read", "after-eof"
		ts.Add(big)
		simrt.Probe("stall_scenario")
	}
	if prop == "C04" || prop == "C07" {
		m.Tap.OnFrame = append(m.Tap.OnFrame, ts.inspectData)
	}
	if prop == "C04" {
		ts.watchICMPClose()
	}
	if prop == "C03" {
		ts.OnOpen = ts.checkKey
	}
	BootAndConverge(m)
	for _, t := range ts.T {
		ts.Start(t)
		if simrt.Chance(1, 2, "stagger") {
			simrt.Sleep(time.Duration(simrt.Choose(3000, "staggerms")) * time.Millisecond)
		}
		if prop == "C03" || prop == "C04" {
			simrt.Sleep(200 * time.Millisecond)
		}
	}
	if prop == "C03" {
		ts.Wait(20 * time.Minute)
		degenerateKeyChecks(m)
		keyDerivationChecks()
	}
	if prop == "C04" {
		simrt.Sleep(500 * time.Millisecond)
		ts.checkTransitKeyless()
	}
	if prop == "C17" && collisionFree && len(m.Nodes[m.TunnelExit].Cfg.Listeners) > 0 && simrt.Chance(1, 2, "crafted-refusals") {
		// opens that the exit refuses (destination outside its networks, unknown
		// forward key), sent by a raw peer; refused opens must leave nothing behind
		if rp, err := m.AttachRawPeer(m.TunnelExit, 3); err == nil {
			n := 1 + simrt.Choose(4, "nrefusals")
			for q := 0; q < n; q++ {
				sid := uint64(2001 + 2*q)
				so := &protocol.StreamOpen{RequestID: uint64(9000 + q), AddressType: protocol.AddrTypeIPv4, Address: []byte{203, 0, 113, byte(9 + q)}, Port: 80}
				_, pub, _ := crypto.GenerateEphemeralKeypair()
				so.EphemeralPubKey = pub
				if q%2 == 1 {
					name := protocol.ForwardStreamPrefix + "no-such-key"
					so.AddressType = protocol.AddrTypeDomain
					so.Address = append([]byte{byte(len(name))}, name...)
					so.Port = 0
				}
				rp.Send(&protocol.Frame{Type: protocol.FrameStreamOpen, StreamID: sid, Payload: so.Encode()})
				simrt.Probe("crafted_open_refused_by_exit")
			}
			simrt.Sleep(2 * time.Second)
			rp.Close()
		}
	}
	if prop == "C17" || prop == "C16" {
		ts.injectFaults(prop)
	}
	if !ts.Wait(20 * time.Minute) {
		simrt.Eventf("tunnels still pending after limit: %d", ts.group.Pending())
	}
	ts.CheckComplete()
	switch prop {
	case "C07":
		if ts.MaxPayload > protocol.MaxPayloadSize {
			simrt.Failf("frame-payload-too-large", "frame payload exceeds 16384 bytes", "largest payload seen on a link: %d", ts.MaxPayload)
		}
		if ts.MaxPayload == protocol.MaxPayloadSize {
			simrt.Probe("c07_full_size_frame")
		}
	case "C17":
		ts.checkDrained()
	}
	m.StopAll()
}

var zeroKeyAEAD = func() cipher.AEAD {
	a, err := chacha20poly1305.New(make([]byte, 32))
	if err != nil {
		panic(err)
	}
	return a
}()

// inspectData is the C04/C07 wire monitor: no plaintext marker of any tunnel in
// a relayed STREAM_DATA payload, and payload length = plaintext chunk + 28.
func (ts *TunnelSet) inspectData(ev *FrameEvent) {
	if len(ev.Payload) > protocol.MaxPayloadSize {
		simrt.Failf("frame-payload-too-large", "frame payload exceeds 16384 bytes", "%s", ev)
	}
	if ev.Type != protocol.FrameStreamData && ev.Type != protocol.FrameUDPDatagram && ev.Type != protocol.FrameICMPEcho {
		return
	}
	ts.DataFrames++
	p := ev.Payload
	if ev.Type == protocol.FrameUDPDatagram {
		simrt.Probe("c04_udp_datagram_inspected")
	}
	if ev.Type == protocol.FrameICMPEcho {
		simrt.Probe("c04_icmp_echo_inspected")
		for i := 0; i+8 <= len(p); i++ {
			if id, ok := ts.markers[binary.LittleEndian.Uint64(p[i:])]; ok {
				simrt.Failf("plaintext-on-mesh-link", "application bytes visible in a relayed frame", "frame %s carries plaintext of tunnel %d at payload offset %d", ev, id, i)
			}
		}
		if e, err := protocol.DecodeICMPEcho(p); err != nil {
			simrt.Failf("data-frame-not-sealed", "ICMP_ECHO frame on a mesh link does not decode", "%s: %v", ev, err)
		} else if len(e.Data) < 28 {
			simrt.Failf("data-frame-not-sealed", "echo payload shorter than nonce+tag", "%s", ev)
		}
		return
	}
	for i := 0; i+8 <= len(p); i++ {
		if id, ok := ts.markers[binary.LittleEndian.Uint64(p[i:])]; ok {
			simrt.Failf("plaintext-on-mesh-link", "application bytes visible in a relayed frame", "frame %s carries plaintext of tunnel %d at payload offset %d", ev, id, i)
		}
	}
	if len(p) >= 28 {
		// sealed, but under the tunnel's key? A key everybody knows (all zero:
		// what a wiped key object yields) is as good as none.
		if _, err := zeroKeyAEAD.Open(nil, p[:12], p[12:], nil); err == nil {
			simrt.Failf("sealed-under-public-key", "application bytes on a mesh link are sealed under a key everybody can compute", "frame %s opens under the all-zero key", ev)
		}
	}
	if len(p) > 0 && len(p) < 28 {
		// an empty data frame (a bare FIN) carries no application byte
		simrt.Failf("data-frame-not-sealed", "non-empty data frame shorter than nonce+tag", "%s", ev)
	}
}

// checkKey is the C03 oracle for one tunnel, evaluated right after its open completed.
func (ts *TunnelSet) checkKey(t *Tunnel) {
	if t.Kind == "udp" {
		ts.checkUDPKey(t)
		return
	}
	if t.Kind == "icmp" {
		ts.checkICMPKey(t)
		return
	}
	if t.Kind == "shell" {
		ts.checkShellKey(t)
		return
	}
	if t.Kind == "file" {
		ts.checkFileKey(t)
		return
	}
	if t.key == nil && t.faulted && len(t.hops) == 0 {
		// The SOCKS5 ingress connects directly when it has no route for the
		// destination; a fault can take the route away before the request is
		// looked up. That connection never enters the mesh: it is not a tunnel.
		for _, d := range ts.m.Net.Dials {
			if d.Address == t.Addr && d.Node == ts.m.Nodes[t.Ingress].Name {
				simrt.Probe("socks_direct_connection_without_route_after_fault")
				return
			}
		}
	}
	if t.key == nil {
		simrt.Failf("tunnel-without-key", "opened tunnel has no session key at the ingress", "tunnel %d (%s)", t.ID, t.Kind)
	}
	k := t.key.Key()
	if k == ([32]byte{}) {
		simrt.Failf("tunnel-without-key", "opened tunnel has an all-zero session key at the ingress", "tunnel %d (%s)", t.ID, t.Kind)
	}
	if ts.keys == nil {
		ts.keys = map[[32]byte]int{}
	}
	if o, dup := ts.keys[k]; dup && o != t.ID {
		simrt.Failf("tunnels-share-a-key", "two tunnels derived the same session key", "tunnels %d and %d", o, t.ID)
	}
	ts.keys[k] = t.ID
	if len(t.hops) == 0 {
		simrt.Failf("harness", "tunnel hops not observed", "tunnel %d", t.ID)
	}
	last := t.hops[len(t.hops)-1]
	ex := ts.m.Nodes[t.Exit]
	var rk *[32]byte
	if t.Kind == "forward" {
		if h := ex.A.VerifForwardHandler(); h != nil {
			for _, ac := range h.VerifConnections() {
				if ac.StreamID == last.ID && ac.VerifSessionKey() != nil {
					kk := ac.VerifSessionKey().Key()
					rk = &kk
				}
			}
		}
	} else if h := ex.A.VerifExitHandler(); h != nil {
		for _, ac := range h.VerifConnections() {
			if ac.StreamID == last.ID && ac.VerifSessionKey() != nil {
				kk := ac.VerifSessionKey().Key()
				rk = &kk
			}
		}
	}
	if rk == nil {
		simrt.Probe("c03_responder_record_gone")
		return
	}
	simrt.Probe("c03_key_pair_compared_" + t.Kind)
	if !bytes.Equal(rk[:], k[:]) {
		simrt.Failf("ends-derived-different-keys", "ingress and exit hold different session keys ("+t.Kind+")", "tunnel %d", t.ID)
	}
}

// checkUDPKey: the UDP association's key at the ingress equals the one at the exit.
func (ts *TunnelSet) checkUDPKey(t *Tunnel) {
	if len(t.hops) == 0 {
		simrt.Probe("c03_udp_open_not_observed")
		return
	}
	first, last := t.hops[0], t.hops[len(t.hops)-1]
	ik := ts.m.Nodes[t.Ingress].A.VerifUDPIngressKeys()[first.ID]
	var ek *[32]byte
	if h := ts.m.Nodes[t.Exit].A.VerifUDPHandler(); h != nil {
		if a := h.GetAssociation(last.ID); a != nil && a.SessionKey != nil {
			kk := a.SessionKey.Key()
			ek = &kk
		}
	}
	if ik == nil || ek == nil {
		simrt.Probe("c03_responder_record_gone")
		return
	}
	k := ik.Key()
	if k == ([32]byte{}) {
		simrt.Failf("tunnel-without-key", "opened tunnel has an all-zero session key at the ingress", "tunnel %d (udp)", t.ID)
	}
	if ts.keys == nil {
		ts.keys = map[[32]byte]int{}
	}
	if o, dup := ts.keys[k]; dup && o != t.ID {
		simrt.Failf("tunnels-share-a-key", "two tunnels derived the same session key", "tunnels %d and %d", o, t.ID)
	}
	ts.keys[k] = t.ID
	simrt.Probe("c03_key_pair_compared_udp")
	if !bytes.Equal(ek[:], k[:]) {
		simrt.Failf("ends-derived-different-keys", "ingress and exit hold different session keys (udp)", "tunnel %d", t.ID)
	}
}

// checkICMPKey: the ICMP session's key at the ingress equals the one at the exit.
func (ts *TunnelSet) checkICMPKey(t *Tunnel) {
	if len(t.hops) == 0 || !t.Opened {
		simrt.Probe("c03_icmp_open_not_observed")
		return
	}
	first, last := t.hops[0], t.hops[len(t.hops)-1]
	ik := ts.m.Nodes[t.Ingress].A.VerifICMPIngressKeys()[first.ID]
	var ek *[32]byte
	if h := ts.m.Nodes[t.Exit].A.VerifICMPHandler(); h != nil {
		if s := h.GetSession(last.ID); s != nil && s.GetSessionKey() != nil {
			kk := s.GetSessionKey().Key()
			ek = &kk
		}
	}
	if ik == nil && ek == nil {
		if _, present := ts.m.Nodes[t.Ingress].A.VerifICMPIngressKeys()[first.ID]; present {
			simrt.Failf("tunnel-without-key", "opened tunnel has no session key at the ingress", "tunnel %d (icmp via %s)", t.ID, t.ICMPVia)
		}
	}
	if ik == nil || ek == nil {
		simrt.Probe("c03_responder_record_gone")
		return
	}
	k := ik.Key()
	if k == ([32]byte{}) {
		simrt.Failf("tunnel-without-key", "opened tunnel has an all-zero session key at the ingress", "tunnel %d (icmp)", t.ID)
	}
	if ts.keys == nil {
		ts.keys = map[[32]byte]int{}
	}
	if o, dup := ts.keys[k]; dup && o != t.ID {
		simrt.Failf("tunnels-share-a-key", "two tunnels derived the same session key", "tunnels %d and %d", o, t.ID)
	}
	ts.keys[k] = t.ID
	simrt.Probe("c03_key_pair_compared_icmp")
	if !bytes.Equal(ek[:], k[:]) {
		simrt.Failf("ends-derived-different-keys", "ingress and exit hold different session keys (icmp)", "tunnel %d", t.ID)
	}
}

// the all-zero key and the small-order points of Curve25519
var degenerateKeys = [][32]byte{
	{},
	{1},
	hex32("e0eb7a7c3b41b8ae1656e3faf19fc46ada098deb9c32b1fd866205165f49b800"),
	hex32("5f9c95bca3508c24b1d0b1559c83ef5b04445cc4581c8e86d8224eddd09f1157"),
	hex32("ecffffffffffffffffffffffffffffffffffffffffffffffffffffffffffff7f"),
	hex32("edffffffffffffffffffffffffffffffffffffffffffffffffffffffffffff7f"),
	hex32("eeffffffffffffffffffffffffffffffffffffffffffffffffffffffffffff7f"),
}

func hex32(s string) [32]byte {
	var out [32]byte
	b, err := hex.DecodeString(s)
	if err != nil || len(b) != 32 {
		panic("bad hex32")
	}
	copy(out[:], b)
	return out
}

// degenerateKeyChecks: a raw peer offers degenerate ephemeral keys to a responder
// (crafted STREAM_OPEN) and to an initiator (crafted STREAM_OPEN_ACK).
func degenerateKeyChecks(m *Mesh) {
	// (a) responder side: the last node is an exit with a listener? pick any exit with a listener
	target := -1
	for j, nd := range m.Nodes {
		if nd.Cfg.Exit.Enabled && len(nd.Cfg.Listeners) > 0 {
			target = j
		}
	}
	if target >= 0 {
		rp, err := m.AttachRawPeer(target, 1)
		if err != nil {
			simrt.Failf("harness", "raw peer attach failed", "%v", err)
		}
		m.Net.ServeTCP(fmt.Sprintf("10.%d.66.6:80", 100+target), EchoServer)
		n := 1 + simrt.Choose(3, "ndegen")
		for q := 0; q < n; q++ {
			key := degenerateKeys[simrt.Choose(len(degenerateKeys), "degen")]
			kind := simrt.Choose(2, "openkind")
			sid := uint64(1001 + 2*q)
			so := &protocol.StreamOpen{RequestID: uint64(7000 + q), AddressType: protocol.AddrTypeIPv4, Address: []byte{10, byte(100 + target), 66, 6}, Port: 80, EphemeralPubKey: key}
			if kind == 1 && len(m.Nodes[target].Cfg.Forward.Endpoints) > 0 {
				name := protocol.ForwardStreamPrefix + m.Nodes[target].Cfg.Forward.Endpoints[0].Key
				so.AddressType = protocol.AddrTypeDomain
				so.Address = append([]byte{byte(len(name))}, name...)
				so.Port = 0
			}
			from := len(rp.Received)
			rp.Send(&protocol.Frame{Type: protocol.FrameStreamOpen, StreamID: sid, Payload: so.Encode()})
			simrt.Probe("c03_degenerate_key_to_responder")
			f, _ := rp.WaitFrame(from, 20*time.Second, func(f *protocol.Frame) bool {
				return f.StreamID == sid && (f.Type == protocol.FrameStreamOpenAck || f.Type == protocol.FrameStreamOpenErr)
			})
			if f != nil && f.Type == protocol.FrameStreamOpenAck {
				simrt.Failf("degenerate-key-accepted", "responder acknowledged a tunnel opened with a degenerate remote key", "exit %s acked an open whose ephemeral key is %x", m.Nodes[target].Name, key[:4])
			}
			// and no usable record exists
			if h := m.Nodes[target].A.VerifExitHandler(); h != nil {
				for _, ac := range h.VerifConnections() {
					if ac.StreamID == sid {
						simrt.Failf("degenerate-key-accepted", "responder keeps a connection record for a tunnel opened with a degenerate remote key", "exit %s stream %d", m.Nodes[target].Name, sid)
					}
				}
			}
		}
		rp.Close()
	}
	// (b) initiator side: a raw peer poses as an exit for 10.77.0.0/16 and answers
	// opens with a degenerate key (or, as a control, with a genuine one)
	host := -1
	for j, nd := range m.Nodes {
		if len(nd.Cfg.Listeners) > 0 {
			host = j
			break
		}
	}
	if host < 0 {
		return
	}
	rp, err := m.AttachRawPeer(host, 2)
	if err != nil {
		simrt.Failf("harness", "raw peer attach failed", "%v", err)
	}
	adv := &protocol.RouteAdvertise{OriginAgent: rp.ID, Sequence: 1,
		Routes:  []protocol.Route{{AddressFamily: protocol.AddrFamilyIPv4, PrefixLength: 16, Prefix: []byte{10, 77, 0, 0}, Metric: 0}, {AddressFamily: protocol.AddrFamilyIPv4, PrefixLength: 0, Prefix: []byte{0, 0, 0, 0}, Metric: 0}},
		EncPath: &protocol.EncryptedData{Data: protocol.EncodePath([]identity.AgentID{rp.ID})}, SeenBy: []identity.AgentID{rp.ID}}
	rp.Send(&protocol.Frame{Type: protocol.FrameRouteAdvertise, StreamID: protocol.ControlStreamID, Payload: adv.Encode()})
	simrt.Sleep(3 * time.Second)
	rounds := 1 + simrt.Choose(3, "ackrounds")
	for q := 0; q < rounds; q++ {
		genuine := simrt.Chance(1, 4, "genuine-control")
		key := degenerateKeys[simrt.Choose(len(degenerateKeys), "degen")]
		var dialErr error
		var conn net.Conn
		var g simrt.Group
		g.Go("degenerate-dial", func() {
			simrt.SetNode(m.Nodes[host].Name)
			ctx, cancel := context.WithTimeout(context.Background(), 20*time.Second)
			defer cancel()
			conn, dialErr = m.Nodes[host].A.DialContext(ctx, "tcp", fmt.Sprintf("10.77.1.%d:80", q+1))
		})
		from := len(rp.Received)
		f, _ := rp.WaitFrame(from, 10*time.Second, func(f *protocol.Frame) bool { return f.Type == protocol.FrameStreamOpen })
		if f == nil {
			g.Wait()
			simrt.Probe("c03_fake_exit_not_reached")
			continue
		}
		so, derr := protocol.DecodeStreamOpen(f.Payload)
		if derr != nil {
			simrt.Failf("harness", "crafted exit could not decode the open", "%v", derr)
		}
		if genuine {
			_, pub, _ := crypto.GenerateEphemeralKeypair()
			key = pub
		}
		ack := &protocol.StreamOpenAck{RequestID: so.RequestID, BoundAddrType: protocol.AddrTypeIPv4, BoundAddr: []byte{10, 77, 0, 1}, BoundPort: 5555, EphemeralPubKey: key}
		rp.Send(&protocol.Frame{Type: protocol.FrameStreamOpenAck, StreamID: f.StreamID, Payload: ack.Encode()})
		g.Wait()
		if genuine {
			simrt.Probe("c03_genuine_ack_control")
			if dialErr != nil {
				simrt.Failf("harness", "control: open answered with a genuine key failed", "%v", dialErr)
			}
			conn.Close()
			continue
		}
		simrt.Probe("c03_degenerate_key_to_initiator")
		if dialErr == nil {
			k, _ := agent.VerifConnSession(conn)
			simrt.Failf("degenerate-key-accepted", "initiator produced a usable tunnel from a degenerate remote key", "ingress %s accepted an ack whose ephemeral key is %x (key present=%v)", m.Nodes[host].Name, key[:4], k != nil)
		}
	}
	// (c) datagram tunnel kinds, initiator side: the crafted exit answers UDP_OPEN
	// and ICMP_OPEN with a degenerate key (or, as a control, with a genuine one)
	for q := simrt.Choose(3, "dgramrounds"); q > 0; q-- {
		genuine := simrt.Chance(1, 4, "genuine-control")
		key := degenerateKeys[simrt.Choose(len(degenerateKeys), "degen")]
		if genuine {
			_, pub, _ := crypto.GenerateEphemeralKeypair()
			key = pub
		}
		kind := []string{"udp", "icmp-socks", "icmp-ping-api"}[simrt.Choose(3, "dgramkind")]
		dst := net.IPv4(10, 77, 2, byte(q)).To4()
		canary := []byte(fmt.Sprintf("degenerate-canary-%d-%s-0123456789abcdef", q, kind))
		var openErr error
		var g simrt.Group
		nd := m.Nodes[host]
		from := len(rp.Received)
		g.Go("degenerate-dgram", func() {
			simrt.SetNode(nd.Name)
			ctx, cancel := context.WithTimeout(context.Background(), 20*time.Second)
			defer cancel()
			switch kind {
			case "udp":
				sid, err := nd.A.CreateUDPAssociation(ctx, nil)
				if err != nil {
					simrt.Failf("harness", "UDP association could not be created", "%v", err)
				}
				openErr = nd.A.RelayUDPDatagram(sid, &net.UDPAddr{IP: dst, Port: 53}, 53, protocol.AddrTypeIPv4, dst, canary)
				simrt.Sleep(time.Second)
				nd.A.CloseUDPAssociation(sid)
			case "icmp-socks":
				var sid uint64
				sid, openErr = nd.A.CreateICMPSession(ctx, dst)
				if openErr == nil {
					nd.A.RelayICMPEcho(sid, 7, 1, canary)
					simrt.Sleep(time.Second)
					nd.A.CloseICMPSession(sid)
				}
			case "icmp-ping-api":
				sess, err := nd.A.OpenICMPSession(ctx, rp.ID, dst)
				openErr = err
				if err == nil {
					simrt.Chan(sess.SendEcho).Send(&health.ICMPEchoRequest{Identifier: 7, Sequence: 1, Payload: canary})
					simrt.Sleep(time.Second)
					sess.Close()
				}
			}
		})
		wantOpen := protocol.FrameUDPOpen
		if kind != "udp" {
			wantOpen = protocol.FrameICMPOpen
		}
		f, _ := rp.WaitFrame(from, 10*time.Second, func(f *protocol.Frame) bool { return f.Type == wantOpen })
		if f == nil {
			g.Wait()
			simrt.Probe("c03_fake_exit_not_reached")
			continue
		}
		if kind == "udp" {
			uo, derr := protocol.DecodeUDPOpen(f.Payload)
			if derr != nil {
				simrt.Failf("harness", "crafted exit could not decode the open", "%v", derr)
			}
			ack := &protocol.UDPOpenAck{RequestID: uo.RequestID, BoundAddrType: protocol.AddrTypeIPv4, BoundAddr: []byte{10, 77, 0, 1}, BoundPort: 5555, EphemeralPubKey: key}
			rp.Send(&protocol.Frame{Type: protocol.FrameUDPOpenAck, StreamID: f.StreamID, Payload: ack.Encode()})
		} else {
			io, derr := protocol.DecodeICMPOpen(f.Payload)
			if derr != nil {
				simrt.Failf("harness", "crafted exit could not decode the open", "%v", derr)
			}
			ack := &protocol.ICMPOpenAck{RequestID: io.RequestID, EphemeralPubKey: key}
			rp.Send(&protocol.Frame{Type: protocol.FrameICMPOpenAck, StreamID: f.StreamID, Payload: ack.Encode()})
		}
		g.Wait()
		if genuine {
			simrt.Probe("c03_genuine_ack_control_" + kind)
			if openErr != nil {
				simrt.Failf("harness", "control: datagram tunnel answered with a genuine key failed", "%s: %v", kind, openErr)
			}
			continue
		}
		simrt.Probe("c03_degenerate_key_to_initiator_" + kind)
		leaked := false
		for _, rf := range rp.Received[from:] {
			if (rf.Type == protocol.FrameUDPDatagram || rf.Type == protocol.FrameICMPEcho) && bytes.Contains(rf.Payload, canary) {
				leaked = true
			}
		}
		if openErr == nil || leaked {
			simrt.Failf("degenerate-key-accepted", "initiator produced a usable tunnel from a degenerate remote key ("+kind+")", "ingress %s accepted an ack whose ephemeral key is %x: open error=%v, application bytes sent in the clear=%v", nd.Name, key[:4], openErr, leaked)
		}
	}
	// (d) datagram tunnel kinds, responder side: crafted UDP_OPEN / ICMP_OPEN with a
	// low-order key must be refused. (The all-zero value is these two protocols'
	// "no key offered" marker on the responder side; nothing is derived from it.)
	if target >= 0 && (m.Nodes[target].Cfg.UDP.Enabled || m.Nodes[target].Cfg.ICMP.Enabled) {
		if rp2, err := m.AttachRawPeer(target, 4); err == nil {
			for q := simrt.Choose(3, "dgramresp"); q > 0; q-- {
				key := degenerateKeys[1+simrt.Choose(len(degenerateKeys)-1, "degen-nonzero")]
				sid := uint64(3001 + 2*q)
				from := len(rp2.Received)
				var ackT, errT uint8
				if m.Nodes[target].Cfg.ICMP.Enabled && (!m.Nodes[target].Cfg.UDP.Enabled || simrt.Chance(1, 2, "resp-icmp")) {
					op := &protocol.ICMPOpen{RequestID: uint64(8100 + q), DestIP: []byte{10, byte(100 + target), 8, 200}, TTL: 1, EphemeralPubKey: key}
					rp2.Send(&protocol.Frame{Type: protocol.FrameICMPOpen, StreamID: sid, Payload: op.Encode()})
					ackT, errT = protocol.FrameICMPOpenAck, protocol.FrameICMPOpenErr
					simrt.Probe("c03_degenerate_key_to_responder_icmp")
				} else {
					op := &protocol.UDPOpen{RequestID: uint64(8000 + q), AddressType: protocol.AddrTypeIPv4, Address: []byte{0, 0, 0, 0}, TTL: 1, EphemeralPubKey: key}
					rp2.Send(&protocol.Frame{Type: protocol.FrameUDPOpen, StreamID: sid, Payload: op.Encode()})
					ackT, errT = protocol.FrameUDPOpenAck, protocol.FrameUDPOpenErr
					simrt.Probe("c03_degenerate_key_to_responder_udp")
				}
				f, _ := rp2.WaitFrame(from, 20*time.Second, func(f *protocol.Frame) bool { return f.StreamID == sid && (f.Type == ackT || f.Type == errT) })
				if f != nil && f.Type == ackT {
					simrt.Failf("degenerate-key-accepted", "responder acknowledged a tunnel opened with a degenerate remote key", "exit %s acked a datagram tunnel open (frame type %d) whose ephemeral key is %x", m.Nodes[target].Name, ackT, key[:4])
				}
				if h := m.Nodes[target].A.VerifUDPHandler(); h != nil && h.GetAssociation(sid) != nil {
					simrt.Failf("degenerate-key-accepted", "responder keeps a connection record for a tunnel opened with a degenerate remote key", "exit %s udp stream %d", m.Nodes[target].Name, sid)
				}
				if h := m.Nodes[target].A.VerifICMPHandler(); h != nil && h.GetSession(sid) != nil {
					simrt.Failf("degenerate-key-accepted", "responder keeps a connection record for a tunnel opened with a degenerate remote key", "exit %s icmp stream %d", m.Nodes[target].Name, sid)
				}
			}
			rp2.Close()
		}
	}
	rp.Close()
}

// checkTransitKeyless: transit agents hold no stream / exit / forward record for relayed tunnels.
func (ts *TunnelSet) checkTransitKeyless() {
	if ts.DataFrames > 0 {
		simrt.Probe("c04_data_frames_inspected")
	}
	endpoint := map[int]bool{}
	onPath := map[string]bool{}
	for _, t := range ts.T {
		endpoint[t.Ingress] = true
		endpoint[t.Exit] = true
		for _, h := range t.hops {
			onPath[h.From] = true
			onPath[h.To] = true
		}
	}
	for j, nd := range ts.m.Nodes {
		if endpoint[j] || !onPath[nd.Name] {
			continue
		}
		simrt.Probe("c04_transit_inspected")
		held := ""
		if n := nd.A.VerifStreamManager().StreamCount(); n != 0 {
			held += fmt.Sprintf(" streams=%d", n)
		}
		if h := nd.A.VerifExitHandler(); h != nil && h.ConnectionCount() != 0 {
			held += fmt.Sprintf(" exit.connections=%d", h.ConnectionCount())
		}
		if h := nd.A.VerifForwardHandler(); h != nil && h.ConnectionCount() != 0 {
			held += fmt.Sprintf(" forward.connections=%d", h.ConnectionCount())
		}
		if held != "" {
			simrt.Failf("transit-holds-tunnel-state", "pure transit agent holds an end-point record (and thus a key) for a relayed tunnel", "%s:%s", nd.Name, held)
		}
	}
}

// checkDrained is the C17 oracle: once every tunnel is closed nothing is left.
func (ts *TunnelSet) checkDrained() {
	// every endpoint has closed or failed; records whose far side vanished with a
	// link are reclaimed by the idle timeout (60 s here) at the latest
	ts.m.WaitConnected(5 * time.Minute)
	// (a file-transfer open that could not be sent keeps its pending request
	// until the 5-minute open timeout)
	simrt.Sleep(6 * time.Minute)
	for _, nd := range ts.m.Nodes {
		if !nd.Running {
			continue
		}
		left := ""
		for name, sz := range nd.A.VerifRelaySizes() {
			if sz[0] != 0 || sz[1] != 0 {
				left += fmt.Sprintf(" relay[%s]=%d/%d", name, sz[0], sz[1])
			}
		}
		if !nd.A.VerifRelayIndexConsistent() {
			left += " relay-index-inconsistent"
		}
		if h := nd.A.VerifExitHandler(); h != nil && h.ConnectionCount() != 0 {
			left += fmt.Sprintf(" exit.connections=%d", h.ConnectionCount())
		}
		if h := nd.A.VerifForwardHandler(); h != nil && h.ConnectionCount() != 0 {
			left += fmt.Sprintf(" forward.connections=%d", h.ConnectionCount())
		}
		if n := nd.A.VerifStreamManager().StreamCount(); n != 0 {
			left += fmt.Sprintf(" streams=%d", n)
		}
		if n := nd.A.VerifStreamManager().PendingCount(); n != 0 {
			left += fmt.Sprintf(" pending=%d", n)
		}
		if h := nd.A.VerifUDPHandler(); h != nil && h.ActiveCount() != 0 {
			left += fmt.Sprintf(" udp.associations=%d", h.ActiveCount())
		}
		if h := nd.A.VerifICMPHandler(); h != nil && h.ActiveCount() != 0 {
			left += fmt.Sprintf(" icmp.sessions=%d", h.ActiveCount())
		}
		if sk, ws := nd.A.VerifICMPSessionCounts(); sk != 0 || ws != 0 {
			left += fmt.Sprintf(" icmp_ingress=%d icmp_ping_sessions=%d", sk, ws)
		}
		for _, k := range []string{"udp_ingress_base", "udp_ingress_local"} {
			if n := nd.A.VerifBookkeepingSizes()[k]; n != 0 {
				left += fmt.Sprintf(" %s=%d", k, n)
			}
		}
		// shell sessions and file transfers: reported under a signature of their
		// own when nothing else is left
		leftX := shellLeftovers(nd)
		if nd.Idx == ts.m.TunnelExit {
			leftX += shellProcessesLeft()
		}
		if left == "" && leftX != "" {
			for _, t := range ts.T {
				if c, where := ts.collides(t); c {
					simrt.Failf("stream-id-collision", "bookkeeping left behind after tunnels that shared a stream id at one agent", "%s:%s [%s]", nd.Name, leftX, where)
				}
			}
			simrt.Failf("bookkeeping-not-empty", "shell session or file transfer records remain after all tunnels closed", "%s:%s", nd.Name, leftX)
		}
		left += leftX
		if left != "" {
			for _, t := range ts.T {
				if c, where := ts.collides(t); c {
					simrt.Failf("stream-id-collision", "bookkeeping left behind after tunnels that shared a stream id at one agent", "%s:%s [%s]", nd.Name, left, where)
				}
			}
			simrt.Failf("bookkeeping-not-empty", "records remain after all tunnels closed", "%s:%s", nd.Name, left)
		}
	}
}

// injectFaults cuts tunnels in flight: resets of mesh links on tunnel paths,
// resets of destination connections. Tunnels that a fault may legitimately cut
// are marked so that completeness is not demanded of them (the bytes they did
// deliver must still be the right prefix, and their bookkeeping must go away).
func (ts *TunnelSet) injectFaults(prop string) {
	n := simrt.Choose(4, "faults")
	for f := 0; f < n; f++ {
		simrt.Sleep(time.Duration(simrt.Choose(1500, "faultat")) * time.Millisecond)
		switch simrt.Choose(2, "faultkind") {
		case 0: // reset a mesh link that carries at least one tunnel
			var cands []*simnet.Link
			for _, l := range ts.m.Net.Links() {
				if l.Kind == "peer" && !l.Dead() {
					cands = append(cands, l)
				}
			}
			if len(cands) == 0 {
				continue
			}
			l := cands[simrt.Choose(len(cands), "link")]
			for _, t := range ts.T {
				for _, h := range t.hops {
					if h.Link == l.ID {
						if t.Opened && !t.clientDone && !t.faulted {
							simrt.Probe("fault_hit_live_tunnel")
						}
						t.faulted = true
					}
				}
				if !t.Opened && !t.clientDone {
					t.faulted = true // an open in flight may be lost with the link
				}
			}
			simrt.Eventf("fault: reset mesh link %d %s-%s", l.ID, l.DialNode, l.AccNode)
			simrt.Probe("fault_mesh_link_reset")
			l.Reset()
		case 1: // reset one destination connection
			var cands []*Tunnel
			for _, t := range ts.T {
				if t.serverConn != nil && !t.serverDone {
					cands = append(cands, t)
				}
			}
			if len(cands) == 0 {
				continue
			}
			t := cands[simrt.Choose(len(cands), "victim")]
			t.faulted = true
			simrt.Eventf("fault: reset destination connection of tunnel %d", t.ID)
			simrt.Probe("fault_destination_reset")
			t.serverConn.Link().Reset()
		}
	}
	if n > 0 {
		// tunnels opened later may also hit a link that is still reconnecting
		for _, t := range ts.T {
			if !t.Opened {
				t.faulted = true
			}
		}
	}
}
