package wmesh

import (
	"context"
	"encoding/binary"
	"fmt"
	"net"
	"time"

	"github.com/postalsys/muti-metroo/internal/protocol"
	"github.com/postalsys/muti-metroo/internal/socks5"
	"github.com/postalsys/muti-metroo/internal/verifrt/simnet"
	"github.com/postalsys/muti-metroo/internal/verifrt/simrt"
)

// UDP tunnels: a real socks5.UDPAssociation at the ingress (its relay socket is
// a simnet UDP socket), the agent's own UDP ingress API, UDP_OPEN / UDP_DATAGRAM
// relaying through the mesh, the real udp.Handler at the exit and a scripted
// UDP echo endpoint on the simulated internet.
//
// Datagram k of tunnel t (client -> destination): 8-byte header 'U', t, k then
// codeBytes(t, 0, k*2048, n). The echo answers 'D', t, k + codeBytes(t, 1, k*2048, m).
// The mesh may drop datagrams (parallel dispatch makes nonces arrive out of
// order), so the oracle is exactness, isolation and no duplication of what is
// delivered, not completeness.

func udpPayload(dir byte, t, k, n int) []byte {
	b := make([]byte, 8, 8+n)
	b[0] = dir
	binary.BigEndian.PutUint16(b[1:], uint16(t))
	binary.BigEndian.PutUint32(b[3:], uint32(k))
	d := 0
	if dir == 'D' {
		d = 1
	}
	return append(b, codeBytes(t, d, k*2048, n)...)
}

// udpCheck parses a payload and verifies it belongs to (dir, t); returns k.
func udpCheck(dir byte, t int, p []byte) (int, string) {
	if len(p) < 8 {
		return -1, "datagram shorter than its header"
	}
	if p[0] != dir {
		return -1, fmt.Sprintf("datagram of the wrong direction %q", p[0])
	}
	gt := int(binary.BigEndian.Uint16(p[1:]))
	k := int(binary.BigEndian.Uint32(p[3:]))
	if gt != t {
		return k, fmt.Sprintf("datagram of tunnel %d", gt)
	}
	d := 0
	if dir == 'D' {
		d = 1
	}
	if _, ok := codeCheck(t, d, k*2048, p[8:]); !ok {
		return k, "datagram body altered"
	}
	return k, ""
}

func (ts *TunnelSet) addUDP(t *Tunnel) {
	port := 20000 + t.ID
	t.Addr = fmt.Sprintf("10.%d.7.7:%d", 100+t.Exit, port)
	t.Dial = t.Addr
	ts.m.Nodes[t.Exit].Cfg.UDP.Enabled = true
	seen := map[int]bool{}
	ts.m.Net.ServeUDP(&net.UDPAddr{IP: net.ParseIP(fmt.Sprintf("10.%d.7.7", 100+t.Exit)), Port: port}, func(c *simnet.UDPConn, from *net.UDPAddr, data []byte) {
		t.ServerSeen = true
		k, bad := udpCheck('U', t.ID, data)
		if bad != "" {
			ts.fail(t, "tunnel-bytes-wrong", "endpoint received bytes that its counterpart did not send at that offset", fmt.Sprintf("udp destination of tunnel %d got a %s (k=%d)", t.ID, bad, k))
		}
		if seen[k] {
			ts.fail(t, "datagram-duplicated", "a datagram was delivered twice", fmt.Sprintf("udp destination of tunnel %d got datagram %d twice", t.ID, k))
		}
		seen[k] = true
		t.serverGot++
		n := 1 + (k*37)%900
		c.WriteToUDP(udpPayload('D', t.ID, k, n), from)
	})
	// markers for the plaintext search: the bodies of every datagram
	for k := 0; k < t.Up; k++ {
		for d := 0; d < 2; d++ {
			blk := codeBlock(t.ID, d, uint64(k*2048/64))
			ts.markers[binary.LittleEndian.Uint64(blk[:8])] = t.ID
		}
	}
}

// startUDP runs the client of a UDP tunnel.
func (ts *TunnelSet) startUDP(t *Tunnel) {
	nd := ts.m.Nodes[t.Ingress]
	ts.group.Go(fmt.Sprintf("udpclient-%d", t.ID), func() {
		simrt.SetNode(nd.Name)
		defer func() { t.clientDone = true }()
		t.started = simrt.Elapsed()
		ctx, cancel := context.WithTimeout(context.Background(), 45*time.Second)
		defer cancel()
		sid, err := nd.A.CreateUDPAssociation(ctx, nil)
		if err != nil {
			t.OpenErr = err
			simrt.Eventf("tunnel %d udp associate err=%v", t.ID, err)
			return
		}
		clientIP := net.IPv4(172, 31, byte(t.Ingress), byte(10+t.ID))
		ctl, srvSide := ts.m.Net.Pair(fmt.Sprintf("client-%d", t.ID), nd.Name, &net.TCPAddr{IP: clientIP, Port: 50000 + t.ID}, &net.TCPAddr{IP: nd.IP, Port: 1080})
		assoc, err := socks5.NewUDPAssociation(srvSide, nd.A, nd.IP)
		if err != nil {
			t.OpenErr = err
			return
		}
		assoc.SetStreamID(sid)
		nd.A.SetSOCKS5UDPAssociation(sid, assoc)
		simrt.GoNode(fmt.Sprintf("udprelay-%d", t.ID), nd.Name, assoc.ReadLoop)
		cs, err := simnet.ListenUDP("udp4", &net.UDPAddr{IP: clientIP, Port: 0})
		if err != nil {
			panic(err)
		}
		t.Opened = true
		destIP := net.ParseIP(fmt.Sprintf("10.%d.7.7", 100+t.Exit)).To4()
		hdr := socks5.BuildUDPHeader(protocol.AddrTypeIPv4, destIP, uint16(20000+t.ID))
		got := map[int]bool{}
		readerDone := false
		simrt.GoNode(fmt.Sprintf("udpclient-r-%d", t.ID), nd.Name, func() {
			defer func() { readerDone = true }()
			buf := make([]byte, 4096)
			for {
				cs.SetReadDeadline(time.Now().Add(20 * time.Second))
				n, _, err := cs.ReadFromUDP(buf)
				if err != nil {
					return
				}
				h, payload, perr := socks5.ParseUDPHeader(buf[:n])
				if perr != nil || h == nil {
					ts.fail(t, "tunnel-bytes-wrong", "endpoint received bytes that its counterpart did not send at that offset", fmt.Sprintf("udp client of tunnel %d got a reply without a valid SOCKS5 UDP header: %v", t.ID, perr))
				}
				k, bad := udpCheck('D', t.ID, payload)
				if bad != "" {
					ts.fail(t, "tunnel-bytes-wrong", "endpoint received bytes that its counterpart did not send at that offset", fmt.Sprintf("udp client of tunnel %d got a %s (k=%d)", t.ID, bad, k))
				}
				if got[k] {
					ts.fail(t, "datagram-duplicated", "a datagram was delivered twice", fmt.Sprintf("udp client of tunnel %d got reply %d twice", t.ID, k))
				}
				got[k] = true
				t.clientGot++
			}
		})
		for k := 0; k < t.Up; k++ {
			n := 1 + (k*53)%1100
			pkt := append(append([]byte(nil), hdr...), udpPayload('U', t.ID, k, n)...)
			cs.WriteToUDP(pkt, assoc.LocalAddr())
			if simrt.Chance(1, 3, "udpgap") {
				simrt.Sleep(time.Duration(1+simrt.Choose(300, "udpgapms")) * time.Millisecond)
			}
			if k == 0 && ts.OnOpen != nil {
				simrt.Sleep(500 * time.Millisecond) // let the UDP_OPEN round trip finish
				ts.OnOpen(t)
			}
		}
		if simrt.Chance(1, 2, "udp-abrupt-close") {
			// the client goes away while its last datagrams are still being relayed
			simrt.Probe("udp_closed_with_datagrams_in_flight")
			if simrt.Chance(1, 2, "udp-close-gap") {
				simrt.Sleep(time.Duration(simrt.Choose(30, "udp-close-gap-ms")) * time.Millisecond)
			}
		} else {
			simrt.Sleep(3 * time.Second)
		}
		if t.clientGot > 0 {
			simrt.Probe("udp_reply_received")
		}
		ctl.Close()
		assoc.Close()
		cs.Close()
		for !readerDone {
			simrt.Sleep(100 * time.Millisecond)
		}
		simrt.Eventf("tunnel %d udp client done replies=%d/%d destination got %d", t.ID, t.clientGot, t.Up, t.serverGot)
	})
}
