package wmesh

import (
	"fmt"
	"time"

	"github.com/postalsys/muti-metroo/internal/crypto"
	"github.com/postalsys/muti-metroo/internal/protocol"
	"github.com/postalsys/muti-metroo/internal/verifrt/simnet"
	"github.com/postalsys/muti-metroo/internal/verifrt/simrt"
	. "github.com/postalsys/muti-metroo/internal/verifsim/meshkit"
)

// "A close or reset tears down only the addressed stream" (C18) / "no frame of
// one tunnel ever reaches, closes or resets another tunnel" (C16), at an agent
// that relays tunnels and is an end point for another peer at the same time.
//
// Chain 0 - .. - T - .. - E: tunnels run from agent 0 to the exit E through the
// transit T. A further peer P (harness-driven, a conforming peer in everything
// it sends) is connected to T. Stream ids are the choice of the side that opens
// a stream; P's happen to be the numbers that T uses for the relayed tunnels on
// its OTHER connections (the harness reads them off the wire). P opens streams
// of its own to T's exit under those numbers and closes, half-closes or resets
// them, and it sends closing frames for ids it never opened. All of that
// addresses streams of the connection P-T only: the relayed tunnels must run to
// completion, byte-exact.
func runForeignClose() {
	n := 3 + simrt.Choose(2, "n")
	m := NewMesh(n, "chain")
	m.TunnelExit = n - 1
	for j, nd := range m.Nodes {
		nd.Cfg.Routing.AdvertiseInterval = 20 * time.Second
		nd.Cfg.Routing.RouteTTL = 10 * time.Minute
		if j == 0 {
			continue
		}
		nd.Cfg.Exit.Enabled = true
		nd.Cfg.Exit.Routes = []string{fmt.Sprintf("10.%d.0.0/16", 100+j)}
	}
	lat := []time.Duration{0, 2 * time.Millisecond, 20 * time.Millisecond}[simrt.Choose(3, "latency")]
	m.Net.DefaultLatency = func(l *simnet.Link) [2]time.Duration { return [2]time.Duration{lat, lat} }
	transit := -1
	for j := 1; j < n-1; j++ {
		if len(m.Nodes[j].Cfg.Listeners) > 0 {
			transit = j
		}
	}
	simrt.Eventf("foreign close mesh n=%d edges=%v transit=%d", n, m.Edges, transit)
	ts := NewTunnelSet(m)
	k := 1 + simrt.Choose(3, "tunnels")
	for i := 0; i < k; i++ {
		t := &Tunnel{Kind: "tcp", Ingress: 0, Exit: n - 1, Up: 1 + simrt.Choose(80000, "up"), Down: 1 + simrt.Choose(80000, "down"),
			ClientClose: clientCloses[simrt.Choose(len(clientCloses), "cclose")], ServerClose: "after-eof"}
		t.WriteSizes = drawSizes(t.Up)
		if simrt.Chance(1, 2, "slowstart") {
			t.SlowStart = time.Duration(simrt.Choose(1500, "slowstartms")) * time.Millisecond
		}
		ts.Add(t)
	}
	BootAndConverge(m)
	var rp *RawPeer
	var late simrt.Group
	var twins []*foreignTwin
	if transit < 0 {
		simrt.Probe("c18_foreign_close_no_transit_listener")
	} else {
		tn := m.Nodes[transit]
		var err error
		rp, err = m.AttachRawPeer(transit, 8)
		if err != nil {
			simrt.Failf("harness", "raw peer attach failed", "%v", err)
		}
		m.Net.ServeTCP(fmt.Sprintf("10.%d.66.6:80", 100+transit), EchoServer)
		m.Net.ServeTCP(fmt.Sprintf("10.%d.66.7:80", 100+n-1), EchoServer)
		shots := 0
		busy := false // one shot at a time: the raw peer's frame writer is not shared
		shoot := func(t *Tunnel, when string) {
			for busy {
				simrt.Sleep(time.Millisecond)
			}
			busy = true
			defer func() { busy = false }()
			var up, down uint64
			var haveUp, haveDown bool
			for _, h := range t.hops {
				if h.To == tn.Name {
					up, haveUp = h.ID, true
				}
				if h.From == tn.Name {
					down, haveDown = h.ID, true
				}
			}
			if !haveUp || !haveDown {
				simrt.Failf("harness", "tunnel hops not observed at the transit", "tunnel %d hops=%v", t.ID, t.hops)
			}
			id := down
			which := "the id of the tunnel on the transit's downstream connection"
			if simrt.Chance(1, 3, "use-upstream-id") {
				id, which = up, "the id of the tunnel on the transit's upstream connection"
			}
			for _, tw := range twins {
				if tw.id == id {
					// that number is a live tunnel of P's own now: whatever P sends
					// for it addresses that tunnel, legitimately
					return
				}
			}
			shots++
			reset := &protocol.Frame{Type: protocol.FrameStreamReset, StreamID: id, Payload: (&protocol.StreamReset{ErrorCode: protocol.ErrGeneralFailure}).Encode()}
			closeF := &protocol.Frame{Type: protocol.FrameStreamClose, StreamID: id}
			act := simrt.Choose(8, "foreign-act")
			if act >= 6 && id != down {
				act = 2
			}
			switch act {
			case 6, 7:
				// a tunnel of P's own THROUGH the transit to the same exit, whose id
				// on the connection P-T is the number the transit uses for the
				// honest tunnel on its connection to the next hop. It stays open
				// while the honest tunnels run and end; afterwards it must still
				// carry data in both directions.
				priv, pub, _ := crypto.GenerateEphemeralKeypair()
				reqID := uint64(6100 + shots)
				so := &protocol.StreamOpen{RequestID: reqID, AddressType: protocol.AddrTypeIPv4, Address: []byte{10, byte(100 + n - 1), 66, 7}, Port: 80, TTL: 16, EphemeralPubKey: pub}
				for j := transit + 1; j < n; j++ {
					so.RemainingPath = append(so.RemainingPath, m.Nodes[j].ID)
				}
				from := len(rp.Received)
				rp.Send(&protocol.Frame{Type: protocol.FrameStreamOpen, StreamID: id, Payload: so.Encode()})
				f, _ := rp.WaitFrame(from, 15*time.Second, func(f *protocol.Frame) bool {
					return f.StreamID == id && (f.Type == protocol.FrameStreamOpenAck || f.Type == protocol.FrameStreamOpenErr)
				})
				if f == nil || f.Type != protocol.FrameStreamOpenAck {
					simrt.Probe("c18_foreign_twin_open_not_acknowledged")
					break
				}
				ack, derr := protocol.DecodeStreamOpenAck(f.Payload)
				if derr != nil {
					simrt.Failf("harness", "open ack does not decode", "%v", derr)
				}
				shared, serr := crypto.ComputeECDH(priv, ack.EphemeralPubKey)
				if serr != nil {
					simrt.Failf("harness", "ECDH failed", "%v", serr)
				}
				twins = append(twins, &foreignTwin{id: id, key: crypto.DeriveSessionKey(shared, reqID, pub, ack.EphemeralPubKey, true), shadow: t, from: len(rp.Received)})
				simrt.Probe("c18_foreign_twin_tunnel_opened")
				simrt.Eventf("foreign peer opened a tunnel of its own through the transit under %s (%s, tunnel %d)", which, when, t.ID)
			case 0, 1:
				// a stream of P's own under that number, opened and ended properly
				_, pub, _ := crypto.GenerateEphemeralKeypair()
				so := &protocol.StreamOpen{RequestID: uint64(6100 + shots), AddressType: protocol.AddrTypeIPv4, Address: []byte{10, byte(100 + transit), 66, 6}, Port: 80, EphemeralPubKey: pub}
				from := len(rp.Received)
				rp.Send(&protocol.Frame{Type: protocol.FrameStreamOpen, StreamID: id, Payload: so.Encode()})
				f, _ := rp.WaitFrame(from, 10*time.Second, func(f *protocol.Frame) bool {
					return f.StreamID == id && (f.Type == protocol.FrameStreamOpenAck || f.Type == protocol.FrameStreamOpenErr)
				})
				if f != nil && f.Type == protocol.FrameStreamOpenAck {
					simrt.Probe("c18_foreign_stream_opened_under_relayed_id")
				}
				if act == 0 {
					rp.Send(closeF)
				} else {
					rp.Send(reset)
				}
				simrt.Eventf("foreign peer opened and ended (%d) a stream of its own under %s (%s, tunnel %d)", act, which, when, t.ID)
			case 2:
				rp.Send(closeF)
				simrt.Eventf("foreign peer sent STREAM_CLOSE for %s (%s, tunnel %d)", which, when, t.ID)
			case 3:
				rp.Send(reset)
				simrt.Eventf("foreign peer sent STREAM_RESET for %s (%s, tunnel %d)", which, when, t.ID)
			case 4:
				rp.Send(&protocol.Frame{Type: protocol.FrameStreamData, Flags: protocol.FlagFinWrite, StreamID: id})
				simrt.Eventf("foreign peer sent an empty FIN for %s (%s, tunnel %d)", which, when, t.ID)
			default:
				rp.Send(&protocol.Frame{Type: protocol.FrameUDPClose, StreamID: id, Payload: []byte{0}})
				rp.Send(&protocol.Frame{Type: protocol.FrameICMPClose, StreamID: id, Payload: []byte{0}})
				simrt.Eventf("foreign peer sent UDP_CLOSE and ICMP_CLOSE for %s (%s, tunnel %d)", which, when, t.ID)
			}
			simrt.Probe("c18_foreign_close_sent")
		}
		ts.OnOpen = func(t *Tunnel) {
			if simrt.Chance(2, 3, "shoot-at-open") {
				shoot(t, "right after the open")
			}
			if simrt.Chance(2, 3, "shoot-later") {
				d := time.Duration(simrt.Choose(2500, "shoot-later-ms")) * time.Millisecond
				late.Go(fmt.Sprintf("foreign-late-%d", t.ID), func() {
					simrt.SetNode(rp.Name)
					simrt.Sleep(d)
					if !t.clientDone {
						simrt.Probe("c18_foreign_close_mid_transfer")
					}
					shoot(t, "mid-transfer")
				})
			}
		}
	}
	for _, t := range ts.T {
		ts.Start(t)
		if simrt.Chance(1, 2, "stagger") {
			simrt.Sleep(time.Duration(simrt.Choose(800, "stagger-ms")) * time.Millisecond)
		}
	}
	if !ts.Wait(5 * time.Minute) {
		simrt.Probe("tunnel_wait_timed_out")
	}
	late.Wait()
	ts.CheckComplete()
	simrt.Sleep(time.Second)
	for k, tw := range twins {
		msg := []byte(fmt.Sprintf("foreign-twin-%d-still-alive", k))
		sealed, err := tw.key.Encrypt(msg)
		if err != nil {
			panic(err)
		}
		rp.Send(&protocol.Frame{Type: protocol.FrameStreamData, StreamID: tw.id, Payload: sealed})
		got := false
		f, _ := rp.WaitFrame(tw.from, 15*time.Second, func(f *protocol.Frame) bool {
			if f.StreamID != tw.id || f.Type != protocol.FrameStreamData || len(f.Payload) == 0 {
				return false
			}
			if pt, derr := tw.key.Decrypt(f.Payload); derr == nil && string(pt) == string(msg) {
				got = true
			}
			return got
		})
		if f == nil || !got {
			var seenTypes []string
			for _, rf := range rp.Received[tw.from:] {
				if rf.StreamID == tw.id {
					seenTypes = append(seenTypes, fmt.Sprintf("0x%02x", rf.Type))
				}
			}
			simrt.Failf("tunnel-cut-by-another-tunnels-close", "a tunnel stopped carrying data when another tunnel was closed", "the foreign peer's tunnel (id %d on its connection to %s, the same number as tunnel %d has on the transit's next connection) got no echo for data sent after the honest tunnels had ended; frames received on it since the open: %v", tw.id, m.Nodes[transit].Name, tw.shadow.ID, seenTypes)
		}
		simrt.Probe("c18_foreign_twin_tunnel_survived")
		rp.Send(&protocol.Frame{Type: protocol.FrameStreamClose, StreamID: tw.id})
	}
	if rp != nil {
		rp.Close()
	}
	m.StopAll()
}

type foreignTwin struct {
	id     uint64
	key    *crypto.SessionKey
	shadow *Tunnel
	from   int
}
