package wmesh

import (
	"context"
	"encoding/binary"
	"fmt"
	"io"
	"os"
	"path/filepath"
	"sort"
	"strings"
	"time"

	"golang.org/x/crypto/chacha20poly1305"

	"github.com/postalsys/muti-metroo/internal/agent"
	"github.com/postalsys/muti-metroo/internal/health"
	"github.com/postalsys/muti-metroo/internal/protocol"
	"github.com/postalsys/muti-metroo/internal/verifrt/simrt"
	. "github.com/postalsys/muti-metroo/internal/verifsim/meshkit"
)

// File transfer tunnels: the ingress side is the agent's own client API
// (agent.UploadFile, DownloadFile, DownloadFileStream, what the HTTP front end
// calls); STREAM_OPEN "file:upload" / "file:download", STREAM_DATA and
// STREAM_CLOSE relaying through the mesh; the real exit-side transfer code and
// filetransfer.StreamHandler at the exit. Files are real files in a per-run
// directory under /dev/shm (all agents of a run live in one process, so the
// "remote" file system is the same one); the directory's name never enters the
// event log. io.Pipe of internal/agent and internal/filetransfer is redirected
// to rt/simpipe (a goroutine blocked in a real io.Pipe would be invisible to
// the scheduler).
//
// Contents are position-coded: an uploaded file of tunnel t is
// codeBytes(t, 0, ...), a downloaded one codeBytes(t, 1, ...); file j of a
// directory transfer starts at code offset j*dirFileStride.

const dirFileStride = 1 << 22

var fileOps = []string{"upload", "download", "download-stream", "upload-dir", "download-dir"}

var fileEdgeSizes = []int{0, 1, 16355, 16356, 16357, 16383, 16384, 16385, 32712, 65536}

// fixed modification time of every file the harness creates (it is part of a
// directory transfer's tar stream, so it must not depend on the wall clock)
var fileMtime = time.Date(2001, 2, 3, 4, 5, 6, 0, time.UTC)

type fileEntry struct {
	Rel  string
	Off  int // code offset
	Size int
}

// directories created by this process that a failed run may have left behind
var staleFileDirs []string

func drawFileSize(prop string) int {
	switch simrt.Choose(6, "ftsize") {
	case 0:
		return 1 + simrt.Choose(3000, "ftsmall")
	case 1, 2:
		return fileEdgeSizes[simrt.Choose(len(fileEdgeSizes), "ftedge")]
	case 3:
		return simrt.Choose(200001, "ftmid")
	case 4:
		if prop == "C07" {
			return []int{200000, 1 << 20, 1<<20 + 1, 777777}[simrt.Choose(4, "ftbig")]
		}
		return simrt.Choose(70000, "ftmid2")
	default:
		if prop == "C07" && simrt.Chance(1, 4, "fthuge") {
			return 4 << 20
		}
		return simrt.Choose(40000, "ftmid3")
	}
}

// drawFileTunnel draws one file transfer (ingress node 0, the run's exit).
func drawFileTunnel(m *Mesh, prop string) *Tunnel {
	t := &Tunnel{Kind: "file", Ingress: 0, Exit: m.TunnelExit}
	t.FileOp = fileOps[simrt.Choose(len(fileOps), "ftop")]
	t.ClientClose, t.ServerClose = "close-after-read", "after-eof"
	var total int
	if strings.HasSuffix(t.FileOp, "-dir") {
		names := []string{"a.bin", "sub/b.bin", "sub/deeper/c.bin", "empty.bin", "z/y/x/w.bin"}
		n := 1 + simrt.Choose(len(names), "ftdirfiles")
		for j := 0; j < n; j++ {
			sz := fileEdgeSizes[simrt.Choose(len(fileEdgeSizes), "ftdiredge")]
			if names[j] == "empty.bin" {
				sz = 0
			} else if simrt.Chance(1, 2, "ftdirany") {
				sz = simrt.Choose(50000, "ftdirsz")
			}
			t.ftFiles = append(t.ftFiles, fileEntry{Rel: names[j], Off: j * dirFileStride, Size: sz})
			total += sz
		}
	} else {
		total = drawFileSize(prop)
		t.ftFiles = []fileEntry{{Rel: "", Off: 0, Size: total}}
	}
	if strings.HasPrefix(t.FileOp, "upload") {
		t.Up = total
	} else {
		t.Down = total
	}
	return t
}

func (ts *TunnelSet) fileDir() string {
	if ts.ftDir != "" {
		return ts.ftDir
	}
	for _, d := range staleFileDirs {
		os.RemoveAll(d)
	}
	staleFileDirs = nil
	base := "/dev/shm"
	if fi, err := os.Stat(base); err != nil || !fi.IsDir() {
		base = ""
	}
	d, err := os.MkdirTemp(base, "verif-ft-")
	if err != nil {
		panic(fmt.Sprintf("file transfer scratch directory: %v", err))
	}
	ts.ftDir = d
	staleFileDirs = append(staleFileDirs, d)
	// the exit spools uploads in os.TempDir(): keep that inside the run's directory too
	ts.ftOldTmp, ts.ftHadTmp = os.LookupEnv("TMPDIR")
	os.MkdirAll(filepath.Join(d, "tmp"), 0o755)
	os.Setenv("TMPDIR", filepath.Join(d, "tmp"))
	return d
}

// CleanupFiles removes the run's scratch directory (end of run, also on abort).
func (ts *TunnelSet) CleanupFiles() {
	if ts.ftDir == "" {
		return
	}
	if ts.ftHadTmp {
		os.Setenv("TMPDIR", ts.ftOldTmp)
	} else {
		os.Unsetenv("TMPDIR")
	}
	os.RemoveAll(ts.ftDir)
	ts.ftDir = ""
}

// scrub removes the scratch directory's name from a message that may reach the event log.
func (ts *TunnelSet) scrub(s string) string {
	if ts.ftDir == "" {
		return s
	}
	return strings.ReplaceAll(s, ts.ftDir, "<dir>")
}

func writeCoded(path string, id, d, off, n int) {
	if err := os.MkdirAll(filepath.Dir(path), 0o755); err != nil {
		panic(err)
	}
	if err := os.WriteFile(path, codeBytes(id, d, off, n), 0o644); err != nil {
		panic(err)
	}
	os.Chmod(path, 0o644)
	os.Chtimes(path, fileMtime, fileMtime)
}

// fixTimes gives every directory below root the fixed modification time.
func fixTimes(root string) {
	var dirs []string
	filepath.Walk(root, func(p string, info os.FileInfo, err error) error {
		if err == nil && info.IsDir() {
			dirs = append(dirs, p)
		}
		return nil
	})
	sort.Sort(sort.Reverse(sort.StringSlice(dirs)))
	for _, p := range dirs {
		os.Chmod(p, 0o755)
		os.Chtimes(p, fileMtime, fileMtime)
	}
}

func (ts *TunnelSet) addFile(t *Tunnel) {
	dir := ts.fileDir()
	upload := strings.HasPrefix(t.FileOp, "upload")
	isDir := strings.HasSuffix(t.FileOp, "-dir")
	t.Addr = protocol.FileTransferDownload
	d := 1
	if upload {
		t.Addr = protocol.FileTransferUpload
		d = 0
	}
	t.Dial = t.FileOp
	t.ftSrc = filepath.Join(dir, fmt.Sprintf("src-%d", t.ID))
	t.ftDst = filepath.Join(dir, fmt.Sprintf("dst-%d", t.ID))
	if isDir {
		os.MkdirAll(t.ftSrc, 0o755)
		for _, f := range t.ftFiles {
			writeCoded(filepath.Join(t.ftSrc, filepath.FromSlash(f.Rel)), t.ID, d, f.Off, f.Size)
		}
		fixTimes(t.ftSrc)
	} else {
		writeCoded(t.ftSrc, t.ID, d, 0, t.ftFiles[0].Size)
	}
	ex := ts.m.Nodes[t.Exit]
	if !ex.Cfg.FileTransfer.Enabled {
		ex.Cfg.FileTransfer.Enabled = true
		switch simrt.Choose(3, "ftallowed") {
		case 0:
			ex.Cfg.FileTransfer.AllowedPaths = []string{dir}
		case 1:
			ex.Cfg.FileTransfer.AllowedPaths = []string{"*"}
		default:
			ex.Cfg.FileTransfer.AllowedPaths = []string{"/nonexistent/elsewhere", dir + "/**"}
		}
		if simrt.Chance(1, 3, "ftpassword") {
			ex.Cfg.FileTransfer.PasswordHash = shellPasswordHash
		}
		simrt.Eventf("file transfer enabled at %s allowed=%d password=%v", ex.Name, len(ex.Cfg.FileTransfer.AllowedPaths), ex.Cfg.FileTransfer.PasswordHash != "")
	}
	ts.watchOpens()
	for _, f := range t.ftFiles {
		for blk := f.Off / 64; blk*64 < f.Off+f.Size; blk++ {
			b := codeBlock(t.ID, d, uint64(blk))
			ts.markers[binary.LittleEndian.Uint64(b[:8])] = t.ID
		}
	}
	simrt.Probe("file_tunnel")
	simrt.Probe("file_tunnel_" + t.FileOp)
}

// fileTunnelAt finds the file tunnel one of whose hops is the given link and
// stream id; idx is the hop's position.
func (ts *TunnelSet) fileTunnelAt(linkID int, sid uint64) (*Tunnel, int) {
	for _, t := range ts.T {
		if t.Kind != "file" {
			continue
		}
		for i, h := range t.hops {
			if h.Link == linkID && h.ID == sid {
				return t, i
			}
		}
	}
	return nil, 0
}

// onFileOpenAck: when the exit's acknowledgement of a file transfer leaves the
// exit, its record (and with it the exit-side session key) exists: take a copy
// of the key bytes. When it reaches the ingress the tunnel is open.
func (ts *TunnelSet) onFileOpenAck(ev *FrameEvent) {
	t, i := ts.fileTunnelAt(ev.Link.ID, ev.StreamID)
	if t == nil || ev.From != t.hops[i].To {
		return
	}
	if i == len(t.hops)-1 && ev.From == ts.m.Nodes[t.Exit].Name && t.ftExitKey == nil {
		if sk := ts.m.Nodes[t.Exit].A.VerifFileStreamKeys()[ev.StreamID]; sk != nil {
			k := sk.Key()
			t.ftExitKey = &k
		}
	}
	if i == 0 {
		t.Opened = true
	}
}

// onFileData keeps the first sealed message the ingress sent into the tunnel.
func (ts *TunnelSet) onFileData(ev *FrameEvent) {
	t, i := ts.fileTunnelAt(ev.Link.ID, ev.StreamID)
	if t == nil || i != 0 || ev.From != t.hops[0].From || t.ftFirstFrame != nil || len(ev.Payload) == 0 {
		return
	}
	t.ftFirstFrame = append([]byte{}, ev.Payload...)
}

// opensUnder reports whether a sealed message (nonce, ciphertext, tag) opens under key.
func opensUnder(key [32]byte, msg []byte) bool {
	if len(msg) < chacha20poly1305.NonceSize+chacha20poly1305.Overhead {
		return false
	}
	aead, err := chacha20poly1305.New(key[:])
	if err != nil {
		return false
	}
	_, err = aead.Open(nil, msg[:chacha20poly1305.NonceSize], msg[chacha20poly1305.NonceSize:], nil)
	return err == nil
}

// checkFileKey is the C03 oracle for a file transfer. The ingress keeps its key
// in a local variable only (except for a streamed download), so "both ends hold
// the same key" is decided on the wire: the first message the ingress sealed
// opens under the key the exit holds. For a streamed download the two keys are
// also compared directly.
func (ts *TunnelSet) checkFileKey(t *Tunnel) {
	if t.ftKeyChecked {
		return
	}
	if len(t.hops) == 0 {
		simrt.Failf("harness", "tunnel hops not observed", "tunnel %d", t.ID)
	}
	if t.ftExitKey == nil || t.ftFirstFrame == nil {
		simrt.Probe("c03_responder_record_gone")
		return
	}
	t.ftKeyChecked = true
	k := *t.ftExitKey
	if k == ([32]byte{}) {
		simrt.Failf("tunnel-without-key", "opened tunnel has an all-zero session key at the exit", "tunnel %d (file)", t.ID)
	}
	ts.noteKey(t, k)
	simrt.Probe("c03_key_pair_compared_file")
	simrt.Probe("c03_key_pair_compared_file_" + t.FileOp)
	if !opensUnder(k, t.ftFirstFrame) {
		simrt.Failf("ends-derived-different-keys", "ingress and exit hold different session keys (file)", "tunnel %d (%s): what the ingress sealed does not open under the exit's key", t.ID, t.FileOp)
	}
	if t.ftIngressKey != nil {
		simrt.Probe("c03_key_pair_compared_file_directly")
		if *t.ftIngressKey != k {
			simrt.Failf("ends-derived-different-keys", "ingress and exit hold different session keys (file)", "tunnel %d (%s)", t.ID, t.FileOp)
		}
	}
}

// compareTree checks the received file(s) against the code and returns the number of correct bytes.
func (ts *TunnelSet) compareTree(t *Tunnel, root string, d int, where string) int {
	good := 0
	isDir := strings.HasSuffix(t.FileOp, "-dir")
	for _, f := range t.ftFiles {
		p := root
		if isDir {
			p = filepath.Join(root, filepath.FromSlash(f.Rel))
		}
		got, err := os.ReadFile(p)
		if err != nil {
			simrt.Eventf("tunnel %d %s: %s missing", t.ID, where, f.Rel)
			continue
		}
		n := len(got)
		if n > f.Size {
			n = f.Size
		}
		if i, ok := codeCheck(t.ID, d, f.Off, got[:n]); !ok {
			ts.deliveryWrong(t, where+" "+f.Rel, f.Off+i, got[i:n])
		}
		if len(got) > f.Size {
			ts.deliveryWrong(t, where+" "+f.Rel+"-excess", f.Off+f.Size, got[f.Size:])
		}
		good += n
		simrt.Eventf("tunnel %d %s: %q %d/%d bytes h=%x", t.ID, where, f.Rel, n, f.Size, simrt.FNV(got))
	}
	if isDir {
		// nothing else may have appeared
		want := map[string]bool{}
		for _, f := range t.ftFiles {
			want[f.Rel] = true
		}
		filepath.Walk(root, func(p string, info os.FileInfo, err error) error {
			if err != nil || info.IsDir() {
				return nil
			}
			rel, _ := filepath.Rel(root, p)
			if !want[filepath.ToSlash(rel)] {
				ts.deliveryFail(t, "tunnel-bytes-wrong", "endpoint received bytes that its counterpart did not send at that offset", fmt.Sprintf("%s of tunnel %d holds a file %q that was never sent", where, t.ID, filepath.ToSlash(rel)))
			}
			return nil
		})
	}
	return good
}

func (ts *TunnelSet) startFile(t *Tunnel) {
	nd := ts.m.Nodes[t.Ingress]
	ts.group.Go(fmt.Sprintf("fileclient-%d", t.ID), func() {
		simrt.SetNode(nd.Name)
		defer func() { t.clientDone = true; t.serverDone = true }()
		t.started = simrt.Elapsed()
		ctx, cancel := context.WithTimeout(context.Background(), 15*time.Minute)
		defer cancel()
		opts := health.TransferOptions{}
		if ts.m.Nodes[t.Exit].Cfg.FileTransfer.PasswordHash != "" {
			opts.Password = shellPassword
		}
		exitID := ts.m.Nodes[t.Exit].ID
		calls := 0
		progress := func(done, total int64) {
			calls++
			if calls == 1 && ts.OnOpen != nil {
				ts.OnOpen(t)
			}
		}
		var err error
		ts.beginOpen(t)
		switch t.FileOp {
		case "upload", "upload-dir":
			err = nd.A.UploadFile(ctx, exitID, t.ftSrc, t.ftDst, opts, progress)
			ts.endOpen(t)
			if err != nil && strings.Contains(err.Error(), "timeout waiting for upload acknowledgement") {
				// The client waits 30 s for the exit's confirmation once everything
				// is sent. On a mesh slowed down by its other tunnels (slow reader,
				// starved goroutines) the confirmation can take longer: the
				// transfer itself is then judged by what arrives at the far end.
				simrt.Probe("file_upload_confirmation_late")
				for w := 0; w < 600; w++ {
					if ts.compareTree(t, t.ftDst, 0, "uploaded file") == t.Up {
						break
					}
					simrt.Sleep(time.Second)
				}
				if got := ts.compareTree(t, t.ftDst, 0, "uploaded file"); got == t.Up {
					err = nil
				}
			}
			if err == nil {
				simrt.Probe("file_upload_done")
				t.serverGot = ts.compareTree(t, t.ftDst, 0, "uploaded file")
				t.serverEOF = true
			}
		case "download", "download-dir":
			err = nd.A.DownloadFile(ctx, exitID, t.ftSrc, t.ftDst, opts, progress)
			ts.endOpen(t)
			if err == nil {
				simrt.Probe("file_download_done")
				t.clientGot = ts.compareTree(t, t.ftDst, 1, "downloaded file")
				t.clientEOF = true
			}
		case "download-stream":
			var res *health.DownloadStreamResult
			res, err = nd.A.DownloadFileStream(ctx, exitID, t.ftSrc, opts)
			ts.endOpen(t)
			if err == nil {
				if k, sid := agent.VerifDownloadReaderKey(res.Reader); k != nil {
					kk := k.Key()
					t.ftIngressKey = &kk
					if sid != t.FirstHopID {
						simrt.Failf("harness", "file open not observed on the first hop", "tunnel %d: stream id %d, tap saw %d", t.ID, sid, t.FirstHopID)
					}
				}
				if ts.OnOpen != nil {
					ts.OnOpen(t)
				}
				buf := make([]byte, 70000)
				for {
					rb := buf[:1+simrt.Choose(len(buf), "ftreadsz")]
					n, rerr := res.Reader.Read(rb)
					if n > 0 {
						if i, ok := codeCheck(t.ID, 1, t.clientGot, rb[:n]); !ok {
							ts.deliveryWrong(t, "download stream reader", t.clientGot+i, rb[:n])
						}
						t.clientGot += n
						if t.clientGot > t.Down {
							ts.deliveryWrong(t, "download stream reader-excess", t.clientGot, nil)
						}
					}
					if rerr != nil {
						if rerr == io.EOF {
							t.clientEOF = true
							simrt.Probe("file_download_done")
							simrt.Probe("file_download_stream_done")
						} else {
							err = rerr
						}
						break
					}
				}
				res.Reader.Close()
				res.Close()
			}
		}
		if err != nil {
			t.clientErr = fmt.Errorf("%s", ts.scrub(err.Error()))
			if !t.Opened {
				t.OpenErr = t.clientErr
			}
		}
		simrt.Eventf("tunnel %d file %s done size=%d opened=%v far end has %d/%d, near end has %d/%d err=%v", t.ID, t.FileOp, t.Up+t.Down, t.Opened, t.serverGot, t.Up, t.clientGot, t.Down, t.clientErr)
		if ts.OnOpen != nil && err == nil {
			ts.OnOpen(t) // transfers too short for a progress report
		}
		if err == nil && !t.faulted && (t.serverGot != t.Up || t.clientGot != t.Down) {
			ts.deliveryFail(t, "tunnel-bytes-missing", "the transferred file is shorter at the far end than its source", fmt.Sprintf("%s: far end has %d of %d, near end has %d of %d", t.FileOp, t.serverGot, t.Up, t.clientGot, t.Down))
		}
		if err != nil && t.Opened && !t.faulted && (strings.Contains(err.Error(), "deadline exceeded") || strings.Contains(err.Error(), "timeout")) {
			// The client gives the server 30 s for each answer. On a mesh slowed
			// down by its other tunnels (a relay's dispatcher busy with a slow
			// reader's backlog, starved goroutines) an answer can take longer;
			// no statement bounds the time a transfer may take. What did arrive
			// has been compared byte by byte above; a stalled connection shows up
			// in the byte-stream tunnels that share it (tunnel-stalled).
			simrt.Probe("file_transfer_timed_out_in_slow_mesh")
			t.faulted = true
		}
		if err != nil && t.Opened && !t.faulted {
			ts.deliveryFail(t, "file-transfer-failed", "file transfer failed without any fault", fmt.Sprintf("%s of %d bytes: %v", t.FileOp, t.Up+t.Down, t.clientErr))
		}
	})
}
