package wmesh

import (
	"context"
	"fmt"
	"net"
	"time"

	"golang.org/x/crypto/chacha20poly1305"

	"github.com/postalsys/muti-metroo/internal/crypto"
	"github.com/postalsys/muti-metroo/internal/health"
	"github.com/postalsys/muti-metroo/internal/identity"
	"github.com/postalsys/muti-metroo/internal/protocol"
	"github.com/postalsys/muti-metroo/internal/verifrt/simrt"
	. "github.com/postalsys/muti-metroo/internal/verifsim/meshkit"
)

// C02 in a whole-agent setting: an ingress whose open acknowledgement is
// delivered twice (a relay that duplicates a frame, a peer that answers twice).
// The harness plays the exit of a datagram tunnel (UDP association, ICMP
// session through either ingress path) with a key pair of its own, so it knows
// the session key the ingress must hold. It acknowledges the open, lets a few
// datagrams pass, delivers the same acknowledgement again (and again), lets more
// datagrams pass, and then opens every datagram it received with that key:
// no two datagrams that are sealed under the session key may carry the same nonce.
func runDuplicateAck(prop string) {
	n := 2 + simrt.Choose(2, "n")
	m := NewMesh(n, "chain")
	for _, nd := range m.Nodes {
		nd.Cfg.Routing.AdvertiseInterval = 20 * time.Second
		nd.Cfg.Routing.RouteTTL = 10 * time.Minute
	}
	BootAndConverge(m)
	host := -1
	for j := len(m.Nodes) - 1; j >= 0; j-- {
		if len(m.Nodes[j].Cfg.Listeners) > 0 {
			host = j
			break
		}
	}
	if host < 0 {
		m.StopAll()
		return
	}
	rp, err := m.AttachRawPeer(host, 6)
	if err != nil {
		simrt.Failf("harness", "raw peer attach failed", "%v", err)
	}
	adv := &protocol.RouteAdvertise{OriginAgent: rp.ID, Sequence: 1,
		Routes:  []protocol.Route{{AddressFamily: protocol.AddrFamilyIPv4, PrefixLength: 16, Prefix: []byte{10, 77, 0, 0}, Metric: 0}, {AddressFamily: protocol.AddrFamilyIPv4, PrefixLength: 0, Prefix: []byte{0, 0, 0, 0}, Metric: 0}, {AddressFamily: protocol.AddrFamilyAgent, Prefix: protocol.EncodeAgentPrefix(rp.ID)}},
		EncPath: &protocol.EncryptedData{Data: protocol.EncodePath([]identity.AgentID{rp.ID})}, SeenBy: []identity.AgentID{rp.ID}}
	rp.Send(&protocol.Frame{Type: protocol.FrameRouteAdvertise, StreamID: protocol.ControlStreamID, Payload: adv.Encode()})
	Settle(m)
	ing := m.Nodes[0]
	rounds := 1 + simrt.Choose(3, "dupack-rounds")
	for q := 0; q < rounds; q++ {
		kind := []string{"udp", "icmp-socks", "icmp-ping-api"}[simrt.Choose(3, "dgramkind")]
		if kind == "icmp-ping-api" && host != 0 {
			kind = "icmp-socks" // the ping API addresses the exit by agent id: only a direct peer of the ingress can pose as one here
		}
		dst := net.IPv4(10, 77, 3, byte(1+q)).To4()
		privB, pubB, _ := crypto.GenerateEphemeralKeypair()
		before, after := 1+simrt.Choose(4, "before"), 1+simrt.Choose(5, "after")
		dups := 1 + simrt.Choose(2, "dups")
		step := make(chan int, 8) // harness-internal hand-over between the two simulated goroutines
		var g simrt.Group
		from := len(rp.Received)
		g.Go("dupack-client", func() {
			simrt.SetNode(ing.Name)
			ctx, cancel := context.WithTimeout(context.Background(), 30*time.Second)
			defer cancel()
			send := func(k int) {}
			closeFn := func() {}
			switch kind {
			case "udp":
				sid, err := ing.A.CreateUDPAssociation(ctx, nil)
				if err != nil {
					simrt.Failf("harness", "UDP association could not be created", "%v", err)
				}
				send = func(k int) {
					ing.A.RelayUDPDatagram(sid, &net.UDPAddr{IP: dst, Port: 53}, 53, protocol.AddrTypeIPv4, dst, []byte(fmt.Sprintf("dupack-udp-%d-%d", q, k)))
				}
				closeFn = func() { ing.A.CloseUDPAssociation(sid) }
			case "icmp-socks":
				sid, err := ing.A.CreateICMPSession(ctx, dst)
				if err != nil {
					simrt.Eventf("dupack: icmp open failed: %v", err)
					return
				}
				send = func(k int) {
					ing.A.RelayICMPEcho(sid, 9, uint16(k), []byte(fmt.Sprintf("dupack-icmp-%d-%d", q, k)))
				}
				closeFn = func() { ing.A.CloseICMPSession(sid) }
			case "icmp-ping-api":
				sess, err := ing.A.OpenICMPSession(ctx, rp.ID, dst)
				if err != nil {
					simrt.Eventf("dupack: ping open failed: %v", err)
					return
				}
				send = func(k int) {
					simrt.Chan(sess.SendEcho).Send(&health.ICMPEchoRequest{Identifier: 9, Sequence: uint16(k), Payload: []byte(fmt.Sprintf("dupack-ping-%d-%d", q, k))})
				}
				closeFn = func() { sess.Close() }
			}
			for k := 0; k < before; k++ {
				send(k)
				simrt.Sleep(time.Duration(1+simrt.Choose(50, "gap-ms")) * time.Millisecond)
			}
			simrt.Sleep(300 * time.Millisecond)
			simrt.Chan(step).Send(1)
			simrt.Sleep(500 * time.Millisecond)
			for k := 0; k < after; k++ {
				send(before + k)
				simrt.Sleep(time.Duration(1+simrt.Choose(50, "gap-ms")) * time.Millisecond)
			}
			simrt.Sleep(500 * time.Millisecond)
			closeFn()
		})
		wantOpen := protocol.FrameUDPOpen
		if kind != "udp" {
			wantOpen = protocol.FrameICMPOpen
		}
		f, _ := rp.WaitFrame(from, 15*time.Second, func(f *protocol.Frame) bool { return f.Type == wantOpen })
		if f == nil {
			g.Wait()
			simrt.Probe("c02_dupack_open_not_seen")
			continue
		}
		var reqID uint64
		var pubA [32]byte
		var ack *protocol.Frame
		if kind == "udp" {
			uo, derr := protocol.DecodeUDPOpen(f.Payload)
			if derr != nil {
				simrt.Failf("harness", "crafted exit could not decode the open", "%v", derr)
			}
			reqID, pubA = uo.RequestID, uo.EphemeralPubKey
			a := &protocol.UDPOpenAck{RequestID: reqID, BoundAddrType: protocol.AddrTypeIPv4, BoundAddr: []byte{10, 77, 0, 1}, BoundPort: 5555, EphemeralPubKey: pubB}
			ack = &protocol.Frame{Type: protocol.FrameUDPOpenAck, StreamID: f.StreamID, Payload: a.Encode()}
		} else {
			op, derr := protocol.DecodeICMPOpen(f.Payload)
			if derr != nil {
				simrt.Failf("harness", "crafted exit could not decode the open", "%v", derr)
			}
			reqID, pubA = op.RequestID, op.EphemeralPubKey
			a := &protocol.ICMPOpenAck{RequestID: reqID, EphemeralPubKey: pubB}
			ack = &protocol.Frame{Type: protocol.FrameICMPOpenAck, StreamID: f.StreamID, Payload: a.Encode()}
		}
		rp.Send(ack)
		simrt.Recv1(step)
		for d := 0; d < dups; d++ {
			rp.Send(ack) // the same acknowledgement, once more
			simrt.Probe("c02_open_ack_duplicated")
		}
		g.Wait()
		simrt.Sleep(time.Second)
		// the key both ends must hold, computed on the responder side
		shared, err := crypto.ComputeECDH(privB, pubA)
		if err != nil {
			simrt.Failf("harness", "ECDH failed", "%v", err)
		}
		key := crypto.DeriveSessionKey(shared, reqID, pubA, pubB, false).Key()
		aead, err := chacha20poly1305.New(key[:])
		if err != nil {
			panic(err)
		}
		seen := map[[12]byte]int{}
		opened := 0
		for i, rf := range rp.Received[from:] {
			if rf.StreamID != f.StreamID {
				continue // a straggler of an earlier round's association
			}
			var data []byte
			switch rf.Type {
			case protocol.FrameUDPDatagram:
				if d, err := protocol.DecodeUDPDatagram(rf.Payload); err == nil {
					data = d.Data
				}
			case protocol.FrameICMPEcho:
				if e, err := protocol.DecodeICMPEcho(rf.Payload); err == nil {
					data = e.Data
				}
			}
			if len(data) < 28 {
				continue
			}
			var nonce [12]byte
			copy(nonce[:], data[:12])
			if _, err := aead.Open(nil, nonce[:], data[12:], nil); err != nil {
				simrt.Probe("c02_datagram_under_another_key")
				public := ""
				if zs, zerr := crypto.ComputeECDH([32]byte{}, pubB); zerr == nil {
					zk := crypto.DeriveSessionKey(zs, reqID, pubA, pubB, true).Key()
					if za, e := chacha20poly1305.New(zk[:]); e == nil {
						if _, e := za.Open(nil, nonce[:], data[12:], nil); e == nil {
							public = "; it opens under the key that an all-zero private key yields, which every observer of the two public keys can compute"
							simrt.Probe("c04_datagram_sealed_under_publicly_computable_key")
						}
					}
				}
				if prop == "C03" || prop == "C04" {
					// C03: the two ends of a tunnel hold the same key; C04: every
					// application byte on a mesh link is sealed under the tunnel's key
					simrt.Failf("ends-derived-different-keys", "ingress sealed a datagram under a key that is not the tunnel's", "%s ingress %s: datagram %d that reached the exit does not open under the key both ends derived from the open and its acknowledgement (the acknowledgement was delivered %d times)%s", kind, ing.Name, i, 1+dups, public)
				}
				continue
			}
			opened++
			if j, dup := seen[nonce]; dup {
				simrt.Failf("nonce-reuse-same-end", "nonce-reuse-same-end", "%s ingress %s: datagrams %d and %d that reached the exit are sealed under the tunnel's session key with the same nonce %x (the open acknowledgement was delivered %d times)", kind, ing.Name, j, i, nonce, 1+dups)
			}
			seen[nonce] = i
		}
		if opened > 0 {
			simrt.Probe("c02_dupack_datagrams_opened_" + kind)
		}
	}
	rp.Close()
	m.StopAll()
}
