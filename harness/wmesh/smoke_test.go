package wmesh

import (
	"bytes"
	"context"
	"fmt"
	. "github.com/postalsys/muti-metroo/internal/verifsim/meshkit"
	"io"
	"time"

	"github.com/postalsys/muti-metroo/internal/verifrt/simrt"
)

func runSmoke() {
	n := 3 + simrt.Choose(3, "n")
	m := NewMesh(n, "chain")
	exit := m.Nodes[n-1]
	exit.Cfg.Exit.Enabled = true
	exit.Cfg.Exit.Routes = []string{"192.168.0.0/16"}
	m.Net.ServeTCP("192.168.1.10:80", EchoServer)
	m.StartAll()
	if !m.WaitConnected(60 * time.Second) {
		simrt.Fail("smoke", "mesh did not connect", "")
	}
	simrt.Sleep(10 * time.Second)
	simrt.Eventf("routes at n0: %d frames=%d", len(m.Nodes[0].A.GetRoutes()), m.Tap.Frames)
	m.On(0, "client", func() {
		ctx, cancel := context.WithTimeout(context.Background(), 30*time.Second)
		defer cancel()
		c, err := m.Nodes[0].A.DialContext(ctx, "tcp", "192.168.1.10:80")
		if err != nil {
			simrt.Failf("smoke", "dial failed", "%v", err)
		}
		msg := bytes.Repeat([]byte("hello mesh "), 3000)
		simrt.Go("writer", func() {
			c.Write(msg)
		})
		got := make([]byte, len(msg))
		if _, err := io.ReadFull(c, got); err != nil {
			simrt.Failf("smoke", "read failed", "%v", err)
		}
		if !bytes.Equal(got, msg) {
			simrt.Fail("smoke", "echo mismatch", "")
		}
		c.Close()
		simrt.Eventf("echo ok %d bytes", len(got))
	})
	simrt.Sleep(5 * time.Second)
	dials := 0
	for _, d := range m.Net.Dials {
		simrt.Eventf("dial %s %s %s", d.Node, d.Address, d.Err)
		dials++
	}
	if dials != 1 {
		simrt.Failf("smoke", "dial count", "%d", dials)
	}
	m.StopAll()
	simrt.Eventf("done frames=%d %s", m.Tap.Frames, fmt.Sprint(m.Tap.ByType))
}
