package wmesh

import (
	"context"
	"encoding/binary"
	"fmt"
	"io"
	"net"
	"strings"
	"time"

	"github.com/postalsys/muti-metroo/internal/agent"
	"github.com/postalsys/muti-metroo/internal/config"
	"github.com/postalsys/muti-metroo/internal/crypto"
	"github.com/postalsys/muti-metroo/internal/protocol"
	"github.com/postalsys/muti-metroo/internal/verifrt/simnet"
	"github.com/postalsys/muti-metroo/internal/verifrt/simrt"
	. "github.com/postalsys/muti-metroo/internal/verifsim/meshkit"
)

// Position-coded payloads: byte o of direction d of tunnel t is a pure function
// of (t, d, o), so every delivered byte is attributable to one tunnel, one
// direction and one offset. Every 64-byte block starts with an 8-byte marker
// that is also collected in a set for the plaintext search of C04.

func codeBlock(t, d int, blk uint64) [64]byte {
	var b [64]byte
	seed := simrt.Mix(uint64(t)*2+uint64(d)+0x51ed, blk)
	for i := 0; i < 8; i++ {
		binary.LittleEndian.PutUint64(b[i*8:], simrt.Mix(seed, uint64(i)))
	}
	return b
}

func codeBytes(t, d int, off, n int) []byte {
	out := make([]byte, n)
	for i := 0; i < n; {
		o := off + i
		blk := codeBlock(t, d, uint64(o/64))
		c := copy(out[i:], blk[o%64:])
		i += c
	}
	return out
}

// codeCheck verifies that got is the code of (t, d) at offset off.
func codeCheck(t, d, off int, got []byte) (int, bool) {
	want := codeBytes(t, d, off, len(got))
	for i := range got {
		if got[i] != want[i] {
			return i, false
		}
	}
	return 0, true
}

// Tunnel is one end-to-end tunnel of the workload.
type Tunnel struct {
	ID      int
	Kind    string // "tcp", "domain", "forward", "udp", "icmp", "shell", "file"
	ICMPVia string // "socks" or "ping-api" (icmp only)
	Ingress int
	Exit    int
	Addr    string // destination as dialled by the exit
	Dial    string // what the client asks for
	Up      int    // bytes client -> destination
	Down    int    // bytes destination -> client
	// behaviour
	ClientClose  string // "closewrite-then-read", "close-after-read", "abrupt"
	ServerClose  string // "after-eof", "after-send", "abrupt"
	WriteSizes   []int
	SlowStart    time.Duration // the client waits this long before it starts reading
	ConnectDelay time.Duration // the destination accepts the exit's connection this late
	NoServer     bool          // nothing listens at the destination: the open must fail (dial refused at the exit)
	EarlyClose   int           // > 0: the client closes after it has read this many bytes, while the destination is still sending
	// observations
	conn       net.Conn
	OpenErr    error
	Opened     bool
	clientGot  int
	serverGot  int
	clientEOF  bool
	serverEOF  bool
	clientErr  error
	serverErr  error
	serverConn *simnet.TCPConn
	clientDone bool
	serverDone bool
	ServerSeen bool
	faulted    bool // a fault was injected that may legitimately cut this tunnel
	FirstHopID uint64
	key        *crypto.SessionKey
	EphPub     [32]byte
	hops       []hop // from the wire
	started    time.Duration
	// shell tunnels (shelltunnel_test.go)
	Prog         string // "simcat", "simgen", "simsink"
	ErrBytes     int    // bytes the process writes to stderr
	WantExit     int    // exit status of the process
	Abandon      bool   // the client walks away while the command is still running
	AbandonAfter time.Duration
	shStdinSent  int
	shAcked      bool
	shRemoteErr  string
	shExitSeen   bool
	shExit       int
	shErrGot     int
	// file transfers (filetunnel_test.go)
	FileOp       string // "upload", "download", "download-stream", "upload-dir", "download-dir"
	ftFiles      []fileEntry
	ftSrc, ftDst string
	ftExitKey    *[32]byte
	ftIngressKey *[32]byte
	ftFirstFrame []byte
	ftKeyChecked bool
	// shell and file: a delivery failure was noted in a run that does not decide delivery
	deliverySoftFailed bool
}

type hop struct {
	From, To string
	ID       uint64
	Link     int
}

// TunnelSet runs and observes a set of tunnels on a mesh.
type TunnelSet struct {
	m               *Mesh
	T               []*Tunnel
	byPort          map[int]*Tunnel
	markers         map[uint64]int // 8-byte plaintext markers -> tunnel id (C04)
	byEph           map[[32]byte]*Tunnel
	group           simrt.Group
	OnOpen          func(t *Tunnel) // called in the client goroutine right after a successful open
	holdICMPReplies bool
	SlowConnects    bool
	connectDelays   map[string]time.Duration
	// wire observations
	MaxPayload     int
	PlainOnTransit int
	DataFrames     int
	frameLenBad    string
	keys           map[[32]byte]int
	// shell and file tunnels
	DecideDelivery       bool // delivery failures of shell / file tunnels are violations (C07)
	shellProgsRegistered bool
	xEph                 map[[32]byte]*Tunnel // ephemeral key -> shell / file tunnel
	opening              *Tunnel              // the shell / file tunnel whose open is about to leave the ingress
	openQ                simrt.WaitQ
	ftDir                string // per-run scratch directory of file transfers
	ftOldTmp             string
	ftHadTmp             bool
}

func NewTunnelSet(m *Mesh) *TunnelSet {
	ts := &TunnelSet{m: m, byPort: map[int]*Tunnel{}, markers: map[uint64]int{}, byEph: map[[32]byte]*Tunnel{}}
	m.Tap.OnFrame = append(m.Tap.OnFrame, ts.onFrame)
	return ts
}

// onFrame learns each tunnel's hops from STREAM_OPEN frames (ephemeral key = tunnel identity).
func (ts *TunnelSet) onFrame(ev *FrameEvent) {
	if len(ev.Payload) > ts.MaxPayload {
		ts.MaxPayload = len(ev.Payload)
	}
	if ev.Type == protocol.FrameUDPOpen {
		if uo, err := protocol.DecodeUDPOpen(ev.Payload); err == nil {
			// UDP tunnels of a run are told apart by their ingress (one UDP
			// tunnel per ingress and exit pair in this workload)
			for _, x := range ts.T {
				if x.Kind == "udp" && (x.EphPub == ([32]byte{}) || x.EphPub == uo.EphemeralPubKey) && (len(x.hops) == 0 || x.EphPub == uo.EphemeralPubKey) {
					if len(x.hops) == 0 && ts.m.Nodes[x.Ingress].Name != ev.From {
						continue
					}
					x.EphPub = uo.EphemeralPubKey
					x.hops = append(x.hops, hop{From: ev.From, To: ev.To, ID: ev.StreamID, Link: ev.Link.ID})
					break
				}
			}
		}
	}
	if ev.Type == protocol.FrameICMPOpen {
		ts.onICMPOpen(ev)
	}
	if ev.Type == protocol.FrameStreamOpen {
		so, err := protocol.DecodeStreamOpen(ev.Payload)
		if err != nil {
			return
		}
		t := ts.byEph[so.EphemeralPubKey]
		if t == nil {
			// learn by destination port (unique per tunnel)
			t = ts.byPort[int(so.Port)]
			if t != nil && t.Kind != "forward" {
				t.EphPub = so.EphemeralPubKey
				ts.byEph[so.EphemeralPubKey] = t
			}
		}
		if t == nil && so.AddressType == protocol.AddrTypeDomain {
			// forward tunnels carry "forward:<key>" and port 0
			name := string(so.Address)
			for _, x := range ts.T {
				if x.Kind == "forward" && len(name) > 0 && containsSuffix(name, x.Dial) {
					if x.EphPub == ([32]byte{}) || x.EphPub == so.EphemeralPubKey {
						t = x
						t.EphPub = so.EphemeralPubKey
						ts.byEph[so.EphemeralPubKey] = t
						break
					}
				}
			}
		}
		if t != nil {
			t.hops = append(t.hops, hop{From: ev.From, To: ev.To, ID: ev.StreamID, Link: ev.Link.ID})
		}
	}
}

func containsSuffix(s, suffix string) bool {
	return len(s) >= len(suffix) && s[len(s)-len(suffix):] == suffix
}

// Add registers a tunnel and its destination server.
func (ts *TunnelSet) Add(t *Tunnel) {
	t.ID = len(ts.T)
	port := 20000 + t.ID
	ts.T = append(ts.T, t)
	ts.byPort[port] = t
	ex := ts.m.Nodes[t.Exit]
	if t.Kind == "udp" {
		ts.addUDP(t)
		return
	}
	if t.Kind == "icmp" {
		ts.addICMP(t)
		return
	}
	if t.Kind == "shell" {
		ts.addShell(t)
		return
	}
	if t.Kind == "file" {
		ts.addFile(t)
		return
	}
	switch t.Kind {
	case "tcp":
		t.Addr = fmt.Sprintf("10.%d.3.4:%d", 100+t.Exit, port)
		t.Dial = t.Addr
	case "domain":
		name := fmt.Sprintf("t%d.svc%d.example.com", t.ID, t.Exit)
		t.Addr = fmt.Sprintf("10.%d.9.9:%d", 100+t.Exit, port)
		t.Dial = fmt.Sprintf("%s:%d", name, port)
		ts.m.Net.SetDNS(name, net.ParseIP(fmt.Sprintf("10.%d.9.9", 100+t.Exit)))
	case "forward":
		t.Addr = fmt.Sprintf("192.168.%d.5:%d", t.Exit, port)
		t.Dial = fmt.Sprintf("fw%d-%d", t.Exit, t.ID)
		ex.Cfg.Forward.Endpoints = append(ex.Cfg.Forward.Endpoints, config.ForwardEndpoint{Key: t.Dial, Target: t.Addr})
	}
	if !t.NoServer {
		ts.m.Net.ServeTCP(t.Addr, func(c *simnet.TCPConn) { ts.serve(t, c) })
	}
	if ts.SlowConnects && simrt.Chance(1, 3, "slow-connect") {
		// the destination accepts late: faults can land between the exit's dial and its acknowledgement
		t.ConnectDelay = time.Duration(100+simrt.Choose(2500, "connectdelayms")) * time.Millisecond
		if ts.connectDelays == nil {
			ts.connectDelays = map[string]time.Duration{}
			ts.m.Net.ConnectDelay = func(node, address string) time.Duration { return ts.connectDelays[address] }
		}
		ts.connectDelays[t.Addr] = t.ConnectDelay
		simrt.Probe("slow_connect")
	}
	// markers for the plaintext search
	for d := 0; d < 2; d++ {
		n := t.Up
		if d == 1 {
			n = t.Down
		}
		for blk := 0; blk*64 < n; blk++ {
			b := codeBlock(t.ID, d, uint64(blk))
			ts.markers[binary.LittleEndian.Uint64(b[:8])] = t.ID
		}
	}
}

// serve is the destination server of tunnel t.
func (ts *TunnelSet) serve(t *Tunnel, c *simnet.TCPConn) {
	t.ServerSeen = true
	t.serverConn = c
	defer func() { t.serverDone = true }()
	var wg simrt.Group
	// writer: downstream data
	wg.Go(fmt.Sprintf("srv-w-%d", t.ID), func() {
		sent := 0
		for sent < t.Down {
			n := 1 + simrt.Choose(40000, "srvchunk")
			if n > t.Down-sent {
				n = t.Down - sent
			}
			if _, err := c.Write(codeBytes(t.ID, 1, sent, n)); err != nil {
				t.serverErr = err
				return
			}
			sent += n
		}
		if t.ServerClose == "after-send" {
			c.CloseWrite()
		}
	})
	buf := make([]byte, 32768)
	for {
		n, err := c.Read(buf)
		if n > 0 {
			if i, ok := codeCheck(t.ID, 0, t.serverGot, buf[:n]); !ok {
				ts.misdelivery(t, "destination", t.serverGot+i, buf[:n])
			}
			t.serverGot += n
			if t.serverGot > t.Up {
				ts.misdelivery(t, "destination-excess", t.serverGot, nil)
			}
		}
		if err != nil {
			if err == io.EOF {
				t.serverEOF = true
			} else {
				t.serverErr = err
			}
			break
		}
	}
	wg.Wait()
	if t.ServerClose == "abrupt" {
		c.Link().Reset()
		return
	}
	c.Close()
}

// collides reports whether tunnel t shares a stream id with another tunnel at an
// agent over different links (the known stream-id keying defect).
func (ts *TunnelSet) collides(t *Tunnel) (bool, string) {
	for _, o := range ts.T {
		if o == t {
			continue
		}
		for _, h1 := range t.hops {
			for _, h2 := range o.hops {
				if h1.ID != h2.ID || h1.Link == h2.Link {
					continue
				}
				// same id on two different links that share an agent
				if h1.To == h2.To {
					return true, "inbound ids at " + h1.To
				}
				if h1.From == h2.From {
					return true, "outbound ids at " + h1.From
				}
				if h1.To == h2.From || h1.From == h2.To {
					return true, "inbound/outbound ids"
				}
			}
		}
	}
	return false, ""
}

// collisionOnPath reports whether two OTHER tunnels share a stream id, over
// different links, at an agent that tunnel t passes through (its ingress and
// exit included): the overwritten index entry of one of them makes its frames
// fall through to whatever else that agent keeps under the same number, which
// can be t (e.g. an open acknowledgement completing t's pending open).
func (ts *TunnelSet) collisionOnPath(t *Tunnel) (bool, string) {
	on := map[string]bool{ts.m.Nodes[t.Ingress].Name: true, ts.m.Nodes[t.Exit].Name: true}
	for _, h := range t.hops {
		on[h.From], on[h.To] = true, true
	}
	for i, a := range ts.T {
		for _, b := range ts.T[i+1:] {
			if a == t || b == t {
				continue
			}
			for _, h1 := range a.hops {
				for _, h2 := range b.hops {
					if h1.ID != h2.ID || h1.Link == h2.Link {
						continue
					}
					for _, ag := range []string{h1.From, h1.To} {
						if (ag == h2.From || ag == h2.To) && on[ag] {
							return true, fmt.Sprintf("tunnels %d and %d share id %d at %s", a.ID, b.ID, h1.ID, ag)
						}
					}
				}
			}
		}
	}
	return false, ""
}

func (ts *TunnelSet) fail(t *Tunnel, class, sig, detail string) {
	if c, where := ts.collisionOnPath(t); c {
		if c2, _ := ts.collides(t); !c2 {
			simrt.Probe("tunnel_failure_beside_stream_id_collision")
			simrt.Failf("stream-id-collision", "tunnel disturbed while two other tunnels shared a stream id at an agent on its path ("+t.Kind+")", "%s [%s] tunnel %d %s->%s: %s (%s)", class, where, t.ID, ts.m.Nodes[t.Ingress].Name, ts.m.Nodes[t.Exit].Name, detail, sig)
		}
	}
	if c, where := ts.collides(t); c {
		simrt.Probe("tunnel_failure_with_stream_id_collision")
		simrt.Failf("stream-id-collision", "tunnel disturbed while sharing a stream id with another tunnel at one agent ("+t.Kind+")", "%s [%s] tunnel %d %s->%s: %s (%s)", class, where, t.ID, ts.m.Nodes[t.Ingress].Name, ts.m.Nodes[t.Exit].Name, detail, sig)
	}
	others := ""
	for _, o := range ts.T {
		if o != t && len(o.hops) > 0 {
			others += fmt.Sprintf(" t%d(%s)%v", o.ID, o.Kind, o.hops)
		}
	}
	simrt.Failf(class, sig, "tunnel %d (%s) %s->%s hops=%v: %s [other tunnels:%s]", t.ID, t.Kind, ts.m.Nodes[t.Ingress].Name, ts.m.Nodes[t.Exit].Name, t.hops, detail, others)
}

func (ts *TunnelSet) misdelivery(t *Tunnel, where string, off int, got []byte) {
	owner := "unknown bytes"
	if len(got) >= 8 {
		for i := 0; i+8 <= len(got) && i < 256; i++ {
			if id, ok := ts.markers[binary.LittleEndian.Uint64(got[i:])]; ok {
				owner = fmt.Sprintf("bytes of tunnel %d", id)
				break
			}
		}
	}
	ts.fail(t, "tunnel-bytes-wrong", "endpoint received bytes that its counterpart did not send at that offset", fmt.Sprintf("%s of tunnel %d got %s at offset %d", where, t.ID, owner, off))
}

// Start launches tunnel t's client as simulated goroutines.
func (ts *TunnelSet) Start(t *Tunnel) {
	if t.Kind == "udp" {
		ts.startUDP(t)
		return
	}
	if t.Kind == "icmp" {
		ts.startICMP(t)
		return
	}
	if t.Kind == "shell" {
		ts.startShell(t)
		return
	}
	if t.Kind == "file" {
		ts.startFile(t)
		return
	}
	nd := ts.m.Nodes[t.Ingress]
	ts.group.Go(fmt.Sprintf("client-%d", t.ID), func() {
		simrt.SetNode(nd.Name)
		t.started = simrt.Elapsed()
		ctx, cancel := context.WithTimeout(context.Background(), 45*time.Second)
		defer cancel()
		var c net.Conn
		var err error
		if t.Kind == "forward" {
			c, err = nd.A.DialForward(ctx, t.Dial)
		} else {
			c, err = nd.A.DialContext(ctx, "tcp", t.Dial)
		}
		simrt.Eventf("tunnel %d %s dial %s err=%v", t.ID, t.Kind, t.Dial, err)
		if err != nil {
			t.OpenErr = err
			t.clientDone = true
			if t.NoServer {
				simrt.Probe("open_refused_at_exit")
			}
			return
		}
		if t.NoServer {
			ts.fail(t, "open-succeeded-without-destination", "tunnel open succeeded although nothing listens at the destination", t.Dial)
		}
		t.Opened = true
		t.conn = c
		t.key, t.FirstHopID = agent.VerifConnSession(c)
		if ts.OnOpen != nil {
			ts.OnOpen(t)
		}
		var wg simrt.Group
		wg.Go(fmt.Sprintf("client-w-%d", t.ID), func() {
			simrt.SetNode(nd.Name)
			sent := 0
			for k := 0; sent < t.Up; k++ {
				n := t.Up - sent
				if k < len(t.WriteSizes) && t.WriteSizes[k] < n {
					n = t.WriteSizes[k]
				}
				if n > 0 {
					if _, err := c.Write(codeBytes(t.ID, 0, sent, n)); err != nil {
						t.clientErr = err
						return
					}
				} else {
					c.Write(nil)
					if k >= len(t.WriteSizes) {
						break
					}
				}
				sent += n
			}
			if t.ClientClose == "closewrite-then-read" {
				if cw, ok := c.(interface{ CloseWrite() error }); ok {
					cw.CloseWrite()
				}
			}
		})
		if t.SlowStart > 0 {
			simrt.Probe("slow_reader")
			simrt.Sleep(t.SlowStart)
		}
		buf := make([]byte, 40000)
		for t.clientGot < t.Down || t.ClientClose == "closewrite-then-read" {
			if t.EarlyClose > 0 && t.clientGot >= t.EarlyClose {
				simrt.Probe("client_closes_while_destination_still_sends")
				break
			}
			rb := buf[:1+simrt.Choose(len(buf), "readsz")]
			c.SetReadDeadline(time.Now().Add(3 * time.Minute))
			n, err := c.Read(rb)
			if n > 0 {
				if i, ok := codeCheck(t.ID, 1, t.clientGot, rb[:n]); !ok {
					ts.misdelivery(t, "client", t.clientGot+i, rb[:n])
				}
				t.clientGot += n
				if t.clientGot > t.Down {
					ts.misdelivery(t, "client-excess", t.clientGot, nil)
				}
			}
			if err != nil {
				if err == io.EOF {
					t.clientEOF = true
				} else {
					t.clientErr = err
				}
				break
			}
		}
		wg.Wait()
		if t.ClientClose == "abrupt" {
			c.Close()
		} else {
			c.Close()
		}
		t.clientDone = true
		simrt.Eventf("tunnel %d client done got=%d/%d eof=%v err=%v", t.ID, t.clientGot, t.Down, t.clientEOF, t.clientErr)
	})
}

// Wait waits for all clients (bounded simulated time).
func (ts *TunnelSet) Wait(limit time.Duration) bool {
	return ts.group.WaitTimeout(limit)
}

// heavyTraffic reports whether some tunnel of the run moves a megabyte or more.
func (ts *TunnelSet) heavyTraffic() bool {
	for _, t := range ts.T {
		if t.Up+t.Down >= 1<<20 {
			return true
		}
	}
	return false
}

// CheckComplete is the byte-exactness oracle after a fault-free run: every
// opened tunnel delivered exactly the bytes that were sent, in both directions.
func (ts *TunnelSet) CheckComplete() {
	for _, t := range ts.T {
		if t.faulted || t.Kind == "udp" || t.Kind == "icmp" || t.NoServer {
			continue
		}
		if !t.Opened && t.OpenErr != nil && strings.Contains(t.OpenErr.Error(), "timeout") && ts.heavyTraffic() {
			// the 30 s open time-out of the implementation, on connections whose
			// dispatchers are busy with megabytes of a sibling's data under
			// starvation: no statement bounds the time an open may take
			simrt.Probe("open_timed_out_in_saturated_mesh")
			continue
		}
		if !t.Opened {
			ts.fail(t, "tunnel-open-failed", "tunnel open failed without any fault", fmt.Sprintf("%v", t.OpenErr))
		}
		if !t.clientDone {
			ts.fail(t, "tunnel-stalled", "tunnel did not finish within the time limit without any fault", fmt.Sprintf("client got %d/%d, destination got %d/%d", t.clientGot, t.Down, t.serverGot, t.Up))
		}
		if t.clientGot != t.Down {
			ts.fail(t, "tunnel-bytes-missing", "client did not receive everything the destination sent", fmt.Sprintf("got %d of %d (eof=%v err=%v)", t.clientGot, t.Down, t.clientEOF, t.clientErr))
		}
		// Upstream completeness is only demanded when the destination keeps its
		// side open until it has seen the client's end-of-data: an exit treats
		// the destination's own end-of-data as the end of the connection, so
		// with a destination that closes first the client's tail may be cut
		// (the bytes that did arrive must still be the right prefix).
		if t.ServerClose == "after-eof" {
			// the destination reads until EOF/close: wait for it, for as long as
			// bytes keep arriving (an exit that is kept off the CPU works through
			// megabytes of frames slowly; no statement bounds that time) and for a
			// minute after the last one
			last, lastAt, began := t.serverGot, simrt.Elapsed(), simrt.Elapsed()
			for !t.serverDone && simrt.Elapsed()-lastAt < time.Minute && simrt.Elapsed()-began < 30*time.Minute {
				simrt.Sleep(200 * time.Millisecond)
				if t.serverGot != last {
					last, lastAt = t.serverGot, simrt.Elapsed()
				}
			}
			if simrt.Elapsed()-began > 20*time.Second {
				simrt.Probe("destination_still_receiving_20s_after_the_client_finished")
			}
			if t.serverGot != t.Up {
				ts.fail(t, "tunnel-bytes-missing", "destination did not receive everything the client sent", fmt.Sprintf("got %d of %d (eof=%v err=%v)", t.serverGot, t.Up, t.serverEOF, t.serverErr))
			}
		}
	}
}

var edgeSizes = []int{0, 1, 100, 16355, 16356, 16357, 16383, 16384, 16385, 32711, 32712, 32713, 65536}

// drawSizes draws a write-size schedule biased to frame-size boundaries.
func drawSizes(total int) []int {
	var out []int
	left := total
	for k := 0; k < 6 && left > 0; k++ {
		var n int
		if simrt.Chance(2, 3, "edge") {
			n = edgeSizes[simrt.Choose(len(edgeSizes), "edgesz")]
		} else {
			n = simrt.Choose(70000, "anysz")
		}
		out = append(out, n)
		left -= n
	}
	return out
}
