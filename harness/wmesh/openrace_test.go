package wmesh

import (
	"fmt"
	"time"

	"github.com/postalsys/muti-metroo/internal/protocol"
	"github.com/postalsys/muti-metroo/internal/verifrt/simnet"
	"github.com/postalsys/muti-metroo/internal/verifrt/simrt"
	. "github.com/postalsys/muti-metroo/internal/verifsim/meshkit"
)

// An open that a transit passes on while its upstream side goes away (C17; the
// history the thorough tier found with seed 9). Chain 0 - 1 - 2: agent 1 relays
// agent 0's opens to the exit 2. The connection 1 -> 2 is slow for a moment (one
// write on it takes a drawn 0.3 to 2 s: a congested link), so everything agent 1
// wants to send to 2 queues up behind it: the opens it is passing on, and, when
// the link 0 - 1 is reset in that moment, the resets with which its clean-up
// takes the relayed streams back. Which of the queued writers goes first is the
// scheduler's choice: a reset can reach the exit before the open it is meant to
// undo. Whatever the order, once everything has ended nothing may be left at the
// exit (file transfer and shell records have no idle timeout of their own).
func runOpenRacesUpstreamLoss() {
	m := NewMesh(3, "chain")
	m.TunnelExit = 2
	for j, nd := range m.Nodes {
		nd.Cfg.Routing.AdvertiseInterval = 20 * time.Second
		nd.Cfg.Routing.RouteTTL = 10 * time.Minute
		nd.Cfg.Connections.IdleThreshold = 60 * time.Second
		if j == 0 {
			continue
		}
		nd.Cfg.Exit.Enabled = true
		nd.Cfg.Exit.Routes = []string{fmt.Sprintf("10.%d.0.0/16", 100+j)}
		nd.Cfg.Exit.DomainRoutes = []string{fmt.Sprintf("*.svc%d.example.com", j)}
	}
	lat := []time.Duration{0, 2 * time.Millisecond, 20 * time.Millisecond}[simrt.Choose(3, "latency")]
	m.Net.DefaultLatency = func(l *simnet.Link) [2]time.Duration { return [2]time.Duration{lat, lat} }
	ts := NewTunnelSet(m)
	defer ts.CleanupFiles()
	// the carrier: a tunnel of agent 1's own; its open is the slow write (agent 1
	// handles the frames of one upstream connection one after the other, so the
	// slow write must not be made on behalf of agent 0)
	carrier := &Tunnel{Kind: "tcp", Ingress: 1, Exit: 2, Up: 100, Down: 100, ClientClose: "closewrite-then-read", ServerClose: "after-eof", WriteSizes: []int{100}}
	ts.Add(carrier)
	k := 1 + simrt.Choose(3, "followers")
	var followers []*Tunnel
	for i := 0; i < k; i++ {
		var t *Tunnel
		switch simrt.Choose(3, "follower-kind") {
		case 0:
			t = drawFileTunnel(m, "C17")
		case 1:
			t = drawShellTunnel(m, "C17")
		default:
			t = &Tunnel{Kind: "tcp", Ingress: 0, Exit: 2, Up: 1 + simrt.Choose(5000, "up"), Down: 1 + simrt.Choose(5000, "down"), ClientClose: "closewrite-then-read", ServerClose: "after-eof"}
			t.WriteSizes = drawSizes(t.Up)
		}
		ts.Add(t)
		followers = append(followers, t)
	}
	stall := time.Duration(300+simrt.Choose(1700, "stall-ms")) * time.Millisecond
	armed := true
	n1, n2 := m.Nodes[1].Name, m.Nodes[2].Name
	m.Tap.OnFrame = append(m.Tap.OnFrame, func(ev *FrameEvent) {
		if armed && ev.From == n1 && ev.To == n2 && ev.Type == protocol.FrameStreamOpen {
			armed = false
			simrt.Probe("c17_slow_write_on_downstream_link")
			simrt.Sleep(stall) // the write does not return before this
		}
	})
	simrt.Eventf("open race mesh edges=%v latency=%v stall=%v followers=%d", m.Edges, lat, stall, k)
	BootAndConverge(m)
	ts.Start(carrier)
	simrt.Sleep(time.Duration(5+simrt.Choose(40, "follow-after-ms")) * time.Millisecond)
	for _, t := range followers {
		ts.Start(t)
	}
	simrt.Sleep(time.Duration(30+simrt.Choose(int(stall/time.Millisecond)-20, "reset-after-ms")) * time.Millisecond)
	for _, l := range m.Net.Links() {
		a, b := m.Nodes[0].Name, n1
		if l.Kind == "peer" && !l.Dead() && ((l.DialNode == a && l.AccNode == b) || (l.DialNode == b && l.AccNode == a)) {
			for _, t := range followers {
				t.faulted = true
			}
			simrt.Eventf("fault: reset mesh link %d %s-%s", l.ID, l.DialNode, l.AccNode)
			simrt.Probe("fault_mesh_link_reset")
			l.Reset()
		}
	}
	if !ts.Wait(20 * time.Minute) {
		simrt.Eventf("tunnels still pending after limit: %d", ts.group.Pending())
	}
	ts.checkDrained()
	m.StopAll()
}
