package wmesh

import (
	"fmt"

	"github.com/postalsys/muti-metroo/internal/crypto"
	"github.com/postalsys/muti-metroo/internal/verifrt/simrt"
)

// keyDerivationChecks is the part of C03 that no honest pair of agents can
// exhibit: "tunnels that differ in request identifier or in either ephemeral
// key end up with different keys". Two honest ends always feed the derivation
// the same inputs, so a derivation that ignores one of them is invisible in
// whole-mesh runs. Here the derivation the agents use is called on pairs of
// inputs that differ in exactly one component (the shared secret held fixed,
// as it is when a relay swaps one public key for an equivalent encoding of the
// same point): the session keys must differ, and both roles must agree.
// (Run once per C03 execution; inputs come from the run's own random stream.)
func keyDerivationChecks() {
	privA, pubA, err := crypto.GenerateEphemeralKeypair()
	if err != nil {
		panic(err)
	}
	privB, pubB, err := crypto.GenerateEphemeralKeypair()
	if err != nil {
		panic(err)
	}
	_, pubC, _ := crypto.GenerateEphemeralKeypair()
	sAB, err := crypto.ComputeECDH(privA, pubB)
	if err != nil {
		panic(err)
	}
	sBA, err := crypto.ComputeECDH(privB, pubA)
	if err != nil {
		panic(err)
	}
	req := uint64(0x1000 + simrt.Choose(1<<16, "kd-request"))
	if simrt.Chance(1, 2, "kd-request-wide") {
		// identifiers are 64 bits wide on the wire: every bit of them has to matter
		req = uint64(simrt.Choose(1<<30, "kd-request-hi"))<<34 | uint64(simrt.Choose(1<<30, "kd-request-lo"))
	}
	bit := uint(simrt.Choose(64, "kd-request-bit"))
	base := crypto.DeriveSessionKey(sAB, req, pubA, pubB, true).Key()
	if other := crypto.DeriveSessionKey(sBA, req, pubA, pubB, false).Key(); other != base {
		simrt.Failf("ends-derived-different-keys", "initiator and responder derivation disagree on the same inputs", "request %d", req)
	}
	// an equivalent encoding of the same point (bit 255 is ignored by X25519): the
	// shared secret stays the same, the public key bytes differ
	pubB2 := pubB
	pubB2[31] ^= 0x80
	pubA2 := pubA
	pubA2[31] ^= 0x80
	type variant struct {
		what string
		key  [32]byte
	}
	vs := []variant{
		{"request identifier", crypto.DeriveSessionKey(sAB, req+1, pubA, pubB, true).Key()},
		{fmt.Sprintf("request identifier (bit %d)", bit), crypto.DeriveSessionKey(sAB, req^(1<<bit), pubA, pubB, true).Key()},
		{"responder ephemeral key (other key)", crypto.DeriveSessionKey(sAB, req, pubA, pubC, true).Key()},
		{"responder ephemeral key (same point, other encoding)", crypto.DeriveSessionKey(sAB, req, pubA, pubB2, true).Key()},
		{"initiator ephemeral key (other key)", crypto.DeriveSessionKey(sAB, req, pubC, pubB, true).Key()},
		{"initiator ephemeral key (same point, other encoding)", crypto.DeriveSessionKey(sAB, req, pubA2, pubB, true).Key()},
	}
	for _, v := range vs {
		if v.key == base {
			simrt.Failf("tunnels-share-a-key", "two tunnels that differ in one input of the key derivation derived the same session key", "same shared secret, tunnels differ only in the %s", v.what)
		}
	}
	simrt.Probe("c03_key_derivation_inputs_varied")
}
