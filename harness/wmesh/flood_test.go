package wmesh

import (
	"context"
	"fmt"
	. "github.com/postalsys/muti-metroo/internal/verifsim/meshkit"
	"net"
	"time"

	"github.com/postalsys/muti-metroo/internal/identity"
	"github.com/postalsys/muti-metroo/internal/verifrt/simrt"
)

// DrawMesh draws size, topology, timing and route placement for the flood family.

// PlaceRoutes gives a drawn subset of nodes unique CIDR/domain/forward routes.

// AdvObs is a ROUTE_ADVERTISE seen on the wire.

// WatchAdverts records every route advertisement crossing any link.

// checkLoopFree: no stored route has a path that repeats an agent or contains the holder.
func checkLoopFree(m *Mesh, when string) {
	for i, nd := range m.Nodes {
		if !nd.Running {
			continue
		}
		for _, r := range m.RoutesAt(i) {
			if r.NextHop == (identity.AgentID{}) && len(r.Path) == 0 {
				continue // local route
			}
			seen := map[identity.AgentID]bool{}
			for _, p := range r.Path {
				if p == nd.ID {
					simrt.Failf("route-through-self", "stored route passes through its holder", "%s at %s holds %s", when, nd.Name, m.RouteStr(r))
				}
				if seen[p] {
					simrt.Failf("route-path-revisits", "stored route path revisits an agent", "%s at %s holds %s", when, nd.Name, m.RouteStr(r))
				}
				seen[p] = true
			}
		}
	}
}

// checkConverged is the C12 oracle on a stable, fully connected mesh.
func checkConverged(m *Mesh) {
	es := EdgeSet(m)
	for i, nd := range m.Nodes {
		views := m.RoutesAt(i)
		have := map[string]RouteView{}
		for _, r := range views {
			have[r.Table+"|"+r.Key+"|"+m.NameOf(r.Origin)] = r
		}
		for j, od := range m.Nodes {
			if j == i {
				continue
			}
			want := []string{"agent|" + od.Name + "|" + od.Name}
			o := m.OriginatedBy(j)
			for _, c := range o.CIDR {
				want = append(want, "cidr|"+c+"|"+od.Name)
			}
			for _, d := range o.Domain {
				want = append(want, "domain|"+d+"|"+od.Name)
			}
			for _, f := range o.Forward {
				want = append(want, "forward|"+f+"|"+od.Name)
			}
			for _, w := range want {
				r, ok := have[w]
				if !ok {
					simrt.Failf("route-not-learned", "advertised route missing after convergence bound", "%s has no %s", nd.Name, w)
				}
				// next hop is a current neighbour
				nh := m.NodeByID(r.NextHop)
				if nh == nil || !es[[2]int{i, nh.Idx}] || !HasPeer(nd, r.NextHop) {
					simrt.Failf("next-hop-not-neighbour", "next hop is not a current neighbour", "%s: %s", nd.Name, m.RouteStr(r))
				}
				if len(r.Path) == 0 || r.Path[0] != r.NextHop {
					simrt.Failf("path-not-from-next-hop", "recorded path does not start at the next hop", "%s: %s", nd.Name, m.RouteStr(r))
				}
				prev := i
				for _, p := range r.Path {
					pn := m.NodeByID(p)
					if pn == nil || !es[[2]int{prev, pn.Idx}] {
						simrt.Failf("path-not-a-chain-of-links", "recorded path is not a chain of actual links", "%s: %s", nd.Name, m.RouteStr(r))
					}
					prev = pn.Idx
				}
				if r.Path[len(r.Path)-1] != r.Origin || r.Origin != od.ID {
					simrt.Failf("path-does-not-end-at-origin", "recorded path does not end at the advertising agent", "%s: %s", nd.Name, m.RouteStr(r))
				}
			}
		}
	}
}

// checkMetrics is the C13 oracle: metric == hops along the recorded path (all
// routes here are originated with local metric 0).
func checkMetrics(m *Mesh) {
	for i, nd := range m.Nodes {
		for _, r := range m.RoutesAt(i) {
			if r.Origin == nd.ID || len(r.Path) == 0 {
				continue
			}
			simrt.Probe(fmt.Sprintf("c13_route_at_%d_hops", min(len(r.Path), 4)))
			if int(r.Metric) != len(r.Path) {
				simrt.Failf("metric-not-hop-count", "metric differs from hop count of recorded path ("+r.Table+")", "%s: %s (hops=%d)", nd.Name, m.RouteStr(r), len(r.Path))
			}
		}
	}
}

func runC12() {
	m := DrawMesh(2, 7, AllTopos)
	PlaceRoutes(m, true)
	// destination servers inside every advertised prefix
	for j, nd := range m.Nodes {
		if nd.Cfg.Exit.Enabled {
			m.Net.ServeTCP(fmt.Sprintf("10.%d.3.4:80", 100+j), EchoServer)
		}
	}
	BootAndConverge(m)
	checkConverged(m)
	// a stream opened along a learned route reaches the advertising agent
	// (one probe tunnel per run: concurrent tunnels are C16's subject)
	probes := 1
	for k := 0; k < probes; k++ {
		i := simrt.Choose(len(m.Nodes), "ingress")
		var exits []int
		for j, nd := range m.Nodes {
			if nd.Cfg.Exit.Enabled && j != i {
				exits = append(exits, j)
			}
		}
		if len(exits) == 0 {
			continue
		}
		j := exits[simrt.Choose(len(exits), "exit")]
		addr := fmt.Sprintf("10.%d.3.4:80", 100+j)
		before := len(m.Net.Dials)
		m.On(i, "probe", func() {
			ctx, cancel := context.WithTimeout(context.Background(), 40*time.Second)
			defer cancel()
			c, err := m.Nodes[i].A.DialContext(ctx, "tcp", addr)
			if err != nil {
				simrt.Failf("probe-tunnel-failed", "stream along a converged route failed", "%s -> %s via %s: %v", m.Nodes[i].Name, addr, m.Nodes[j].Name, err)
			}
			c.Write([]byte("ping"))
			buf := make([]byte, 4)
			c.SetReadDeadline(time.Now().Add(30 * time.Second))
			if _, err := c.Read(buf); err != nil {
				simrt.Failf("probe-tunnel-failed", "stream along a converged route carried no data", "%s -> %s: %v", m.Nodes[i].Name, addr, err)
			}
			c.Close()
		})
		simrt.Probe("c12_probe_tunnel")
		found := false
		for _, d := range m.Net.Dials[before:] {
			if d.Address == addr {
				found = true
				if d.Node != m.Nodes[j].Name {
					simrt.Failf("probe-reached-wrong-agent", "stream did not reach the advertising agent", "dial for %s was made by %s, advertised by %s", addr, d.Node, m.Nodes[j].Name)
				}
			}
		}
		if !found {
			simrt.Failf("probe-reached-wrong-agent", "no outbound dial observed for the probe", "%s", addr)
		}
	}
	m.StopAll()
}

func runC13() {
	m := DrawMesh(2, 7, []string{"chain", "tree", "ring", "diamond", "random", "star"})
	PlaceRoutes(m, true)
	// optionally the same prefix advertised by a near and a far exit
	shared := ""
	if len(m.Nodes) >= 3 && simrt.Chance(1, 2, "shared-prefix") {
		shared = "10.250.0.0/16"
		a, b := 0, len(m.Nodes)-1
		for _, j := range []int{a, b} {
			m.Nodes[j].Cfg.Exit.Enabled = true
			m.Nodes[j].Cfg.Exit.Routes = append(m.Nodes[j].Cfg.Exit.Routes, shared)
		}
	}
	BootAndConverge(m)
	checkMetrics(m)
	if shared != "" {
		// the statement's corollary: among equally specific routes the one whose
		// recorded path is shorter (the nearer exit, as recorded) is preferred
		for i, nd := range m.Nodes {
			var held []RouteView
			for _, rv := range m.RoutesAt(i) {
				if rv.Table == "cidr" && rv.Key == shared && rv.Origin != nd.ID {
					held = append(held, rv)
				}
			}
			if len(held) < 2 || len(held[0].Path) == len(held[1].Path) || nd.Cfg.Exit.Enabled && ContainsStr(nd.Cfg.Exit.Routes, shared) {
				continue
			}
			r := nd.A.VerifRouteManager().Lookup(net.ParseIP("10.250.1.1"))
			if r == nil {
				simrt.Failf("route-not-learned", "shared prefix not learned", "%s", nd.Name)
			}
			near := held[0]
			if len(held[1].Path) < len(near.Path) {
				near = held[1]
			}
			simrt.Probe("c13_near_far_compared")
			if r.OriginAgent != near.Origin {
				simrt.Failf("farther-exit-preferred", "lookup prefers the farther of two exits for the same prefix", "%s holds [%s] [%s] but lookup returns origin %s", nd.Name, m.RouteStr(held[0]), m.RouteStr(held[1]), m.NameOf(r.OriginAgent))
			}
		}
	}
	m.StopAll()
}

// SortedKeys is a helper for deterministic iteration.
