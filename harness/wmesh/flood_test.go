package wmesh

import (
	"context"
	"fmt"
	"github.com/postalsys/muti-metroo/internal/config"
	. "github.com/postalsys/muti-metroo/internal/verifsim/meshkit"
	"net"
	"sort"
	"strings"
	"time"

	"github.com/postalsys/muti-metroo/internal/identity"
	"github.com/postalsys/muti-metroo/internal/protocol"
	"github.com/postalsys/muti-metroo/internal/verifrt/simnet"
	"github.com/postalsys/muti-metroo/internal/verifrt/simrt"
	"github.com/postalsys/muti-metroo/internal/verifrt/simtransport"
)

// DrawMesh draws size, topology, timing and route placement for the flood family.

// PlaceRoutes gives a drawn subset of nodes unique CIDR/domain/forward routes.

// AdvObs is a ROUTE_ADVERTISE seen on the wire.

// WatchAdverts records every route advertisement crossing any link.

// checkLoopFree: no stored route has a path that repeats an agent or contains the holder.
func CheckLoopFree(m *Mesh, when string) {
	for i, nd := range m.Nodes {
		if !nd.Running {
			continue
		}
		for _, r := range m.RoutesAt(i) {
			if r.NextHop == (identity.AgentID{}) && len(r.Path) == 0 {
				continue // local route
			}
			seen := map[identity.AgentID]bool{}
			for _, p := range r.Path {
				if p == nd.ID {
					simrt.Failf("route-through-self", "stored route passes through its holder", "%s at %s holds %s", when, nd.Name, m.RouteStr(r))
				}
				if seen[p] {
					simrt.Failf("route-path-revisits", "stored route path revisits an agent", "%s at %s holds %s", when, nd.Name, m.RouteStr(r))
				}
				seen[p] = true
			}
		}
	}
}

// checkConverged is the C12 oracle on a stable, fully connected mesh.
func checkConverged(m *Mesh) {
	es := EdgeSet(m)
	for i, nd := range m.Nodes {
		views := m.RoutesAt(i)
		have := map[string]RouteView{}
		for _, r := range views {
			have[r.Table+"|"+r.Key+"|"+m.NameOf(r.Origin)] = r
		}
		for j, od := range m.Nodes {
			if j == i {
				continue
			}
			want := []string{"agent|" + od.Name + "|" + od.Name}
			o := m.OriginatedBy(j)
			for _, c := range o.CIDR {
				want = append(want, "cidr|"+c+"|"+od.Name)
			}
			for _, d := range o.Domain {
				want = append(want, "domain|"+d+"|"+od.Name)
			}
			for _, f := range o.Forward {
				want = append(want, "forward|"+f+"|"+od.Name)
			}
			for _, w := range want {
				r, ok := have[w]
				if !ok {
					simrt.Failf("route-not-learned", "advertised route missing after convergence bound", "%s has no %s", nd.Name, w)
				}
				// next hop is a current neighbour
				nh := m.NodeByID(r.NextHop)
				if nh == nil || !es[[2]int{i, nh.Idx}] || !HasPeer(nd, r.NextHop) {
					simrt.Failf("next-hop-not-neighbour", "next hop is not a current neighbour", "%s: %s", nd.Name, m.RouteStr(r))
				}
				if len(r.Path) == 0 || r.Path[0] != r.NextHop {
					simrt.Failf("path-not-from-next-hop", "recorded path does not start at the next hop", "%s: %s", nd.Name, m.RouteStr(r))
				}
				prev := i
				for _, p := range r.Path {
					pn := m.NodeByID(p)
					if pn == nil || !es[[2]int{prev, pn.Idx}] {
						simrt.Failf("path-not-a-chain-of-links", "recorded path is not a chain of actual links", "%s: %s", nd.Name, m.RouteStr(r))
					}
					prev = pn.Idx
				}
				if r.Path[len(r.Path)-1] != r.Origin || r.Origin != od.ID {
					simrt.Failf("path-does-not-end-at-origin", "recorded path does not end at the advertising agent", "%s: %s", nd.Name, m.RouteStr(r))
				}
			}
		}
	}
}

// checkMetrics is the C13 oracle: metric == hops along the recorded path (all
// routes here are originated with local metric 0).
func checkMetrics(m *Mesh) {
	for i, nd := range m.Nodes {
		for _, r := range m.RoutesAt(i) {
			if r.Origin == nd.ID || len(r.Path) == 0 {
				continue
			}
			simrt.Probe(fmt.Sprintf("c13_route_at_%d_hops", min(len(r.Path), 4)))
			if int(r.Metric) != len(r.Path) {
				simrt.Failf("metric-not-hop-count", "metric differs from hop count of recorded path ("+r.Table+")", "%s: %s (hops=%d)", nd.Name, m.RouteStr(r), len(r.Path))
			}
		}
	}
}

func runC12() {
	m := DrawMesh(2, 7, AllTopos)
	PlaceRoutes(m, true)
	if len(m.Nodes) >= 3 && simrt.Chance(1, 2, "shared-routes") {
		// the same prefix, domain patterns and forward key advertised by two agents:
		// every other agent must learn both advertisers' routes
		a := simrt.Choose(len(m.Nodes), "shared-a")
		b := (a + 1 + simrt.Choose(len(m.Nodes)-1, "shared-b")) % len(m.Nodes)
		for _, j := range []int{a, b} {
			nd := m.Nodes[j]
			nd.Cfg.Exit.Enabled = true
			nd.Cfg.Exit.Routes = append(nd.Cfg.Exit.Routes, "10.250.0.0/16")
			nd.Cfg.Exit.DomainRoutes = append(nd.Cfg.Exit.DomainRoutes, "*.corp.example", "db.corp.example")
			nd.Cfg.Forward.Endpoints = append(nd.Cfg.Forward.Endpoints, config.ForwardEndpoint{Key: "shared-svc", Target: fmt.Sprintf("192.168.%d.9:9000", j)})
		}
		simrt.Probe("c12_same_routes_from_two_agents")
	}
	if len(m.Edges) == len(m.Nodes)-1 && simrt.Chance(1, 2, "tight-hop-limit") {
		// a tree has one path between any two agents: with the hop limit equal to
		// the longest of them every agent is still within the limit of every origin
		diam := 0
		for j := range m.Nodes {
			for _, d := range m.Dist(j) {
				if d > diam {
					diam = d
				}
			}
		}
		mh := diam + simrt.Choose(2, "hop-slack")
		for _, nd := range m.Nodes {
			nd.Cfg.Routing.MaxHops = mh
		}
		simrt.Eventf("tree with diameter %d, max_hops=%d", diam, mh)
		if mh == diam {
			simrt.Probe("c12_hop_limit_equals_diameter")
		}
	}
	// destination servers inside every advertised prefix
	for j, nd := range m.Nodes {
		if nd.Cfg.Exit.Enabled {
			m.Net.ServeTCP(fmt.Sprintf("10.%d.3.4:80", 100+j), EchoServer)
		}
	}
	BootAndConverge(m)
	checkConverged(m)
	// a stream opened along a learned route reaches the advertising agent
	// (one probe tunnel per run: concurrent tunnels are C16's subject)
	probes := 1
	for k := 0; k < probes; k++ {
		i := simrt.Choose(len(m.Nodes), "ingress")
		var exits []int
		for j, nd := range m.Nodes {
			if nd.Cfg.Exit.Enabled && j != i && ContainsStr(nd.Cfg.Exit.Routes, fmt.Sprintf("10.%d.0.0/16", 100+j)) {
				exits = append(exits, j)
			}
		}
		if len(exits) == 0 {
			continue
		}
		j := exits[simrt.Choose(len(exits), "exit")]
		addr := fmt.Sprintf("10.%d.3.4:80", 100+j)
		before := len(m.Net.Dials)
		m.On(i, "probe", func() {
			ctx, cancel := context.WithTimeout(context.Background(), 40*time.Second)
			defer cancel()
			c, err := m.Nodes[i].A.DialContext(ctx, "tcp", addr)
			if err != nil {
				simrt.Failf("probe-tunnel-failed", "stream along a converged route failed", "%s -> %s via %s: %v", m.Nodes[i].Name, addr, m.Nodes[j].Name, err)
			}
			c.Write([]byte("ping"))
			buf := make([]byte, 4)
			c.SetReadDeadline(time.Now().Add(30 * time.Second))
			if _, err := c.Read(buf); err != nil {
				simrt.Failf("probe-tunnel-failed", "stream along a converged route carried no data", "%s -> %s: %v", m.Nodes[i].Name, addr, err)
			}
			c.Close()
		})
		simrt.Probe("c12_probe_tunnel")
		found := false
		for _, d := range m.Net.Dials[before:] {
			if d.Address == addr {
				found = true
				if d.Node != m.Nodes[j].Name {
					simrt.Failf("probe-reached-wrong-agent", "stream did not reach the advertising agent", "dial for %s was made by %s, advertised by %s", addr, d.Node, m.Nodes[j].Name)
				}
			}
		}
		if !found {
			simrt.Failf("probe-reached-wrong-agent", "no outbound dial observed for the probe", "%s", addr)
		}
	}
	m.StopAll()
}

func runC13() {
	m := DrawMesh(2, 7, []string{"chain", "tree", "ring", "diamond", "random", "star"})
	PlaceRoutes(m, true)
	// optionally the same prefix advertised by a near and a far exit
	shared := ""
	var sharers []int
	if len(m.Nodes) >= 3 && simrt.Chance(1, 2, "shared-prefix") {
		shared = "10.250.0.0/16"
		sharers = []int{0, len(m.Nodes) - 1}
		if len(m.Nodes) >= 4 {
			sharers = append(sharers, 1+simrt.Choose(len(m.Nodes)-2, "third-sharer"))
			simrt.Probe("c13_three_exits_share_prefix")
		}
		for _, j := range sharers {
			m.Nodes[j].Cfg.Exit.Enabled = true
			m.Nodes[j].Cfg.Exit.Routes = append(m.Nodes[j].Cfg.Exit.Routes, shared)
		}
	}
	BootAndConverge(m)
	checkMetrics(m)
	if shared != "" {
		checkPreference(m, shared, "after convergence")
		// one of the sharing exits shuts down gracefully (it withdraws its
		// routes): the remaining routes must still be preferred by distance
		if len(sharers) >= 3 && simrt.Chance(2, 3, "withdraw-one") {
			victim := sharers[simrt.Choose(len(sharers), "victim")]
			m.Stop(victim)
			simrt.Probe("c13_exit_withdrew")
			simrt.Sleep(1500 * time.Millisecond)
			checkPreference(m, shared, "after one exit withdrew")
		}
	}
	m.StopAll()
}

// SortedKeys is a helper for deterministic iteration.

var hopLimits = []int{2, 1, 3, 4, 6, 16, 255}

func runC15() {
	var m *Mesh
	ringK := 0
	if simrt.Chance(1, 4, "lollipop") {
		// a ring with a tail: when the ring link next to the origin fails, the
		// tail's distance to the origin grows although its next hop stays the same
		ringK = 3 + simrt.Choose(2, "ring-size")
		m = NewMesh(ringK+2+simrt.Choose(2, "tail"), fmt.Sprintf("lollipop%d", ringK))
		iv := AdvIntervals[simrt.Choose(len(AdvIntervals), "advint")]
		for _, nd := range m.Nodes {
			nd.Cfg.Routing.AdvertiseInterval = iv
			nd.Cfg.Routing.RouteTTL = 5 * iv
			if nd.Cfg.Routing.RouteTTL < time.Minute {
				nd.Cfg.Routing.RouteTTL = time.Minute
			}
		}
		simrt.Eventf("mesh n=%d topo=lollipop%d edges=%v advint=%v", len(m.Nodes), ringK, m.Edges, iv)
		m.Nodes[0].Cfg.Exit.Enabled = true
		m.Nodes[0].Cfg.Exit.Routes = append(m.Nodes[0].Cfg.Exit.Routes, "10.100.0.0/16")
		simrt.Probe("c15_lollipop")
	} else {
		m = DrawMesh(3, 7, []string{"chain", "tree", "ring", "random", "diamond", "star"})
		PlaceRoutes(m, true)
	}
	maxHops := hopLimits[simrt.Choose(len(hopLimits), "maxhops")]
	if ringK > 0 {
		maxHops = 2 + simrt.Choose(3, "maxhops-lollipop")
	}
	for _, nd := range m.Nodes {
		nd.Cfg.Routing.MaxHops = maxHops
	}
	simrt.Eventf("max_hops=%d", maxHops)
	obs := WatchAdverts(m)
	// reroute scenario: after convergence one link goes down for good (announcements
	// now take a longer way round), the routes learned the short way are left to
	// expire, and only then some agents join; distances are those of the mesh
	// without the failed link
	down := [2]int{-1, -1}
	late := map[int]bool{}
	obsFrom := 0
	if ringK > 0 || (len(m.Edges) >= len(m.Nodes) && simrt.Chance(1, 2, "reroute")) {
		if ringK > 0 {
			for _, e := range m.Edges {
				if (e[0] == 0 && e[1] == 1) || (e[0] == 1 && e[1] == 0) {
					down = e
				}
			}
			for i := ringK + 1; i < len(m.Nodes); i++ {
				late[i] = true
			}
		} else {
			down = m.Edges[simrt.Choose(len(m.Edges), "down-edge")]
			for i := 1; i < len(m.Nodes); i++ {
				if i != down[0] && i != down[1] && simrt.Chance(1, 3, "late") {
					late[i] = true
				}
			}
		}
		// the late agents must not be needed to keep the others connected: start
		// everything, converge, then stop the late ones again (they rejoin later)
		BootAndConverge(m)
		for i := range m.Nodes {
			if late[i] {
				m.Stop(i)
			}
		}
		a, b := m.Nodes[down[0]].Name, m.Nodes[down[1]].Name
		simtransport.Hooks().DialFault = func(from, to, addr string) error {
			if (from == a && to == b) || (from == b && to == a) {
				return fmt.Errorf("link %s-%s is down", a, b)
			}
			return nil
		}
		for _, l := range m.Net.Links() {
			if l.Kind == "peer" && !l.Dead() && ((l.DialNode == a && l.AccNode == b) || (l.DialNode == b && l.AccNode == a)) {
				l.Reset()
			}
		}
		simrt.Eventf("reroute: link %s-%s down for good, late=%v", a, b, late)
		simrt.Probe("c15_link_down_for_good")
		// everything learned over the lost link or from the stopped agents expires
		simrt.Sleep(m.Nodes[0].Cfg.Routing.RouteTTL + 2*m.Nodes[0].Cfg.Routing.AdvertiseInterval + 30*time.Second)
		obsFrom = len(*obs)
		for i := range m.Nodes {
			if late[i] {
				m.Start(i)
				simrt.Probe("c15_late_joiner_after_reroute")
			}
		}
		simrt.Sleep(time.Minute)
		Settle(m)
		Settle(m)
	} else {
		BootAndConverge(m)
		// a second settling period: periodic announcements and replays have all happened
		Settle(m)
	}
	// a far-away origin: a harness-controlled peer hands one agent an announcement
	// that has already travelled L hops (its path lists L agents), L at or just
	// below the limit. This reaches the limits no seven-agent mesh can reach by
	// itself (16, 255).
	synthHost, synthL := -1, 0
	var synthOrigin identity.AgentID
	if down[0] < 0 && (maxHops >= 16 || simrt.Chance(1, 3, "far-origin")) {
		for i, nd := range m.Nodes {
			if len(nd.Cfg.Listeners) > 0 {
				synthHost = i
				break
			}
		}
	}
	if synthHost >= 0 {
		synthL = maxHops - simrt.Choose(3, "far-slack")
		if synthL < 1 {
			synthL = 1
		}
		rp, err := m.AttachRawPeer(synthHost, 5)
		if err != nil {
			simrt.Failf("harness", "raw peer attach failed", "%v", err)
		}
		path := []identity.AgentID{rp.ID}
		for k := 1; k < synthL; k++ {
			var id identity.AgentID
			for b := range id {
				id[b] = 0xc0
			}
			id[14], id[15] = byte(k>>8), byte(k)
			path = append(path, id)
		}
		synthOrigin = path[len(path)-1]
		adv := &protocol.RouteAdvertise{OriginAgent: synthOrigin, Sequence: 1,
			Routes:  []protocol.Route{{AddressFamily: protocol.AddrFamilyIPv4, PrefixLength: 16, Prefix: []byte{10, 240, 0, 0}, Metric: uint16(synthL)}},
			EncPath: &protocol.EncryptedData{Data: protocol.EncodePath(path)}, SeenBy: []identity.AgentID{rp.ID}}
		rp.Send(&protocol.Frame{Type: protocol.FrameRouteAdvertise, StreamID: protocol.ControlStreamID, Payload: adv.Encode()})
		simrt.Eventf("far origin: %s receives an announcement that has travelled %d hops (max_hops=%d)", m.Nodes[synthHost].Name, synthL, maxHops)
		simrt.Probe("c15_far_origin_injected")
		Settle(m)
		dist := m.Dist(synthHost)
		for i, nd := range m.Nodes {
			total := synthL + dist[i]
			holds := false
			for _, r := range m.RoutesAt(i) {
				if r.Origin == synthOrigin {
					holds = true
					if total > maxHops {
						simrt.Failf("stored-beyond-hop-limit", "agent beyond max_hops stores a route of the origin", "max_hops=%d: %s is %d hops from the far origin (%d travelled before %s + %d) but holds %s", maxHops, nd.Name, total, synthL, m.Nodes[synthHost].Name, dist[i], m.RouteStr(r))
					}
				}
			}
			if total > maxHops {
				simrt.Probe("c15_agent_beyond_limit_of_far_origin")
				for _, o := range *obs {
					if o.Origin == synthOrigin && o.From == nd.Name {
						simrt.Failf("forwarded-beyond-hop-limit", "agent beyond max_hops forwards the origin's announcement", "max_hops=%d: %s is %d hops from the far origin but sent its announcement to %s", maxHops, nd.Name, total, o.To)
					}
				}
			} else if holds {
				simrt.Probe("c15_far_origin_learned_within_limit")
			}
		}
		rp.Close()
	}
	distFrom := func(src int) []int {
		if down[0] < 0 {
			return m.Dist(src)
		}
		adj := map[int][]int{}
		for _, e := range m.Edges {
			if e == down {
				continue
			}
			adj[e[0]] = append(adj[e[0]], e[1])
			adj[e[1]] = append(adj[e[1]], e[0])
		}
		d := make([]int, len(m.Nodes))
		for i := range d {
			d[i] = 1 << 20
		}
		d[src] = 0
		todo := []int{src}
		for len(todo) > 0 {
			x := todo[0]
			todo = todo[1:]
			for _, y := range adj[x] {
				if d[y] > d[x]+1 {
					d[y] = d[x] + 1
					todo = append(todo, y)
				}
			}
		}
		return d
	}
	for j, od := range m.Nodes {
		dist := distFrom(j)
		for i, nd := range m.Nodes {
			if i == j {
				continue
			}
			if dist[i] > maxHops {
				simrt.Probe("c15_agent_beyond_limit")
				for _, r := range m.RoutesAt(i) {
					if r.Origin == od.ID {
						simrt.Failf("stored-beyond-hop-limit", "agent beyond max_hops stores a route of the origin", "max_hops=%d: %s is %d hops from %s but holds %s", maxHops, nd.Name, dist[i], od.Name, m.RouteStr(r))
					}
				}
				for _, o := range (*obs)[obsFrom:] {
					if o.Origin == od.ID && o.From == nd.Name {
						simrt.Failf("forwarded-beyond-hop-limit", "agent beyond max_hops forwards the origin's announcement", "max_hops=%d: %s is %d hops from %s but sent its announcement (seq %d) to %s", maxHops, nd.Name, dist[i], od.Name, o.AdvSeq, o.To)
					}
				}
			}
		}
	}
	// no stored route records a path longer than the limit
	for i, nd := range m.Nodes {
		for _, r := range m.RoutesAt(i) {
			if len(r.Path) > maxHops {
				simrt.Failf("stored-beyond-hop-limit", "stored route travelled more than max_hops", "max_hops=%d: %s holds %s", maxHops, nd.Name, m.RouteStr(r))
			}
			if len(r.Path) == maxHops {
				simrt.Probe("c15_route_at_exact_limit")
			}
		}
	}
	// Agents within the limit normally learn the origin, but the statement does
	// not promise it: when the copy that travelled exactly max_hops reaches an
	// agent before a shorter copy, the seen cache drops the shorter one and the
	// agent does not forward. Counted, not flagged.
	for j, od := range m.Nodes {
		dist := distFrom(j)
		for i := range m.Nodes {
			if i == j || dist[i] > maxHops {
				continue
			}
			found := false
			for _, r := range m.RoutesAt(i) {
				if r.Table == "agent" && r.Origin == od.ID {
					found = true
				}
			}
			if found {
				simrt.Probe("c15_within_limit_learned")
			} else {
				simrt.Probe("c15_within_limit_not_learned")
			}
		}
	}
	m.StopAll()
}

func idsKey(ids []identity.AgentID) string {
	b := make([]byte, 0, len(ids)*16)
	for _, id := range ids {
		b = append(b, id[:]...)
	}
	return string(b)
}

// advKind classifies a route advertisement seen on the wire.
func advKind(m *Mesh, o AdvObs) string {
	from := m.NodeByName(o.From)
	if from != nil && from.ID == o.Origin {
		return "origin"
	}
	if len(o.SeenBy) == 1 && from != nil && o.SeenBy[0] == from.ID {
		return "replay" // full-table replay to a newly connected peer
	}
	return "forward"
}

// checkFloodCounts is the wire part of the C11 oracle.
func checkFloodCounts(m *Mesh, obs []AdvObs, strictFrom, strictTo time.Duration) {
	type k struct {
		origin identity.AgentID
		seq    uint64
		from   string
	}
	perNeighbour := map[string]int{}
	seenByVariants := map[k]map[string]bool{}
	directed := 2*len(m.Edges) + 2 // + the raw peer's link
	total := map[[2]string]int{}
	for _, o := range obs {
		if advKind(m, o) != "forward" || m.NodeByName(o.From) == nil {
			continue // own announcements, replays, and frames injected by the raw peer itself
		}
		if o.At < strictFrom || o.At > strictTo {
			continue
		}
		key := k{o.Origin, o.AdvSeq, o.From}
		if seenByVariants[key] == nil {
			seenByVariants[key] = map[string]bool{}
		}
		seenByVariants[key][idsKey(o.SeenBy)] = true
		pn := fmt.Sprintf("%s|%d|%s>%s", m.NameOf(o.Origin), o.AdvSeq, o.From, o.To)
		perNeighbour[pn]++
		if perNeighbour[pn] > 1 {
			simrt.Failf("forwarded-twice-to-neighbour", "announcement forwarded more than once to one neighbour", "origin %s seq %d forwarded %d times on %s>%s", m.NameOf(o.Origin), o.AdvSeq, perNeighbour[pn], o.From, o.To)
		}
		if len(seenByVariants[key]) > 1 {
			simrt.Failf("processed-twice", "agent processed one announcement more than once", "%s forwarded origin %s seq %d with %d different seen-by lists (one per processing)", o.From, m.NameOf(o.Origin), o.AdvSeq, len(seenByVariants[key]))
		}
		tk := [2]string{m.NameOf(o.Origin), fmt.Sprint(o.AdvSeq)}
		total[tk]++
		if total[tk] > directed {
			simrt.Failf("flood-not-bounded-by-links", "more forwards of one announcement than directed links", "origin %s seq %s: %d forwards, %d directed links", tk[0], tk[1], total[tk], directed)
		}
	}
}

func runC11() {
	m := DrawMesh(2, 7, []string{"ring", "diamond", "random", "chain", "star", "tree"})
	PlaceRoutes(m, false)
	obs := WatchAdverts(m)
	BootAndConverge(m)
	CheckLoopFree(m, "after convergence")
	// extra announcements on demand, in bursts, from several origins
	bursts := simrt.Choose(4, "bursts")
	for b := 0; b < bursts; b++ {
		i := simrt.Choose(len(m.Nodes), "origin")
		m.On(i, "trigger", func() { m.Nodes[i].A.TriggerRouteAdvertise() })
		if simrt.Chance(1, 2, "gap") {
			simrt.Sleep(time.Duration(1+simrt.Choose(3000, "gapms")) * time.Millisecond)
		}
	}
	// duplicates: a raw peer re-delivers copies of announcements it has seen
	var rp *RawPeer
	host := -1
	if simrt.Chance(1, 2, "rawdup") {
		for i, nd := range m.Nodes {
			if len(nd.Cfg.Listeners) > 0 {
				host = i
				break
			}
		}
		if host >= 0 {
			var err error
			rp, err = m.AttachRawPeer(host, 0)
			if err != nil {
				simrt.Failf("harness", "raw peer attach failed", "%v", err)
			}
			simrt.Sleep(2 * time.Second)
			n := 1 + simrt.Choose(4, "dups")
			for d := 0; d < n && len(*obs) > 0; d++ {
				o := (*obs)[simrt.Choose(len(*obs), "pick")]
				if o.To != m.Nodes[host].Name && o.From != m.Nodes[host].Name {
					continue
				}
				// re-encode the observed announcement unchanged
				adv := &protocol.RouteAdvertise{OriginAgent: o.Origin, Sequence: o.AdvSeq, Routes: o.Routes,
					EncPath: &protocol.EncryptedData{Data: protocol.EncodePath(o.Path)}, SeenBy: o.SeenBy}
				rp.Send(&protocol.Frame{Type: protocol.FrameRouteAdvertise, StreamID: protocol.ControlStreamID, Payload: adv.Encode()})
				simrt.Probe("c11_duplicate_injected")
				simrt.Eventf("dup injected origin=%s seq=%d", m.NameOf(o.Origin), o.AdvSeq)
			}
		}
	}
	Settle(m)
	strictTo := simrt.Elapsed()
	CheckLoopFree(m, "after bursts")
	checkFloodCounts(m, *obs, 0, strictTo)
	// seen-cache expiry: let the cache (5 min TTL, cleaned every 2.5 min) expire,
	// then re-deliver an old announcement: flooding must still terminate and
	// stay loop-free (at-most-once is only demanded within the cache lifetime).
	if simrt.Chance(1, 3, "expiry") {
		simrt.Sleep(8 * time.Minute)
		simrt.Probe("c11_seen_cache_expired")
		before := len(*obs)
		if rp != nil && !rp.Closed && len(*obs) > 0 {
			o := (*obs)[simrt.Choose(before, "pick")]
			adv := &protocol.RouteAdvertise{OriginAgent: o.Origin, Sequence: o.AdvSeq, Routes: o.Routes,
				EncPath: &protocol.EncryptedData{Data: protocol.EncodePath(o.Path)}, SeenBy: o.SeenBy}
			rp.Send(&protocol.Frame{Type: protocol.FrameRouteAdvertise, StreamID: protocol.ControlStreamID, Payload: adv.Encode()})
			simrt.Probe("c11_duplicate_after_expiry")
			simrt.Sleep(30 * time.Second)
			// termination: the stale copy is forwarded at most once per directed link
			cnt := map[string]int{}
			for _, x := range (*obs)[before:] {
				if x.Origin == o.Origin && x.AdvSeq == o.AdvSeq && advKind(m, x) == "forward" && m.NodeByName(x.From) != nil {
					cnt[x.From+">"+x.To]++
					if cnt[x.From+">"+x.To] > 1 {
						simrt.Failf("flood-loops-after-expiry", "stale announcement circulates after seen-cache expiry", "origin %s seq %d sent %d times on %s", m.NameOf(o.Origin), o.AdvSeq, cnt[x.From+">"+x.To], x.From+">"+x.To)
					}
				}
			}
		}
		Settle(m)
		CheckLoopFree(m, "after expiry")
		checkFloodCounts(m, *obs, strictTo+9*time.Minute, simrt.Elapsed())
	}
	if rp != nil {
		rp.Close()
	}
	m.StopAll()
}

// connectedWithoutEdge reports whether the mesh stays connected without edge k.
func connectedWithoutEdge(m *Mesh, k int) bool {
	adj := map[int][]int{}
	for i, e := range m.Edges {
		if i != k {
			adj[e[0]] = append(adj[e[0]], e[1])
			adj[e[1]] = append(adj[e[1]], e[0])
		}
	}
	seen := map[int]bool{0: true}
	todo := []int{0}
	for len(todo) > 0 {
		x := todo[0]
		todo = todo[1:]
		for _, y := range adj[x] {
			if !seen[y] {
				seen[y] = true
				todo = append(todo, y)
			}
		}
	}
	return len(seen) == len(m.Nodes)
}

func runC14() {
	m := DrawMesh(3, 7, []string{"ring", "diamond", "random", "chain", "tree", "star"})
	PlaceRoutes(m, true)
	if simrt.Chance(1, 3, "bigset") {
		// one origin whose own table needs several announcements (and several replay groups)
		j := simrt.Choose(len(m.Nodes), "bigorigin")
		nd := m.Nodes[j]
		nd.Cfg.Exit.Enabled = true
		for k, n := 0, []int{256, 300, 520}[simrt.Choose(3, "bigsize")]; k < n; k++ {
			nd.Cfg.Exit.Routes = append(nd.Cfg.Exit.Routes, fmt.Sprintf("10.%d.%d.%d/32", 200+j, k/250, k%250))
		}
		simrt.Probe("c14_origin_over_255_routes")
	}
	iv := m.Nodes[0].Cfg.Routing.AdvertiseInterval
	ttl := m.Nodes[0].Cfg.Routing.RouteTTL
	obs := WatchAdverts(m)
	// some agents join late so that they learn the mesh through replays
	late := map[int]bool{}
	for i := range m.Nodes {
		if i > 0 && simrt.Chance(1, 4, "late") {
			late[i] = true
		}
	}
	for i := range m.Nodes {
		if !late[i] {
			m.Start(i)
		}
	}
	simrt.Sleep(time.Duration(1+simrt.Choose(3, "lateafter")) * iv)
	for i := range m.Nodes {
		if late[i] {
			m.Start(i)
			simrt.Probe("c14_late_joiner")
		}
	}
	// churn: link resets make relays replay their tables (and bump their counters)
	resets := simrt.Choose(6, "resets")
	for r := 0; r < resets; r++ {
		var live []*simnetLink
		for _, l := range m.Net.Links() {
			if l.Kind == "peer" && !l.Dead() {
				live = append(live, l)
			}
		}
		if len(live) == 0 {
			break
		}
		l := live[simrt.Choose(len(live), "link")]
		simrt.Eventf("reset link %d %s-%s", l.ID, l.DialNode, l.AccNode)
		l.Reset()
		simrt.Probe("c14_link_reset")
		simrt.Sleep(time.Duration(500+simrt.Choose(8000, "churngap")) * time.Millisecond)
	}
	if !m.WaitConnected(5 * time.Minute) {
		simrt.Failf("mesh-did-not-reconnect", "configured peers did not reconnect after the last fault", "edges=%v", m.Edges)
	}
	// one link of a cycle is lost for good: the mesh stays connected, the
	// announcements of some origins reach some agents the longer way round from
	// now on (through neighbours that used to hear them the short way)
	if len(m.Edges) >= len(m.Nodes) && simrt.Chance(1, 3, "link-down-for-good") {
		var cands []int
		for k := range m.Edges {
			if connectedWithoutEdge(m, k) {
				cands = append(cands, k)
			}
		}
		if len(cands) > 0 {
			k := cands[simrt.Choose(len(cands), "down-edge")]
			a, b := m.Nodes[m.Edges[k][0]].Name, m.Nodes[m.Edges[k][1]].Name
			simtransport.Hooks().DialFault = func(from, to, addr string) error {
				if (from == a && to == b) || (from == b && to == a) {
					return fmt.Errorf("link %s-%s is down", a, b)
				}
				return nil
			}
			for _, l := range m.Net.Links() {
				if l.Kind == "peer" && !l.Dead() && ((l.DialNode == a && l.AccNode == b) || (l.DialNode == b && l.AccNode == a)) {
					l.Reset()
				}
			}
			m.Edges = append(append([][2]int(nil), m.Edges[:k]...), m.Edges[k+1:]...)
			simrt.Eventf("link %s-%s down for good, edges now %v", a, b, m.Edges)
			simrt.Probe("c14_link_down_for_good")
			simrt.Sleep(2 * time.Second)
		}
	}
	// The connects, resets and replays above ran under whatever scheduling the
	// run drew, starvation included. The observed phase gives every receiver a
	// bounded time per announcement; that is a statement about agents that are
	// being scheduled (an agent kept off the CPU for seconds at every few hundred
	// steps falls behind 500-route announcements sent every 5 s without bound).
	simrt.EndStarvation()
	if simrt.Chance(1, 2, "tight") {
		// the replays of the last reconnect are immediately followed by the
		// observed phase: the very next periodic announcements count
		simrt.Sleep(5 * time.Second)
		simrt.Probe("c14_tight_after_replay")
	} else {
		Settle(m)
	}
	stableFrom := simrt.Elapsed()
	phaseStart := stableFrom
	// A reconnect removes the routes learned over the lost connection; what the
	// replays do not bring back at once returns with the origins' next periodic
	// announcements. Absence is therefore only judged one interval after the
	// last reconnect (expiry of a live origin's routes takes far longer to show).
	lostGraceUntil := stableFrom + iv + 10*time.Second
	// stable phase: longer than the route TTL, sampled twice per interval
	phase := 3*ttl + 2*iv
	// time allowed for one announcement to cross the mesh: per hop link latency
	// plus slow or starved goroutines (each freeze lasts up to 2 s)
	// margin: time a receiver gets to process an announcement once it has been
	// written to it (link latency, starved goroutines); reachMargin: time the
	// mesh gets to pass an announcement on to every agent (per hop: a write that
	// waits for a slow reader, forwarders that are starved)
	margin := 15 * time.Second
	reachMargin := time.Minute + time.Duration(len(m.Nodes)-1)*20*time.Second
	attributed := map[string]bool{} // origin|route for which some announcement was compared
	lateResets := simrt.Choose(3, "late-resets")
	// connect storms: a harness-controlled peer connects to a relay while the relay
	// is in the middle of passing an announcement on (its write to a neighbour
	// stalls for a moment, as writes to a busy link do). Whichever side of the
	// relay's processing the connect lands on, the new peer must end up with that
	// announcement: flooded to it, or contained in the replay it is sent. Judged
	// 12 s later, and only when the next periodic announcement is further away.
	var storms []*stormPeer
	var stormG simrt.Group
	stormsLeft := 0
	if iv >= 45*time.Second {
		stormsLeft = simrt.Choose(4, "storms")
	}
	var armed *stormPeer
	m.Tap.OnFrame = append(m.Tap.OnFrame, func(ev *FrameEvent) {
		if armed == nil || ev.Type != protocol.FrameRouteAdvertise || ev.From != m.Nodes[armed.host].Name || m.NodeByName(ev.To) == nil {
			return
		}
		adv, err := protocol.DecodeRouteAdvertise(ev.Payload)
		if err != nil || adv.OriginAgent == m.Nodes[armed.host].ID {
			return
		}
		sp := armed
		armed = nil
		sp.origin, sp.seq = adv.OriginAgent, adv.Sequence
		for _, r := range adv.Routes {
			sp.keys = append(sp.keys, advRouteKey(m, r))
		}
		simrt.Eventf("storm: %s connects to %s while it forwards origin=%s seq=%d", fmt.Sprintf("raw%d", sp.k), ev.From, m.NameOf(sp.origin), sp.seq)
		stormG.Go(fmt.Sprintf("storm-%d", sp.k), func() {
			rp, err := m.AttachRawPeer(sp.host, sp.k)
			if err != nil {
				simrt.Eventf("storm peer %d could not attach: %v", sp.k, err)
				return
			}
			sp.rp = rp
			simrt.Probe("c14_storm_peer_attached")
			simrt.Sleep(12 * time.Second)
			judgeStormPeer(m, sp)
		})
		// the relay's write stalls while the newcomer's handshake runs
		simrt.Sleep(time.Duration(20+simrt.Choose(400, "stall-ms")) * time.Millisecond)
	})
	var hosts []int
	for i, nd := range m.Nodes {
		if len(nd.Cfg.Listeners) > 0 {
			hosts = append(hosts, i)
		}
	}
	for simrt.Elapsed() < phaseStart+phase {
		if stormsLeft > 0 && armed == nil && len(hosts) > 0 && simrt.Chance(1, 2, "storm-now") {
			stormsLeft--
			armed = &stormPeer{host: hosts[simrt.Choose(len(hosts), "storm-host")], k: 20 + len(storms)}
			storms = append(storms, armed)
		}
		if lateResets > 0 && simrt.Elapsed() < phaseStart+phase/3 && simrt.Chance(1, 3, "late-reset-now") {
			// a peer connect (hence full-table replays) between two periodic
			// announcements; announcements that began before the mesh was whole
			// again are not demanded of anyone
			lateResets--
			var live []*simnetLink
			for _, l := range m.Net.Links() {
				if l.Kind == "peer" && !l.Dead() {
					live = append(live, l)
				}
			}
			if len(live) > 0 {
				l := live[simrt.Choose(len(live), "link")]
				simrt.Eventf("reset link %d %s-%s (observed phase)", l.ID, l.DialNode, l.AccNode)
				l.Reset()
				simrt.Probe("c14_link_reset_in_observed_phase")
				if !m.WaitConnected(5 * time.Minute) {
					simrt.Failf("mesh-did-not-reconnect", "configured peers did not reconnect after the last fault", "edges=%v", m.Edges)
				}
				simrt.Sleep(5 * time.Second)
				stableFrom = simrt.Elapsed()
				lostGraceUntil = stableFrom + iv + 10*time.Second
			}
		}
		simrt.Sleep(iv / 2)
		now := simrt.Elapsed()
		for j, od := range m.Nodes {
			// One announcement is one (origin, sequence number); the origin writes
			// it to its neighbours one after the other, possibly at different
			// instants, and a route set may be split over several announcements.
			// Per announcement: the routes it carries, the instant the origin
			// began sending it and the instant of its last own send.
			type ann struct {
				first, last time.Duration
				keys        []string
				to          map[string]bool
			}
			// the origin's agent neighbours: an announcement is what the origin
			// writes to all of them; what it writes to one peer that has just
			// connected (its own routes under a fresh sequence number, as part of
			// the full-table replay) is meant for that peer only
			nbrs := 0
			for i := range m.Nodes {
				if i != j && EdgeSet(m)[[2]int{i, j}] {
					nbrs++
				}
			}
			// reachedAt[seq][receiver]: the first instant anybody wrote that
			// announcement to the receiver
			reachedAt := map[uint64]map[string]time.Duration{}
			for _, o := range *obs {
				if o.Origin != od.ID || m.NodeByName(o.To) == nil {
					continue
				}
				ra := reachedAt[o.AdvSeq]
				if ra == nil {
					ra = map[string]time.Duration{}
					reachedAt[o.AdvSeq] = ra
				}
				if cur, ok := ra[o.To]; !ok || o.At < cur {
					ra[o.To] = o.At
				}
			}
			anns := map[uint64]*ann{}
			var seqs []uint64
			for _, o := range *obs {
				if o.Origin != od.ID || o.From != od.Name {
					continue
				}
				a := anns[o.AdvSeq]
				if a == nil {
					a = &ann{first: o.At, last: o.At, to: map[string]bool{}}
					for _, r := range o.Routes {
						a.keys = append(a.keys, advRouteKey(m, r))
					}
					anns[o.AdvSeq] = a
					seqs = append(seqs, o.AdvSeq)
				}
				if m.NodeByName(o.To) != nil {
					a.to[o.To] = true
				}
				if o.At < a.first {
					a.first = o.At
				}
				if o.At > a.last {
					a.last = o.At
				}
			}
			// per receiver and route: the start of the origin's most recent
			// announcement of the route that began in the stable phase and was
			// written to that receiver (by whoever forwards to it) at least
			// `margin` ago: the receiver's own processing is all that is left.
			// An announcement that nobody has written to a receiver long after
			// it was sent did not reach it.
			lastAnnFor := map[string]map[string]time.Duration{}
			for _, sq := range seqs {
				a := anns[sq]
				if a.first < stableFrom {
					continue
				}
				if len(a.to) < nbrs {
					simrt.Probe("c14_targeted_replay_of_own_routes")
					continue
				}
				for i, nd := range m.Nodes {
					if i == j {
						continue
					}
					at, reached := reachedAt[sq][nd.Name]
					if !reached {
						if a.last <= now-reachMargin {
							simrt.Failf("announcement-did-not-reach", "an origin's announcement was never passed on to a connected agent", "%s: nobody has written announcement seq=%d of %s (sent at %v) to it by %v", nd.Name, sq, od.Name, a.first, now)
						}
						continue
					}
					if at > now-margin {
						continue
					}
					la := lastAnnFor[nd.Name]
					if la == nil {
						la = map[string]time.Duration{}
						lastAnnFor[nd.Name] = la
					}
					for _, k := range a.keys {
						if cur, ok := la[k]; !ok || a.first > cur {
							la[k] = a.first
						}
					}
				}
			}
			orig := m.OriginatedBy(j)
			want := []string{"agent|" + od.Name}
			for _, c := range orig.CIDR {
				want = append(want, "cidr|"+c)
			}
			for _, d := range orig.Domain {
				want = append(want, "domain|"+d)
			}
			for _, f := range orig.Forward {
				want = append(want, "forward|"+f)
			}
			for i, nd := range m.Nodes {
				if i == j {
					continue
				}
				newest := map[string]time.Duration{}
				for _, r := range m.RoutesAt(i) {
					if r.Origin != od.ID {
						continue
					}
					k := r.Table + "|" + r.Key
					at := r.LastUpdate.Sub(simrtEpoch())
					if cur, ok := newest[k]; !ok || at > cur {
						newest[k] = at
					}
				}
				for _, w := range want {
					at, ok := newest[w]
					if !ok && now < lostGraceUntil {
						continue
					}
					if !ok {
						simrt.Failf("live-origin-route-lost", "route of a live connected announcing origin disappeared", "%s lost %s of %s at t=%v (stable since %v, ttl %v)", nd.Name, w, od.Name, now, stableFrom, ttl)
					}
					began, announced := lastAnnFor[nd.Name][w]
					if !announced {
						continue
					}
					attributed[od.Name+" "+w] = true
					if at < began {
						simrt.Failf("announcement-did-not-refresh", "origin announcement did not renew a receiver's copy", "%s: %s of %s last updated at %v but %s began announcing it at %v (now %v)", nd.Name, w, od.Name, at, od.Name, began, now)
					}
					simrt.Probe("c14_refresh_compared")
				}
			}
		}
		simrt.Probe("c14_stable_sample")
	}
	armed = nil
	stormG.Wait()
	checkStormPeers(m, storms)
	// The stable phase spans several announcement intervals: every route of every
	// origin must have been matched to an announcement on the wire at least once,
	// otherwise the comparison above was vacuous for it.
	for j, od := range m.Nodes {
		orig := m.OriginatedBy(j)
		want := []string{"agent|" + od.Name}
		for _, c := range orig.CIDR {
			want = append(want, "cidr|"+c)
		}
		for _, d := range orig.Domain {
			want = append(want, "domain|"+d)
		}
		for _, f := range orig.Forward {
			want = append(want, "forward|"+f)
		}
		for _, w := range want {
			if !attributed[od.Name+" "+w] {
				simrt.Failf("origin-route-never-announced", "a configured route of a live origin was in none of its announcements during a stable phase longer than three route lifetimes", "%s of %s (stable %v..%v, interval %v)", w, od.Name, stableFrom, simrt.Elapsed(), iv)
			}
		}
	}
	m.StopAll()
}

type simnetLink = simnet.Link

type stormPeer struct {
	host, k int
	rp      *RawPeer
	origin  identity.AgentID
	seq     uint64
	keys    []string
}

// judgeStormPeer: 12 s after it connected to a relay that was in the middle of
// forwarding (origin, seq), the peer holds an announcement of that origin with
// that sequence number or a later one for every route the announcement carried.
func judgeStormPeer(m *Mesh, sp *stormPeer) {
	if sp.rp == nil || sp.rp.Closed {
		return
	}
	got := map[string]uint64{}
	for _, f := range sp.rp.Received {
		if f.Type != protocol.FrameRouteAdvertise {
			continue
		}
		adv, err := protocol.DecodeRouteAdvertise(f.Payload)
		if err != nil || adv.OriginAgent != sp.origin {
			continue
		}
		for _, r := range adv.Routes {
			k := advRouteKey(m, r)
			if adv.Sequence > got[k] || got[k] == 0 {
				got[k] = adv.Sequence
			}
		}
	}
	simrt.Probe("c14_storm_peer_judged")
	for _, k := range sp.keys {
		if s, ok := got[k]; !ok || s < sp.seq {
			simrt.Failf("connected-peer-missed-announcement", "a peer that connected to a relay while it was forwarding an announcement got neither that announcement nor a replay containing it", "%s connected to %s while it forwarded origin=%s seq=%d; 12 s later it has %s at sequence %d (present=%v)", sp.rp.Name, m.Nodes[sp.host].Name, m.NameOf(sp.origin), sp.seq, k, s, ok)
		}
	}
}

// checkStormPeers: a peer that is connected to relay R holds, for every route R
// has learned from another origin, an announcement of that route at least as
// recent as R's copy (it was flooded to the peer, or was part of the replay the
// peer got on connecting). Judged against what R held half a minute earlier, so
// that an announcement in flight is never counted against anyone.
func checkStormPeers(m *Mesh, storms []*stormPeer) {
	type rkey struct {
		origin identity.AgentID
		key    string
	}
	snapshot := func(h int) map[rkey]uint64 {
		out := map[rkey]uint64{}
		for _, r := range m.RoutesAt(h) {
			if r.Origin == m.Nodes[h].ID {
				continue
			}
			k := rkey{r.Origin, r.Table + "|" + r.Key}
			if r.Seq > out[k] {
				out[k] = r.Seq
			}
		}
		return out
	}
	before := map[int]map[rkey]uint64{}
	for _, sp := range storms {
		if sp.rp != nil && !sp.rp.Closed && before[sp.host] == nil {
			before[sp.host] = snapshot(sp.host)
		}
	}
	if len(before) == 0 {
		return
	}
	// what the relay held at this instant must be with the peer within 30 s
	// (link latency, slow or starved goroutines included)
	type lag struct {
		sp   *stormPeer
		what string
		got  uint64
		want uint64
	}
	var lagging []lag
	for waited := 0; waited <= 30; waited += 3 {
		simrt.Sleep(3 * time.Second)
		lagging = lagging[:0]
		for _, sp := range storms {
			if sp.rp == nil || sp.rp.Closed {
				continue
			}
			got := map[rkey]uint64{}
			for _, f := range sp.rp.Received {
				if f.Type != protocol.FrameRouteAdvertise {
					continue
				}
				adv, err := protocol.DecodeRouteAdvertise(f.Payload)
				if err != nil {
					continue
				}
				for _, r := range adv.Routes {
					k := rkey{adv.OriginAgent, advRouteKey(m, r)}
					if adv.Sequence > got[k] {
						got[k] = adv.Sequence
					}
				}
			}
			var keys []string
			byStr := map[string]rkey{}
			for k := range before[sp.host] {
				s := m.NameOf(k.origin) + " " + k.key
				keys = append(keys, s)
				byStr[s] = k
			}
			sort.Strings(keys)
			for _, s := range keys {
				k := byStr[s]
				if got[k] < before[sp.host][k] {
					lagging = append(lagging, lag{sp, s, got[k], before[sp.host][k]})
				}
			}
		}
		if len(lagging) == 0 {
			break
		}
	}
	simrt.Probe("c14_storm_peer_compared")
	if len(lagging) > 0 {
		l := lagging[0]
		simrt.Failf("connected-peer-missed-announcement", "a peer connected to a relay still lacks, 30 s later, an announcement the relay had already stored", "%s (connected to %s) has %s at sequence %d; %s held sequence %d more than 30 s ago (%d routes lag)", l.sp.rp.Name, m.Nodes[l.sp.host].Name, l.what, l.got, m.Nodes[l.sp.host].Name, l.want, len(lagging))
	}
	for _, sp := range storms {
		if sp.rp != nil {
			sp.rp.Close()
		}
	}
}

// advRouteKey names a route carried by an announcement the way RoutesAt names
// stored routes ("table|key").
func advRouteKey(m *Mesh, r protocol.Route) string {
	switch r.AddressFamily {
	case protocol.AddrFamilyAgent:
		return "agent|" + m.NameOf(protocol.DecodeAgentPrefix(r.Prefix))
	case protocol.AddrFamilyDomain:
		p := strings.ToLower(protocol.DecodeDomainPrefix(r.Prefix))
		if r.PrefixLength == 1 && !strings.HasPrefix(p, "*.") {
			p = "*." + p
		}
		return "domain|" + p
	case protocol.AddrFamilyForward:
		k, t := protocol.DecodeForwardKeyAndTarget(r.Prefix)
		return "forward|" + k + "=" + t
	case protocol.AddrFamilyIPv4, protocol.AddrFamilyIPv6:
		bits := 32
		if r.AddressFamily == protocol.AddrFamilyIPv6 {
			bits = 128
		}
		ip := make(net.IP, bits/8)
		copy(ip, r.Prefix)
		return "cidr|" + (&net.IPNet{IP: ip, Mask: net.CIDRMask(int(r.PrefixLength), bits)}).String()
	}
	return fmt.Sprintf("family%d|%x", r.AddressFamily, r.Prefix)
}

func simrtEpoch() time.Time { return time.Now().Add(-simrt.Elapsed()) }

var setSizes = []int{3, 0, 1, 40, 254, 255, 256, 257, 300, 511, 512, 600}

func runC06() {
	m := DrawMesh(2, 4, []string{"chain", "star", "ring"})
	dyn := map[int][]string{}
	for j, nd := range m.Nodes {
		if j > 0 && !simrt.Chance(2, 3, "has-routes") {
			continue
		}
		nc := setSizes[simrt.Choose(len(setSizes), "ncidr")]
		nd.Cfg.Exit.Enabled = true
		for k := 0; k < nc; k++ {
			if k%7 == 3 {
				nd.Cfg.Exit.Routes = append(nd.Cfg.Exit.Routes, fmt.Sprintf("fd%02x:%x::/48", j+1, k+1))
			} else {
				nd.Cfg.Exit.Routes = append(nd.Cfg.Exit.Routes, fmt.Sprintf("10.%d.%d.%d/32", 10+j, k/250, k%250))
			}
		}
		longRoutes := simrt.Chance(1, 4, "long-routes")
		if longRoutes {
			// few routes, many bytes: a set that fits the route count of one
			// announcement several times over but not its byte budget
			simrt.Probe("c06_long_routes")
		}
		if simrt.Chance(1, 2, "domains") || longRoutes {
			ndm := setSizes[simrt.Choose(len(setSizes)-3, "ndom")]
			if longRoutes {
				ndm = []int{70, 90, 120, 200, 254}[simrt.Choose(5, "ndomlong")]
			}
			for k := 0; k < ndm; k++ {
				name := fmt.Sprintf("h%d.n%d.example.com", k, j)
				if k%11 == 7 { // long names
					name = fmt.Sprintf("%s.%s", string(make63('a'+byte(k%26))), name)
				}
				if longRoutes {
					name = fmt.Sprintf("h%d.n%d.example.com", k, j)
					name = fmt.Sprintf("%s.%s.%s.%s", string(make63('a'+byte(k%26))), string(make63('b'+byte(k%20))), string(make63('c' + byte(k%20))[:40]), name)
				}
				if k%5 == 1 {
					name = "*." + name
				}
				nd.Cfg.Exit.DomainRoutes = append(nd.Cfg.Exit.DomainRoutes, name)
			}
		}
		if simrt.Chance(1, 3, "forwards") {
			nf := setSizes[simrt.Choose(len(setSizes)-3, "nfwd")]
			if longRoutes {
				nf = []int{40, 90, 130}[simrt.Choose(3, "nfwdlong")]
			}
			for k := 0; k < nf; k++ {
				key, target := fmt.Sprintf("svc-%d-%d", j, k), fmt.Sprintf("192.0.2.%d:%d", 1+k%200, 8000+k)
				if longRoutes {
					key = fmt.Sprintf("svc-%d-%d-%s", j, k, string(make63('k'))+string(make63('l')))
					target = fmt.Sprintf("%s.%s.internal.example.net:%d", string(make63('t')), string(make63('u')), 8000+k)
				}
				nd.Cfg.Forward.Endpoints = append(nd.Cfg.Forward.Endpoints, struct {
					Key    string `yaml:"key,omitempty"`
					Target string `yaml:"target,omitempty"`
				}{Key: key, Target: target})
			}
		}
		if simrt.Chance(1, 8, "overlong") {
			// entries too long for their one-byte length fields: either the
			// configuration is refused, or the neighbours must still decode them
			simrt.Probe("c06_overlong_entry_configured")
			over := string(make63('x')) + "." + string(make63('y')) + "." + string(make63('z')) + "." + string(make63('w')) + fmt.Sprintf(".o%d.example.com", j)
			nDom, nFwd := len(nd.Cfg.Exit.DomainRoutes), len(nd.Cfg.Forward.Endpoints)
			switch simrt.Choose(3, "overkind") {
			case 0:
				nd.Cfg.Exit.DomainRoutes = append(nd.Cfg.Exit.DomainRoutes, over)
			case 1:
				nd.Cfg.Forward.Endpoints = append(nd.Cfg.Forward.Endpoints, config.ForwardEndpoint{Key: "k-" + over, Target: "192.0.2.9:80"})
			case 2:
				nd.Cfg.Forward.Endpoints = append(nd.Cfg.Forward.Endpoints, config.ForwardEndpoint{Key: fmt.Sprintf("over-%d", j), Target: over + ":8080"})
			}
			if err := nd.Cfg.Validate(); err != nil && (strings.Contains(err.Error(), fmt.Sprintf("exit.domain_routes[%d]", nDom)) || strings.Contains(err.Error(), fmt.Sprintf("forward.endpoints[%d]", nFwd))) {
				simrt.Probe("c06_overlong_entry_refused_by_validation")
				nd.Cfg.Exit.DomainRoutes = nd.Cfg.Exit.DomainRoutes[:nDom]
				nd.Cfg.Forward.Endpoints = nd.Cfg.Forward.Endpoints[:nFwd]
			}
		}
		total := len(nd.Cfg.Exit.Routes) + len(nd.Cfg.Exit.DomainRoutes) + len(nd.Cfg.Forward.Endpoints)
		simrt.Eventf("%s originates cidr=%d domain=%d forward=%d", nd.Name, len(nd.Cfg.Exit.Routes), len(nd.Cfg.Exit.DomainRoutes), len(nd.Cfg.Forward.Endpoints))
		if total > 255 {
			simrt.Probe("c06_origin_over_255_routes")
		}
		if total == 255 || total == 254 {
			simrt.Probe("c06_origin_at_count_limit")
		}
	}
	WatchAdverts(m) // fails loudly on any advertisement that does not decode
	if len(m.Nodes) >= 3 && simrt.Chance(1, 3, "late-joiner") {
		// one agent joins late and learns every set through full-table replays
		lateIdx := 1 + simrt.Choose(len(m.Nodes)-1, "late")
		quiet := simrt.Chance(1, 2, "quiet-replay")
		if quiet {
			// periodic announcements far apart: what the late joiner knows shortly
			// after connecting, it knows from the replays alone
			for _, nd := range m.Nodes {
				nd.Cfg.Routing.AdvertiseInterval = 4 * time.Minute
				nd.Cfg.Routing.RouteTTL = 20 * time.Minute
			}
		}
		for i := range m.Nodes {
			if i != lateIdx {
				m.Start(i)
			}
		}
		Settle(m)
		if quiet {
			// move away from the others' announcement instants
			simrt.Sleep(time.Duration(20+simrt.Choose(40, "latephase")) * time.Second)
		}
		// what the late joiner's neighbours hold right before it connects
		held := map[int]map[string]bool{}
		for i := range m.Nodes {
			if i == lateIdx || !EdgeSet(m)[[2]int{i, lateIdx}] {
				continue
			}
			for _, r := range m.RoutesAt(i) {
				if r.Origin == m.Nodes[lateIdx].ID {
					continue
				}
				if r.Table == "agent" {
					// the statement speaks of CIDR, domain and port-forward routes; an
					// agent's presence entry is not part of the replay of its own
					// routes (it returns with its next periodic announcement)
					continue
				}
				oi := m.IndexOf(r.Origin)
				if held[oi] == nil {
					held[oi] = map[string]bool{}
				}
				held[oi][r.Table+"|"+r.Key] = true
			}
		}
		m.Start(lateIdx)
		simrt.Probe("c06_late_joiner_replay")
		if !m.WaitConnected(3 * time.Minute) {
			simrt.Failf("mesh-did-not-connect", "configured peers did not connect without faults", "edges=%v", m.Edges)
		}
		if quiet {
			// the replays are processed within seconds; a starved or slow late
			// joiner gets up to 90 s (the next periodic announcements are further away)
			got := map[int]map[string]bool{}
			for waited := 0; waited < 90; waited += 5 {
				simrt.Sleep(5 * time.Second)
				got = map[int]map[string]bool{}
				for _, r := range m.RoutesAt(lateIdx) {
					oi := m.IndexOf(r.Origin)
					if got[oi] == nil {
						got[oi] = map[string]bool{}
					}
					got[oi][r.Table+"|"+r.Key] = true
				}
				complete := true
				for oi := range m.Nodes {
					for k := range held[oi] {
						if !got[oi][k] {
							complete = false
						}
					}
				}
				if complete {
					break
				}
				if waited >= 5 {
					simrt.Probe("c06_replay_took_longer_than_10s")
				}
			}
			for oi := range m.Nodes {
				if oi == lateIdx || len(held[oi]) == 0 {
					continue
				}
				simrt.Probe("c06_replay_compared")
				if len(held[oi]) > 255 {
					simrt.Probe("c06_replay_of_split_set_compared")
				}
				missing, first := 0, ""
				for _, k := range SortedKeys(held[oi]) {
					if !got[oi][k] {
						missing++
						if first == "" {
							first = k
						}
					}
				}
				if missing > 0 {
					simrt.Failf("route-set-truncated-by-replay", "new peer did not learn from the full-table replay the complete set its neighbours held", "%s joined late and holds %d of the %d routes of %s that its neighbours held when it connected (first missing %s)", m.Nodes[lateIdx].Name, len(held[oi])-missing, len(held[oi]), m.Nodes[oi].Name, first)
				}
			}
		}
		Settle(m)
	} else {
		BootAndConverge(m)
	}
	// dynamic routes added at run time on top of the configured set
	for j, nd := range m.Nodes {
		if !nd.Cfg.Exit.Enabled || !simrt.Chance(1, 3, "dynamic") {
			continue
		}
		n := 1 + simrt.Choose(4, "ndyn")
		for k := 0; k < n; k++ {
			cidr := fmt.Sprintf("172.%d.%d.0/24", 16+j, k)
			// metrics at the edges of the 16-bit field travel like any other
			dynMetric := []uint16{0, 0, 1, 65534, 65535}[simrt.Choose(5, "dynmetric")]
			if dynMetric >= 65534 {
				simrt.Probe("c06_dynamic_route_with_saturated_metric")
			}
			m.On(j, "manage", func() {
				if _, err := nd.A.ManageRoute("add", cidr, dynMetric); err != nil {
					simrt.Failf("harness", "ManageRoute add failed", "%v", err)
				}
			})
			dyn[j] = append(dyn[j], CanonCIDR(cidr))
			simrt.Probe("c06_dynamic_route_added")
		}
	}
	Settle(m)
	Settle(m)
	// A receiver that lags behind (starved goroutines, several-hundred-route
	// announcements every few seconds) is given five more minutes to catch up
	// before a missing route counts: a route that was dropped stays missing.
	for waited := 0; waited < 30 && !c06Complete(m, dyn); waited++ {
		simrt.Sleep(10 * time.Second)
		if waited == 0 {
			simrt.Probe("c06_receiver_lagging_at_first_look")
		}
	}
	for j, od := range m.Nodes {
		o := m.OriginatedBy(j)
		want := map[string]bool{"agent|" + od.Name: true}
		for _, c := range o.CIDR {
			want["cidr|"+c] = true
		}
		for _, c := range dyn[j] {
			want["cidr|"+c] = true
		}
		for _, d := range o.Domain {
			want["domain|"+d] = true
		}
		for _, f := range o.Forward {
			want["forward|"+f] = true
		}
		for i, nd := range m.Nodes {
			if i == j {
				continue
			}
			got := map[string]bool{}
			for _, r := range m.RoutesAt(i) {
				if r.Origin == od.ID {
					got[r.Table+"|"+r.Key] = true
				}
			}
			missing, extra := 0, 0
			exM, exE := "", ""
			for _, w := range SortedKeys(want) {
				if !got[w] {
					missing++
					if exM == "" {
						exM = w
					}
				}
			}
			for _, g := range SortedKeys(got) {
				if !want[g] {
					extra++
					if exE == "" {
						exE = g
					}
				}
			}
			if extra > 0 {
				simrt.Failf("route-set-altered", "receiver decoded routes the origin never announced", "%s holds %d routes of %s that it does not originate (e.g. %s); originated %d", nd.Name, extra, od.Name, exE, len(want))
			}
			if missing > 0 {
				cls := "route-set-truncated"
				if len(got) == 0 {
					cls = "route-set-dropped"
				}
				simrt.Failf(cls, "receiver did not learn the complete originated set", "%s holds %d of %d routes of %s (first missing %s)", nd.Name, len(got), len(want), od.Name, exM)
			}
		}
	}
	m.StopAll()
}

// c06Complete reports whether every agent holds every route every other agent originates.
func c06Complete(m *Mesh, dyn map[int][]string) bool {
	for j, od := range m.Nodes {
		o := m.OriginatedBy(j)
		want := []string{"agent|" + od.Name}
		for _, c := range o.CIDR {
			want = append(want, "cidr|"+c)
		}
		for _, c := range dyn[j] {
			want = append(want, "cidr|"+c)
		}
		for _, d := range o.Domain {
			want = append(want, "domain|"+d)
		}
		for _, f := range o.Forward {
			want = append(want, "forward|"+f)
		}
		for i := range m.Nodes {
			if i == j {
				continue
			}
			got := map[string]bool{}
			for _, r := range m.RoutesAt(i) {
				if r.Origin == od.ID {
					got[r.Table+"|"+r.Key] = true
				}
			}
			for _, w := range want {
				if !got[w] {
					return false
				}
			}
		}
	}
	return true
}

func make63(c byte) []byte {
	b := make([]byte, 63)
	for i := range b {
		b[i] = c
	}
	return b
}

// checkPreference: among the equally specific routes an agent holds for the
// shared prefix, lookup returns one whose recorded path is shortest.
func checkPreference(m *Mesh, shared, when string) {
	for i, nd := range m.Nodes {
		if !nd.Running {
			continue
		}
		snapshot := func() (held []RouteView, own bool, desc string) {
			for _, rv := range m.RoutesAt(i) {
				if rv.Table == "cidr" && rv.Key == shared {
					if rv.Origin == nd.ID {
						own = true
					} else {
						held = append(held, rv)
						desc += " [" + m.RouteStr(rv) + "]"
					}
				}
			}
			return
		}
		// The table snapshot and the lookup are two calls; announcements keep
		// arriving. The lookup is judged against a table that was the same
		// before and after it (a few attempts, then the agent is skipped).
		for attempt := 0; attempt < 4; attempt++ {
			held, own, desc := snapshot()
			if own || len(held) < 2 {
				break
			}
			best := len(held[0].Path)
			varied := false
			for _, h := range held {
				if len(h.Path) != best {
					varied = true
				}
				if len(h.Path) < best {
					best = len(h.Path)
				}
			}
			if !varied {
				break
			}
			r := nd.A.VerifRouteManager().Lookup(net.ParseIP("10.250.1.1"))
			if _, _, after := snapshot(); after != desc {
				simrt.Probe("c13_table_changed_during_lookup")
				continue
			}
			if r == nil {
				simrt.Failf("route-not-learned", "shared prefix not learned", "%s %s", nd.Name, when)
			}
			simrt.Probe("c13_near_far_compared")
			if len(r.Path) != best {
				simrt.Failf("farther-exit-preferred", "lookup prefers a farther exit for the same prefix", "%s: %s holds%s but lookup returns origin %s with a %d-hop path", when, nd.Name, desc, m.NameOf(r.OriginAgent), len(r.Path))
			}
			break
		}
	}
}
