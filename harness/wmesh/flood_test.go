package wmesh

import (
	"context"
	"fmt"
	"net"
	"sort"
	"time"

	"github.com/postalsys/muti-metroo/internal/identity"
	"github.com/postalsys/muti-metroo/internal/protocol"
	"github.com/postalsys/muti-metroo/internal/verifrt/simrt"
)

func canonCIDR(s string) string {
	_, n, err := net.ParseCIDR(s)
	if err != nil {
		return s
	}
	return n.String()
}

var advIntervals = []time.Duration{20 * time.Second, 5 * time.Second, 2 * time.Minute, 45 * time.Second}

// drawMesh draws size, topology, timing and route placement for the flood family.
func drawMesh(minN, maxN int, topoChoices []string) *Mesh {
	n := minN + simrt.Choose(maxN-minN+1, "n")
	topo := topoChoices[simrt.Choose(len(topoChoices), "topo")]
	m := NewMesh(n, topo)
	iv := advIntervals[simrt.Choose(len(advIntervals), "advint")]
	for _, nd := range m.Nodes {
		nd.Cfg.Routing.AdvertiseInterval = iv
		nd.Cfg.Routing.RouteTTL = 5 * iv
		if nd.Cfg.Routing.RouteTTL < time.Minute {
			nd.Cfg.Routing.RouteTTL = time.Minute
		}
	}
	simrt.Eventf("mesh n=%d topo=%s edges=%v advint=%v", n, topo, m.Edges, iv)
	return m
}

// placeRoutes gives a drawn subset of nodes unique CIDR/domain/forward routes.
func placeRoutes(m *Mesh, atLeastOne bool) {
	any := false
	for j, nd := range m.Nodes {
		last := j == len(m.Nodes)-1
		if !(simrt.Chance(1, 2, "exit") || (atLeastOne && last && !any)) {
			continue
		}
		any = true
		nd.Cfg.Exit.Enabled = true
		nd.Cfg.Exit.Routes = append(nd.Cfg.Exit.Routes, fmt.Sprintf("10.%d.0.0/16", 100+j))
		if simrt.Chance(1, 2, "more-cidr") {
			nd.Cfg.Exit.Routes = append(nd.Cfg.Exit.Routes, fmt.Sprintf("172.%d.7.0/24", 16+j), fmt.Sprintf("fd00:%d::/32", j+1))
		}
		if simrt.Chance(1, 2, "domain") {
			nd.Cfg.Exit.DomainRoutes = append(nd.Cfg.Exit.DomainRoutes, fmt.Sprintf("svc%d.example.com", j), fmt.Sprintf("*.n%d.mesh.test", j))
		}
		if simrt.Chance(1, 3, "fwd") {
			nd.Cfg.Forward.Endpoints = append(nd.Cfg.Forward.Endpoints, struct {
				Key    string `yaml:"key,omitempty"`
				Target string `yaml:"target,omitempty"`
			}{Key: fmt.Sprintf("fwd%d", j), Target: fmt.Sprintf("192.168.%d.5:8000", j)})
		}
	}
}

// advObs is a ROUTE_ADVERTISE seen on the wire.
type advObs struct {
	Seq      uint64
	From, To string
	Origin   identity.AgentID
	AdvSeq   uint64
	Routes   []protocol.Route
	Path     []identity.AgentID
	SeenBy   []identity.AgentID
	At       time.Duration
}

// watchAdverts records every route advertisement crossing any link.
func watchAdverts(m *Mesh) *[]advObs {
	var obs []advObs
	m.Tap.OnFrame = append(m.Tap.OnFrame, func(ev *FrameEvent) {
		if ev.Type != protocol.FrameRouteAdvertise {
			return
		}
		adv, err := protocol.DecodeRouteAdvertise(ev.Payload)
		if err != nil {
			simrt.Failf("undecodable-advertisement", "route advertisement on the wire does not decode", "%s: %v", ev, err)
		}
		var path []identity.AgentID
		if adv.EncPath != nil && !adv.EncPath.Encrypted {
			path, _ = protocol.DecodePath(adv.EncPath.Data)
		}
		obs = append(obs, advObs{Seq: ev.Seq, From: ev.From, To: ev.To, Origin: adv.OriginAgent, AdvSeq: adv.Sequence, Routes: adv.Routes, Path: path, SeenBy: adv.SeenBy, At: simrt.Elapsed()})
	})
	return &obs
}

// checkLoopFree: no stored route has a path that repeats an agent or contains the holder.
func checkLoopFree(m *Mesh, when string) {
	for i, nd := range m.Nodes {
		if !nd.Running {
			continue
		}
		for _, r := range m.RoutesAt(i) {
			if r.NextHop == (identity.AgentID{}) && len(r.Path) == 0 {
				continue // local route
			}
			seen := map[identity.AgentID]bool{}
			for _, p := range r.Path {
				if p == nd.ID {
					simrt.Failf("route-through-self", "stored route passes through its holder", "%s at %s holds %s", when, nd.Name, m.routeStr(r))
				}
				if seen[p] {
					simrt.Failf("route-path-revisits", "stored route path revisits an agent", "%s at %s holds %s", when, nd.Name, m.routeStr(r))
				}
				seen[p] = true
			}
		}
	}
}

func edgeSet(m *Mesh) map[[2]int]bool {
	es := map[[2]int]bool{}
	for _, e := range m.Edges {
		es[[2]int{e[0], e[1]}] = true
		es[[2]int{e[1], e[0]}] = true
	}
	return es
}

// checkConverged is the C12 oracle on a stable, fully connected mesh.
func checkConverged(m *Mesh) {
	es := edgeSet(m)
	for i, nd := range m.Nodes {
		views := m.RoutesAt(i)
		have := map[string]RouteView{}
		for _, r := range views {
			have[r.Table+"|"+r.Key+"|"+m.nameOf(r.Origin)] = r
		}
		for j, od := range m.Nodes {
			if j == i {
				continue
			}
			want := []string{"agent|" + od.Name + "|" + od.Name}
			o := m.originatedBy(j)
			for _, c := range o.CIDR {
				want = append(want, "cidr|"+c+"|"+od.Name)
			}
			for _, d := range o.Domain {
				want = append(want, "domain|"+d+"|"+od.Name)
			}
			for _, f := range o.Forward {
				want = append(want, "forward|"+f+"|"+od.Name)
			}
			for _, w := range want {
				r, ok := have[w]
				if !ok {
					simrt.Failf("route-not-learned", "advertised route missing after convergence bound", "%s has no %s", nd.Name, w)
				}
				// next hop is a current neighbour
				nh := m.NodeByID(r.NextHop)
				if nh == nil || !es[[2]int{i, nh.Idx}] || !hasPeer(nd, r.NextHop) {
					simrt.Failf("next-hop-not-neighbour", "next hop is not a current neighbour", "%s: %s", nd.Name, m.routeStr(r))
				}
				if len(r.Path) == 0 || r.Path[0] != r.NextHop {
					simrt.Failf("path-not-from-next-hop", "recorded path does not start at the next hop", "%s: %s", nd.Name, m.routeStr(r))
				}
				prev := i
				for _, p := range r.Path {
					pn := m.NodeByID(p)
					if pn == nil || !es[[2]int{prev, pn.Idx}] {
						simrt.Failf("path-not-a-chain-of-links", "recorded path is not a chain of actual links", "%s: %s", nd.Name, m.routeStr(r))
					}
					prev = pn.Idx
				}
				if r.Path[len(r.Path)-1] != r.Origin || r.Origin != od.ID {
					simrt.Failf("path-does-not-end-at-origin", "recorded path does not end at the advertising agent", "%s: %s", nd.Name, m.routeStr(r))
				}
			}
		}
	}
}

// checkMetrics is the C13 oracle: metric == hops along the recorded path (all
// routes here are originated with local metric 0).
func checkMetrics(m *Mesh) {
	for i, nd := range m.Nodes {
		for _, r := range m.RoutesAt(i) {
			if r.Origin == nd.ID || len(r.Path) == 0 {
				continue
			}
			simrt.Probe(fmt.Sprintf("c13_route_at_%d_hops", min(len(r.Path), 4)))
			if int(r.Metric) != len(r.Path) {
				simrt.Failf("metric-not-hop-count", "metric differs from hop count of recorded path ("+r.Table+")", "%s: %s (hops=%d)", nd.Name, m.routeStr(r), len(r.Path))
			}
		}
	}
}

func settle(m *Mesh) {
	iv := m.Nodes[0].Cfg.Routing.AdvertiseInterval
	simrt.Sleep(2*iv + 10*time.Second)
}

func bootAndConverge(m *Mesh) {
	m.StartAll()
	if !m.WaitConnected(3 * time.Minute) {
		simrt.Failf("mesh-did-not-connect", "configured peers did not connect without faults", "edges=%v", m.Edges)
	}
	settle(m)
}

var allTopos = []string{"chain", "star", "ring", "diamond", "tree", "random"}

func runC12() {
	m := drawMesh(2, 7, allTopos)
	placeRoutes(m, true)
	// destination servers inside every advertised prefix
	for j, nd := range m.Nodes {
		if nd.Cfg.Exit.Enabled {
			m.Net.ServeTCP(fmt.Sprintf("10.%d.3.4:80", 100+j), echoServer)
		}
	}
	bootAndConverge(m)
	checkConverged(m)
	// a stream opened along a learned route reaches the advertising agent
	// (one probe tunnel per run: concurrent tunnels are C16's subject)
	probes := 1
	for k := 0; k < probes; k++ {
		i := simrt.Choose(len(m.Nodes), "ingress")
		var exits []int
		for j, nd := range m.Nodes {
			if nd.Cfg.Exit.Enabled && j != i {
				exits = append(exits, j)
			}
		}
		if len(exits) == 0 {
			continue
		}
		j := exits[simrt.Choose(len(exits), "exit")]
		addr := fmt.Sprintf("10.%d.3.4:80", 100+j)
		before := len(m.Net.Dials)
		m.On(i, "probe", func() {
			ctx, cancel := context.WithTimeout(context.Background(), 40*time.Second)
			defer cancel()
			c, err := m.Nodes[i].A.DialContext(ctx, "tcp", addr)
			if err != nil {
				simrt.Failf("probe-tunnel-failed", "stream along a converged route failed", "%s -> %s via %s: %v", m.Nodes[i].Name, addr, m.Nodes[j].Name, err)
			}
			c.Write([]byte("ping"))
			buf := make([]byte, 4)
			c.SetReadDeadline(time.Now().Add(30 * time.Second))
			if _, err := c.Read(buf); err != nil {
				simrt.Failf("probe-tunnel-failed", "stream along a converged route carried no data", "%s -> %s: %v", m.Nodes[i].Name, addr, err)
			}
			c.Close()
		})
		simrt.Probe("c12_probe_tunnel")
		found := false
		for _, d := range m.Net.Dials[before:] {
			if d.Address == addr {
				found = true
				if d.Node != m.Nodes[j].Name {
					simrt.Failf("probe-reached-wrong-agent", "stream did not reach the advertising agent", "dial for %s was made by %s, advertised by %s", addr, d.Node, m.Nodes[j].Name)
				}
			}
		}
		if !found {
			simrt.Failf("probe-reached-wrong-agent", "no outbound dial observed for the probe", "%s", addr)
		}
	}
	m.StopAll()
}

func runC13() {
	m := drawMesh(2, 7, []string{"chain", "tree", "ring", "diamond", "random", "star"})
	placeRoutes(m, true)
	// optionally the same prefix advertised by a near and a far exit
	shared := ""
	if len(m.Nodes) >= 3 && simrt.Chance(1, 2, "shared-prefix") {
		shared = "10.250.0.0/16"
		a, b := 0, len(m.Nodes)-1
		for _, j := range []int{a, b} {
			m.Nodes[j].Cfg.Exit.Enabled = true
			m.Nodes[j].Cfg.Exit.Routes = append(m.Nodes[j].Cfg.Exit.Routes, shared)
		}
	}
	bootAndConverge(m)
	checkMetrics(m)
	if shared != "" {
		// the statement's corollary: among equally specific routes the one whose
		// recorded path is shorter (the nearer exit, as recorded) is preferred
		for i, nd := range m.Nodes {
			var held []RouteView
			for _, rv := range m.RoutesAt(i) {
				if rv.Table == "cidr" && rv.Key == shared && rv.Origin != nd.ID {
					held = append(held, rv)
				}
			}
			if len(held) < 2 || len(held[0].Path) == len(held[1].Path) || nd.Cfg.Exit.Enabled && containsStr(nd.Cfg.Exit.Routes, shared) {
				continue
			}
			r := nd.A.VerifRouteManager().Lookup(net.ParseIP("10.250.1.1"))
			if r == nil {
				simrt.Failf("route-not-learned", "shared prefix not learned", "%s", nd.Name)
			}
			near := held[0]
			if len(held[1].Path) < len(near.Path) {
				near = held[1]
			}
			simrt.Probe("c13_near_far_compared")
			if r.OriginAgent != near.Origin {
				simrt.Failf("farther-exit-preferred", "lookup prefers the farther of two exits for the same prefix", "%s holds [%s] [%s] but lookup returns origin %s", nd.Name, m.routeStr(held[0]), m.routeStr(held[1]), m.nameOf(r.OriginAgent))
			}
		}
	}
	m.StopAll()
}

// sortedKeys is a helper for deterministic iteration.
func sortedKeys[V any](mm map[string]V) []string {
	ks := make([]string, 0, len(mm))
	for k := range mm {
		ks = append(ks, k)
	}
	sort.Strings(ks)
	return ks
}

func containsStr(xs []string, x string) bool {
	for _, y := range xs {
		if y == x {
			return true
		}
	}
	return false
}
