package wsocks

// Reference parsers written from RFC 1928 (SOCKS5) and RFC 1929
// (username/password sub-negotiation). They are the oracle's reading of what a
// client sent and of what the server wrote; they share no code with /repo.

import (
	"fmt"
	"net"
	"strconv"
	"strings"
)

// ---- client -> server -------------------------------------------------------

// RFC 1928 section 3: VER | NMETHODS | METHODS(1..255)
type refGreeting struct {
	complete bool
	ver      byte
	methods  []byte // as far as present
	end      int
}

func refParseGreeting(b []byte) refGreeting {
	var g refGreeting
	if len(b) >= 1 {
		g.ver = b[0]
	}
	if len(b) < 2 {
		return g
	}
	n := int(b[1])
	if len(b) < 2+n {
		g.methods = b[2:]
		return g
	}
	g.complete = true
	g.methods = b[2 : 2+n]
	g.end = 2 + n
	return g
}

// RFC 1929 section 2: VER(=1) | ULEN | UNAME | PLEN | PASSWD
type refSubneg struct {
	complete bool
	ver      byte
	user     string
	pass     string
	end      int
}

func refParseSubneg(b []byte, off int) refSubneg {
	var s refSubneg
	if off < 0 || len(b) < off+2 {
		return s
	}
	s.ver = b[off]
	ul := int(b[off+1])
	p := off + 2
	if len(b) < p+ul+1 {
		return s
	}
	s.user = string(b[p : p+ul])
	p += ul
	pl := int(b[p])
	p++
	if len(b) < p+pl {
		return s
	}
	s.pass = string(b[p : p+pl])
	s.complete = true
	s.end = p + pl
	return s
}

const (
	reqNone       = iota // fewer than the four fixed header bytes
	reqIncomplete        // header present, address or port not complete
	reqBadAtyp           // ATYP is none of 1, 3, 4 (the length of the rest is unknowable)
	reqComplete
)

// RFC 1928 section 4: VER | CMD | RSV | ATYP | DST.ADDR | DST.PORT
type refRequest struct {
	state  int
	ver    byte
	cmd    byte
	rsv    byte
	atyp   byte
	ip     net.IP // ATYP 1 / 4
	domain string // ATYP 3
	port   uint16
	end    int
}

func refParseRequest(b []byte, off int) refRequest {
	var r refRequest
	if off < 0 || len(b) < off+4 {
		return r
	}
	r.ver, r.cmd, r.rsv, r.atyp = b[off], b[off+1], b[off+2], b[off+3]
	p := off + 4
	alen := 0
	switch r.atyp {
	case 1:
		alen = 4
	case 4:
		alen = 16
	case 3:
		if len(b) < p+1 {
			r.state = reqIncomplete
			return r
		}
		alen = int(b[p])
		p++
	default:
		r.state = reqBadAtyp
		return r
	}
	if len(b) < p+alen+2 {
		r.state = reqIncomplete
		return r
	}
	if r.atyp == 3 {
		r.domain = string(b[p : p+alen])
	} else {
		r.ip = append(net.IP(nil), b[p:p+alen]...)
	}
	p += alen
	r.port = uint16(b[p])<<8 | uint16(b[p+1])
	r.state = reqComplete
	r.end = p + 2
	return r
}

func (r refRequest) host() string {
	if r.atyp == 3 {
		return r.domain
	}
	return r.ip.String()
}

func (r refRequest) String() string {
	switch r.state {
	case reqNone:
		return "<no request>"
	case reqIncomplete:
		return fmt.Sprintf("<incomplete request ver=%d cmd=%d atyp=%d>", r.ver, r.cmd, r.atyp)
	case reqBadAtyp:
		return fmt.Sprintf("<request ver=%d cmd=%d atyp=%d (no such address type)>", r.ver, r.cmd, r.atyp)
	}
	return fmt.Sprintf("<request ver=%d cmd=%d rsv=%d atyp=%d host=%q port=%d>", r.ver, r.cmd, r.rsv, r.atyp, r.host(), r.port)
}

// dialMatches reports whether a dial address names exactly the request's
// destination. It accepts the textual form net.JoinHostPort produces and any
// other host:port spelling that parses to the same IP address / the identical
// domain name and the same port number.
func dialMatches(dialed string, r refRequest) bool {
	if r.state != reqComplete {
		return false
	}
	if dialed == hostPort(r.host(), r.port) {
		return true
	}
	h, p, err := net.SplitHostPort(dialed)
	if err != nil {
		return false
	}
	pn, err := strconv.Atoi(p)
	if err != nil || pn != int(r.port) {
		return false
	}
	if r.atyp == 3 {
		return h == r.domain
	}
	ip := net.ParseIP(h)
	return ip != nil && ip.Equal(r.ip)
}

// ---- server -> client -------------------------------------------------------

// RFC 1928 section 6: VER | REP | RSV | ATYP | BND.ADDR | BND.PORT
type refReply struct {
	rep  byte
	atyp byte
	end  int
}

// srvParse is the reference reading of everything a server wrote on one connection.
type srvParse struct {
	method    int // -1: no method selection yet
	subStatus int // -1: no RFC 1929 status yet
	reply     *refReply
	partial   bool   // the stream ends inside a message
	bad       string // first malformation ("" = none)
}

func hasMethod(ms []byte, m byte) bool {
	for _, x := range ms {
		if x == m {
			return true
		}
	}
	return false
}

// parseServer reads the server's byte stream. offered = the methods the
// client's greeting listed (as far as it was sent).
func parseServer(out []byte, offered []byte) srvParse {
	p := srvParse{method: -1, subStatus: -1}
	if len(out) == 0 {
		return p
	}
	if out[0] != 5 {
		p.bad = fmt.Sprintf("method selection: VER is %#02x, not 0x05", out[0])
		return p
	}
	if len(out) < 2 {
		p.partial = true
		return p
	}
	m := out[1]
	p.method = int(m)
	pos := 2
	if m == 0xFF {
		if len(out) > pos {
			p.bad = "bytes follow the 'no acceptable methods' selection"
		}
		return p
	}
	if !hasMethod(offered, m) {
		p.bad = fmt.Sprintf("method selection: selected method %#02x was not offered by the client", m)
		return p
	}
	switch m {
	case 0:
	case 2:
		if len(out) == pos {
			return p
		}
		if out[pos] != 1 {
			p.bad = fmt.Sprintf("RFC 1929 status: VER is %#02x, not 0x01", out[pos])
			return p
		}
		if len(out) < pos+2 {
			p.partial = true
			return p
		}
		p.subStatus = int(out[pos+1])
		pos += 2
		if p.subStatus != 0 {
			if len(out) > pos {
				p.bad = "bytes follow an authentication failure status"
			}
			return p
		}
	default:
		return p // a method whose sub-negotiation this oracle does not know
	}
	if len(out) == pos {
		return p
	}
	// reply
	if out[pos] != 5 {
		p.bad = fmt.Sprintf("reply: VER is %#02x, not 0x05", out[pos])
		return p
	}
	if len(out) < pos+4 {
		p.partial = true
		return p
	}
	rep, rsv, atyp := out[pos+1], out[pos+2], out[pos+3]
	if rep > 8 {
		p.bad = fmt.Sprintf("reply: REP %#02x is not a defined reply code", rep)
		return p
	}
	if rsv != 0 {
		p.bad = fmt.Sprintf("reply: RSV is %#02x, not 0x00", rsv)
		return p
	}
	q := pos + 4
	alen := 0
	switch atyp {
	case 1:
		alen = 4
	case 4:
		alen = 16
	case 3:
		if len(out) < q+1 {
			p.partial = true
			return p
		}
		alen = int(out[q])
		q++
	default:
		p.bad = fmt.Sprintf("reply: ATYP %#02x is not an address type", atyp)
		return p
	}
	if len(out) < q+alen+2 {
		p.partial = true
		return p
	}
	end := q + alen + 2
	p.reply = &refReply{rep: rep, atyp: atyp, end: end}
	if rep != 0 && len(out) > end {
		p.bad = fmt.Sprintf("%d byte(s) follow an error reply (REP %#02x)", len(out)-end, rep)
	}
	return p
}

func badKind(bad string) string {
	if i := strings.Index(bad, ":"); i > 0 {
		return bad[:i]
	}
	return "stream"
}
