package wsocks

// C22: datagrams arriving at a UDP association's relay socket are forwarded into
// the mesh only if they come from the client that owns the association; replies
// are sent only to that client.
//
// Who owns an association (RFC 1928 section 6, UDP ASSOCIATE): the client whose
// TCP control connection carries it. Its UDP endpoint is
//   - IP: the source IP of the control connection (the workload never declares a
//     different one);
//   - port: the port declared in the request when that is non-zero, otherwise
//     the source port of the first datagram that arrives FROM THAT IP.
// A datagram from any other IP is never the owner's, whatever arrived first.

import (
	"fmt"
	"net"
	"strconv"
	"time"

	"github.com/postalsys/muti-metroo/internal/verifrt/simnet"
	"github.com/postalsys/muti-metroo/internal/verifrt/simrt"
)

type udpSender struct {
	kind string // "owner", "same-ip-other-port", "other-ip", "other-ip-same-port", "other-association-owner"
	sock *simnet.UDPConn
	addr *net.UDPAddr
}

type c22Datagram struct {
	id        int
	assoc     *c22Assoc
	sender    *udpSender
	payload   string
	fromOwner bool // reference model's verdict at arrival
	relayed   int
}

type c22Assoc struct {
	idx      int
	ctl      *cconn
	ownerIP  net.IP
	declKind string // "undeclared", "declared-ip-port", "declared-ip-only", "undeclared-ipv6-zero", "undeclared-domain"
	relay    *net.UDPAddr
	relayKey string
	ua       *udpAssoc
	senders  []*udpSender
	// reference model
	boundPort int // 0 = the owner's port is not known yet
	// bookkeeping
	ownerSent    int
	ownerRelayed int
	repliesTried int
}

// sourceClass names, for violation signatures, how an address that is not the
// owner's endpoint relates to the owner.
func sourceClass(a *net.UDPAddr, as *c22Assoc) string {
	if a.IP.Equal(as.ownerIP) {
		return "owner's IP, not the owner's port"
	}
	return "not the owner's IP"
}

func mustListenUDP(ip net.IP, port int) *simnet.UDPConn {
	s, err := simnet.ListenUDP("udp4", &net.UDPAddr{IP: ip, Port: port})
	if err != nil {
		panic("wsocks: listen udp: " + err.Error())
	}
	return s
}

func readN(c *cconn, n int, d time.Duration) []byte {
	if !c.waitOut(n, d) {
		return nil
	}
	return c.srvOut[:n]
}

// udpHeader builds the RFC 1928 section 7 request header.
func udpHeader(atyp byte, addr []byte, port uint16) []byte {
	b := []byte{0, 0, 0, atyp}
	b = append(b, addr...)
	return append(b, byte(port>>8), byte(port))
}

func runC22() {
	e := newEnv(envOpts{idle: 5 * time.Minute, udpEnabled: true})
	if e == nil {
		panic("wsocks: the agent refused a plain SOCKS5 configuration")
	}
	nAssoc := 1 + simrt.Choose(2, "assocs")
	if nAssoc == 2 {
		simrt.Probe("two_associations")
	}
	var assocs []*c22Assoc
	byPayload := map[string]*c22Datagram{}
	byStream := map[uint64]*c22Assoc{}

	e.udp.onRelay = func(ua *udpAssoc, r relayRec) {
		dg := byPayload[string(r.data)]
		if dg == nil {
			simrt.Failf("relayed-unknown-datagram", "payload nobody sent", "stream %d relayed %d bytes (%x) that match no datagram sent in this run", r.streamID, len(r.data), head(r.data, 32))
		}
		dg.relayed++
		as := byStream[r.streamID]
		if as != dg.assoc {
			simrt.Failf("foreign-datagram-relayed", "relayed on another association's stream",
				"datagram %d was sent to the relay socket of association %d but was forwarded on stream %d", dg.id, dg.assoc.idx, r.streamID)
		}
		if !dg.fromOwner {
			simrt.Failf("foreign-datagram-relayed", sourceClass(dg.sender.addr, as),
				"association %d (owner %s, control connection %s, request declared: %s, owner port per model: %d): datagram %d from %s (%s) was forwarded into the mesh",
				as.idx, as.ownerIP, as.ctl.local, as.declKind, as.boundPort, dg.id, dg.sender.addr, dg.sender.kind)
		}
		as.ownerRelayed++
		simrt.Probe("owner_datagram_relayed")
	}

	// --- set up the associations: control connection, handshake, UDP ASSOCIATE
	for i := 0; i < nAssoc; i++ {
		as := &c22Assoc{idx: i, ownerIP: net.IPv4(10, 0, 1, byte(i+1))}
		node := fmt.Sprintf("cli%d", i)
		e.net.SetNodeIP(node, as.ownerIP)
		owner := &udpSender{kind: "owner", sock: mustListenUDP(as.ownerIP, 0)}
		owner.addr = owner.sock.LocalAddr().(*net.UDPAddr)
		as.senders = append(as.senders, owner)

		var reqAddr []byte
		atyp := byte(1)
		var reqPort uint16
		switch simrt.Choose(5, "declared") {
		case 0:
			as.declKind, reqAddr = "undeclared", []byte{0, 0, 0, 0}
		case 1:
			as.declKind, reqAddr, reqPort = "declared-ip-port", as.ownerIP.To4(), uint16(owner.addr.Port)
			as.boundPort = owner.addr.Port
		case 2:
			as.declKind, reqAddr = "declared-ip-only", as.ownerIP.To4()
		case 3:
			as.declKind, atyp, reqAddr = "undeclared-ipv6-zero", 4, make([]byte, 16)
		default:
			as.declKind, atyp, reqAddr = "undeclared-domain", 3, domainAddr([]byte("client.invalid"))
		}
		var hs simrt.Group
		hs.Go(fmt.Sprintf("ctl%d", i), func() {
			simrt.SetNode(node)
			c := e.openConn()
			as.ctl = c
			c.desc = "udp-associate " + as.declKind
			c.write(encGreeting(5, []byte{0}))
			if b := readN(c, 2, 5*time.Second); b == nil || b[1] != 0 {
				panic(fmt.Sprintf("wsocks: C22 handshake: method selection %x", c.srvOut))
			}
			c.write(encRequest(5, 3, 0, atyp, reqAddr, reqPort))
			b := readN(c, 12, 5*time.Second)
			if b == nil || b[3] != 0 || b[5] != 1 {
				panic(fmt.Sprintf("wsocks: C22 handshake: reply %x", c.srvOut))
			}
			as.relay = &net.UDPAddr{IP: net.IP(append([]byte(nil), b[6:10]...)), Port: int(b[10])<<8 | int(b[11])}
		})
		hs.Wait()
		as.relayKey = net.JoinHostPort(as.relay.IP.String(), strconv.Itoa(as.relay.Port))
		if len(e.udp.order) != i+1 || e.udp.order[i].assoc == nil {
			panic("wsocks: C22: the server created no association")
		}
		as.ua = e.udp.order[i]
		byStream[as.ua.streamID] = as
		if as.ua.assoc.LocalAddr().Port != as.relay.Port {
			panic("wsocks: C22: relay port in the reply differs from the relay socket")
		}
		simrt.Eventf("assoc %d owner=%s declared=%s relay=%s stream=%d", i, owner.addr, as.declKind, as.relayKey, as.ua.streamID)
		assocs = append(assocs, as)
	}
	// --- the other senders
	for _, as := range assocs {
		own := as.senders[0]
		same := &udpSender{kind: "same-ip-other-port", sock: mustListenUDP(as.ownerIP, 0)}
		same.addr = same.sock.LocalAddr().(*net.UDPAddr)
		strangerIP := net.IPv4(10, 0, 9, byte(9+as.idx))
		stranger := &udpSender{kind: "other-ip", sock: mustListenUDP(strangerIP, 0)}
		if simrt.Choose(2, "strangerport") == 1 {
			stranger.sock.Close()
			stranger = &udpSender{kind: "other-ip-same-port", sock: mustListenUDP(strangerIP, own.addr.Port)}
		}
		stranger.addr = stranger.sock.LocalAddr().(*net.UDPAddr)
		as.senders = append(as.senders, same, stranger)
		if len(assocs) == 2 {
			o := assocs[1-as.idx].senders[0]
			as.senders = append(as.senders, &udpSender{kind: "other-association-owner", sock: o.sock, addr: o.addr})
		}
	}

	// --- the drawn history: datagram arrivals and replies from the mesh side
	var mesh simrt.Group
	nOps := 3 + simrt.Choose(12, "ops")
	nDg, nReply := 0, 0
	for k := 0; k < nOps; k++ {
		as := assocs[simrt.Choose(len(assocs), "assoc")]
		op := simrt.Choose(8, "op")
		switch {
		case op <= 4: // a datagram arrives at the relay socket
			var s *udpSender
			switch op {
			case 0, 1:
				s = as.senders[0]
			case 2:
				s = as.senders[1]
			case 3:
				s = as.senders[2]
			default:
				s = as.senders[len(as.senders)-1]
			}
			nDg++
			dg := &c22Datagram{id: nDg, assoc: as, sender: s, payload: fmt.Sprintf("datagram-%03d-from-%s", nDg, s.kind)}
			byPayload[dg.payload] = dg
			// reference model, evaluated in arrival order
			if s.addr.IP.Equal(as.ownerIP) {
				if as.boundPort == 0 {
					as.boundPort = s.addr.Port
				}
				dg.fromOwner = s.addr.Port == as.boundPort
			}
			if dg.fromOwner {
				as.ownerSent++
			} else {
				simrt.Probe("foreign_datagram_sent")
				if as.ownerSent == 0 {
					simrt.Probe("foreign_datagram_first")
				}
				if s.kind == "owner" {
					simrt.Probe("owner_socket_not_owner_port") // another socket of the same host was first
				}
			}
			var hdr []byte
			switch simrt.Choose(3, "dest") {
			case 0:
				hdr = udpHeader(1, []byte{192, 0, 2, byte(nDg)}, uint16(5000+nDg))
			case 1:
				hdr = udpHeader(3, domainAddr([]byte("dns.example")), 53)
			default:
				a := make([]byte, 16)
				a[0], a[15] = 0x20, byte(nDg)
				hdr = udpHeader(4, a, 123)
			}
			simrt.Eventf("dgram %d -> assoc %d from %s (%s) model_owner=%v", dg.id, as.idx, s.addr, s.kind, dg.fromOwner)
			s.sock.WriteToUDP(append(hdr, dg.payload...), as.relay)
		case op <= 6: // the mesh delivers a reply for this association
			nReply++
			as.repliesTried++
			n := nReply
			if as.boundPort == 0 {
				simrt.Probe("reply_before_owner_known")
			}
			assoc := as.ua.assoc
			mesh.Go(fmt.Sprintf("mesh-reply%d", n), func() {
				err := assoc.WriteToClient(1, []byte{192, 0, 2, 200}, 9000, []byte(fmt.Sprintf("reply-%03d", n)))
				simrt.Eventf("reply %d assoc %d err=%v", n, as.idx, err != nil)
			})
		default:
		}
		// let the relay run, or pile the next event on top
		switch simrt.Choose(3, "gap") {
		case 0:
			simrt.Sleep(time.Millisecond)
		case 1:
			simrt.Yield()
		default:
			simrt.Probe("back_to_back_events")
		}
	}
	mesh.Wait()
	simrt.Sleep(50 * time.Millisecond)

	// --- replies: every datagram that left a relay socket must go to the owner
	for _, rec := range e.net.UDPSent {
		var as *c22Assoc
		for _, x := range assocs {
			if x.relayKey == rec.From {
				as = x
			}
		}
		if as == nil {
			continue
		}
		want := ""
		if as.boundPort != 0 {
			want = net.JoinHostPort(as.ownerIP.String(), strconv.Itoa(as.boundPort))
		}
		if rec.To == want {
			simrt.Probe("reply_sent_to_owner")
			continue
		}
		kind := "unknown-address"
		for _, s := range as.senders {
			if net.JoinHostPort(s.addr.IP.String(), strconv.Itoa(s.addr.Port)) == rec.To {
				kind = s.kind
			}
		}
		if want == "" {
			want = "<nobody: no datagram from the owner's IP has arrived and the request declared no port>"
		}
		toClass := "destination is nobody's address"
		if ta, err := net.ResolveUDPAddr("udp4", rec.To); err == nil {
			toClass = sourceClass(ta, as)
		}
		simrt.Failf("reply-sent-to-non-owner", toClass,
			"association %d (owner %s, request declared: %s): a reply datagram (%d bytes) left the relay socket %s toward %s (%s); the owner is %s",
			as.idx, as.ownerIP, as.declKind, rec.Len, rec.From, rec.To, kind, want)
	}
	for _, as := range assocs {
		if as.ownerSent > 0 && as.ownerRelayed == 0 {
			simrt.Probe("owner_datagrams_all_dropped")
		}
		if as.ownerRelayed < as.ownerSent {
			simrt.Probe("owner_datagram_dropped")
		}
	}
	foreignDropped := 0
	for _, dg := range byPayload {
		if !dg.fromOwner && dg.relayed == 0 {
			foreignDropped++
		}
	}
	if foreignDropped > 0 {
		simrt.ProbeN("foreign_datagram_dropped", int64(foreignDropped))
	}

	// --- tear down: the control connections end, the associations with them
	for _, as := range assocs {
		as.ctl.closeNow()
	}
	simrt.Sleep(10 * time.Millisecond)
	for _, as := range assocs {
		for _, s := range as.senders {
			s.sock.Close()
		}
	}
	e.finish()
	for _, as := range assocs {
		if !as.ua.closed {
			simrt.Probe("association_not_closed_with_control_connection")
		}
	}
}
