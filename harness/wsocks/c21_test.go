package wsocks

// C21: with SOCKS5 authentication enabled, no CONNECT, UDP ASSOCIATE or ICMP
// command is executed for a client that has not presented credentials matching
// a configured user.

import (
	"bytes"
	"fmt"
	"strings"
	"time"

	"golang.org/x/crypto/bcrypt"

	"github.com/postalsys/muti-metroo/internal/config"
	"github.com/postalsys/muti-metroo/internal/verifrt/simrt"
)

const (
	pwAlice = "vfy-alice-pw-3c1"
	pwBob   = "vfy-bob-pw-9d2"
	pwCarol = "vfy-carol-pw-5e7"
	// bcrypt cost 4 hashes of the three passwords (generated once with golang.org/x/crypto/bcrypt)
	hashAlice = "$2a$04$bN34t2TXh0vekMV1Zs68b.uKcJToKM43UjHj5EE1UgiljHzHVps6e"
	hashBob   = "$2a$04$3EfWX2BJQinRGO6tKB.bW.e8VgZXvZ9r90dPyX9nD/3A4gt5eQ/Gm"
	hashCarol = "$2a$04$guiqHaWpuISf9.D.sD/GpuwchLoa4VhMRU7c8prbE/.SpdhZO2vtm"
	notAHash  = "vfy-this-is-not-a-bcrypt-hash"
)

type cred struct{ user, pass string }

type userList struct {
	kind  string
	users []config.SOCKS5UserConfig
	good  []cred // credentials the statement accepts (as the harness knows them)
}

func u(name, pw, hash string) config.SOCKS5UserConfig {
	return config.SOCKS5UserConfig{Username: name, Password: pw, PasswordHash: hash}
}

func drawUsers() userList {
	switch simrt.Choose(14, "users") {
	case 0:
		return userList{kind: "empty"}
	case 1:
		return userList{"one-plaintext", []config.SOCKS5UserConfig{u("alice", pwAlice, "")}, []cred{{"alice", pwAlice}}}
	case 2:
		return userList{"one-without-password", []config.SOCKS5UserConfig{u("alice", "", "")}, nil}
	case 3:
		return userList{"one-bcrypt", []config.SOCKS5UserConfig{u("alice", "", hashAlice)}, []cred{{"alice", pwAlice}}}
	case 4:
		return userList{"two-plaintext", []config.SOCKS5UserConfig{u("alice", pwAlice, ""), u("bob", pwBob, "")}, []cred{{"alice", pwAlice}, {"bob", pwBob}}}
	case 5:
		return userList{"two-without-password", []config.SOCKS5UserConfig{u("alice", "", ""), u("bob", "", "")}, nil}
	case 6:
		return userList{"one-unparsable-hash", []config.SOCKS5UserConfig{u("alice", "", notAHash)}, nil}
	case 7:
		return userList{"duplicate-plaintext", []config.SOCKS5UserConfig{u("alice", pwAlice, ""), u("alice", pwBob, "")}, []cred{{"alice", pwAlice}, {"alice", pwBob}}}
	case 8:
		return userList{"duplicate-hash-and-plaintext", []config.SOCKS5UserConfig{u("alice", "", hashAlice), u("alice", pwBob, "")}, []cred{{"alice", pwAlice}, {"alice", pwBob}}}
	case 9:
		return userList{"bcrypt-and-plaintext-users", []config.SOCKS5UserConfig{u("alice", "", hashAlice), u("bob", pwBob, "")}, []cred{{"alice", pwAlice}, {"bob", pwBob}}}
	case 10:
		return userList{"one-with-hash-and-password", []config.SOCKS5UserConfig{u("alice", pwBob, hashAlice)}, []cred{{"alice", pwAlice}, {"alice", pwBob}}}
	case 11:
		return userList{"usable-and-unusable", []config.SOCKS5UserConfig{u("alice", pwAlice, ""), u("bob", "", "")}, []cred{{"alice", pwAlice}}}
	case 12:
		return userList{"two-bcrypt", []config.SOCKS5UserConfig{u("alice", "", hashAlice), u("carol", "", hashCarol)}, []cred{{"alice", pwAlice}, {"carol", pwCarol}}}
	default:
		return userList{"duplicate-without-password", []config.SOCKS5UserConfig{u("alice", "", ""), u("alice", "", "")}, nil}
	}
}

// ---------------------------------------------------------------------------
// reference model (statement + RFC 1928 / 1929)

// usable: the entry has a password some client could present.
func usable(uc config.SOCKS5UserConfig) bool {
	if uc.Password != "" {
		return true
	}
	if uc.PasswordHash != "" {
		_, err := bcrypt.Cost([]byte(uc.PasswordHash))
		return err == nil
	}
	return false
}

func (e *env) anyUsable() bool {
	for _, uc := range e.users {
		if usable(uc) {
			return true
		}
	}
	return false
}

// credsMatch: (user, pass) are the credentials of some configured entry. The
// reading is deliberately generous (any entry of that name, either its
// plaintext password or its hash), so that the oracle never asks for more than
// the statement; an empty configured password is "no usable password".
func (e *env) credsMatch(user, pass string) bool {
	for _, uc := range e.users {
		if uc.Username != user {
			continue
		}
		if uc.Password != "" && uc.Password == pass {
			return true
		}
		if uc.PasswordHash != "" && bcrypt.CompareHashAndPassword([]byte(uc.PasswordHash), []byte(pass)) == nil {
			return true
		}
	}
	return false
}

// modelAuth decides, from the bytes the client has delivered so far, whether it
// has presented credentials matching a configured user: a complete SOCKS5
// greeting that offers method 0x02, followed by RFC 1929 messages of which at
// least one (the reading again generous: not only the first) carries matching
// credentials.
func (e *env) modelAuth(sent []byte) (bool, string) {
	none := "the client presented no credentials"
	if !e.anyUsable() {
		none = "no configured user has a usable password"
	}
	g := refParseGreeting(sent)
	if !g.complete || g.ver != 5 {
		return false, none
	}
	if !hasMethod(g.methods, 2) {
		if e.anyUsable() {
			return false, "the client did not offer the username/password method"
		}
		return false, none
	}
	off, n := g.end, 0
	for {
		s := refParseSubneg(sent, off)
		if !s.complete || s.ver != 1 {
			break
		}
		n++
		if e.credsMatch(s.user, s.pass) {
			return true, ""
		}
		off = s.end
	}
	if n == 0 || !e.anyUsable() {
		return false, none
	}
	return false, "the presented credentials match no configured user"
}

// ---------------------------------------------------------------------------
// client scripts

type c21Script struct {
	bytes  []byte
	marks  []int
	expect []int
	desc   string
}

func seqBytes(from, n int) []byte {
	b := make([]byte, n)
	for i := range b {
		b[i] = byte(from + i)
	}
	return b
}

var c21Greetings = []struct {
	name string
	ver  byte
	m    []byte
}{
	{"noauth", 5, []byte{0}},
	{"userpass", 5, []byte{2}},
	{"noauth+userpass", 5, []byte{0, 2}},
	{"userpass+noauth", 5, []byte{2, 0}},
	{"zero-methods", 5, nil},
	{"gssapi", 5, []byte{1}},
	{"unknown-methods", 5, []byte{0x80, 0xfe, 3}},
	{"255-methods-01..ff", 5, seqBytes(1, 255)},
	{"255-methods-00..fe", 5, seqBytes(0, 255)},
	{"ff-only", 5, []byte{0xff}},
	{"socks4-version", 4, []byte{2}},
	{"noauth-twice", 5, []byte{0, 0}},
	{"255-times-noauth", 5, make([]byte, 255)},
	{"userpass-thrice", 5, []byte{2, 2, 2}},
}

func pad(s string, n int, c byte) []byte {
	b := []byte(s)
	for len(b) < n {
		b = append(b, c)
	}
	return b
}

// drawSubneg returns the bytes a client sends in the place of the RFC 1929 message.
func drawSubneg(ul userList) ([]byte, string) {
	// credentials a client could guess at
	good := cred{"alice", pwAlice}
	if len(ul.good) > 0 {
		good = ul.good[simrt.Choose(len(ul.good), "whichgood")]
	} else if len(ul.users) > 0 {
		good.user = ul.users[0].Username
	}
	other := pwCarol
	if good.pass == pwCarol {
		other = pwBob
	}
	switch simrt.Choose(4, "subnegclass") {
	case 0:
		return nil, "none"
	case 1:
		return encSubneg(1, []byte(good.user), []byte(good.pass)), "right"
	}
	switch 2 + simrt.Choose(14, "subneg") {
	case 2:
		return encSubneg(1, []byte(good.user), []byte("vfy-wrong")), "wrong-password"
	case 3:
		return encSubneg(1, []byte("mallory"), []byte(good.pass)), "wrong-user"
	case 4:
		return encSubneg(1, nil, []byte(good.pass)), "empty-user"
	case 5:
		return encSubneg(1, []byte(good.user), nil), "empty-password"
	case 6:
		return encSubneg(1, pad(good.user, 255, 'a'), []byte(good.pass)), "oversize-user"
	case 7:
		return encSubneg(1, []byte(good.user), pad(good.pass, 255, 'x')), "oversize-password"
	case 8:
		// ULEN promises more than follows: the rest of the script is swallowed as "username"
		b := []byte{1, byte(len(good.user) + 30)}
		return append(b, good.user...), "truncated-framing"
	case 9:
		v := []byte{5, 0, 2}[simrt.Choose(3, "subver")]
		return encSubneg(v, []byte(good.user), []byte(good.pass)), "wrong-version"
	case 10:
		return encSubneg(1, []byte(good.user), []byte(other)), "password-of-another-user"
	case 11:
		variants := []string{good.pass + "\x00", strings.ToUpper(good.pass), good.pass[:len(good.pass)-1], " " + good.pass, hashAlice}
		return encSubneg(1, []byte(good.user), []byte(variants[simrt.Choose(len(variants), "pwvariant")])), "password-variant"
	case 12:
		b := encSubneg(1, []byte(good.user), []byte("vfy-wrong"))
		return append(b, encSubneg(1, []byte(good.user), []byte(good.pass))...), "wrong-then-right"
	case 13:
		b := encSubneg(1, []byte(good.user), []byte(good.pass))
		return append(b, b...), "right-twice"
	case 14:
		return encSubneg(1, []byte(strings.ToUpper(good.user)), []byte(good.pass)), "user-other-case"
	default:
		return encSubneg(1, []byte(good.user+"\x00"), []byte(good.pass)), "user-with-nul"
	}
}

// drawCommand returns a request; every connection uses its own port (20000+id).
func drawCommand(id int) ([]byte, string) {
	port := uint16(20000 + id)
	v4 := []byte{198, 51, 100, byte(id)}
	switch simrt.Choose(11, "command") {
	case 0:
		return encRequest(5, 1, 0, 1, v4, port), "connect-v4"
	case 1:
		return encRequest(5, 1, 0, 3, domainAddr([]byte(fmt.Sprintf("host%d.example", id))), port), "connect-domain"
	case 2:
		a := make([]byte, 16)
		a[0], a[1], a[15] = 0x20, 0x01, byte(id)
		return encRequest(5, 1, 0, 4, a, port), "connect-v6"
	case 3:
		return encRequest(5, 3, 0, 1, []byte{0, 0, 0, 0}, 0), "udp-associate"
	case 4:
		return encRequest(5, 4, 0, 1, v4, 0), "icmp"
	case 5:
		return encRequest(5, 2, 0, 1, v4, port), "bind"
	case 6:
		return encRequest(5, 9, 0, 1, v4, port), "unknown-command"
	case 7:
		return encRequest(5, []byte{0, 0xff}[simrt.Choose(2, "cmdbyte")], 0, 1, v4, port), "unknown-command"
	case 8:
		return nil, "no-request"
	case 9:
		return encRequest(5, 3, 0, 1, []byte{10, 0, 1, byte(id)}, port), "udp-associate-declared"
	default:
		a := make([]byte, 16)
		a[0], a[15] = 0xfd, byte(id)
		return encRequest(5, 4, 0, 4, a, 0), "icmp-v6"
	}
}

func drawC21Script(ul userList, id int) c21Script {
	var s c21Script
	gi := simrt.Choose(len(c21Greetings)+6, "greeting")
	if gi >= len(c21Greetings) { // the four everyday offers carry extra weight
		gi = []int{0, 1, 2, 3, 1, 2}[gi-len(c21Greetings)]
	}
	g := c21Greetings[gi]
	s.bytes = encGreeting(g.ver, g.m)
	s.marks = append(s.marks, len(s.bytes))
	s.expect = append(s.expect, 2)
	sub, subName := drawSubneg(ul)
	if len(sub) > 0 {
		s.bytes = append(s.bytes, sub...)
		s.marks = append(s.marks, len(s.bytes))
		s.expect = append(s.expect, 4)
		// further credential messages on the same connection (a client that
		// retries, or one that counts on a retry limit being mishandled)
		for extra := []int{0, 0, 0, 1, 2, 3, 4, 6}[simrt.Choose(8, "extra-subnegs")]; extra > 0; extra-- {
			more, moreName := drawSubneg(ul)
			if len(more) == 0 {
				break
			}
			simrt.Probe("c21_repeated_credentials")
			s.bytes = append(s.bytes, more...)
			s.marks = append(s.marks, len(s.bytes))
			s.expect = append(s.expect, s.expect[len(s.expect)-1]+2)
			subName += "+" + moreName
		}
	}
	cmd, cmdName := drawCommand(id)
	s.bytes = append(s.bytes, cmd...)
	trailing := false
	if len(cmd) > 0 && simrt.Choose(3, "trailing") == 2 {
		s.bytes = append(s.bytes, []byte(fmt.Sprintf("payload-of-connection-%d", id))...)
		trailing = true
	}
	s.desc = fmt.Sprintf("greeting=%s subneg=%s command=%s trailing=%v", g.name, subName, cmdName, trailing)
	return s
}

// ---------------------------------------------------------------------------

func runC21() {
	enabled := simrt.Choose(8, "auth") != 7 // disabled runs are only a control
	ul := drawUsers()
	idle := []time.Duration{5 * time.Minute, 20 * time.Second}[simrt.Choose(2, "idle")]
	e := newEnv(envOpts{authEnabled: enabled, users: ul.users, idle: idle, udpEnabled: true, icmpSet: true, icmpEnabled: true})
	simrt.Eventf("C21 auth_enabled=%v users=%s", enabled, ul.kind)
	if e == nil {
		return // the agent refused the configuration: nothing is served
	}
	if enabled {
		simrt.Probe("auth_enabled")
		if !e.anyUsable() {
			simrt.Probe("auth_enabled_no_usable_user")
		}
	}
	e.onAction = func(c *cconn, a *actionRec) {
		if !e.authEnabled {
			simrt.Probe("control_command_with_auth_disabled")
			return
		}
		ok, why := e.modelAuth(c.sent)
		if ok {
			simrt.Probe("authenticated_" + a.kind)
			return
		}
		simrt.Failf("unauthenticated-command", a.kind+": "+why,
			"authentication is enabled (user list: %s) and the server executed %s %s for connection %d, but %s. Client script: %s; bytes delivered so far: %d (%x...)",
			ul.kind, a.kind, a.address, c.id, why, c.desc, len(c.sent), head(c.sent, 48))
	}
	e.onServerBytes = func(c *cconn) {
		if e.authEnabled && len(c.srvOut) >= 2 && c.srvOut[0] == 5 && c.srvOut[1] == 0 && !c.stopParse {
			c.stopParse = true
			simrt.Probe("noauth_selected_although_auth_enabled")
		}
	}

	nClients := 1 + simrt.Choose(3, "clients")
	var g simrt.Group
	for k := 0; k < nClients; k++ {
		k := k
		g.Go(fmt.Sprintf("client%d", k), func() {
			node := fmt.Sprintf("cli%d", k)
			simrt.SetNode(node)
			e.net.SetNodeIP(node, []byte{10, 0, 1, byte(k + 1)})
			nConn := 1 + simrt.Choose(2, "nconn")
			for j := 0; j < nConn; j++ {
				c := e.openConn()
				s := drawC21Script(ul, c.id)
				c.desc = s.desc
				c.plan = connPlan{dialOutcome: []int{dialOK, dialOK, dialOKDelayed, dialRefused}[simrt.Choose(4, "dial")], dialDelay: 50 * time.Millisecond}
				d := drawDelivery(len(s.bytes))
				simrt.Eventf("c%d script %s len=%d cut=%d frag=%d pause=%d interactive=%v", c.id, s.desc, len(s.bytes), d.cut, d.fragMode, d.pauseKind, d.interactive)
				e.play(c, s.bytes, s.marks, s.expect, d)
				c21Outcome(e, c)
			}
		})
	}
	g.Wait()
	e.finish()
}

// c21Outcome counts what happened to a finished connection (reach probes only).
func c21Outcome(e *env, c *cconn) {
	if !e.authEnabled {
		return
	}
	ok, why := e.modelAuth(c.sent)
	executed := len(c.actions) > 0
	switch {
	case ok && executed:
		simrt.Probe("conn_authenticated_and_served")
	case ok:
		simrt.Probe("conn_authenticated_not_served")
	case strings.Contains(why, "usable"):
		simrt.Probe("conn_refused_no_usable_user")
	case strings.Contains(why, "did not offer"):
		simrt.Probe("conn_refused_method_not_offered")
	case strings.Contains(why, "no credentials"):
		simrt.Probe("conn_refused_no_credentials")
	default:
		simrt.Probe("conn_refused_wrong_credentials")
	}
	if bytes.Contains(c.srvOut, []byte{1, 1}) {
		simrt.Probe("rfc1929_failure_status_seen")
	}
}

func head(b []byte, n int) []byte {
	if len(b) > n {
		return b[:n]
	}
	return b
}
