// Package wsocks is the simulated world deciding C21, C22 and C23 (SOCKS5 front
// end of the agent).
//
// Real code: socks5.Server (accept loop, connection tracking, idle deadline),
// socks5.Handler (method negotiation, RFC 1929 sub-negotiation, request parser,
// reply encoder, CONNECT / UDP ASSOCIATE / ICMP dispatch), socks5.UDPAssociation
// (relay socket, ReadLoop, WriteToClient), the authenticators. The authenticator
// list is the one the agent builds: every run calls agent.New(cfg) with the drawn
// socks5.auth configuration and reads the effective list out of the server the
// agent constructed (verif accessors); the server under test is then created with
// exactly the ServerConfig values the agent used, except that the Dialer and the
// UDP / ICMP handlers (which in the agent are the agent itself, i.e. the mesh) are
// recording stubs owned by the harness.
//
// Simulator owned: the network (simnet: listener, TCP pipes, UDP sockets), the
// clients (goroutines writing byte scripts with drawn fragmentation, pauses,
// half-close / close at a drawn offset), the destination behind the Dialer (an
// echo peer on the other end of a simnet pair, or a scripted failure), the mesh
// side of UDP associations.
package wsocks

import (
	"context"
	"encoding/hex"
	"errors"
	"fmt"
	"net"
	"strconv"
	"strings"
	"testing"
	"time"

	"github.com/postalsys/muti-metroo/internal/agent"
	"github.com/postalsys/muti-metroo/internal/config"
	"github.com/postalsys/muti-metroo/internal/socks5"
	"github.com/postalsys/muti-metroo/internal/verifrt/simnet"
	"github.com/postalsys/muti-metroo/internal/verifrt/simrt"
	"github.com/postalsys/muti-metroo/internal/verifsim/hc"
	"github.com/postalsys/muti-metroo/internal/verifsim/wsocks/sockseam"
)

func TestWorld(t *testing.T) {
	hc.Main(t, &hc.World{
		Name:             "W-socks",
		Run:              run,
		PreemptMeans:     []int{0, 2, 5, 20, 80},
		MaxSteps:         3_000_000,
		MaxSimTime:       2 * time.Hour,
		PanicIsViolation: map[string]bool{"C23": true},
	})
}

func run(prop string) {
	switch prop {
	case "C21":
		runC21()
	case "C22":
		runC22()
	case "C23":
		runC23()
	default:
		panic("W-socks does not decide " + prop)
	}
}

// ---------------------------------------------------------------------------
// environment: one real server, stubs, client connection records

const (
	srvIPStr = "10.0.0.1"
	srvAddr  = "10.0.0.1:1080"
)

var srvIP = net.IPv4(10, 0, 0, 1)

// dial outcomes of the stub Dialer
const (
	dialOK = iota
	dialOKDelayed
	dialRefused
	dialTimeout
	dialDNS
	dialGeneric
	dialHang
	nDialOutcomes
)

var dialOutcomeNames = []string{"ok", "ok-delayed", "refused", "timeout", "dns-error", "generic-error", "hang"}

// connPlan is what the stubs do for one client connection (drawn by the client).
type connPlan struct {
	dialOutcome int
	dialDelay   time.Duration
	bindV6      bool // local address of the outbound connection is IPv6
	udpFail     bool // CreateUDPAssociation fails
	icmpFail    bool // CreateICMPSession fails
}

// actionRec is one call into a stub that executes a SOCKS5 command.
type actionRec struct {
	kind     string // "connect", "udp-associate", "icmp"
	network  string
	address  string // connect: dial address; udp: declared client address; icmp: destination
	outcome  string
	conn     *cconn
	g        string
	seq      uint64
	returned bool // the stub call has returned
	ok       bool // ... successfully
	matches  bool // C23: address equals the request's
}

// cconn is one client connection to the server.
type cconn struct {
	id      int
	conn    *simnet.TCPConn
	link    *simnet.Link
	local   string
	sent    []byte // bytes delivered into the connection by the client
	srvOut  []byte // bytes written by the server (seen at write time)
	recv    []byte // bytes the client read
	q       simrt.WaitQ
	rdDone  bool
	rdEOF   bool
	cliShut bool // the client closed (fully) before the server did
	plan    connPlan
	actions []*actionRec
	desc    string
	// pacing facts the oracles need
	longPause bool
	opened    time.Time // simulated time of the dial
	lastSent  time.Time // simulated time at which the last bytes were delivered
	// C23 stream-parser state
	replySeen bool
	stopParse bool
}

func (c *cconn) connects() []*actionRec {
	var out []*actionRec
	for _, a := range c.actions {
		if a.kind == "connect" {
			out = append(out, a)
		}
	}
	return out
}

type env struct {
	net         *simnet.World
	srv         *socks5.Server
	authEnabled bool
	users       []config.SOCKS5UserConfig
	idle        time.Duration
	dialer      *stubDialer
	udp         *stubUDP
	icmp        *stubICMP
	icmpSet     bool
	conns       []*cconn
	byLink      map[*simnet.Link]*cconn
	byLocal     map[string]*cconn
	byG         map[string]*cconn // server-side goroutine name -> the connection it does I/O on
	pending     []*actionRec
	bg          simrt.Group
	nPairs      int

	onAction      func(c *cconn, a *actionRec)
	onServerBytes func(c *cconn)
}

func fixedID() string {
	b := make([]byte, 16)
	for i := range b {
		b[i] = byte(0xc0 + i)
	}
	return hex.EncodeToString(b)
}

func fixedKey() string {
	b := make([]byte, 32)
	for k := range b {
		b[k] = byte(0x51 + k)
	}
	b[0] &= 248
	b[31] &= 127
	b[31] |= 64
	return hex.EncodeToString(b)
}

type envOpts struct {
	authEnabled bool
	users       []config.SOCKS5UserConfig
	idle        time.Duration
	udpEnabled  bool
	icmpSet     bool // the agent has an ICMP handler (icmp.enabled)
	icmpEnabled bool
}

// newEnv builds the agent from configuration, takes the authenticators the agent
// built, and starts the server under test. Returns nil when the agent refuses
// the configuration (then nothing is served at all).
func newEnv(o envOpts) *env {
	e := &env{authEnabled: o.authEnabled, users: o.users, idle: o.idle, byLink: map[*simnet.Link]*cconn{}, byLocal: map[string]*cconn{}, byG: map[string]*cconn{}}
	e.net = simnet.Reset()
	sockseam.OnIO = e.onServerIO
	e.net.SetNodeIP("srv", srvIP)
	e.net.OnLink = func(l *simnet.Link) {
		if l.AccAddr == srvAddr {
			l.Tap = e.tap
		}
	}
	simrt.SetNode("srv")

	cfg := config.Default()
	cfg.Agent.ID = fixedID()
	cfg.Agent.DataDir = ""
	cfg.Agent.PrivateKey = fixedKey()
	cfg.Agent.LogLevel = "error"
	cfg.HTTP.Enabled = false
	cfg.UDP.Enabled = false
	cfg.ICMP.Enabled = false
	cfg.SOCKS5.Enabled = true
	cfg.SOCKS5.Address = srvAddr
	cfg.SOCKS5.Auth.Enabled = o.authEnabled
	cfg.SOCKS5.Auth.Users = o.users
	cfg.Connections.IdleThreshold = o.idle

	if err := cfg.Validate(); err != nil {
		simrt.Eventf("config refused by Validate: %v", err)
		simrt.Probe("config_refused")
		return nil
	}
	a, err := agent.New(cfg)
	if err != nil {
		simrt.Eventf("config refused by agent.New: %v", err)
		simrt.Probe("config_refused")
		return nil
	}
	as := a.VerifSOCKS5Server()
	if as == nil {
		panic("wsocks: agent built no SOCKS5 server although socks5.enabled is true")
	}
	ac := as.VerifConfig()
	auths := as.VerifAuthenticators()
	a.VerifFlooder().Stop() // the only goroutine agent.New starts

	methods := make([]string, 0, len(auths))
	for _, au := range auths {
		methods = append(methods, fmt.Sprintf("%02x", au.GetMethod()))
	}
	simrt.Eventf("server auth_enabled=%v users=%d effective_methods=%v idle=%v", o.authEnabled, len(o.users), methods, ac.IdleTimeout)

	e.dialer = &stubDialer{e: e}
	e.udp = &stubUDP{e: e, enabled: o.udpEnabled, assocs: map[uint64]*udpAssoc{}}
	e.icmp = &stubICMP{e: e, enabled: o.icmpEnabled}
	e.icmpSet = o.icmpSet
	e.srv = socks5.NewServer(socks5.ServerConfig{
		Address:        ac.Address,
		MaxConnections: ac.MaxConnections,
		ConnectTimeout: ac.ConnectTimeout,
		IdleTimeout:    ac.IdleTimeout,
		Authenticators: auths,
		Dialer:         e.dialer,
	})
	// agent.initComponents: SetUDPHandler always, SetICMPHandler when icmp is enabled
	e.srv.SetUDPHandler(e.udp)
	if o.icmpSet {
		e.srv.SetICMPHandler(e.icmp)
	}
	if err := e.srv.Start(); err != nil {
		panic("wsocks: server start: " + err.Error())
	}
	return e
}

// finish stops the server and waits for everything the harness started.
func (e *env) finish() {
	e.srv.Stop()
	e.bg.Wait()
	if len(e.pending) > 0 {
		p := e.pending[0]
		simrt.Failf("unattributed-action", p.kind, "%d stub call(s) could not be attributed to a client connection (first: %s %s by goroutine %s)", len(e.pending), p.kind, p.address, p.g)
	}
}

// onServerIO is the listener seam's notification: the calling goroutine does
// I/O on the server side of a client connection, so it serves that connection.
func (e *env) onServerIO(tc *simnet.TCPConn) {
	g := simrt.CurG()
	if g == nil {
		return
	}
	c := e.byLink[tc.Link()]
	if c == nil {
		return
	}
	name := g.Name()
	if e.byG[name] == nil {
		e.byG[name] = c
		e.resolvePending()
	}
}

// tap sees every write on a client<->server link, in the writer's goroutine.
func (e *env) tap(l *simnet.Link, dir int, b []byte) []byte {
	if dir != 1 {
		return b
	}
	c := e.byLink[l]
	if c == nil {
		return b
	}
	c.srvOut = append(c.srvOut, b...)
	simrt.Eventf("srv->c%d len=%d h=%x", c.id, len(b), simrt.FNV(b))
	if e.onServerBytes != nil {
		e.onServerBytes(c)
	}
	c.q.WakeAll()
	return b
}

// connOfG finds the connection served by goroutine name or by its nearest
// ancestor (goroutines started by a go statement are named <parent>.<n>).
func (e *env) connOfG(name string) *cconn {
	for n := name; n != ""; {
		if c := e.byG[n]; c != nil {
			return c
		}
		i := strings.LastIndex(n, ".")
		if i < 0 {
			break
		}
		n = n[:i]
	}
	return nil
}

// attribute finds the client connection the calling (server-side) goroutine serves.
func (e *env) attribute() (*cconn, string) {
	g := simrt.CurG()
	if g == nil {
		return nil, ""
	}
	return e.connOfG(g.Name()), g.Name()
}

func (e *env) resolvePending() {
	var rest []*actionRec
	for _, p := range e.pending {
		if c := e.connOfG(p.g); c != nil {
			p.conn = c
			e.commit(p)
		} else {
			rest = append(rest, p)
		}
	}
	e.pending = rest
}

func (e *env) recordAction(a *actionRec) {
	if a.conn == nil {
		simrt.Eventf("action kind=%s addr=%s unattributed", a.kind, a.address)
		e.pending = append(e.pending, a)
		return
	}
	e.commit(a)
}

func (e *env) commit(a *actionRec) {
	c := a.conn
	c.actions = append(c.actions, a)
	simrt.Eventf("action c=%d kind=%s net=%s addr=%q outcome=%s", c.id, a.kind, a.network, a.address, a.outcome)
	simrt.Probe("action_" + a.kind)
	if e.onAction != nil {
		e.onAction(c, a)
	}
}

// ---------------------------------------------------------------------------
// stub Dialer

type stubDialer struct{ e *env }

type timeoutError struct{}

func (timeoutError) Error() string   { return "i/o timeout" }
func (timeoutError) Timeout() bool   { return true }
func (timeoutError) Temporary() bool { return true }

func (d *stubDialer) Dial(network, address string) (net.Conn, error) {
	return d.DialContext(context.Background(), network, address)
}

// wait sleeps for dur unless ctx ends first; reports whether the full time passed.
func ctxWait(ctx context.Context, dur time.Duration) bool {
	if ctx.Err() != nil {
		return false
	}
	if dur <= 0 {
		return true
	}
	i := simrt.Select(false, simrt.RecvCase(ctx.Done()), simrt.RecvCase(time.After(dur)))
	return i == 1
}

func (d *stubDialer) DialContext(ctx context.Context, network, address string) (net.Conn, error) {
	simrt.Yield()
	e := d.e
	c, g := e.attribute()
	a := &actionRec{kind: "connect", network: network, address: address, conn: c, g: g, seq: simrt.Seq()}
	plan := connPlan{}
	if c != nil {
		plan = c.plan
	}
	a.outcome = dialOutcomeNames[plan.dialOutcome]
	e.recordAction(a)
	defer func() { a.returned = true }()
	cancelled := func() (net.Conn, error) {
		return nil, &net.OpError{Op: "dial", Net: network, Err: ctx.Err()}
	}
	switch plan.dialOutcome {
	case dialOK, dialOKDelayed:
		if !ctxWait(ctx, plan.dialDelay) {
			return cancelled()
		}
		e.nPairs++
		n := e.nPairs
		lip := net.IP(srvIP)
		if plan.bindV6 {
			lip = net.ParseIP("fd00::1")
		}
		laddr := &net.TCPAddr{IP: lip, Port: 50000 + n}
		raddr := &net.TCPAddr{IP: net.IPv4(203, 0, 113, byte(n)), Port: 7}
		near, far := e.net.Pair("srv", "internet", laddr, raddr)
		e.bg.Go(fmt.Sprintf("echo%d", n), func() {
			buf := make([]byte, 4096)
			for {
				k, err := far.Read(buf)
				if k > 0 {
					if _, werr := far.Write(buf[:k]); werr != nil {
						break
					}
				}
				if err != nil {
					break
				}
			}
			far.Close()
		})
		a.ok = true
		return near, nil
	case dialRefused:
		if !ctxWait(ctx, plan.dialDelay) {
			return cancelled()
		}
		return nil, &net.OpError{Op: "dial", Net: network, Err: errors.New("connect: connection refused")}
	case dialTimeout:
		if !ctxWait(ctx, plan.dialDelay) {
			return cancelled()
		}
		return nil, &net.OpError{Op: "dial", Net: network, Err: timeoutError{}}
	case dialDNS:
		if !ctxWait(ctx, plan.dialDelay) {
			return cancelled()
		}
		return nil, &net.DNSError{Err: "no such host", Name: address, IsNotFound: true}
	case dialGeneric:
		return nil, errors.New("no route to destination")
	default: // hang until the caller gives up (bounded)
		if !ctxWait(ctx, 90*time.Second) {
			return cancelled()
		}
		return nil, errors.New("stream open timed out")
	}
}

// ---------------------------------------------------------------------------
// stub UDP association handler (the mesh side of UDP ASSOCIATE)

type relayRec struct {
	streamID uint64
	addrType byte
	rawAddr  []byte
	port     uint16
	data     []byte
}

type udpAssoc struct {
	streamID uint64
	conn     *cconn
	assoc    *socks5.UDPAssociation
	declared *net.UDPAddr
	closed   bool
}

type stubUDP struct {
	e       *env
	enabled bool
	next    uint64
	assocs  map[uint64]*udpAssoc
	order   []*udpAssoc
	relayed []relayRec
	onRelay func(ua *udpAssoc, r relayRec)
	q       simrt.WaitQ
}

func (u *stubUDP) IsUDPEnabled() bool { return u.enabled }

func (u *stubUDP) CreateUDPAssociation(ctx context.Context, clientAddr *net.UDPAddr) (uint64, error) {
	simrt.Yield()
	c, g := u.e.attribute()
	addr := "<none>"
	if clientAddr != nil {
		addr = clientAddr.String()
	}
	a := &actionRec{kind: "udp-associate", address: addr, conn: c, g: g, seq: simrt.Seq(), outcome: "ok"}
	fail := c != nil && c.plan.udpFail
	if fail {
		a.outcome = "fail"
	}
	u.e.recordAction(a)
	a.returned = true
	if fail {
		return 0, errors.New("no UDP-capable exit")
	}
	a.ok = true
	u.next++
	id := 100 + u.next
	ua := &udpAssoc{streamID: id, conn: c, declared: clientAddr}
	u.assocs[id] = ua
	u.order = append(u.order, ua)
	return id, nil
}

func (u *stubUDP) SetSOCKS5UDPAssociation(streamID uint64, assoc *socks5.UDPAssociation) {
	ua := u.assocs[streamID]
	if ua == nil {
		simrt.Eventf("udp set-association for unknown stream %d", streamID)
		return
	}
	ua.assoc = assoc
	if ua.conn == nil && assoc != nil && assoc.TCPConn != nil {
		ua.conn = u.e.byLocal[assoc.TCPConn.RemoteAddr().String()]
	}
	simrt.Eventf("udp association stream=%d linked", streamID)
	u.q.WakeAll()
}

func (u *stubUDP) RelayUDPDatagram(streamID uint64, destAddr net.Addr, destPort uint16, addrType byte, rawAddr []byte, data []byte) error {
	r := relayRec{streamID: streamID, addrType: addrType, rawAddr: append([]byte(nil), rawAddr...), port: destPort, data: append([]byte(nil), data...)}
	u.relayed = append(u.relayed, r)
	simrt.Eventf("udp relay stream=%d atyp=%d port=%d len=%d h=%x", streamID, addrType, destPort, len(data), simrt.FNV(data))
	if u.onRelay != nil {
		u.onRelay(u.assocs[streamID], r)
	}
	return nil
}

func (u *stubUDP) CloseUDPAssociation(streamID uint64) {
	if ua := u.assocs[streamID]; ua != nil {
		ua.closed = true
	}
	simrt.Eventf("udp association stream=%d closed", streamID)
}

// ---------------------------------------------------------------------------
// stub ICMP handler

type stubICMP struct {
	e       *env
	enabled bool
	next    uint64
	echoes  int
}

func (s *stubICMP) IsICMPEnabled() bool { return s.enabled }

func (s *stubICMP) CreateICMPSession(ctx context.Context, destIP net.IP) (uint64, error) {
	simrt.Yield()
	c, g := s.e.attribute()
	a := &actionRec{kind: "icmp", address: destIP.String(), conn: c, g: g, seq: simrt.Seq(), outcome: "ok"}
	fail := c != nil && c.plan.icmpFail
	if fail {
		a.outcome = "fail"
	}
	s.e.recordAction(a)
	a.returned = true
	if fail {
		return 0, errors.New("no ICMP-capable exit")
	}
	a.ok = true
	s.next++
	return 500 + s.next, nil
}

func (s *stubICMP) SetSOCKS5ICMPAssociation(streamID uint64, assoc *socks5.ICMPAssociation) {}

func (s *stubICMP) RelayICMPEcho(streamID uint64, identifier, sequence uint16, payload []byte) error {
	s.echoes++
	simrt.Eventf("icmp echo stream=%d id=%d seq=%d len=%d", streamID, identifier, sequence, len(payload))
	return nil
}

func (s *stubICMP) CloseICMPSession(streamID uint64) {}

// ---------------------------------------------------------------------------
// clients

// openConn dials the server from the calling goroutine's node and starts the reader.
func (e *env) openConn() *cconn {
	nc, err := simnet.Dial("tcp", srvAddr)
	if err != nil {
		panic("wsocks: dial server: " + err.Error())
	}
	tc := nc.(*simnet.TCPConn)
	c := &cconn{id: len(e.conns) + 1, conn: tc, link: tc.Link(), local: tc.LocalAddr().String(), opened: time.Now()}
	c.lastSent = c.opened
	e.conns = append(e.conns, c)
	e.byLink[c.link] = c
	e.byLocal[c.local] = c
	e.bg.Go(fmt.Sprintf("rd%d", c.id), func() {
		buf := make([]byte, 2048)
		for {
			n, err := tc.Read(buf)
			if n > 0 {
				c.recv = append(c.recv, buf[:n]...)
			}
			if err != nil {
				c.rdEOF = !c.cliShut
				break
			}
		}
		c.rdDone = true
		simrt.Eventf("c%d reader ended recv=%d server_closed_first=%v", c.id, len(c.recv), c.rdEOF)
		c.q.WakeAll()
	})
	return c
}

// write delivers b; c.sent only ever holds bytes that reached the connection.
func (c *cconn) write(b []byte) bool {
	if len(b) == 0 {
		return true
	}
	n, err := c.conn.Write(b)
	if n > 0 {
		c.sent = append(c.sent, b[:n]...)
		c.lastSent = time.Now()
	}
	return err == nil
}

// waitOut waits until the server has written at least n bytes (or d passes / the reader ended).
func (c *cconn) waitOut(n int, d time.Duration) bool {
	deadline := time.Now().Add(d)
	for len(c.srvOut) < n && !c.rdDone {
		left := time.Until(deadline)
		if left <= 0 {
			return false
		}
		c.q.ParkTimeout(left)
	}
	return len(c.srvOut) >= n
}

// waitClosed waits until the server closed the connection (reader ended) or d passes.
func (c *cconn) waitClosed(d time.Duration) bool {
	deadline := time.Now().Add(d)
	for !c.rdDone {
		left := time.Until(deadline)
		if left <= 0 {
			return false
		}
		c.q.ParkTimeout(left)
	}
	return true
}

func (c *cconn) closeNow() {
	if !c.rdDone {
		c.cliShut = true
	}
	c.conn.Close()
}

var pauses = []time.Duration{0, time.Millisecond, 20 * time.Millisecond, 400 * time.Millisecond, 3 * time.Second}

// delivery is how a byte script is put on the wire.
type delivery struct {
	cut         int // bytes of the script that are sent (len = everything)
	fragMode    int // 0 one write, 1 byte by byte, 2 drawn split points
	pauseKind   int // index into pauses; len(pauses) = one pause longer than the idle timeout
	interactive bool
	endMode     int // 0 wait for the server then close, 1 half-close then wait, 2 close at once
	patience    time.Duration
}

var patiences = []time.Duration{300 * time.Millisecond, 5 * time.Second, 45 * time.Second}

func drawDelivery(scriptLen int) delivery {
	var d delivery
	d.cut = scriptLen
	if simrt.Choose(5, "truncate") >= 3 { // EOF at a drawn offset (every offset is reachable)
		d.cut = simrt.Choose(scriptLen+1, "cut")
	}
	d.fragMode = simrt.Choose(3, "frag")
	d.pauseKind = simrt.Choose(len(pauses)+4, "pause")
	if d.pauseKind > len(pauses) {
		d.pauseKind = 0
	}
	d.interactive = simrt.Choose(3, "interactive") == 2
	d.endMode = simrt.Choose(3, "endmode")
	d.patience = patiences[simrt.Choose(len(patiences), "patience")]
	return d
}

// play writes script[:d.cut] according to d, then ends the connection.
// marks are the offsets after which an interactive client waits for the
// server's answer (expect[i] = total server bytes expected by then).
func (e *env) play(c *cconn, script []byte, marks []int, expect []int, d delivery) {
	data := script[:d.cut]
	if d.cut < len(script) {
		simrt.Probe("script_truncated")
	}
	// split points
	var cuts []int
	switch d.fragMode {
	case 1:
		for i := 1; i < len(data); i++ {
			cuts = append(cuts, i)
		}
		simrt.Probe("client_fragmented")
	case 2:
		if len(data) > 1 {
			k := 1 + simrt.Choose(4, "nsplit")
			for i := 0; i < k; i++ {
				cuts = append(cuts, 1+simrt.Choose(len(data)-1, "split"))
			}
			simrt.Probe("client_fragmented")
		}
	}
	if d.interactive {
		cuts = append(cuts, marks...)
		simrt.Probe("client_interactive")
	}
	isCut := map[int]bool{}
	for _, x := range cuts {
		if x > 0 && x < len(data) {
			isCut[x] = true
		}
	}
	markAt := map[int]int{}
	if d.interactive {
		for i, m := range marks {
			markAt[m] = expect[i]
		}
	}
	pause := func() {
		if d.pauseKind == len(pauses) {
			// one pause longer than the server's idle timeout, once
			if !c.longPause {
				c.longPause = true
				simrt.Probe("pause_beyond_idle_timeout")
				simrt.Sleep(e.idle + time.Second)
				return
			}
			simrt.Yield()
			return
		}
		if p := pauses[d.pauseKind]; p > 0 {
			simrt.Sleep(p)
		} else {
			simrt.Yield()
		}
	}
	start := 0
	alive := true
	for pos := 1; pos <= len(data) && alive; pos++ {
		if pos < len(data) && !isCut[pos] {
			continue
		}
		alive = c.write(data[start:pos])
		start = pos
		if !alive {
			break
		}
		if want, ok := markAt[pos]; ok && pos < len(data) {
			c.waitOut(want, 2*time.Second)
		}
		if pos < len(data) {
			pause()
		}
	}
	simrt.Eventf("c%d wrote %d/%d bytes end=%d", c.id, len(c.sent), len(script), d.endMode)
	switch d.endMode {
	case 2:
		simrt.Probe("client_hard_close")
		c.closeNow()
		return
	case 1:
		simrt.Probe("client_half_close")
		c.conn.CloseWrite()
	}
	c.waitClosed(d.patience)
	c.closeNow()
}

// ---------------------------------------------------------------------------
// wire encoders (client side)

func encGreeting(ver byte, methods []byte) []byte {
	return append([]byte{ver, byte(len(methods))}, methods...)
}

func encSubneg(ver byte, user, pass []byte) []byte {
	b := []byte{ver, byte(len(user))}
	b = append(b, user...)
	b = append(b, byte(len(pass)))
	return append(b, pass...)
}

func encRequest(ver, cmd, rsv, atyp byte, addr []byte, port uint16) []byte {
	b := []byte{ver, cmd, rsv, atyp}
	b = append(b, addr...)
	return append(b, byte(port>>8), byte(port))
}

func domainAddr(d []byte) []byte { return append([]byte{byte(len(d))}, d...) }

func hostPort(host string, port uint16) string {
	return net.JoinHostPort(host, strconv.Itoa(int(port)))
}
