package wsocks

// C23: for any client byte stream the handler never crashes, every reply it
// writes is well formed, a successful CONNECT dials exactly the address and port
// encoded in the request, and unsupported commands / address types get the
// corresponding error reply.

import (
	"bytes"
	"fmt"
	"strings"
	"time"

	"github.com/postalsys/muti-metroo/internal/config"
	"github.com/postalsys/muti-metroo/internal/verifrt/simrt"
)

// requestOf finds the request the protocol places in the client's stream, given
// the method the server selected (and, for method 0x02, that the server
// reported success for a complete RFC 1929 message). ok=false: the handshake
// never got as far as a request.
func (e *env) requestOf(c *cconn) (refRequest, bool) {
	g := refParseGreeting(c.sent)
	if !g.complete || g.ver != 5 || len(c.srvOut) < 2 || c.srvOut[0] != 5 {
		return refRequest{}, false
	}
	off := 0
	switch c.srvOut[1] {
	case 0:
		off = g.end
	case 2:
		s := refParseSubneg(c.sent, g.end)
		if !s.complete || s.ver != 1 || len(c.srvOut) < 4 || c.srvOut[2] != 1 || c.srvOut[3] != 0 {
			return refRequest{}, false
		}
		off = s.end
	default:
		return refRequest{}, false
	}
	return refParseRequest(c.sent, off), true
}

func offeredBy(c *cconn) []byte { return refParseGreeting(c.sent).methods }

// supported: what this deployment implements (user documentation: CONNECT yes,
// BIND no, UDP ASSOCIATE yes when UDP relay is enabled; ICMP echo is the
// product's extension command 0x04, available when ICMP is enabled).
func (e *env) cmdClass(cmd byte) string {
	switch cmd {
	case 1:
		return "connect"
	case 3:
		if e.udp.enabled {
			return "udp"
		}
		return "udp-disabled"
	case 4:
		if e.icmpSet && e.icmp.enabled {
			return "icmp"
		}
		return "icmp-disabled"
	}
	return "unsupported"
}

// strict: the request is well formed apart from the one thing under test, so the
// statement's "corresponding error reply" is unambiguous.
func strictReq(r refRequest) bool {
	return r.ver == 5 && r.rsv == 0 && !(r.state == reqComplete && r.atyp == 3 && r.domain == "")
}

func (e *env) c23Action(c *cconn, a *actionRec) {
	if a.kind != "connect" {
		return
	}
	req, ok := e.requestOf(c)
	a.matches = ok && req.state == reqComplete && req.cmd == 1 && strings.HasPrefix(a.network, "tcp") && dialMatches(a.address, req)
	if a.matches {
		simrt.Probe("dial_matches_request")
		return
	}
	simrt.Probe("dial_mismatch_seen")
	willConnect := c.plan.dialOutcome == dialOK || c.plan.dialOutcome == dialOKDelayed
	if !willConnect {
		return // judged only if a success reply follows
	}
	if !ok || req.state != reqComplete || req.cmd != 1 {
		simrt.Failf("dial-without-connect-request", "outbound connection although the client sent no complete CONNECT request",
			"connection %d: Dial(%q, %q) while the client's stream holds %v (script: %s)", c.id, a.network, a.address, req, c.desc)
	}
	simrt.Failf("dial-address-mismatch", fmt.Sprintf("atyp=%d", req.atyp),
		"connection %d: the request is %v, i.e. %q, but the server dialled (%q, %q) (script: %s)", c.id, req, hostPort(req.host(), req.port), a.network, a.address, c.desc)
}

func (e *env) c23ServerBytes(c *cconn) {
	if c.stopParse {
		return
	}
	p := parseServer(c.srvOut, offeredBy(c))
	if p.bad != "" {
		simrt.Failf("malformed-reply", badKind(p.bad), "connection %d: %s; server stream so far %x; script: %s", c.id, p.bad, head(c.srvOut, 64), c.desc)
	}
	if p.reply != nil && p.reply.rep == 0 {
		// After a successful CONNECT the server only relays: the destination echoes
		// whatever the client sent after its request, so everything that follows
		// the reply must be a prefix of those bytes (a reply with surplus bytes
		// would show up here as data the destination never sent).
		if req, ok := e.requestOf(c); ok && req.state == reqComplete && e.cmdClass(req.cmd) == "connect" {
			after := c.srvOut[p.reply.end:]
			sentAfter := c.sent[min(req.end, len(c.sent)):]
			isPrefix := func(a, b []byte) bool { return len(a) <= len(b) && bytes.Equal(a, b[:len(a)]) }
			if !isPrefix(after, sentAfter) && len(sentAfter) > 0 && isPrefix(after, sentAfter[1:]) {
				// Data sent before the reply: the handler's disconnect monitor reads
				// the client connection one byte at a time while it dials and throws
				// a byte away when the dial completes during that read. The statement
				// is about replies and dial targets, not about early data: counted.
				simrt.Probe("early_data_byte_consumed_by_dial_monitor")
			} else if !isPrefix(after, sentAfter) {
				simrt.Failf("malformed-reply", "bytes between the success reply and the relayed data", "connection %d: after the %d-byte reply the client received %x, the destination echoed only %x; script: %s", c.id, p.reply.end, head(after, 48), head(sentAfter, 48), c.desc)
			}
			if len(after) > 0 {
				simrt.Probe("relayed_data_after_reply_checked")
			}
		}
	}
	if p.reply == nil || c.replySeen {
		return
	}
	c.replySeen = true
	rep := p.reply.rep
	simrt.Probe(fmt.Sprintf("reply_rep_%02x", rep))
	if p.reply.atyp == 4 {
		simrt.Probe("reply_bound_ipv6")
	}
	req, ok := e.requestOf(c)
	simrt.Eventf("c%d reply rep=%d for %v", c.id, rep, req)
	if rep == 0 {
		if !ok || req.state != reqComplete {
			simrt.Failf("success-without-request", "success reply although the client sent no complete request",
				"connection %d: REP=0x00 while the client's stream holds %v (script: %s)", c.id, req, c.desc)
		}
		switch e.cmdClass(req.cmd) {
		case "connect":
			dials := c.connects()
			if len(dials) != 1 {
				simrt.Failf("success-reply-dial-count", fmt.Sprintf("%d dials before the success reply", min(len(dials), 2)),
					"connection %d: CONNECT %v answered REP=0x00 after %d dial(s) (exactly one is expected before the reply); script: %s", c.id, req, len(dials), c.desc)
			}
			d := dials[0]
			if !d.matches {
				simrt.Failf("dial-address-mismatch", fmt.Sprintf("atyp=%d", req.atyp),
					"connection %d: the request is %v, i.e. %q, but the server dialled (%q, %q) and reported success (script: %s)", c.id, req, hostPort(req.host(), req.port), d.network, d.address, c.desc)
			}
			if !d.returned || !d.ok {
				simrt.Failf("success-reply-without-connection", "success reply although the dial had not succeeded",
					"connection %d: REP=0x00 for %v while the dial (outcome %s) had returned=%v ok=%v; script: %s", c.id, req, d.outcome, d.returned, d.ok, c.desc)
			}
			simrt.Probe("connect_success_checked")
			switch req.atyp {
			case 1:
				simrt.Probe("connect_success_ipv4")
			case 3:
				simrt.Probe("connect_success_domain")
			case 4:
				simrt.Probe("connect_success_ipv6")
			}
		case "udp":
			simrt.Probe("udp_associate_success")
		case "icmp":
			simrt.Probe("icmp_success")
		default:
			simrt.Failf("wrong-reply-code", "success reply for a command that is not supported",
				"connection %d: %v (%s) answered REP=0x00; script: %s", c.id, req, e.cmdClass(req.cmd), c.desc)
		}
		return
	}
	if !ok || !strictReq(req) {
		return
	}
	unsupported := e.cmdClass(req.cmd) == "unsupported"
	switch {
	case req.state == reqBadAtyp:
		if rep != 8 && !(unsupported && rep == 7) {
			simrt.Failf("wrong-reply-code", "unsupported address type not answered with REP 0x08",
				"connection %d: %v answered REP=%#02x; script: %s", c.id, req, rep, c.desc)
		}
		simrt.Probe("bad_atyp_answered_08")
	case req.state == reqComplete && unsupported:
		if rep != 7 {
			simrt.Failf("wrong-reply-code", "unsupported command not answered with REP 0x07",
				"connection %d: %v answered REP=%#02x; script: %s", c.id, req, rep, c.desc)
		}
		simrt.Probe("unsupported_command_answered_07")
	}
}

// c23Final judges a finished connection.
func (e *env) c23Final(c *cconn) {
	p := parseServer(c.srvOut, offeredBy(c))
	if p.bad != "" {
		simrt.Failf("malformed-reply", badKind(p.bad), "connection %d: %s; server stream %x; script: %s", c.id, p.bad, head(c.srvOut, 64), c.desc)
	}
	if p.partial {
		simrt.Failf("malformed-reply", "truncated message", "connection %d: the server's stream ends inside a message: %x; script: %s", c.id, head(c.srvOut, 64), c.desc)
	}
	// An unsupported command / address type must be answered, provided the server
	// was the one to end the connection and had the whole request well before the
	// connection's idle timeout (a server may drop a connection that took longer).
	req, ok := e.requestOf(c)
	inTime := !c.longPause && c.lastSent.Sub(c.opened) < e.idle-100*time.Millisecond
	if !ok || !strictReq(req) || p.reply != nil || !c.rdEOF || !inTime {
		return
	}
	unsupported := e.cmdClass(req.cmd) == "unsupported"
	if req.state == reqBadAtyp || (req.state == reqComplete && unsupported) {
		simrt.Failf("missing-error-reply", "connection closed without the error reply",
			"connection %d: the client sent %v and kept reading; the server closed the connection without any reply; script: %s", c.id, req, c.desc)
	}
}

// ---------------------------------------------------------------------------
// scripts

var oddDomains = []string{
	"a", "host.example", "xn--bcher-kva.example", "UPPER.Example.", "10.1.2.3", "::1", "[::1]", "fe80::1%eth0",
	"host:8080", "a b", "tab\there", "nul\x00inside", "new\nline", "caf\xc3\xa9.example", "\xff\xfe\xfd", "...", ".",
	"-", "_srv._tcp.example", "a]b", "[x", "%", "1", "0x7f.1", "localhost", "a:b:c", "user@host", "*.example", "\\\\host\\share",
}

var domainLens = []int{1, 2, 63, 64, 127, 128, 253, 254, 255}

func drawDomain() []byte {
	switch simrt.Choose(4, "domainkind") {
	case 0:
		return []byte(oddDomains[simrt.Choose(len(oddDomains), "odd")])
	case 1: // long names built from a label pattern
		n := domainLens[simrt.Choose(len(domainLens), "dlen")]
		b := make([]byte, n)
		for i := range b {
			b[i] = "abcdefghij"[i%10]
			if i%11 == 10 {
				b[i] = '.'
			}
		}
		return b
	case 2: // any length, any bytes
		n := 1 + simrt.Choose(255, "dlen")
		b := make([]byte, n)
		for i := range b {
			b[i] = byte(simrt.Choose(256, "dbyte"))
		}
		return b
	default:
		return nil // zero-length name
	}
}

var v4Specials = [][]byte{{93, 184, 216, 34}, {0, 0, 0, 0}, {255, 255, 255, 255}, {127, 0, 0, 1}, {10, 0, 0, 1}, {1, 2, 3, 4}, {224, 0, 0, 251}}

func drawV4() []byte {
	if v := simrt.Choose(len(v4Specials)+2, "v4"); v < len(v4Specials) {
		return v4Specials[v]
	}
	return []byte{byte(simrt.Choose(256, "b")), byte(simrt.Choose(256, "b")), byte(simrt.Choose(256, "b")), byte(simrt.Choose(256, "b"))}
}

func drawV6() []byte {
	b := make([]byte, 16)
	switch simrt.Choose(7, "v6") {
	case 0:
		copy(b, []byte{0x20, 0x01, 0x0d, 0xb8})
		b[15] = 1
	case 1: // ::
	case 2:
		b[15] = 1 // ::1
	case 3: // IPv4-mapped
		b[10], b[11] = 0xff, 0xff
		copy(b[12:], []byte{192, 0, 2, 33})
	case 4:
		for i := range b {
			b[i] = 0xff
		}
	case 5:
		b[0], b[1] = 0xfe, 0x80
		b[15] = 7
	default:
		for i := range b {
			b[i] = byte(simrt.Choose(256, "b"))
		}
	}
	return b
}

var portSpecials = []uint16{80, 443, 0, 65535, 256, 1, 0x1234, 0xff00, 0x00ff, 8080}

type c23Script struct {
	bytes  []byte
	marks  []int
	expect []int
	desc   string
}

func drawC23Script(auth bool, id int) c23Script {
	var s c23Script
	// --- greeting (and RFC 1929 message when the server requires it)
	gk := simrt.Choose(10, "greet")
	greetName := "proper"
	switch {
	case gk <= 5:
		m := []byte{0}
		if auth {
			m = []byte{2}
		}
		if gk >= 4 {
			m = append([]byte{0x80, 1}, m...)
			m = append(m, 0x7f)
			greetName = "proper+extra-methods"
		}
		s.bytes = encGreeting(5, m)
	case gk == 6:
		m := seqBytes(0, 255)
		if auth {
			m = seqBytes(1, 255)
		}
		s.bytes = encGreeting(5, m)
		greetName = "255-methods"
	case gk == 7:
		s.bytes = encGreeting(byte(simrt.Choose(256, "gver")), []byte{0, 2})
		greetName = "drawn-version"
	case gk == 8:
		s.bytes = encGreeting(5, nil)
		greetName = "zero-methods"
	default:
		n := 1 + simrt.Choose(24, "glen")
		for i := 0; i < n; i++ {
			s.bytes = append(s.bytes, byte(simrt.Choose(256, "gbyte")))
		}
		greetName = "garbage"
	}
	s.marks = append(s.marks, len(s.bytes))
	s.expect = append(s.expect, 2)
	if auth {
		switch simrt.Choose(6, "c23sub") {
		case 5:
			s.bytes = append(s.bytes, encSubneg(1, []byte("alice"), []byte("vfy-wrong"))...)
			greetName += "+wrong-password"
		default:
			s.bytes = append(s.bytes, encSubneg(1, []byte("alice"), []byte(pwAlice))...)
		}
		s.marks = append(s.marks, len(s.bytes))
		s.expect = append(s.expect, 4)
	}
	// --- request
	ver, rsv := byte(5), byte(0)
	if simrt.Choose(12, "rver") == 11 {
		ver = byte(simrt.Choose(256, "rverbyte"))
	}
	if simrt.Choose(12, "rsv") == 11 {
		rsv = byte(1 + simrt.Choose(255, "rsvbyte"))
	}
	var cmd byte
	switch ck := simrt.Choose(10, "cmd"); {
	case ck <= 4:
		cmd = 1
	case ck == 5:
		cmd = 2
	case ck == 6:
		cmd = 3
	case ck == 7:
		cmd = 4
	default:
		cmd = byte(simrt.Choose(256, "cmdbyte"))
	}
	var atyp byte
	var addr []byte
	switch ak := simrt.Choose(8, "atyp"); {
	case ak <= 1:
		atyp, addr = 1, drawV4()
	case ak <= 4:
		atyp, addr = 3, domainAddr(drawDomain())
	case ak <= 6:
		atyp, addr = 4, drawV6()
	default:
		atyp = []byte{0, 2, 5, 0x7f, 0xff, 6}[simrt.Choose(6, "badatyp")]
		n := simrt.Choose(20, "badlen")
		for i := 0; i < n; i++ {
			addr = append(addr, byte(simrt.Choose(256, "b")))
		}
	}
	port := uint16(20000 + id)
	if v := simrt.Choose(len(portSpecials)+4, "port"); v < len(portSpecials) {
		port = portSpecials[v]
	}
	reqName := fmt.Sprintf("ver=%d cmd=%d rsv=%d atyp=%d addrlen=%d port=%d", ver, cmd, rsv, atyp, len(addr), port)
	switch simrt.Choose(14, "reqshape") {
	case 13: // no request, garbage instead
		n := 1 + simrt.Choose(40, "junklen")
		for i := 0; i < n; i++ {
			s.bytes = append(s.bytes, byte(simrt.Choose(256, "junk")))
		}
		reqName = "garbage"
	case 12:
		reqName = "none"
	default:
		s.bytes = append(s.bytes, encRequest(ver, cmd, rsv, atyp, addr, port)...)
	}
	s.marks = append(s.marks, len(s.bytes))
	s.expect = append(s.expect, s.expect[len(s.expect)-1]+10)
	trailing := simrt.Choose(3, "trailing") == 2
	if trailing {
		s.bytes = append(s.bytes, []byte(fmt.Sprintf("\x00\x07\x00\x01\x00\x04data-of-connection-%d", id))...)
	}
	s.desc = fmt.Sprintf("greeting=%s request={%s} trailing=%v", greetName, reqName, trailing)
	return s
}

var dialDelays = []time.Duration{0, 30 * time.Millisecond, 2 * time.Second, 35 * time.Second}

func runC23() {
	auth := simrt.Choose(5, "auth") == 4
	var users []config.SOCKS5UserConfig
	if auth {
		users = []config.SOCKS5UserConfig{u("alice", pwAlice, "")}
	}
	idle := []time.Duration{5 * time.Minute, 20 * time.Second}[simrt.Choose(2, "idle")]
	o := envOpts{authEnabled: auth, users: users, idle: idle}
	o.udpEnabled = simrt.Choose(4, "udp") != 3
	o.icmpSet = simrt.Choose(4, "icmpset") != 3
	o.icmpEnabled = simrt.Choose(4, "icmp") != 3
	e := newEnv(o)
	if e == nil {
		panic("wsocks: the agent refused a plain SOCKS5 configuration")
	}
	e.net.Fragment = simrt.Choose(2, "netfrag") == 1
	simrt.Eventf("C23 auth=%v udp=%v icmpset=%v icmp=%v netfrag=%v", auth, o.udpEnabled, o.icmpSet, o.icmpEnabled, e.net.Fragment)
	e.onAction = e.c23Action
	e.onServerBytes = e.c23ServerBytes

	nClients := 1 + simrt.Choose(3, "clients")
	var g simrt.Group
	for k := 0; k < nClients; k++ {
		k := k
		g.Go(fmt.Sprintf("client%d", k), func() {
			node := fmt.Sprintf("cli%d", k)
			simrt.SetNode(node)
			e.net.SetNodeIP(node, []byte{10, 0, 1, byte(k + 1)})
			nConn := 1 + simrt.Choose(2, "nconn")
			for j := 0; j < nConn; j++ {
				c := e.openConn()
				s := drawC23Script(auth, c.id)
				c.desc = s.desc
				c.plan = connPlan{
					dialOutcome: simrt.Choose(nDialOutcomes+3, "dial"),
					dialDelay:   dialDelays[simrt.Choose(len(dialDelays), "dialdelay")],
					bindV6:      simrt.Choose(4, "bindv6") == 3,
					udpFail:     simrt.Choose(6, "udpfail") == 5,
					icmpFail:    simrt.Choose(6, "icmpfail") == 5,
				}
				if c.plan.dialOutcome >= nDialOutcomes {
					c.plan.dialOutcome = dialOK
				}
				if c.plan.dialOutcome == dialOK {
					c.plan.dialDelay = 0
				}
				d := drawDelivery(len(s.bytes))
				simrt.Eventf("c%d script %s len=%d h=%x cut=%d frag=%d pause=%d interactive=%v dial=%s/%v", c.id, s.desc, len(s.bytes), simrt.FNV(s.bytes), d.cut, d.fragMode, d.pauseKind, d.interactive, dialOutcomeNames[c.plan.dialOutcome], c.plan.dialDelay)
				e.play(c, s.bytes, s.marks, s.expect, d)
			}
		})
	}
	g.Wait()
	e.finish()
	for _, c := range e.conns {
		e.c23Final(c)
	}
}
