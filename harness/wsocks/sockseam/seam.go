// Package sockseam is the listener seam of world W-socks: internal/socks5's
// net.Listen is redirected here (seams/wsocks.json). The listener is simnet's;
// accepted connections are wrapped so that the harness learns which simulated
// goroutine serves which client connection (every Read, Write and deadline
// call reports the calling goroutine). Nothing else is changed: all I/O goes
// straight to the simnet connection.
package sockseam

import (
	"net"
	"time"

	"github.com/postalsys/muti-metroo/internal/verifrt/simnet"
)

// OnIO, if set, is called (in the calling goroutine) before every I/O or
// deadline operation on an accepted connection.
var OnIO func(c *simnet.TCPConn)

// Listen replaces net.Listen for internal/socks5.
func Listen(network, address string) (net.Listener, error) {
	l, err := simnet.Listen(network, address)
	if err != nil {
		return nil, err
	}
	return &listener{l}, nil
}

type listener struct{ net.Listener }

func (l *listener) Accept() (net.Conn, error) {
	c, err := l.Listener.Accept()
	if err != nil {
		return nil, err
	}
	tc, ok := c.(*simnet.TCPConn)
	if !ok {
		return c, nil
	}
	return &Conn{TCPConn: tc}, nil
}

// Conn is an accepted connection; it is a *simnet.TCPConn in every respect
// (CloseWrite, addresses, deadlines) plus the OnIO notification.
type Conn struct{ *simnet.TCPConn }

func (c *Conn) note() {
	if OnIO != nil {
		OnIO(c.TCPConn)
	}
}

func (c *Conn) Read(p []byte) (int, error)  { c.note(); return c.TCPConn.Read(p) }
func (c *Conn) Write(p []byte) (int, error) { c.note(); return c.TCPConn.Write(p) }
func (c *Conn) SetDeadline(t time.Time) error {
	c.note()
	return c.TCPConn.SetDeadline(t)
}
func (c *Conn) SetReadDeadline(t time.Time) error {
	c.note()
	return c.TCPConn.SetReadDeadline(t)
}
func (c *Conn) SetWriteDeadline(t time.Time) error {
	c.note()
	return c.TCPConn.SetWriteDeadline(t)
}
