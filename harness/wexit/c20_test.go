package wexit

import (
	"context"
	"fmt"
	"net"
	"strings"
	"time"

	"github.com/postalsys/muti-metroo/internal/config"
	"github.com/postalsys/muti-metroo/internal/crypto"
	"github.com/postalsys/muti-metroo/internal/identity"
	"github.com/postalsys/muti-metroo/internal/protocol"
	"github.com/postalsys/muti-metroo/internal/verifrt/simrt"
	. "github.com/postalsys/muti-metroo/internal/verifsim/meshkit"
)

// ---------------------------------------------------------------------------
// C20: a port-forward endpoint that receives a tunnel request connects only to
// the target configured for the requested key; a request for an unknown key is
// refused with the forward-not-found error and no connection is made.
//
// Reference model: per agent a map key -> target taken from its configuration;
// keys are opaque byte strings compared exactly. Requests are strictly serial,
// so every dial is attributed to the latest request issued before it.
// ---------------------------------------------------------------------------

var c20Long247 = strings.Repeat("k", 247) // longest key a STREAM_OPEN can carry ("forward:" + key <= 255 bytes)
var c20Long255 = strings.Repeat("K", 255)

// keys an endpoint agent may be configured with
var c20CfgKeys = []string{"web", "web2", "we", "Web", "eb", "db:5432", "a/b", c20Long247, c20Long255, "wéb", "web "}

// keys only ever requested
var c20ExtraKeys = []string{"", "w", "WEB", "wEb", "web2x", "b2", "web\x00", "\xff\xfeweb", "forward:web", "db", "db:", ":5432", "a", "a/", "/b", "a/b/",
	strings.Repeat("k", 246), strings.Repeat("k", 245) + "K", strings.Repeat("K", 247), "wé", "we\xcc\x81b", " web", "web\t", "*", "%", "other"}

type c20req struct {
	k       int
	via     string // raw | honest
	key     string
	issue   uint64
	done    uint64
	outcome string
	code    uint16
}

type c20world struct {
	m       *Mesh
	ep, in  int
	rp      *RawPeer
	rp2     *RawPeer
	cfg     map[string]map[string]string // node name -> key -> target
	reqs    []*c20req
	checked int
	pub     [crypto.KeySize]byte
	tgtSeq  int
}

func keyStr(k string) string {
	if len(k) > 24 {
		return fmt.Sprintf("%q..(%d bytes,fnv=%x)", k[:8], len(k), simrt.FNV([]byte(k)))
	}
	return fmt.Sprintf("%q", k)
}

// addEndpoint configures key -> a fresh unique target on node i.
func (w *c20world) addEndpoint(i int, key string) {
	nd := w.m.Nodes[i]
	if _, dup := w.cfg[nd.Name][key]; dup {
		return
	}
	w.tgtSeq++
	var target string
	switch simrt.Choose(4, "target") {
	case 0, 1: // served IPv4 target
		target = fmt.Sprintf("192.168.50.%d:%d", 10+w.tgtSeq, 8000+w.tgtSeq)
		w.m.Net.ServeTCP(target, EchoServer)
	case 2: // target nobody serves
		target = fmt.Sprintf("192.168.60.%d:%d", 10+w.tgtSeq, 9000+w.tgtSeq)
	default: // named target
		host := fmt.Sprintf("svc-%d.internal", w.tgtSeq)
		ip := fmt.Sprintf("192.168.70.%d", 10+w.tgtSeq)
		w.m.Net.SetDNS(host, net.ParseIP(ip))
		target = fmt.Sprintf("%s:%d", host, 7000+w.tgtSeq)
		w.m.Net.ServeTCP(fmt.Sprintf("%s:%d", ip, 7000+w.tgtSeq), EchoServer)
	}
	if w.cfg[nd.Name] == nil {
		w.cfg[nd.Name] = map[string]string{}
	}
	w.cfg[nd.Name][key] = target
	nd.Cfg.Forward.Endpoints = append(nd.Cfg.Forward.Endpoints, config.ForwardEndpoint{Key: key, Target: target})
	simrt.Eventf("endpoint %s: %s -> %s", nd.Name, keyStr(key), target)
}

// checkDials: every dial anywhere in this world is a forward dial and must go to
// the target configured on the dialling agent for the key of the request that
// caused it.
func (w *c20world) checkDials() {
	dials := w.m.Net.Dials
	for ; w.checked < len(dials); w.checked++ {
		d := dials[w.checked]
		var r *c20req
		for _, x := range w.reqs {
			if x.issue != 0 && x.issue <= d.Seq {
				r = x
			}
		}
		if r == nil {
			simrt.Failf("forward-dial-without-request", "an agent dialled although no forward request had been issued", "%s dialled %s", d.Node, d.Address)
		}
		want, known := w.cfg[d.Node][r.key]
		detail := fmt.Sprintf("%s dialled %s for request #%d (%s) key %s; configured target of that key on %s: %q (configured=%v); endpoints of %s: %s",
			d.Node, d.Address, r.k, r.via, keyStr(r.key), d.Node, want, known, d.Node, w.cfgStr(d.Node))
		if !known {
			simrt.Failf("forward-dial-for-unknown-key", "endpoint agent connected somewhere for a key it has no endpoint for ("+w.keyClass(d.Node, r.key)+")", "%s", detail)
		}
		if d.Address != want {
			simrt.Failf("forward-dial-wrong-target", "endpoint agent connected to a target other than the one configured for the requested key", "%s", detail)
		}
		simrt.Probe("c20_known_key_dial")
	}
}

func (w *c20world) cfgStr(node string) string {
	var parts []string
	for _, k := range SortedKeys(w.cfg[node]) {
		parts = append(parts, keyStr(k)+"->"+w.cfg[node][k])
	}
	return "{" + strings.Join(parts, ", ") + "}"
}

// keyClass names the relation of an unknown key to the configured keys (stable, for probes and signatures).
func (w *c20world) keyClass(node, key string) string {
	cfg := w.cfg[node]
	if _, ok := cfg[key]; ok {
		return "exact"
	}
	if key == "" {
		return "empty"
	}
	cls := "unrelated"
	for _, c := range SortedKeys(cfg) {
		switch {
		case strings.EqualFold(c, key):
			return "case-variant"
		case strings.HasPrefix(c, key):
			cls = "prefix-of-configured"
		case strings.HasPrefix(key, c) && cls == "unrelated":
			cls = "extends-configured"
		case strings.HasSuffix(c, key) && cls == "unrelated":
			cls = "suffix-of-configured"
		}
	}
	if cls == "unrelated" {
		for _, n := range SortedKeys(w.cfg) {
			if n == node {
				continue
			}
			if _, ok := w.cfg[n][key]; ok {
				return "other-agents-key"
			}
		}
	}
	return cls
}

func (w *c20world) dialsSince(seq uint64) int {
	n := 0
	for _, d := range w.m.Net.Dials {
		if d.Seq >= seq {
			n++
		}
	}
	return n
}

// doRaw sends a crafted forward STREAM_OPEN for key to the endpoint agent.
func (w *c20world) doRaw(key string, pathSelf bool) {
	epNode := w.m.Nodes[w.ep]
	r := &c20req{k: len(w.reqs), via: "raw", key: key}
	w.reqs = append(w.reqs, r)
	sid := uint64(1001 + 2*r.k)
	var path []identity.AgentID
	if pathSelf {
		path = []identity.AgentID{epNode.ID}
	}
	payload := openWire(uint64(9000+r.k), protocol.AddrTypeDomain, domainAddr(protocol.ForwardStreamPrefix+key), 0, path, w.pub)
	_, known := w.cfg[epNode.Name][key]
	cls := w.keyClass(epNode.Name, key)
	r.issue = simrt.Seq()
	simrt.Eventf("req #%d raw forward key=%s known=%v class=%s", r.k, keyStr(key), known, cls)
	out := rawOpen(w.rp, sid, payload, 15*time.Second)
	r.done = simrt.Seq()
	r.outcome, r.code = out.String(), out.Code
	simrt.Eventf("req #%d outcome %s %q", r.k, r.outcome, out.Msg)
	if !known {
		simrt.Probe("c20_unknown_key")
		switch cls {
		case "prefix-of-configured":
			simrt.Probe("c20_prefix_key")
		case "extends-configured":
			simrt.Probe("c20_extended_key")
		case "suffix-of-configured":
			simrt.Probe("c20_suffix_key")
		case "case-variant":
			simrt.Probe("c20_case_key")
		case "empty":
			simrt.Probe("c20_empty_key")
		case "other-agents-key":
			simrt.Probe("c20_other_agents_key")
		}
		if strings.ToValidUTF8(key, "") != key {
			simrt.Probe("c20_nonutf8_key")
		}
		if len(key) >= 200 {
			simrt.Probe("c20_long_unknown_key")
		}
		detail := fmt.Sprintf("request #%d key %s (%s) to %s, endpoints %s: answer %s %q", r.k, keyStr(key), cls, epNode.Name, w.cfgStr(epNode.Name), r.outcome, out.Msg)
		if n := w.dialsSince(r.issue); n > 0 {
			w.checkDials() // reports the dial with full detail
		}
		switch {
		case out.Kind == "ack":
			simrt.Failf("unknown-forward-key-accepted", "request for a key without endpoint was acknowledged ("+cls+")", "%s", detail)
		case out.Kind == "none":
			simrt.Failf("unknown-forward-key-not-refused", "request for a key without endpoint got no STREAM_OPEN_ERR ("+cls+")", "%s", detail)
		case out.Code != protocol.ErrForwardNotFound:
			simrt.Failf("unknown-forward-key-wrong-error", "request for a key without endpoint was refused with an error other than forward-not-found ("+cls+")", "%s", detail)
		}
		simrt.Probe("c20_not_found_answer")
		return
	}
	if len(key) >= 200 {
		simrt.Probe("c20_long_known_key")
	}
	switch out.Kind {
	case "ack":
		simrt.Probe("c20_raw_tunnel_opened")
		rawCloseTunnel(w.rp, sid)
	case "err":
		simrt.Probe("c20_known_key_target_unreachable")
	}
}

// doTwin: two peers of the endpoint agent ask at the same moment, under the same
// per-connection stream id, for two keys. Each request must be served from its
// own key: the connections made are exactly the targets of the two keys (one
// each, none for a key without endpoint).
func (w *c20world) doTwin(keyA string) {
	epNode := w.m.Nodes[w.ep]
	cfgKeys := SortedKeys(w.cfg[epNode.Name])
	if len(cfgKeys) == 0 {
		return
	}
	keyB := cfgKeys[simrt.Choose(len(cfgKeys), "twin-keyb")]
	if len(keyA) > 247 {
		keyA = keyA[:247]
	}
	if len(keyB) > 247 || keyA == keyB {
		return
	}
	w.checkDials()
	ra := &c20req{k: len(w.reqs), via: "raw-twin", key: keyA}
	w.reqs = append(w.reqs, ra)
	rb := &c20req{k: len(w.reqs), via: "raw-twin", key: keyB}
	w.reqs = append(w.reqs, rb)
	sid := uint64(1001 + 2*ra.k)
	pa := openWire(uint64(9000+ra.k), protocol.AddrTypeDomain, domainAddr(protocol.ForwardStreamPrefix+keyA), 0, nil, w.pub)
	pb := openWire(uint64(9000+rb.k), protocol.AddrTypeDomain, domainAddr(protocol.ForwardStreamPrefix+keyB), 0, nil, mustKeypairPub())
	base := len(w.m.Net.Dials)
	ra.issue, rb.issue = simrt.Seq(), simrt.Seq()
	simrt.Eventf("req #%d/#%d twin forward keys %s / %s, same stream id %d from two peers", ra.k, rb.k, keyStr(keyA), keyStr(keyB), sid)
	simrt.Probe("c20_twin_requests")
	fa, fb := len(w.rp.Received), len(w.rp2.Received)
	w.rp.Send(&protocol.Frame{Type: protocol.FrameStreamOpen, StreamID: sid, Payload: pa})
	w.rp2.Send(&protocol.Frame{Type: protocol.FrameStreamOpen, StreamID: sid, Payload: pb})
	answered := func(f *protocol.Frame) bool {
		return f.StreamID == sid && (f.Type == protocol.FrameStreamOpenAck || f.Type == protocol.FrameStreamOpenErr)
	}
	w.rp.WaitFrame(fa, 15*time.Second, answered)
	w.rp2.WaitFrame(fb, 15*time.Second, answered)
	simrt.Sleep(time.Second)
	ra.done, rb.done = simrt.Seq(), simrt.Seq()
	want := map[string]int{}
	for _, k := range []string{keyA, keyB} {
		if t, ok := w.cfg[epNode.Name][k]; ok {
			want[t]++
		}
	}
	got := map[string]int{}
	for _, d := range w.m.Net.Dials[base:] {
		if d.Node == epNode.Name {
			got[d.Address]++
		}
	}
	for _, a := range SortedKeys(got) {
		if got[a] > want[a] {
			simrt.Failf("forward-dial-wrong-target", "endpoint agent connected to a target other than the one configured for the requested key", "two peers asked %s at the same moment (same stream id %d) for keys %s and %s: it dialled %s %d time(s), the keys' targets are %v; endpoints: %s", epNode.Name, sid, keyStr(keyA), keyStr(keyB), a, got[a], want, w.cfgStr(epNode.Name))
		}
	}
	w.checked = len(w.m.Net.Dials)
	w.rp.Send(&protocol.Frame{Type: protocol.FrameStreamClose, StreamID: sid})
	w.rp2.Send(&protocol.Frame{Type: protocol.FrameStreamClose, StreamID: sid})
	simrt.Sleep(3 * time.Second)
}

// doHonest asks the ingress agent to open a forward tunnel for key.
func (w *c20world) doHonest(key string) {
	r := &c20req{k: len(w.reqs), via: "honest", key: key}
	w.reqs = append(w.reqs, r)
	knownAt := ""
	for _, n := range SortedKeys(w.cfg) {
		if _, ok := w.cfg[n][key]; ok {
			knownAt = n
		}
	}
	r.issue = simrt.Seq()
	simrt.Eventf("req #%d honest forward key=%s configured-at=%q", r.k, keyStr(key), knownAt)
	opened := false
	var derr error
	w.m.On(w.in, fmt.Sprintf("fwd-%d", r.k), func() {
		ctx, cancel := context.WithTimeout(context.Background(), 20*time.Second)
		defer cancel()
		c, err := w.m.Nodes[w.in].A.DialForward(ctx, key)
		if err != nil {
			derr = err
			return
		}
		opened = true
		c.Write([]byte("ping"))
		buf := make([]byte, 4)
		c.SetReadDeadline(time.Now().Add(5 * time.Second))
		c.Read(buf)
		c.Close()
	})
	r.done = simrt.Seq()
	if opened {
		r.outcome = "ok"
	} else {
		r.outcome = "err"
	}
	simrt.Eventf("req #%d outcome %s", r.k, r.outcome)
	if knownAt == "" {
		simrt.Probe("c20_honest_unknown_key")
		if opened {
			simrt.Failf("unknown-forward-key-accepted", "DialForward succeeded for a key no agent has an endpoint for", "key %s", keyStr(key))
		}
		if n := w.dialsSince(r.issue); n > 0 {
			w.checkDials()
		}
		_ = derr
		return
	}
	if opened {
		simrt.Probe("c20_honest_tunnel_opened")
		simrt.Sleep(4 * time.Second)
	} else {
		simrt.Probe("c20_honest_open_failed")
	}
}

func runC20() {
	m := drawSmallMesh()
	n := len(m.Nodes)
	w := &c20world{m: m, cfg: map[string]map[string]string{}}
	w.ep = simrt.Choose(n, "endpoint-agent")
	w.in = (w.ep + 1 + simrt.Choose(n-1, "ingress")) % n
	ensureListener(m, w.ep)
	epNode := m.Nodes[w.ep]
	for _, nd := range m.Nodes {
		w.cfg[nd.Name] = map[string]string{}
	}

	// endpoints of the agent under test: 1-4 keys (rarely none at all)
	nKeys := 1 + simrt.Choose(4, "nkeys")
	if simrt.Chance(1, 12, "no-endpoints") {
		nKeys = 0
		simrt.Probe("c20_no_endpoints_configured")
	}
	for i := 0; i < nKeys; i++ {
		w.addEndpoint(w.ep, c20CfgKeys[simrt.Choose(len(c20CfgKeys), "cfgkey")])
	}
	// another agent may have endpoints of its own (its keys are unknown at the agent under test)
	other := -1
	if n >= 3 && simrt.Chance(1, 2, "other-endpoint") {
		other = (w.ep + 1 + simrt.Choose(n-1, "other")) % n
		w.addEndpoint(other, "other")
		if simrt.Chance(1, 2, "other-shares-name") {
			// same family of names, different agent
			w.addEndpoint(other, "web3")
		}
	}
	// the endpoint agent may also be an exit: the forward dispatch must still win
	if simrt.Chance(1, 3, "also-exit") {
		epNode.Cfg.Exit.Enabled = true
		epNode.Cfg.Exit.Routes = []string{"192.168.0.0/16"}
		simrt.Probe("c20_endpoint_is_also_exit")
	}
	simrt.Eventf("endpoint-agent=%s ingress=%s endpoints=%s other=%d", epNode.Name, m.Nodes[w.in].Name, w.cfgStr(epNode.Name), other)

	BootAndConverge(m)
	rp, err := m.AttachRawPeer(w.ep, 0)
	if err != nil {
		panic("attach raw peer: " + err.Error())
	}
	w.rp = rp
	w.pub = mustKeypairPub()
	if simrt.Chance(1, 2, "second-raw-peer") {
		// a second peer of the endpoint agent: its per-connection stream ids are its own
		if rp2, err := m.AttachRawPeer(w.ep, 1); err == nil {
			w.rp2 = rp2
			defer rp2.Close()
		}
	}

	// request keys: everything configured anywhere, plus near misses derived from the configuration, plus the fixed extras
	var pool []string
	for _, nm := range SortedKeys(w.cfg) {
		pool = append(pool, SortedKeys(w.cfg[nm])...)
	}
	for _, k := range SortedKeys(w.cfg[epNode.Name]) {
		if len(k) > 1 {
			pool = append(pool, k[:len(k)-1], k[1:])
		}
		if len(k) < 240 {
			pool = append(pool, k+"2", strings.ToUpper(k), strings.ToLower(k))
			// spellings a careless normalisation would fold onto the configured key
			pool = append(pool, k+".", k+"..", "."+k, k+"/", k+" ", " "+k, k+"\x00", k+":0")
		}
	}
	steps := 6 + simrt.Choose(10, "steps")
	for s := 0; s < steps; s++ {
		var key string
		src := simrt.Choose(3, "keysrc")
		if src == 0 && len(pool) == 0 {
			src = 1
		}
		switch src {
		case 0:
			key = pool[simrt.Choose(len(pool), "poolkey")]
		case 1:
			key = c20ExtraKeys[simrt.Choose(len(c20ExtraKeys), "extrakey")]
		default:
			key = c20CfgKeys[simrt.Choose(len(c20CfgKeys), "cfgkey-req")]
		}
		if w.rp2 != nil && simrt.Chance(1, 6, "twin") {
			w.doTwin(key)
		} else if simrt.Chance(1, 4, "honest") {
			w.doHonest(key)
		} else {
			if len(key) > 247 {
				key = key[:247] // longest key the wire can carry
			}
			w.doRaw(key, simrt.Chance(1, 3, "path-self"))
		}
		w.checkDials()
	}
	simrt.Sleep(2 * time.Second)
	w.checkDials()
	rp.Close()
	m.StopAll()
	w.checkDials()
	simrt.Eventf("done reqs=%d dials=%d", len(w.reqs), len(m.Net.Dials))
}
