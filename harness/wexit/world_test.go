// Package wexit is the simulated world that decides C19 (an exit agent connects
// only to permitted destinations) and C20 (a port-forward endpoint connects only
// to the target configured for the requested key). It boots 2-4 real agents over
// the simulated transport (meshkit), attaches a harness-controlled raw peer to
// the agent under test and observes every outbound TCP dial at the simnet seam.
package wexit

import (
	"encoding/binary"
	"fmt"
	"testing"
	"time"

	"github.com/postalsys/muti-metroo/internal/config"
	"github.com/postalsys/muti-metroo/internal/crypto"
	"github.com/postalsys/muti-metroo/internal/identity"
	"github.com/postalsys/muti-metroo/internal/protocol"
	"github.com/postalsys/muti-metroo/internal/verifrt/simrt"
	"github.com/postalsys/muti-metroo/internal/verifsim/hc"
	. "github.com/postalsys/muti-metroo/internal/verifsim/meshkit"
)

func TestWorld(t *testing.T) {
	hc.Main(t, &hc.World{
		Name:         "W-exit",
		Run:          run,
		PreemptMeans: []int{0, 0, 50, 200, 1000},
		MaxSteps:     30_000_000,
		MaxSimTime:   6 * time.Hour,
	})
}

func run(prop string) {
	switch prop {
	case "C19":
		runC19()
	case "C20":
		runC20()
	default:
		panic("W-exit does not decide " + prop)
	}
}

// drawSmallMesh draws 2-4 agents in a chain or a star with a short
// advertisement interval (route changes propagate within simulated seconds).
func drawSmallMesh() *Mesh {
	n := 2 + simrt.Choose(3, "n")
	topo := []string{"chain", "star"}[simrt.Choose(2, "topo")]
	m := NewMesh(n, topo)
	for _, nd := range m.Nodes {
		nd.Cfg.Routing.AdvertiseInterval = 5 * time.Second
		nd.Cfg.Routing.RouteTTL = time.Minute
	}
	simrt.Eventf("mesh n=%d topo=%s edges=%v", n, topo, m.Edges)
	return m
}

// ensureListener gives node i a mesh listener (the raw peer dials it).
func ensureListener(m *Mesh, i int) {
	nd := m.Nodes[i]
	if len(nd.Cfg.Listeners) > 0 {
		return
	}
	nd.Cfg.Listeners = append(nd.Cfg.Listeners, config.ListenerConfig{
		Transport: "ws", Address: fmt.Sprintf("%s:%d", nd.IP, 4000), PlainText: true, Path: "/mesh",
	})
}

// openWire is the harness's own encoder of a STREAM_OPEN payload (wire layout
// of the protocol documentation: request id 8, address type 1, address, port 2,
// ttl 1, path count 1 + 16 bytes each, initiator ephemeral key 32). addr is
// written verbatim, so malformed addresses can be produced.
func openWire(reqID uint64, addrType uint8, addr []byte, port uint16, path []identity.AgentID, key [crypto.KeySize]byte) []byte {
	b := make([]byte, 0, 64+len(addr)+16*len(path))
	b = binary.BigEndian.AppendUint64(b, reqID)
	b = append(b, addrType)
	b = append(b, addr...)
	b = binary.BigEndian.AppendUint16(b, port)
	b = append(b, 16) // ttl
	b = append(b, byte(len(path)))
	for _, p := range path {
		b = append(b, p[:]...)
	}
	b = append(b, key[:]...)
	return b
}

func domainAddr(name string) []byte {
	if len(name) > 255 {
		panic("domain address too long for the wire")
	}
	return append([]byte{byte(len(name))}, name...)
}

// rawOutcome is what the raw peer saw in answer to one STREAM_OPEN.
type rawOutcome struct {
	Kind string // "ack", "err", "none"
	Code uint16
	Msg  string
}

func (o rawOutcome) String() string {
	if o.Kind == "err" {
		return fmt.Sprintf("err(code=%d)", o.Code)
	}
	return o.Kind
}

// rawOpen sends one crafted STREAM_OPEN and waits for the answer on that stream id.
func rawOpen(rp *RawPeer, sid uint64, payload []byte, limit time.Duration) rawOutcome {
	from := len(rp.Received)
	if err := rp.Send(&protocol.Frame{Type: protocol.FrameStreamOpen, StreamID: sid, Payload: payload}); err != nil {
		return rawOutcome{Kind: "none", Msg: "send: " + err.Error()}
	}
	f, _ := rp.WaitFrame(from, limit, func(f *protocol.Frame) bool {
		return f.StreamID == sid && (f.Type == protocol.FrameStreamOpenAck || f.Type == protocol.FrameStreamOpenErr)
	})
	if f == nil {
		return rawOutcome{Kind: "none"}
	}
	if f.Type == protocol.FrameStreamOpenAck {
		return rawOutcome{Kind: "ack"}
	}
	// STREAM_OPEN_ERR: request id 8, error code 2, message (1-byte length + bytes)
	if len(f.Payload) < 10 {
		return rawOutcome{Kind: "err", Code: 0xffff, Msg: "short STREAM_OPEN_ERR"}
	}
	o := rawOutcome{Kind: "err", Code: binary.BigEndian.Uint16(f.Payload[8:10])}
	if len(f.Payload) > 11 {
		o.Msg = string(f.Payload[11:])
	}
	return o
}

// rawCloseTunnel tears down a tunnel the raw peer opened and lets the agent settle.
func rawCloseTunnel(rp *RawPeer, sid uint64) {
	rp.Send(&protocol.Frame{Type: protocol.FrameStreamClose, StreamID: sid})
	simrt.Sleep(3 * time.Second)
}

func mustKeypairPub() [crypto.KeySize]byte {
	_, pub, err := crypto.GenerateEphemeralKeypair()
	if err != nil {
		panic("ephemeral key: " + err.Error())
	}
	return pub
}
