package wexit

import (
	"context"
	"encoding/json"
	"fmt"
	"net"
	"net/netip"
	"sort"
	"strconv"
	"strings"
	"time"

	"github.com/postalsys/muti-metroo/internal/crypto"
	"github.com/postalsys/muti-metroo/internal/identity"
	"github.com/postalsys/muti-metroo/internal/protocol"
	"github.com/postalsys/muti-metroo/internal/verifrt/simrt"
	. "github.com/postalsys/muti-metroo/internal/verifsim/meshkit"
)

// ---------------------------------------------------------------------------
// C19: an exit agent opens an outbound TCP connection only when the destination
// lies in a configured exit network, in a currently present dynamic route, or
// matches an allowed domain pattern.
//
// Reference model (from the statement and docs/configuration/exit.md):
//   - permitted networks at an instant = configured exit networks (exit enabled)
//     plus the dynamic routes present at that instant; a dynamic route is present
//     from a successful add until the next successful remove (re-adding a present
//     route is an update, it does not make it "twice present");
//   - a name-based open whose NAME matches an allowed pattern (exact, or
//     "*.base" = exactly one extra label; names compare case-insensitively) may be
//     connected wherever the name resolves; a name that matches no pattern is
//     judged by the address that is finally dialled, like an IP open;
//   - an address is judged after unmapping IPv4-mapped IPv6;
//   - with no network and no matching pattern nothing may be dialled.
// ---------------------------------------------------------------------------

var c19CIDRs = []string{
	"10.1.0.0/16", "10.1.2.0/24", "10.0.0.0/8", "fd00:1::/32", "192.168.7.0/24",
	"10.1.2.3/32", "172.16.0.0/12", "fd00::/8", "2001:db8::/32", "2001:db8:0:1::/64",
	"::/0", "0.0.0.0/0", "::/1",
}

// the same IPv4 networks written as IPv4-mapped IPv6 prefixes (net.ParseCIDR
// and IPNet.String treat them as the IPv4 network)
var c19MappedSpelling = map[string]string{
	"10.1.0.0/16": "::ffff:10.1.0.0/112", "10.0.0.0/8": "::ffff:10.0.0.0/104", "192.168.7.0/24": "::ffff:192.168.7.0/120",
	"10.1.2.0/24": "::ffff:10.1.2.0/120", "172.16.0.0/12": "::ffff:172.16.0.0/108",
}

// the same networks written with host bits set / other letter case
var c19AltSpelling = map[string]string{
	"10.1.0.0/16": "10.1.9.9/16", "10.1.2.0/24": "10.1.2.200/24", "10.0.0.0/8": "10.255.0.1/8",
	"fd00:1::/32": "FD00:1:0:0::7/32", "192.168.7.0/24": "192.168.7.1/24", "172.16.0.0/12": "172.31.255.255/12",
}

var c19DestV4 = []string{"10.1.2.3", "10.1.2.77", "10.1.9.9", "10.200.1.1", "192.168.7.20", "192.168.8.20", "172.16.5.5", "172.32.0.1", "8.8.8.8", "11.0.0.1"}
var c19DestV6 = []string{"fd00:1::5", "fd00:2::5", "fe00::1", "2001:db8::1", "2001:db8:0:1::9", "2001:db9::1"}

var c19Patterns = []string{"*.example.com", "api.internal.corp", "*.Svc.Test", "db.example.com"}

type c19name struct {
	name string
	near bool // crafted near-miss of some pattern of the universe
}

var c19Names = []c19name{
	{"foo.example.com", false}, {"api.internal.corp", false}, {"x.svc.test", false}, {"db.example.com", false},
	{"FOO.Example.Com", false}, {"API.Internal.CORP", false}, {"foo.example.com.", false}, {"*.example.com", false},
	{"evil-example.com", true}, {"example.com.evil.org", true}, {"a.b.example.com", true}, {"example.com", true},
	{".example.com", true}, {"fooexample.com", true}, {"foo.example.com.evil.org", true}, {"foo.example.comx", true},
	{"xapi.internal.corp", true}, {"api.internal.corp.evil.org", true}, {"api.internal.corpx", true}, {"internal.corp", true},
	{"svc.test", true}, {"a.b.svc.test", true}, {"foo..example.com", true}, {"db.example.com.au", true}, {"xdb.example.org", true},
}

var c19IPLiteralNames = []string{"10.1.2.3", "::ffff:10.1.2.3", "fd00:1::5", "::ffff:8.8.8.8", "8.8.8.8", "[10.1.2.3]", "010.001.002.003"}

func normName(s string) string { return strings.ToLower(strings.TrimSuffix(s, ".")) }

// matchesPattern is the documented matching rule.
func matchesPattern(pattern, name string) bool {
	p, n := normName(pattern), normName(name)
	if strings.HasPrefix(p, "*.") {
		base := p[1:] // ".example.com"
		if !strings.HasSuffix(n, base) {
			return false
		}
		label := n[:len(n)-len(base)]
		return label != "" && !strings.Contains(label, ".")
	}
	return n == p
}

type c19req struct {
	k         int
	via       string // raw | honest
	form      string
	hasName   bool
	name      string
	port      uint16
	malformed bool
	issue     uint64
	done      uint64
	outcome   string
}

type c19op struct {
	inv, ret uint64
	action   string
	pfx      netip.Prefix
	ok       bool
	unknown  bool // no answer (remote request timed out)
	via      string
	errStr   string
}

type c19world struct {
	rebind     map[string]netip.Addr // names whose address changes between two lookups: the later answer
	m          *Mesh
	ex, in     int
	rp         *RawPeer
	enabled    bool
	cfgNets    []netip.Prefix
	cfgCIDRs   []string
	cfgDomains []string
	focus      []string
	dns        map[string]netip.Addr
	ops        []c19op
	reqs       []*c19req
	checked    int
	pub        [crypto.KeySize]byte
	served     map[string]bool
	lastCIDR   string
	adds       map[netip.Prefix]int // successful adds since the route was last absent
	anyUnknown bool
	firstAdd   bool
	ambig      map[netip.Prefix]bool // presence depends on the unknown order of two concurrent operations
}

func mustPrefix(s string) netip.Prefix {
	p, err := netip.ParsePrefix(s)
	if err == nil && p.Addr().Is4In6() && p.Bits() >= 96 {
		// an IPv4-mapped prefix names the IPv4 network
		return netip.PrefixFrom(p.Addr().Unmap(), p.Bits()-96).Masked()
	}
	if err != nil {
		// host bits / case variants: go through net.ParseCIDR like an operator's tool would
		_, n, e2 := net.ParseCIDR(s)
		if e2 != nil {
			panic("bad cidr in workload: " + s)
		}
		p = netip.MustParsePrefix(n.String())
	}
	return p.Masked()
}

// presence returns the [from,to] stamp intervals during which pfx may have been present.
func (w *c19world) presence(pfx netip.Prefix) [][2]uint64 {
	var out [][2]uint64
	present := false
	var start uint64
	for _, op := range w.ops {
		if op.pfx != pfx {
			continue
		}
		switch {
		case op.action == "add" && (op.ok || op.unknown):
			if !present {
				present, start = true, op.inv
			}
		case op.action == "remove" && op.ok:
			if present {
				present = false
				out = append(out, [2]uint64{start, op.ret})
			}
		}
	}
	if present {
		out = append(out, [2]uint64{start, ^uint64(0)})
	}
	return out
}

func (w *c19world) dynPrefixes() []netip.Prefix {
	seen := map[netip.Prefix]bool{}
	var out []netip.Prefix
	for _, op := range w.ops {
		if !seen[op.pfx] {
			seen[op.pfx] = true
			out = append(out, op.pfx)
		}
	}
	return out
}

// presentNow lists the dynamic routes present after all recorded operations.
func (w *c19world) presentNow() []string {
	var out []string
	for _, p := range w.dynPrefixes() {
		iv := w.presence(p)
		if len(iv) > 0 && iv[len(iv)-1][1] == ^uint64(0) {
			out = append(out, p.String())
		}
	}
	sort.Strings(out)
	return out
}

// permittedIP: ip (unmapped) lies in a configured network, or in a dynamic route
// that was present at some instant of [a,b].
func (w *c19world) permittedIP(ip netip.Addr, a, b uint64) bool {
	for _, n := range w.cfgNets {
		if n.Contains(ip) {
			return true
		}
	}
	for _, p := range w.dynPrefixes() {
		if !p.Contains(ip) {
			continue
		}
		for _, iv := range w.presence(p) {
			if iv[0] <= b && iv[1] >= a {
				return true
			}
		}
	}
	return false
}

// inRemoved: ip lies in a dynamic route that was present earlier but in no instant of [a,b].
func (w *c19world) inRemoved(ip netip.Addr, a uint64) bool {
	for _, p := range w.dynPrefixes() {
		if !p.Contains(ip) {
			continue
		}
		for _, iv := range w.presence(p) {
			if iv[1] < a {
				return true
			}
		}
	}
	return false
}

// removedKind describes the history of the removed dynamic route(s) containing ip
// (part of the violation signature: different histories point at different causes).
func (w *c19world) removedKind(ip netip.Addr, a uint64) string {
	readded, overlapped := false, false
	for _, p := range w.dynPrefixes() {
		if !p.Contains(ip) {
			continue
		}
		gone := false
		for _, iv := range w.presence(p) {
			if iv[1] < a {
				gone = true
			}
		}
		if !gone {
			continue
		}
		adds := 0
		var mine []c19op
		for _, op := range w.ops {
			if op.pfx != p || !op.ok {
				continue
			}
			mine = append(mine, op)
			if op.action == "add" {
				adds++
				if adds >= 2 {
					readded = true
				}
			} else {
				adds = 0
			}
		}
		for i, x := range mine {
			for _, y := range mine[i+1:] {
				if x.action != y.action && x.inv <= y.ret && y.inv <= x.ret {
					overlapped = true
				}
			}
		}
	}
	switch {
	case readded && !overlapped:
		return " (the route had been added again while present, then removed once)"
	case overlapped && !readded:
		return " (its add and remove requests overlapped in time)"
	case overlapped && readded:
		return " (re-added while present and overlapping add/remove requests)"
	}
	return ""
}

func (w *c19world) nothingPermitted(a, b uint64) bool {
	if len(w.cfgNets) > 0 || len(w.cfgDomains) > 0 {
		return false
	}
	for _, p := range w.dynPrefixes() {
		for _, iv := range w.presence(p) {
			if iv[0] <= b && iv[1] >= a {
				return false
			}
		}
	}
	return true
}

func (w *c19world) nameAllowed(name string) bool {
	for _, p := range w.cfgDomains {
		if matchesPattern(p, name) {
			return true
		}
	}
	return false
}

// checkDials is the oracle: every dial the exit agent made must be explained by
// the model.
func (w *c19world) checkDials() {
	exName := w.m.Nodes[w.ex].Name
	dials := w.m.Net.Dials
	for ; w.checked < len(dials); w.checked++ {
		d := dials[w.checked]
		if d.Node != exName {
			continue
		}
		host, portStr, err := net.SplitHostPort(d.Address)
		if err != nil {
			// e.g. an IPv6 literal joined to the port without brackets: such a dial
			// cannot connect, but the intended destination is still judged
			simrt.Probe("c19_dial_address_malformed")
			i := strings.LastIndex(d.Address, ":")
			if i < 0 {
				host, portStr = d.Address, "-1"
			} else {
				host, portStr = d.Address[:i], d.Address[i+1:]
			}
		}
		port, _ := strconv.Atoi(portStr)
		// candidate requests that can explain this dial: same port, issued before the dial
		var cands []*c19req
		for _, r := range w.reqs {
			if r.issue == 0 || r.issue > d.Seq {
				continue
			}
			if r.malformed || int(r.port) == port {
				cands = append(cands, r)
			}
		}
		ip, perr := netip.ParseAddr(host)
		dialName := ""
		if perr != nil {
			// the exit dialled by name: the name itself must be allowed, or its address permitted
			dialName = host
			if a, ok := w.dns[normName(host)]; ok {
				ip = a
			}
		}
		ip = ip.Unmap()
		ok := false
		form := "no-request"
		var first *c19req
		for _, r := range cands {
			if first == nil || first.malformed {
				first = r // prefer the request identified by its unique port
			}
			if r.hasName && !r.malformed && w.nameAllowed(r.name) {
				ok = true
			}
			if ip.IsValid() && w.permittedIP(ip, r.issue, d.Seq) {
				ok = true
			}
		}
		if dialName != "" && w.nameAllowed(dialName) {
			ok = true
		}
		if len(cands) == 0 && ip.IsValid() && w.permittedIP(ip, d.Seq, d.Seq) {
			ok = true
		}
		if first != nil {
			form = first.via + "-" + first.form
		}
		if ok {
			simrt.Probe("c19_permitted_dial")
			if first != nil && first.hasName && w.nameAllowed(first.name) {
				simrt.Probe("c19_domain_allowed_dial")
			}
			continue
		}
		from := d.Seq
		if first != nil {
			from = first.issue
		}
		detail := fmt.Sprintf("exit %s dialled %s (err=%q) for request %s; configured nets=%v domains=%v enabled=%v; route history=%s", exName, d.Address, d.Err, w.reqStr(first), w.cfgCIDRs, w.cfgDomains, w.enabled, w.opsStr())
		switch {
		case ip.IsValid() && w.inRemoved(ip, from):
			simrt.Failf("dial-into-removed-route", "exit dialled into a dynamic route that had been removed"+w.removedKind(ip, from), "(%s) %s", form, detail)
		case w.nothingPermitted(from, d.Seq):
			simrt.Failf("dial-with-nothing-permitted", "exit dialled although no network, route or pattern was configured ("+form+")", "%s", detail)
		default:
			simrt.Failf("dial-outside-permitted", "exit dialled a destination outside configured networks, present dynamic routes and allowed patterns ("+form+")", "%s", detail)
		}
	}
}

func (w *c19world) reqStr(r *c19req) string {
	if r == nil {
		return "<none>"
	}
	return fmt.Sprintf("#%d %s/%s name=%q port=%d outcome=%s", r.k, r.via, r.form, r.name, r.port, r.outcome)
}

func (w *c19world) opsStr() string {
	var sb strings.Builder
	for i, op := range w.ops {
		if i > 0 {
			sb.WriteString("; ")
		}
		res := "ok"
		if op.unknown {
			res = "no-answer"
		} else if !op.ok {
			res = "refused"
		}
		fmt.Fprintf(&sb, "%s %s(%s)=%s", op.action, op.pfx, op.via, res)
	}
	return "[" + sb.String() + "]"
}

// serve registers a destination server so that a wrongly permitted dial connects.
func (w *c19world) serve(ip netip.Addr, port uint16) {
	if !ip.IsValid() || port == 0 {
		return
	}
	a := net.JoinHostPort(ip.Unmap().String(), strconv.Itoa(int(port)))
	if w.served[a] {
		return
	}
	w.served[a] = true
	w.m.Net.ServeTCP(a, EchoServer)
}

func (w *c19world) newReq(via, form string) *c19req {
	k := len(w.reqs)
	r := &c19req{k: k, via: via, form: form, port: uint16(20000 + k)}
	w.reqs = append(w.reqs, r)
	return r
}

func (w *c19world) noteIssue(r *c19req, target netip.Addr) {
	r.issue = simrt.Seq()
	if w.nothingPermitted(r.issue, r.issue) {
		simrt.Probe("c19_nothing_configured")
	}
	if target.IsValid() && !w.permittedIP(target.Unmap(), r.issue, r.issue) && w.inRemoved(target.Unmap(), r.issue) && !(r.hasName && w.nameAllowed(r.name)) {
		simrt.Probe("c19_open_into_removed")
	}
}

type rawPlan struct {
	r        *c19req
	addrType uint8
	addr     []byte
	path     []identity.AgentID
	truncate int
	target   netip.Addr
}

func (w *c19world) drawDest(v6 bool) netip.Addr {
	if len(w.ops) > 0 && simrt.Chance(1, 2, "dest-in-last-route") {
		p := w.ops[len(w.ops)-1].pfx
		for _, s := range append(append([]string(nil), c19DestV4...), c19DestV6...) {
			if a := netip.MustParseAddr(s); p.Contains(a) {
				return a
			}
		}
	}
	if v6 {
		return netip.MustParseAddr(c19DestV6[simrt.Choose(len(c19DestV6), "dest6")])
	}
	return netip.MustParseAddr(c19DestV4[simrt.Choose(len(c19DestV4), "dest4")])
}

func (w *c19world) drawName() (string, bool) {
	n := c19Names[simrt.Choose(len(c19Names), "name")]
	return n.name, n.near
}

func mapped(a netip.Addr) []byte {
	b := a.Unmap().As4()
	return append([]byte{0, 0, 0, 0, 0, 0, 0, 0, 0, 0, 0xff, 0xff}, b[:]...)
}

// planRaw draws one crafted STREAM_OPEN.
func (w *c19world) planRaw() *rawPlan {
	p := &rawPlan{}
	kind := simrt.Choose(9, "rawform")
	switch kind {
	case 0:
		p.r = w.newReq("raw", "ipv4")
		d := w.drawDest(false)
		p.target = d
		if d.Is4() {
			b := d.As4()
			p.addrType, p.addr = protocol.AddrTypeIPv4, b[:]
		} else {
			b := d.As16()
			p.addrType, p.addr = protocol.AddrTypeIPv6, b[:]
			p.r.form = "ipv6"
		}
	case 1:
		p.r = w.newReq("raw", "ipv6")
		d := w.drawDest(true)
		p.target = d
		if d.Is4() {
			p.addrType, p.addr = protocol.AddrTypeIPv6, mapped(d)
			p.r.form = "mapped-v6"
		} else {
			b := d.As16()
			p.addrType, p.addr = protocol.AddrTypeIPv6, b[:]
		}
	case 2, 7:
		p.r = w.newReq("raw", "mapped-v6")
		d := w.drawDest(false)
		if !d.Is4() {
			d = netip.MustParseAddr(c19DestV4[0])
		}
		p.target = d
		p.addrType, p.addr = protocol.AddrTypeIPv6, mapped(d)
		simrt.Probe("c19_crafted_mapped_v6")
	case 3, 8:
		p.r = w.newReq("raw", "domain")
		name, near := w.drawName()
		p.r.hasName, p.r.name = true, name
		p.target = w.dns[normName(name)]
		p.addrType, p.addr = protocol.AddrTypeDomain, domainAddr(name)
		if near && len(w.cfgDomains) > 0 && !w.nameAllowed(name) {
			simrt.Probe("c19_domain_near_miss")
		}
		if w.nameAllowed(name) {
			simrt.Probe("c19_domain_name_allowed")
		}
	case 4:
		p.r = w.newReq("raw", "domain-ip-literal")
		name := c19IPLiteralNames[simrt.Choose(len(c19IPLiteralNames), "iplit")]
		p.r.hasName, p.r.name = true, name
		if a, err := netip.ParseAddr(name); err == nil {
			p.target = a.Unmap()
		}
		p.addrType, p.addr = protocol.AddrTypeDomain, domainAddr(name)
	case 5:
		p.r = w.newReq("raw", "port0")
		d := w.drawDest(false)
		p.r.port = 0
		p.target = d
		if d.Is4() {
			b := d.As4()
			p.addrType, p.addr = protocol.AddrTypeIPv4, b[:]
		} else {
			b := d.As16()
			p.addrType, p.addr = protocol.AddrTypeIPv6, b[:]
		}
	default: // 6: malformed
		p.r = w.newReq("raw", "malformed")
		p.r.malformed = true
		d := w.drawDest(false)
		if !d.Is4() {
			d = netip.MustParseAddr(c19DestV4[0])
		}
		p.target = d
		b4 := d.As4()
		switch simrt.Choose(7, "malform") {
		case 0: // IPv4 type carrying 16 bytes
			p.addrType, p.addr = protocol.AddrTypeIPv4, mapped(d)
		case 1: // IPv6 type carrying 4 bytes
			p.addrType, p.addr = protocol.AddrTypeIPv6, b4[:]
		case 2: // domain whose length byte claims more than is there
			p.addrType, p.addr = protocol.AddrTypeDomain, append([]byte{40}, d.String()...)
		case 3: // domain whose length byte claims less
			p.addrType, p.addr = protocol.AddrTypeDomain, append([]byte{byte(len(d.String()))}, (d.String()+"xyz")...)
		case 4: // unknown address type
			p.addrType, p.addr = 0x02, b4[:]
		case 5: // empty domain
			p.addrType, p.addr = protocol.AddrTypeDomain, []byte{0}
		default: // payload cut inside the key
			p.addrType, p.addr = protocol.AddrTypeIPv4, b4[:]
			p.truncate = 20
		}
		simrt.Probe("c19_crafted_malformed")
	}
	if simrt.Chance(1, 3, "path-self") {
		p.path = []identity.AgentID{w.m.Nodes[w.ex].ID}
	}
	if b, changes := w.rebind[normName(p.r.name)]; changes && p.r.hasName {
		w.serve(b, p.r.port) // the first address refuses, the later one accepts
	} else if !simrt.Chance(1, 5, "unserved") {
		w.serve(p.target, p.r.port)
	}
	return p
}

func (w *c19world) doRaw(p *rawPlan) {
	r := p.r
	sid := uint64(1001 + 2*r.k)
	payload := openWire(uint64(7000+r.k), p.addrType, p.addr, r.port, p.path, w.pub)
	if p.truncate > 0 {
		payload = payload[:len(payload)-p.truncate]
	}
	w.noteIssue(r, p.target)
	simrt.Eventf("req #%d raw %s type=%d addr=%x name=%q port=%d path=%d", r.k, r.form, p.addrType, p.addr, r.name, r.port, len(p.path))
	out := rawOpen(w.rp, sid, payload, 8*time.Second)
	r.done = simrt.Seq()
	r.outcome = out.String()
	simrt.Eventf("req #%d outcome %s", r.k, r.outcome)
	switch out.Kind {
	case "ack":
		simrt.Probe("c19_raw_open_acked")
		rawCloseTunnel(w.rp, sid)
	case "err":
		simrt.Probe("c19_refused_open")
	default:
		simrt.Probe("c19_open_unanswered")
	}
}

type honestPlan struct {
	r      *c19req
	host   string
	target netip.Addr
}

func (w *c19world) planHonest() *honestPlan {
	p := &honestPlan{}
	switch simrt.Choose(3, "honestform") {
	case 0:
		p.r = w.newReq("honest", "ip")
		d := w.drawDest(false)
		p.host, p.target = d.String(), d
	case 1:
		p.r = w.newReq("honest", "name")
		name, near := w.drawName()
		if name == "" || strings.HasPrefix(name, ".") {
			name = "foo.example.com"
		}
		p.r.hasName, p.r.name = true, name
		p.host, p.target = name, w.dns[normName(name)]
		if near && len(w.cfgDomains) > 0 && !w.nameAllowed(name) {
			simrt.Probe("c19_domain_near_miss_honest")
		}
	default:
		p.r = w.newReq("honest", "ip6")
		d := w.drawDest(true)
		p.host, p.target = d.String(), d
	}
	if b, changes := w.rebind[normName(p.r.name)]; changes && p.r.hasName {
		w.serve(b, p.r.port) // the first address refuses, the later one accepts
	} else if !simrt.Chance(1, 5, "unserved") {
		w.serve(p.target, p.r.port)
	}
	return p
}

func (w *c19world) doHonest(p *honestPlan) {
	r := p.r
	addr := net.JoinHostPort(p.host, strconv.Itoa(int(r.port)))
	w.noteIssue(r, p.target)
	simrt.Eventf("req #%d honest %s %s", r.k, r.form, addr)
	okConn := false
	w.m.On(w.in, fmt.Sprintf("honest-%d", r.k), func() {
		ctx, cancel := context.WithTimeout(context.Background(), 20*time.Second)
		defer cancel()
		c, err := w.m.Nodes[w.in].A.DialContext(ctx, "tcp", addr)
		if err != nil {
			r.outcome = "err"
			return
		}
		okConn = true
		r.outcome = "ok"
		c.Write([]byte("ping"))
		buf := make([]byte, 4)
		c.SetReadDeadline(time.Now().Add(5 * time.Second))
		c.Read(buf)
		c.Close()
	})
	r.done = simrt.Seq()
	simrt.Eventf("req #%d outcome %s", r.k, r.outcome)
	for _, d := range w.m.Net.Dials {
		if d.Node == w.m.Nodes[w.ex].Name && d.Seq > r.issue && strings.HasSuffix(d.Address, ":"+strconv.Itoa(int(r.port))) {
			simrt.Probe("c19_honest_via_exit")
			if r.hasName && w.nameAllowed(r.name) {
				simrt.Probe("c19_honest_via_domain_route")
			}
		}
	}
	if okConn {
		simrt.Probe("c19_honest_open_ok")
		simrt.Sleep(4 * time.Second)
	} else {
		simrt.Probe("c19_honest_open_failed")
	}
}

type opPlan struct {
	action string
	cidr   string
	metric uint16
	remote bool
	src    int
}

func (w *c19world) planOp(remote bool) *opPlan {
	p := &opPlan{remote: remote, src: w.in}
	switch simrt.Choose(4, "op-cidr") {
	case 0:
		p.cidr = w.lastCIDR
		if p.cidr == "" {
			p.cidr = w.focus[0]
		}
	case 1:
		p.cidr = w.focus[simrt.Choose(len(w.focus), "focus")]
	case 2:
		if len(w.cfgCIDRs) > 0 {
			p.cidr = w.cfgCIDRs[simrt.Choose(len(w.cfgCIDRs), "cfgcidr")]
		} else {
			p.cidr = w.focus[0]
		}
	default:
		p.cidr = c19CIDRs[simrt.Choose(len(c19CIDRs), "anycidr")]
	}
	w.lastCIDR = p.cidr
	if alt, ok := c19AltSpelling[p.cidr]; ok && simrt.Chance(1, 5, "alt-spelling") {
		p.cidr = alt
	} else if alt, ok := c19MappedSpelling[p.cidr]; ok && simrt.Chance(1, 5, "mapped-spelling") {
		p.cidr = alt
		simrt.Probe("c19_mapped_cidr_spelling")
	}
	p.action = []string{"add", "remove"}[simrt.Choose(2, "action")]
	p.metric = []uint16{1, 7, 1, 0}[simrt.Choose(4, "metric")]
	return p
}

func (w *c19world) isPresent(pfx netip.Prefix) bool {
	for _, s := range w.presentNow() {
		if s == pfx.String() {
			return true
		}
	}
	return false
}

func (w *c19world) cfgEqual(pfx netip.Prefix) bool {
	for _, n := range w.cfgNets {
		if n == pfx {
			return true
		}
	}
	return false
}

// execOp performs one route-management operation and returns its stamped record.
func (w *c19world) execOp(p *opPlan) c19op {
	op := c19op{action: p.action, pfx: mustPrefix(p.cidr), via: "local"}
	exNode := w.m.Nodes[w.ex]
	op.inv = simrt.Seq()
	if !p.remote {
		w.m.On(w.ex, "route-op", func() {
			_, err := exNode.A.ManageRoute(p.action, p.cidr, p.metric)
			op.ok = err == nil
			if err != nil {
				op.errStr = err.Error()
			}
		})
	} else {
		op.via = "remote"
		w.m.On(p.src, "route-op-remote", func() {
			ctx, cancel := context.WithTimeout(context.Background(), 25*time.Second)
			defer cancel()
			data, _ := json.Marshal(map[string]any{"action": p.action, "network": p.cidr, "metric": p.metric})
			resp, err := w.m.Nodes[p.src].A.SendControlRequestWithData(ctx, exNode.ID, protocol.ControlTypeRouteManage, data)
			if err != nil {
				op.unknown = true
				op.errStr = err.Error()
				return
			}
			op.ok = resp.Success
			if !resp.Success {
				op.errStr = string(resp.Data)
			}
		})
		simrt.Probe("c19_remote_route_op")
	}
	op.ret = simrt.Seq()
	simrt.Eventf("route op %s %s (%s) metric=%d via=%s ok=%v unknown=%v err=%q", p.action, op.pfx, p.cidr, p.metric, op.via, op.ok, op.unknown, op.errStr)
	return op
}

// recordOp appends a finished operation to the history the model is computed from.
func (w *c19world) recordOp(op c19op) {
	wasPresent := w.isPresent(op.pfx)
	cfgEqual := w.cfgEqual(op.pfx)
	w.ops = append(w.ops, op)
	if op.unknown {
		w.anyUnknown = true
		simrt.Probe("c19_remote_no_answer")
		return
	}
	if op.ok {
		delete(w.ambig, op.pfx)
	}
	switch {
	case op.action == "add" && op.ok:
		if wasPresent {
			simrt.Probe("c19_dynamic_readd")
		}
		if !w.enabled && len(w.ops) > 0 && w.firstAdd {
			simrt.Probe("c19_on_demand_handler")
		}
		w.firstAdd = false
		if !wasPresent {
			w.adds[op.pfx] = 0
		}
		w.adds[op.pfx]++
		simrt.Probe("c19_dynamic_add")
	case op.action == "add" && cfgEqual:
		simrt.Probe("c19_add_config_equal_refused")
	case op.action == "remove" && op.ok:
		if w.adds[op.pfx] >= 2 {
			simrt.Probe("c19_remove_after_double_add")
		}
		w.adds[op.pfx] = 0
		simrt.Probe("c19_dynamic_remove")
	case op.action == "remove" && cfgEqual:
		simrt.Probe("c19_remove_config_refused")
	case op.action == "remove":
		simrt.Probe("c19_remove_absent_refused")
	}
}

func (w *c19world) doOp(p *opPlan) { w.recordOp(w.execOp(p)) }

// specResult is the documented outcome of a route-management request (docs/api/route-management.md):
// add is refused only for a network that is a configured route; remove needs a dynamic route.
func (w *c19world) specResult(op c19op, present bool) bool {
	if op.action == "add" {
		return present || !w.cfgEqual(op.pfx)
	}
	return present
}

// doOpPair runs two route-management operations concurrently and records them in an order
// that explains their answers (the more permissive one if both orders do).
func (w *c19world) doOpPair(p1, p2 *opPlan) {
	var o1, o2 c19op
	var g simrt.Group
	g.Go("pair-op1", func() { o1 = w.execOp(p1) })
	g.Go("pair-op2", func() { o2 = w.execOp(p2) })
	g.Wait()
	simrt.Probe("c19_concurrent_ops")
	if o1.unknown || o2.unknown {
		w.recordOp(o1)
		w.recordOp(o2)
		return
	}
	type outcome struct {
		order      [2]c19op
		consistent bool
		present    int // number of the touched networks present afterwards
	}
	eval := func(a, b c19op) outcome {
		st := map[netip.Prefix]bool{a.pfx: w.isPresent(a.pfx), b.pfx: w.isPresent(b.pfx)}
		out := outcome{order: [2]c19op{a, b}, consistent: true}
		for _, op := range []c19op{a, b} {
			if w.specResult(op, st[op.pfx]) != op.ok {
				out.consistent = false
			}
			if op.ok {
				st[op.pfx] = op.action == "add"
			}
		}
		for _, v := range st {
			if v {
				out.present++
			}
		}
		return out
	}
	a, b := eval(o1, o2), eval(o2, o1)
	pick := a
	switch {
	case a.consistent && b.consistent:
		if b.present > a.present {
			pick = b
		}
		if o1.pfx == o2.pfx && o1.action != o2.action {
			simrt.Probe("c19_concurrent_add_remove_same_route")
		}
	case b.consistent:
		pick = b
		if o1.pfx == o2.pfx && o1.action != o2.action {
			simrt.Probe("c19_concurrent_add_remove_same_route")
		}
	case a.consistent:
		if o1.pfx == o2.pfx && o1.action != o2.action {
			simrt.Probe("c19_concurrent_add_remove_same_route")
		}
	default:
		// answers no sequential order explains (possible after an earlier pair whose order
		// is unknown): not this property's business; stay permissive
		if w.ambig[o1.pfx] || w.ambig[o2.pfx] {
			simrt.Probe("c19_concurrent_ops_after_ambiguous_order")
		} else {
			simrt.Probe("c19_concurrent_ops_unexplained")
			w.anyUnknown = true
		}
		for _, op := range []c19op{o1, o2} {
			if op.action == "add" {
				op.unknown = true
				w.ops = append(w.ops, op)
			}
		}
		w.ambig[o1.pfx], w.ambig[o2.pfx] = true, true
		return
	}
	w.recordOp(pick.order[0])
	w.recordOp(pick.order[1])
	if a.consistent && b.consistent && a.present != b.present {
		// both orders explain the answers but leave different routes present: the model
		// stays with the permissive order; the listing cannot be predicted for these routes
		w.ambig[o1.pfx], w.ambig[o2.pfx] = true, true
		simrt.Probe("c19_concurrent_ops_order_ambiguous")
	}
}

// checkList compares the agent's own listing of dynamic routes with the history.
func (w *c19world) checkList() {
	if w.anyUnknown {
		return
	}
	var got []string
	w.m.On(w.ex, "route-list", func() {
		res, err := w.m.Nodes[w.ex].A.ManageRoute("list", "", 0)
		if err != nil {
			simrt.Failf("dynamic-route-list-differs-from-history", "listing dynamic routes failed", "%v", err)
		}
		for _, e := range res.Routes {
			got = append(got, mustPrefix(e.Network).String())
		}
	})
	sort.Strings(got)
	want := w.presentNow()
	if len(w.ambig) > 0 {
		drop := func(xs []string) []string {
			var out []string
			for _, x := range xs {
				if !w.ambig[netip.MustParsePrefix(x)] {
					out = append(out, x)
				}
			}
			return out
		}
		got, want = drop(got), drop(want)
	}
	if strings.Join(got, ",") != strings.Join(want, ",") {
		simrt.Failf("dynamic-route-list-differs-from-history", "dynamic routes listed by the agent differ from add/remove history", "listed=%v history=%v ops=%s", got, want, w.opsStr())
	}
}

func runC19() {
	m := drawSmallMesh()
	n := len(m.Nodes)
	w := &c19world{m: m, dns: map[string]netip.Addr{}, served: map[string]bool{}, adds: map[netip.Prefix]int{}, firstAdd: true, ambig: map[netip.Prefix]bool{}}
	w.ex = simrt.Choose(n, "exit")
	w.in = (w.ex + 1 + simrt.Choose(n-1, "ingress")) % n
	ensureListener(m, w.ex)
	exNode := m.Nodes[w.ex]

	// configuration of the exit under test
	w.enabled = !simrt.Chance(1, 4, "exit-not-enabled")
	if w.enabled {
		exNode.Cfg.Exit.Enabled = true
		nC := simrt.Choose(4, "ncidr")
		for i := 0; i < nC; i++ {
			c := c19CIDRs[simrt.Choose(len(c19CIDRs), "cfgcidr")]
			if !ContainsStr(w.cfgCIDRs, c) {
				w.cfgCIDRs = append(w.cfgCIDRs, c)
				w.cfgNets = append(w.cfgNets, mustPrefix(c))
			}
		}
		nD := simrt.Choose(3, "ndomain")
		for i := 0; i < nD; i++ {
			d := c19Patterns[simrt.Choose(len(c19Patterns), "cfgdomain")]
			if !ContainsStr(w.cfgDomains, d) {
				w.cfgDomains = append(w.cfgDomains, d)
			}
		}
		exNode.Cfg.Exit.Routes = append([]string(nil), w.cfgCIDRs...)
		exNode.Cfg.Exit.DomainRoutes = append([]string(nil), w.cfgDomains...)
	}
	// networks the route-management history concentrates on
	f0 := simrt.Choose(len(c19CIDRs), "focus0")
	f1 := (f0 + 1 + simrt.Choose(len(c19CIDRs)-1, "focus1")) % len(c19CIDRs)
	w.focus = []string{c19CIDRs[f0], c19CIDRs[f1]}
	// DNS: every workload name resolves to a drawn address inside or outside the networks
	all := append(append([]string(nil), c19DestV4...), c19DestV6...)
	for _, nm := range c19Names {
		k := normName(nm.name)
		if _, dup := w.dns[k]; dup || k == "" {
			continue
		}
		a := netip.MustParseAddr(all[simrt.Choose(len(all), "dns")])
		w.dns[k] = a
		m.Net.SetDNS(k, net.ParseIP(a.String()))
		if simrt.Chance(1, 4, "dns-changes") {
			// the name's address changes between two lookups; the first address
			// refuses connections (nothing is served there), the second one may
			// lie anywhere: every address the exit dials has to be permitted
			b := netip.MustParseAddr(all[simrt.Choose(len(all), "dns2")])
			if b != a {
				if w.rebind == nil {
					w.rebind = map[string]netip.Addr{}
				}
				w.rebind[k] = b
				m.Net.SetDNSSequence(k, []net.IP{net.ParseIP(a.String())}, []net.IP{net.ParseIP(b.String())})
				simrt.Probe("c19_name_whose_address_changes")
			}
		}
	}
	simrt.Eventf("exit=%s ingress=%s enabled=%v cidrs=%v domains=%v focus=%v", exNode.Name, m.Nodes[w.in].Name, w.enabled, w.cfgCIDRs, w.cfgDomains, w.focus)
	if !w.enabled {
		simrt.Probe("c19_exit_not_enabled")
	} else if len(w.cfgCIDRs) == 0 && len(w.cfgDomains) == 0 {
		simrt.Probe("c19_enabled_nothing_configured")
	}

	BootAndConverge(m)
	rp, err := m.AttachRawPeer(w.ex, 0)
	if err != nil {
		panic("attach raw peer: " + err.Error())
	}
	w.rp = rp
	w.pub = mustKeypairPub()

	steps := 5 + simrt.Choose(8, "steps")
	for s := 0; s < steps; s++ {
		switch simrt.Choose(9, "step") {
		case 8: // two route operations concurrent with each other (often on the same network)
			p1 := w.planOp(false)
			p2 := w.planOp(simrt.Chance(1, 3, "pair-remote"))
			w.doOpPair(p1, p2)
			w.checkList()
		case 0, 6:
			w.doRaw(w.planRaw())
		case 1, 2:
			w.doOp(w.planOp(false))
			w.checkList()
		case 3:
			w.doHonest(w.planHonest())
		case 4:
			w.doOp(w.planOp(true))
			w.checkList()
		case 5: // a route operation concurrent with a crafted open
			op, rq := w.planOp(simrt.Chance(1, 3, "conc-remote")), w.planRaw()
			var g simrt.Group
			g.Go("conc-op", func() { w.doOp(op) })
			g.Go("conc-open", func() { w.doRaw(rq) })
			g.Wait()
			simrt.Probe("c19_concurrent_op_open")
			w.checkList()
		default: // a route operation concurrent with an honest open
			op, rq := w.planOp(false), w.planHonest()
			var g simrt.Group
			g.Go("conc-op", func() { w.doOp(op) })
			g.Go("conc-open", func() { w.doHonest(rq) })
			g.Wait()
			simrt.Probe("c19_concurrent_op_honest")
			w.checkList()
		}
		w.checkDials()
		// sometimes let route advertisements reach the ingress before the next step
		if simrt.Chance(1, 2, "pause") {
			simrt.Sleep(time.Duration(1+simrt.Choose(8, "pause-s")) * time.Second)
		}
	}
	simrt.Sleep(2 * time.Second)
	w.checkDials()
	rp.Close()
	m.StopAll()
	w.checkDials()
	nEx := 0
	for _, d := range m.Net.Dials {
		if d.Node == exNode.Name {
			nEx++
		}
	}
	simrt.Eventf("done reqs=%d ops=%d exit-dials=%d", len(w.reqs), len(w.ops), nEx)
}
