// Package hc is the part of the harness shared by every simulated world: the
// per-process run loop, replay, minimisation and the per-worker result file.
package hc

import (
	"encoding/json"
	"fmt"
	"os"
	"runtime"
	"sort"
	"strconv"
	"strings"
	"testing"
	"testing/synctest"
	"time"

	"github.com/postalsys/muti-metroo/internal/verifrt/simrt"
)

// World describes one simulated system and the properties it decides.
type World struct {
	Name string
	// Run is the root simulated goroutine of one execution. It draws its whole
	// workload, configuration and fault schedule from simrt.Choose, and reports
	// violations with simrt.Fail / simrt.Record.
	Run func(prop string)
	// Defaults
	PreemptMeans []int // swarm: candidate mean gaps between preemptions (0 = never)
	MaxSteps     uint64
	MaxSimTime   time.Duration
	// FreezeOneIn / FreezeMax: starvation mode of the scheduler (see simrt.Config); used in the
	// runs whose preemption mean is non-zero
	FreezeOneIn int
	FreezeMax   int
	// PanicIsViolation: a panic inside simulated code is a violation of these properties
	PanicIsViolation map[string]bool
}

// Replay is the replay file format.
type Replay struct {
	Property    string           `json:"property"`
	World       string           `json:"world"`
	Seed        uint64           `json:"seed"`
	RunIndex    int64            `json:"run_index"`
	RandSeed    uint64           `json:"rand_seed"`
	PreemptMean int              `json:"preempt_mean"`
	Choices     []uint32         `json:"choices"`
	Violation   *simrt.Violation `json:"violation"`
	LogHash     string           `json:"log_hash"`
	Minimised   bool             `json:"minimised"`
	OrigChoices int              `json:"orig_choices"`
	LogTail     []string         `json:"log_tail,omitempty"`
}

// WorkerResult is written by each worker process.
type WorkerResult struct {
	Property     string            `json:"property"`
	World        string            `json:"world"`
	Runs         int64             `json:"runs"`
	Steps        uint64            `json:"steps"`
	Switches     uint64            `json:"switches"`
	Preemptions  uint64            `json:"preemptions"`
	SimSeconds   float64           `json:"sim_seconds"`
	WallSeconds  float64           `json:"wall_seconds"`
	Inconclusive map[string]int64  `json:"inconclusive"`
	Probes       map[string]int64  `json:"probes"`
	Hashes       []string          `json:"nontrivial_hashes"`
	Violations   []Replay          `json:"violations"`
	Errors       []string          `json:"errors"`
	Samples      []Sample          `json:"samples"`
	Leaked       int               `json:"leaked_goroutines"`
	RunHashes    map[string]string `json:"run_hashes,omitempty"`
}

type Sample struct {
	RunIndex    int64    `json:"run_index"`
	Seed        uint64   `json:"seed"`
	PreemptMean int      `json:"preempt_mean"`
	Steps       uint64   `json:"steps"`
	Choices     int      `json:"choices"`
	LogHash     string   `json:"log_hash"`
	LogHead     []string `json:"log_head"`
}

func envInt(name string, def int64) int64 {
	v := os.Getenv(name)
	if v == "" {
		return def
	}
	n, err := strconv.ParseInt(v, 10, 64)
	if err != nil {
		panic(fmt.Sprintf("bad %s=%q", name, v))
	}
	return n
}

func envU64(name string, def uint64) uint64 {
	v := os.Getenv(name)
	if v == "" {
		return def
	}
	n, err := strconv.ParseUint(v, 10, 64)
	if err != nil {
		panic(fmt.Sprintf("bad %s=%q", name, v))
	}
	return n
}

func bubble(t *testing.T) func(func()) {
	return func(f func()) {
		synctest.Test(t, func(*testing.T) { f() })
	}
}

type oneRun struct {
	res  simrt.Result
	mean int
}

func (w *World) exec(t *testing.T, prop string, ch *simrt.Choices, mean int, randSeed uint64, keepLog int) simrt.Result {
	cfg := simrt.Config{
		Choices:     ch,
		PreemptMean: mean,
		MaxSteps:    w.MaxSteps,
		MaxSimTime:  w.MaxSimTime,
		Strict:      true,
		KeepLog:     keepLog,
		RandSeed:    randSeed,
	}
	if mean > 0 {
		cfg.FreezeOneIn, cfg.FreezeMax = w.FreezeOneIn, w.FreezeMax
	}
	return simrt.Run(cfg, bubble(t), func() { w.Run(prop) })
}

func sameViolation(a, b *simrt.Violation) bool {
	if a == nil || b == nil {
		return false
	}
	return a.Class == b.Class && a.Sig == b.Sig
}

func (w *World) violationOf(prop string, r simrt.Result) *simrt.Violation {
	if r.Violation != nil {
		return r.Violation
	}
	if len(r.Panics) > 0 && w.PanicIsViolation[prop] {
		first := r.Panics[0]
		line := first
		if i := strings.Index(first, "\n"); i > 0 {
			line = first[:i]
		}
		return &simrt.Violation{Class: "panic", Sig: "panic in simulated code", Detail: line}
	}
	return nil
}

// Main is the body of every world's TestWorld.
func Main(t *testing.T, w *World) {
	prop := os.Getenv("VERIF_PROP")
	if prop == "" {
		t.Skip("VERIF_PROP not set (run through /verif/bin/check)")
	}
	outPath := os.Getenv("VERIF_OUT")
	if w.MaxSteps == 0 {
		w.MaxSteps = 2_000_000
	}
	if w.MaxSimTime == 0 {
		w.MaxSimTime = 6 * time.Hour
	}
	if len(w.PreemptMeans) == 0 {
		w.PreemptMeans = []int{0, 3, 10, 30, 100}
	}
	wr := &WorkerResult{Property: prop, World: w.Name, Inconclusive: map[string]int64{}, Probes: map[string]int64{}}
	defer func() {
		if outPath != "" {
			b, _ := json.Marshal(wr)
			os.WriteFile(outPath, b, 0o644)
		}
	}()
	wallStart := time.Now()
	go watchdog()

	if rp := os.Getenv("VERIF_REPLAY"); rp != "" {
		b, err := os.ReadFile(rp)
		if err != nil {
			wr.Errors = append(wr.Errors, "replay file: "+err.Error())
			return
		}
		var rep Replay
		if err := json.Unmarshal(b, &rep); err != nil {
			wr.Errors = append(wr.Errors, "replay file: "+err.Error())
			return
		}
		simrt.SetDebug(os.Getenv("VERIF_DEBUG") != "")
		res := w.exec(t, prop, simrt.ReplayChoices(rep.Choices), rep.PreemptMean, rep.RandSeed, 200)
		for _, l := range res.Debug {
			fmt.Println("  #", l)
		}
		wr.Runs = 1
		wr.Steps = res.Steps
		v := w.violationOf(prop, res)
		fmt.Printf("REPLAY hash=%016x expected=%s violation=%v\n", res.LogHash, rep.LogHash, v)
		for _, l := range append(append([]string(nil), res.LogHead...), res.LogTail...) {
			fmt.Println("  |", l)
		}
		if v != nil {
			rep.Violation = v
			rep.LogHash = fmt.Sprintf("%016x", res.LogHash)
			rep.LogTail = append(append([]string(nil), res.LogHead...), res.LogTail...)
			wr.Violations = append(wr.Violations, rep)
		}
		if len(res.Panics) > 0 && v == nil {
			wr.Errors = append(wr.Errors, "panic in simulated code: "+res.Panics[0])
		}
		wr.WallSeconds = time.Since(wallStart).Seconds()
		return
	}

	base := envU64("VERIF_SEED", 1)
	from := envInt("VERIF_FROM", 0)
	to := envInt("VERIF_TO", 1)
	budget := time.Duration(envInt("VERIF_WALL_MS", 0)) * time.Millisecond
	maxViol := int(envInt("VERIF_MAX_VIOL", 3))
	hashes := map[uint64]bool{}
	seenSig := map[string]bool{}
	// classes listed in KNOWN_FINDINGS.json for this property (passed by the
	// wrapper): still replay-verified and reported, but not minimised and not
	// counted toward the per-worker violation limit
	knownClass := map[string]bool{}
	for _, c := range strings.Split(os.Getenv("VERIF_KNOWN_CLASSES"), ",") {
		if c != "" {
			knownClass[c] = true
		}
	}
	unknownViol := 0
	leakTotal := 0
	for i := from; i < to; i++ {
		if budget > 0 && time.Since(wallStart) > budget {
			break
		}
		seed := simrt.Mix(base, uint64(i))
		sw := simrt.NewRng(simrt.Mix(seed, 7))
		mean := w.PreemptMeans[sw.Intn(len(w.PreemptMeans))]
		randSeed := simrt.Mix(seed, 3)
		ch := simrt.NewChoices(simrt.Mix(seed, 1))
		keep := 0
		if len(wr.Samples) < 3 {
			keep = 40
		}
		res := w.exec(t, prop, ch, mean, randSeed, keep)
		wr.Runs++
		if os.Getenv("VERIF_HASHLIST") != "" {
			if wr.RunHashes == nil {
				wr.RunHashes = map[string]string{}
			}
			wr.RunHashes[strconv.FormatInt(i, 10)] = fmt.Sprintf("%016x/%d/%v", res.LogHash, res.Steps, res.Violation != nil)
		}
		wr.Steps += res.Steps
		wr.Switches += res.Switches
		wr.Preemptions += res.Preemptions
		wr.SimSeconds += res.SimTime.Seconds()
		for k, v := range res.Probes {
			wr.Probes[k] += v
		}
		leakTotal += res.Leaked
		if keep > 0 {
			wr.Samples = append(wr.Samples, Sample{RunIndex: i, Seed: seed, PreemptMean: mean, Steps: res.Steps, Choices: res.ChoiceCount, LogHash: fmt.Sprintf("%016x", res.LogHash), LogHead: res.LogHead})
		}
		v := w.violationOf(prop, res)
		if v == nil && len(res.Panics) > 0 {
			wr.Errors = append(wr.Errors, fmt.Sprintf("run %d seed %d: unexpected panic in simulated code: %s", i, seed, res.Panics[0]))
			break
		}
		if v == nil && res.CapHit != "" {
			wr.Inconclusive["cap_"+res.CapHit]++
			continue
		}
		if v == nil {
			if res.Preemptions > 0 || res.Switches > 1 {
				hashes[res.LogHash] = true
			}
			continue
		}
		key := v.Class + "|" + v.Sig
		if seenSig[key] {
			continue
		}
		seenSig[key] = true
		rep := Replay{Property: prop, World: w.Name, Seed: seed, RunIndex: i, RandSeed: randSeed, PreemptMean: mean,
			Choices: res.Choices, Violation: v, LogHash: fmt.Sprintf("%016x", res.LogHash), OrigChoices: len(res.Choices)}
		known := knownClass[v.Class]
		if !known {
			w.minimise(t, prop, &rep)
		}
		// determinism check: the (minimised) replay must reproduce signature and hash twice
		r1 := w.exec(t, prop, simrt.ReplayChoices(rep.Choices), rep.PreemptMean, rep.RandSeed, 60)
		r2 := w.exec(t, prop, simrt.ReplayChoices(rep.Choices), rep.PreemptMean, rep.RandSeed, 0)
		v1, v2 := w.violationOf(prop, r1), w.violationOf(prop, r2)
		if !sameViolation(v1, v) || !sameViolation(v2, v) || r1.LogHash != r2.LogHash {
			wr.Errors = append(wr.Errors, fmt.Sprintf("nondeterminism: run %d seed %d violation %v did not replay identically (%v/%016x vs %v/%016x)", i, seed, v, v1, r1.LogHash, v2, r2.LogHash))
			break
		}
		rep.Violation = v1
		rep.LogHash = fmt.Sprintf("%016x", r1.LogHash)
		rep.LogTail = append(append([]string(nil), r1.LogHead...), r1.LogTail...)
		wr.Violations = append(wr.Violations, rep)
		if !known {
			unknownViol++
		}
		if unknownViol >= maxViol {
			break
		}
	}
	for h := range hashes {
		wr.Hashes = append(wr.Hashes, fmt.Sprintf("%016x", h))
	}
	sort.Strings(wr.Hashes)
	wr.Leaked = leakTotal
	wr.WallSeconds = time.Since(wallStart).Seconds()
}

// minimise shrinks rep.Choices while the same violation (class+sig) recurs.
func (w *World) minimise(t *testing.T, prop string, rep *Replay) {
	budget := int(envInt("VERIF_MIN_BUDGET", 150))
	deadline := time.Now().Add(time.Duration(envInt("VERIF_MIN_MS", 60000)) * time.Millisecond)
	want := rep.Violation
	cur := append([]uint32(nil), rep.Choices...)
	expired := func() bool { return budget <= 0 || time.Now().After(deadline) }
	try := func(cand []uint32) bool {
		if expired() {
			return false
		}
		budget--
		res := w.exec(t, prop, simrt.ReplayChoices(cand), rep.PreemptMean, rep.RandSeed, 0)
		return sameViolation(w.violationOf(prop, res), want)
	}
	// the recorded list must itself reproduce
	if !try(cur) {
		return
	}
	// 1. shortest failing prefix (binary search; rest reads as 0)
	lo, hi := 0, len(cur)
	for lo < hi && !expired() {
		mid := (lo + hi) / 2
		if try(cur[:mid]) {
			hi = mid
		} else {
			lo = mid + 1
		}
	}
	if hi < len(cur) && try(cur[:hi]) {
		cur = cur[:hi]
	}
	// 2. zero chunks
	for size := len(cur) / 2; size >= 1 && !expired(); size /= 2 {
		for start := 0; start < len(cur) && !expired(); start += size {
			end := start + size
			if end > len(cur) {
				end = len(cur)
			}
			nz := false
			for _, v := range cur[start:end] {
				if v != 0 {
					nz = true
					break
				}
			}
			if !nz {
				continue
			}
			cand := append([]uint32(nil), cur...)
			for j := start; j < end; j++ {
				cand[j] = 0
			}
			if try(cand) {
				cur = cand
			}
		}
		if size > 64 && len(cur)/size > 64 {
			size = len(cur) / 64 * 2 // keep pass count bounded
		}
	}
	// 3. delete chunks (shifts later choices; only kept if the same violation recurs)
	for size := len(cur) / 2; size >= 1 && !expired(); size /= 2 {
		for start := 0; start+size <= len(cur) && !expired(); {
			cand := append(append([]uint32(nil), cur[:start]...), cur[start+size:]...)
			if try(cand) {
				cur = cand
			} else {
				start += size
			}
		}
	}
	// trim trailing zeros
	for len(cur) > 0 && cur[len(cur)-1] == 0 {
		cur = cur[:len(cur)-1]
	}
	if cur == nil {
		cur = []uint32{}
	}
	rep.Choices = cur
	rep.Minimised = true
}

// watchdog runs outside every bubble on the real clock: if the scheduler makes
// no decision for a while the process dumps all stacks and exits 3 (the wrapper
// reports CHECK-ERROR, never a violation).
func watchdog() {
	limit := time.Duration(envInt("VERIF_STALL_MS", 60000)) * time.Millisecond
	last := simrt.Progress()
	lastChange := time.Now()
	for {
		time.Sleep(2 * time.Second)
		p := simrt.Progress()
		if p != last {
			last, lastChange = p, time.Now()
			continue
		}
		if time.Since(lastChange) > limit {
			buf := make([]byte, 8<<20)
			n := runtime.Stack(buf, true)
			fmt.Fprintf(os.Stderr, "WATCHDOG: no scheduler progress for %v; goroutine dump:\n%s\n", limit, buf[:n])
			os.Exit(3)
		}
	}
}
