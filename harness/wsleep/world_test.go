// Package wsleep is the simulated world W-sleep: one real sleep.Manager
// (statement-level yields in internal/sleep/sleep.go) driven by concurrent
// Sleep / Wake / manual Poll requesters, its own poll timers on the fake clock,
// harness-supplied callbacks that take simulated time and may fail, Stop, and
// an optional restart from the persisted state. It decides C30.
package wsleep

import (
	"encoding/json"
	"errors"
	"fmt"
	"os"
	"testing"
	"time"

	"github.com/postalsys/muti-metroo/internal/config"
	"github.com/postalsys/muti-metroo/internal/sleep"
	"github.com/postalsys/muti-metroo/internal/verifrt/simrt"
	"github.com/postalsys/muti-metroo/internal/verifsim/hc"
)

func TestWorld(t *testing.T) {
	hc.Main(t, &hc.World{
		Name:         "W-sleep",
		Run:          run,
		PreemptMeans: []int{0, 1, 3, 8, 25, 80},
		MaxSteps:     2_000_000,
		MaxSimTime:   2 * time.Hour,
	})
}

func run(prop string) {
	switch prop {
	case "C30":
		if simrt.Choose(8, "level") == 7 {
			simrt.Probe("agent_level_run")
			runC30Agent()
			return
		}
		runC30()
	default:
		panic("W-sleep does not decide " + prop)
	}
}

// ---- request history (for the linearizability oracle) ---------------------

const (
	kSleep = iota
	kWake
)

const (
	resOK      = iota // request took effect
	resRefused        // returned an error although no harness callback failed
	resCbFail         // the harness callback failed, request abandoned
)

type opRec struct {
	kind     int
	inv, ret uint64
	res      int
}

// cbError is what a failing harness callback returns (unique per failure).
type cbError struct {
	name string
	n    int
}

func (e *cbError) Error() string { return fmt.Sprintf("harness %s failure #%d", e.name, e.n) }

type world struct {
	m   *sleep.Manager
	cfg config.SleepConfig
	dir string
	gen int

	// state samples
	haveLast bool
	last     sleep.State
	lastSeq  uint64
	seenMask uint8 // states sampled since Stop began (bit per state)

	// requests in flight
	inFlight   [2]int
	lastEnd    [2]uint64
	sleepStart int // number of Sleep calls started so far

	// "a wake has completed and no Sleep call has started since"
	awakeCommitted bool

	// callbacks
	pollCbRunning int
	cbCount       map[string]int
	cbFailN       int

	ops     []*opRec
	okCount [2]int

	manual   map[string]int // goroutine name -> manual Poll depth
	stopping bool
	stopped  bool
}

// stName names a state without calling State.String (which lives in the
// statement-instrumented sleep.go and would be a scheduling point).
func stName(s sleep.State) string {
	switch s {
	case sleep.StateAwake:
		return "AWAKE"
	case sleep.StateSleeping:
		return "SLEEPING"
	case sleep.StatePolling:
		return "POLLING"
	}
	return fmt.Sprintf("STATE(%d)", uint8(s))
}

// sample reads the state and applies the transition oracle (a) and the
// post-wake quiescence oracle (c, state part).
func (w *world) sample(where string) sleep.State {
	st := w.m.GetState()
	seq := simrt.Seq()
	if st > sleep.StatePolling {
		simrt.Failf("invalid-state", "state outside {AWAKE,SLEEPING,POLLING}", "value %d at %s", uint8(st), where)
	}
	w.seenMask |= 1 << st
	if w.haveLast && st != w.last {
		simrt.Eventf("state %s -> %s (seen at %s)", stName(w.last), stName(st), where)
		overlap := func(k int) bool { return w.inFlight[k] > 0 || w.lastEnd[k] > w.lastSeq }
		switch {
		case st == sleep.StateAwake:
			// SLEEPING/POLLING -> AWAKE needs a wake request
			if !overlap(kWake) {
				simrt.Failf("illegal-transition", stName(w.last)+"->AWAKE without a wake request", "seen at %s", where)
			}
		case w.last == sleep.StateAwake:
			// AWAKE -> SLEEPING needs a sleep request; AWAKE -> POLLING is only
			// explainable as AWAKE -> SLEEPING -> POLLING, i.e. also needs one
			if !overlap(kSleep) {
				simrt.Failf("illegal-transition", "AWAKE->"+stName(st)+" without a sleep request", "seen at %s", where)
			}
		}
	}
	if w.awakeCommitted && st != sleep.StateAwake {
		simrt.Failf("left-awake-after-wake", "state "+stName(st)+" after a completed wake and before any new sleep request", "seen at %s", where)
	}
	w.haveLast, w.last, w.lastSeq = true, st, seq
	return st
}

// checkPersist is oracle (d): the state file, read under the manager's own
// lock, agrees with the in-memory state.
func (w *world) checkPersist(where string) {
	if w.stopped || w.stopping {
		return
	}
	// counters as they were before the snapshot was taken: returning from the
	// snapshot is a scheduling point, later requests must not be held against it
	wakesBefore, genBefore := w.okCount[kWake], w.gen
	st, data, err := w.m.VerifSnapshot()
	if w.stopped || w.stopping {
		// taking the snapshot is a scheduling point: Stop may have begun
		// meanwhile (Stop saves without the state lock and is outside the
		// property; found by the thorough tier)
		return
	}
	w.comparePersisted(where, st, data, err, false, wakesBefore > 0 || genBefore > 0)
}

func (w *world) comparePersisted(where string, st sleep.State, data []byte, err error, relaxed bool, savedBefore bool) {
	if err != nil {
		if !os.IsNotExist(err) {
			simrt.Failf("persisted-state-unreadable", "state file unreadable", "%v at %s", err, where)
		}
		// never saved: only acceptable while the agent has always been awake
		if st != sleep.StateAwake || savedBefore {
			simrt.Failf("persisted-state-mismatch", "mem="+stName(st)+" disk=<missing>", "at %s", where)
		}
		return
	}
	var ps sleep.PersistedState
	if jerr := json.Unmarshal(data, &ps); jerr != nil {
		simrt.Failf("persisted-state-unparsable", "state file does not parse", "%v (%d bytes) at %s", jerr, len(data), where)
	}
	ok := ps.State == st
	if st == sleep.StatePolling && ps.State == sleep.StateSleeping {
		ok = true // a poll in progress: the poll's start is not a saved transition
	}
	if relaxed && ps.State <= sleep.StatePolling && w.seenMask&(1<<ps.State) != 0 {
		ok = true
	}
	if !ok {
		simrt.Failf("persisted-state-mismatch", "mem="+stName(st)+" disk="+stName(ps.State), "at %s", where)
	}
}

func (w *world) steps(label string, allowSleep bool) {
	n := simrt.Choose(4, label+".steps")
	for i := 0; i < n; i++ {
		if allowSleep && simrt.Choose(3, label+".kind") == 2 {
			simrt.Sleep(time.Duration(1+simrt.Choose(8, label+".d")) * time.Millisecond)
		} else {
			simrt.Yield()
		}
	}
}

func (w *world) maybeFail(name string) error {
	if simrt.Chance(1, 8, name+".fail") {
		w.cbFailN++
		simrt.Probe("callback_failed")
		return &cbError{name: name, n: w.cbFailN}
	}
	return nil
}

func (w *world) callbacks() sleep.Callbacks {
	return sleep.Callbacks{
		OnSleep: func() error {
			w.cbCount["OnSleep"]++
			simrt.Eventf("cb OnSleep start seq=%d", simrt.Seq())
			if w.awakeCommitted {
				simrt.Failf("sleep-side-effect-after-wake", "OnSleep fired without a sleep request in flight", "")
			}
			w.sample("OnSleep.start")
			w.steps("OnSleep", true)
			err := w.maybeFail("OnSleep")
			w.sample("OnSleep.end")
			simrt.Eventf("cb OnSleep end seq=%d err=%v", simrt.Seq(), err != nil)
			return err
		},
		OnWake: func() error {
			w.cbCount["OnWake"]++
			simrt.Eventf("cb OnWake start seq=%d", simrt.Seq())
			st := w.sample("OnWake.start")
			if st == sleep.StatePolling || w.pollCbRunning > 0 {
				simrt.Probe("wake_during_poll")
			}
			if w.pollCbRunning > 0 {
				simrt.Probe("wake_while_poll_callback_running")
			}
			w.steps("OnWake", true)
			err := w.maybeFail("OnWake")
			w.sample("OnWake.end")
			simrt.Eventf("cb OnWake end seq=%d err=%v", simrt.Seq(), err != nil)
			return err
		},
		OnPoll: func() error {
			w.cbCount["OnPoll"]++
			name := ""
			if g := simrt.CurG(); g != nil {
				name = g.Name()
			}
			timer := w.manual[name] == 0
			simrt.Eventf("cb OnPoll start seq=%d timer=%v", simrt.Seq(), timer)
			if timer {
				simrt.Probe("poll_timer_fired")
			} else {
				simrt.Probe("poll_manual")
			}
			if w.awakeCommitted {
				// The poll had entered POLLING before the wake; its reconnect
				// callback is only entered now. The manager cannot enter a callee
				// atomically with its own state check (it must not hold its lock
				// across OnPoll, which may itself call Wake), so this is counted,
				// not flagged; see checks.d/C30.json.
				simrt.Probe("poll_callback_entered_after_completed_wake")
			}
			w.sample("OnPoll.start")
			w.pollCbRunning++
			w.steps("OnPoll", true)
			if simrt.Chance(1, 6, "OnPoll.wake") {
				// the agent's doPoll calls Wake from inside the poll callback
				simrt.Probe("wake_from_poll_callback")
				w.doRequest(kWake, "OnPoll")
			}
			w.steps("OnPoll2", true)
			w.pollCbRunning--
			if w.awakeCommitted {
				simrt.Probe("poll_callback_running_across_wake")
			}
			err := w.maybeFail("OnPoll")
			w.sample("OnPoll.end")
			simrt.Eventf("cb OnPoll end seq=%d err=%v", simrt.Seq(), err != nil)
			return err
		},
		OnPollEnd: func() error {
			w.cbCount["OnPollEnd"]++
			simrt.Eventf("cb OnPollEnd start seq=%d", simrt.Seq())
			if w.awakeCommitted {
				simrt.Failf("poll-activity-after-wake", "OnPollEnd (disconnect) started after a completed wake", "no sleep request since the wake returned")
			}
			simrt.Probe("poll_end_callback")
			w.sample("OnPollEnd.start")
			w.steps("OnPollEnd", true)
			err := w.maybeFail("OnPollEnd")
			w.sample("OnPollEnd.end")
			simrt.Eventf("cb OnPollEnd end seq=%d err=%v", simrt.Seq(), err != nil)
			return err
		},
	}
}

// doRequest issues one Sleep or Wake request and records it.
func (w *world) doRequest(kind int, who string) {
	names := [2]string{"Sleep", "Wake"}
	pre := w.sample(who + "." + names[kind] + ".pre")
	op := &opRec{kind: kind}
	w.ops = append(w.ops, op)
	prevCommitted := w.awakeCommitted
	startsBefore := w.sleepStart
	sleepsRunningAtInvoke := w.inFlight[kSleep]
	if kind == kSleep {
		w.sleepStart++
		startsBefore = w.sleepStart
		w.awakeCommitted = false
	}
	w.inFlight[kind]++
	op.inv = simrt.Seq()
	simrt.Eventf("%s: %s invoke seq=%d pre=%s", who, names[kind], op.inv, stName(pre))
	var err error
	if kind == kSleep {
		err = w.m.Sleep()
	} else {
		err = w.m.Wake()
	}
	op.ret = simrt.Seq()
	w.inFlight[kind]--
	w.lastEnd[kind] = op.ret
	var cbe *cbError
	switch {
	case err == nil:
		op.res = resOK
		w.okCount[kind]++
	case errors.As(err, &cbe):
		op.res = resCbFail
	default:
		op.res = resRefused
	}
	simrt.Eventf("%s: %s return seq=%d res=%d", who, names[kind], op.ret, op.res)
	switch {
	case kind == kSleep && op.res == resOK:
		simrt.Probe("sleep_ok")
	case kind == kSleep && op.res == resRefused:
		simrt.Probe("sleep_while_asleep_refused")
		if !errors.Is(err, sleep.ErrAlreadySleeping) {
			simrt.Failf("unexpected-error", "Sleep refused with an undocumented error", "%v", err)
		}
	case kind == kWake && op.res == resOK:
		simrt.Probe("wake_ok")
	case kind == kWake && op.res == resRefused:
		simrt.Probe("wake_while_awake_refused")
		if !errors.Is(err, sleep.ErrNotSleeping) {
			simrt.Failf("unexpected-error", "Wake refused with an undocumented error", "%v", err)
		}
	}
	if kind == kWake && op.res == resOK && w.inFlight[kSleep] == 0 && w.sleepStart == startsBefore && sleepsRunningAtInvoke == 0 {
		// (a sleep request that overlapped this wake call at any time - issued
		// before or during it - may have taken effect after the wake, even if it
		// has already returned)
		w.awakeCommitted = true
		simrt.Probe("wake_completed")
	}
	if kind == kSleep && op.res != resOK && prevCommitted && w.sleepStart == startsBefore && w.inFlight[kSleep] == 0 {
		// a lone, unsuccessful sleep request: nothing may have changed
		w.awakeCommitted = true
	}
	w.sample(who + "." + names[kind] + ".post")
	w.checkPersist(who + "." + names[kind] + ".post")
}

func (w *world) doPoll(who string) {
	w.sample(who + ".Poll.pre")
	w.manual[who]++
	simrt.Eventf("%s: Poll invoke seq=%d", who, simrt.Seq())
	err := w.m.Poll()
	w.manual[who]--
	simrt.Eventf("%s: Poll return seq=%d err=%v", who, simrt.Seq(), err != nil)
	if err != nil {
		simrt.Failf("unexpected-error", "Poll returned an error", "%v", err)
	}
	w.sample(who + ".Poll.post")
	w.checkPersist(who + ".Poll.post")
}

// checkLinearizable is oracle (b): the completed Sleep/Wake requests, with
// their real-time order, must be explainable by the sequential machine
// "Sleep succeeds only when awake, Wake succeeds only when not awake, a
// refused or abandoned request changes nothing".
func (w *world) checkLinearizable(initialAwake bool) {
	n := len(w.ops)
	if n == 0 {
		return
	}
	if n > 62 {
		panic("too many requests for the linearizability search")
	}
	type key struct {
		mask  uint64
		awake bool
	}
	seen := map[key]bool{}
	var dfs func(mask uint64, awake bool) bool
	dfs = func(mask uint64, awake bool) bool {
		if mask == (uint64(1)<<n)-1 {
			return true
		}
		k := key{mask, awake}
		if seen[k] {
			return false
		}
		seen[k] = true
		// earliest return among pending requests
		minRet := ^uint64(0)
		for i, op := range w.ops {
			if mask&(1<<i) == 0 && op.ret < minRet {
				minRet = op.ret
			}
		}
		for i, op := range w.ops {
			if mask&(1<<i) != 0 || op.inv > minRet {
				continue
			}
			next := awake
			switch {
			case op.kind == kSleep && op.res == resOK:
				if !awake {
					continue
				}
				next = false
			case op.kind == kSleep && op.res == resRefused:
				if awake {
					continue
				}
			case op.kind == kSleep && op.res == resCbFail:
				if !awake {
					continue
				}
			case op.kind == kWake && op.res == resOK:
				if awake {
					continue
				}
				next = true
			case op.kind == kWake && op.res == resRefused:
				if !awake {
					continue
				}
			case op.kind == kWake && op.res == resCbFail:
				if awake {
					continue
				}
			}
			if dfs(mask|1<<i, next) {
				return true
			}
		}
		return false
	}
	if !dfs(0, initialAwake) {
		desc := ""
		for _, op := range w.ops {
			desc += fmt.Sprintf(" %s[%d..%d]=%s", [2]string{"Sleep", "Wake"}[op.kind], op.inv, op.ret, [3]string{"ok", "refused", "cbfail"}[op.res])
		}
		simrt.Failf("requests-not-linearizable", "sleep/wake outcomes contradict the state machine", "initialAwake=%v history:%s", initialAwake, desc)
	}
	// a refused request must not have run its side-effect callback, an
	// accepted or abandoned one runs it exactly once
	want := [2]int{}
	for _, op := range w.ops {
		if op.res != resRefused {
			want[op.kind]++
		}
	}
	if w.cbCount["OnSleep"] != want[kSleep] {
		simrt.Failf("callback-count", "OnSleep invocations differ from accepted sleep requests", "invoked %d, accepted+abandoned %d", w.cbCount["OnSleep"], want[kSleep])
	}
	if w.cbCount["OnWake"] != want[kWake] {
		simrt.Failf("callback-count", "OnWake invocations differ from accepted wake requests", "invoked %d, accepted+abandoned %d", w.cbCount["OnWake"], want[kWake])
	}
}

// phase runs one manager incarnation: requesters, monitor, Stop. It returns
// the state found in the state file after Stop.
func (w *world) phase(nReq, maxOps int, earlyStopAllowed bool, prevDisk *sleep.State) sleep.State {
	w.m = sleep.NewManager(w.cfg, w.dir, nil)
	w.m.SetCallbacks(w.callbacks())
	w.cbCount = map[string]int{}
	w.manual = map[string]int{}
	if err := w.m.Start(); err != nil {
		simrt.Failf("start-failed", "Start returned an error", "%v", err)
	}
	loaded := w.m.GetState()
	if prevDisk != nil && loaded != *prevDisk {
		simrt.Failf("restart-state-mismatch", "state after restart differs from the persisted state", "persisted %s loaded %s", stName(*prevDisk), stName(loaded))
	}
	initialAwake := loaded == sleep.StateAwake
	w.awakeCommitted = initialAwake
	w.sample("start")
	w.checkPersist("start")
	simrt.Eventf("phase gen=%d requesters=%d initial=%s", w.gen, nReq, stName(loaded))

	var g, mon simrt.Group
	done := false
	for r := 0; r < nReq; r++ {
		who := fmt.Sprintf("req%d.%d", w.gen, r)
		nOps := 2 + simrt.Choose(maxOps, "nops")
		g.Go(who, func() {
			for i := 0; i < nOps && !w.stopping; i++ {
				switch simrt.Choose(9, "op") {
				case 0, 1:
					w.doRequest(kSleep, who)
				case 2, 3:
					w.doRequest(kWake, who)
				case 4:
					w.doPoll(who)
				case 5, 6, 7:
					// let the fake clock pass the poll interval
					d := w.cfg.PollInterval * time.Duration(1+simrt.Choose(4, "adv")) / 2
					simrt.Sleep(d)
					w.sample(who + ".afterSleep")
				default:
					for k := simrt.Choose(4, "y"); k >= 0; k-- {
						simrt.Yield()
					}
					w.sample(who + ".afterYield")
				}
			}
		})
	}
	mon.Go(fmt.Sprintf("monitor%d", w.gen), func() {
		for !done {
			w.sample("monitor")
			if simrt.Choose(4, "mon.persist") == 1 {
				w.checkPersist("monitor")
			}
			if simrt.Choose(3, "mon.kind") == 0 {
				simrt.Sleep(w.cfg.PollInterval / 4)
			} else {
				simrt.Yield()
				if simrt.Choose(4, "mon.nap") == 0 {
					simrt.Sleep(time.Millisecond)
				}
			}
		}
	})
	if earlyStopAllowed && simrt.Chance(1, 5, "earlystop") {
		simrt.Sleep(w.cfg.PollInterval * time.Duration(1+simrt.Choose(4, "stopat")) / 2)
		simrt.Probe("stop_while_active")
	} else {
		g.Wait()
	}
	// Stop is not part of the property's quantifier; after it only a relaxed
	// persistence check is applied (Stop saves without taking the state lock).
	w.stopping = true
	w.seenMask = 0
	if w.sample("Stop.pre") == sleep.StatePolling {
		simrt.Probe("stop_during_poll")
	}
	simrt.Eventf("Stop invoke seq=%d", simrt.Seq())
	w.m.Stop()
	simrt.Eventf("Stop return seq=%d", simrt.Seq())
	g.Wait()
	// let every in-flight poll of this incarnation unwind (they see stopCh)
	for i := 0; ; i++ {
		simrt.Sleep(time.Millisecond)
		if w.pollCbRunning == 0 && w.inFlight[kSleep] == 0 && w.inFlight[kWake] == 0 && i >= 1 {
			break
		}
	}
	done = true
	mon.Wait()
	final := w.sample("Stop.post")
	w.stopped = true
	data, err := os.ReadFile(w.dir + "/sleep_state.json")
	w.comparePersisted("Stop.post", final, data, err, true, w.okCount[kWake] > 0 || w.gen > 0)
	w.checkLinearizable(initialAwake)
	var ps sleep.PersistedState
	if err == nil {
		json.Unmarshal(data, &ps)
	}
	return ps.State
}

func runC30() {
	base := ""
	if fi, err := os.Stat("/dev/shm"); err == nil && fi.IsDir() {
		base = "/dev/shm"
	}
	dir, err := os.MkdirTemp(base, "verif-wsleep-")
	if err != nil {
		panic(err)
	}
	defer os.RemoveAll(dir)

	intervals := []time.Duration{40 * time.Millisecond, 15 * time.Millisecond, 200 * time.Millisecond}
	durations := []time.Duration{5 * time.Millisecond, time.Millisecond, 30 * time.Millisecond}
	cfg := config.SleepConfig{
		Enabled:            true,
		PollInterval:       intervals[simrt.Choose(len(intervals), "interval")],
		PollIntervalJitter: []float64{0, 0.3}[simrt.Choose(2, "jitter")],
		PollDuration:       durations[simrt.Choose(len(durations), "duration")],
		PersistState:       true,
		MaxQueuedMessages:  16,
	}
	nReq := 1 + simrt.Choose(3, "requesters")
	simrt.Eventf("C30 interval=%v jitter=%v duration=%v requesters=%d", cfg.PollInterval, cfg.PollIntervalJitter, cfg.PollDuration, nReq)
	w := &world{dir: dir, cfg: cfg}
	disk := w.phase(nReq, 7, true, nil)
	if simrt.Chance(1, 3, "restart") {
		simrt.Probe("restart")
		// A restart is a new process: the old incarnation is dead and cannot
		// write any more. A poll of the stopped Manager that is still waiting
		// out its poll duration would otherwise save its state over the new
		// incarnation's file (an artefact of running both in one process,
		// found by the thorough tier). The new incarnation therefore works on
		// a copy of the directory as it was when the old one stopped.
		dir2, err := os.MkdirTemp(base, "verif-wsleep-")
		if err != nil {
			panic(err)
		}
		defer os.RemoveAll(dir2)
		if data, rerr := os.ReadFile(dir + "/sleep_state.json"); rerr == nil {
			if werr := os.WriteFile(dir2+"/sleep_state.json", data, 0o600); werr != nil {
				panic(werr)
			}
		}
		w2 := &world{dir: dir2, cfg: cfg, gen: 1}
		w2.phase(1+simrt.Choose(2, "requesters2"), 4, false, &disk)
	}
}
