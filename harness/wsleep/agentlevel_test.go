package wsleep

import (
	"fmt"
	"time"

	"github.com/postalsys/muti-metroo/internal/sleep"
	"github.com/postalsys/muti-metroo/internal/verifrt/simrt"
	"github.com/postalsys/muti-metroo/internal/verifsim/meshkit"
)

// Agent-level part of C30: the real agent callbacks (enterSleep / doPoll /
// exitSleep) under a real sleep.Manager in a two- or three-agent mesh. The
// sleeper dials a hub that never sleeps. After a wake request has completed,
// and until the next sleep request, no poll activity started earlier may
// disconnect the agent or put it back to sleep:
//   - the sleep state stays AWAKE (sampled),
//   - a peer connection that exists once the wake has completed is not torn
//     down by the agent itself (no fault is injected in this phase),
//   - within 3 poll intervals the agent is connected to its configured peer
//     and stays so (bounded liveness after the last request).
func runC30Agent() {
	n := 2 + simrt.Choose(2, "n")
	m := meshkit.NewMesh(n, "star") // node 0 is the hub, every other node dials it... edge direction is drawn
	// make sure the sleeper (node 1) dials the hub: rebuild edges deterministically
	for _, nd := range m.Nodes {
		nd.Cfg.Listeners = nil
		nd.Cfg.Peers = nil
	}
	m.Edges = nil
	for i := 1; i < n; i++ {
		m.Edges = append(m.Edges, [2]int{i, 0})
	}
	meshkit.WireEdges(m)
	poll := []time.Duration{20 * time.Second, 8 * time.Second, 45 * time.Second}[simrt.Choose(3, "poll")]
	dur := []time.Duration{4 * time.Second, 2 * time.Second, 6 * time.Second}[simrt.Choose(3, "dur")]
	for i, nd := range m.Nodes {
		nd.Cfg.Routing.AdvertiseInterval = 10 * time.Second
		nd.Cfg.Connections.Reconnect.InitialDelay = time.Second
		nd.Cfg.Connections.Reconnect.MaxDelay = 8 * time.Second
		nd.Cfg.Connections.Reconnect.Jitter = 0
		if i == 1 {
			nd.Cfg.Sleep.Enabled = true
			nd.Cfg.Sleep.PollInterval = poll
			nd.Cfg.Sleep.PollIntervalJitter = 0
			nd.Cfg.Sleep.PollDuration = dur
			nd.Cfg.Sleep.PersistState = false
		}
	}
	simrt.Eventf("C30 agent-level n=%d poll=%v duration=%v", n, poll, dur)
	m.StartAll()
	if !m.WaitConnected(2 * time.Minute) {
		simrt.Fail("harness", "mesh did not connect", "")
	}
	s := m.Nodes[1]
	hub := m.Nodes[0]
	cycles := 1 + simrt.Choose(3, "cycles")
	for c := 0; c < cycles; c++ {
		// go to sleep
		var err error
		m.On(1, "trigger-sleep", func() { err = s.A.TriggerSleep() })
		if err != nil {
			simrt.Failf("sleep-refused-while-awake", "sleep request refused although the agent was awake", "%v", err)
		}
		sleepAt := simrt.Elapsed()
		// let k polls pass, then wake at a drawn offset relative to a poll window
		k := simrt.Choose(3, "polls")
		target := sleepAt + time.Duration(k)*poll
		switch simrt.Choose(6, "wake-at") {
		case 0:
			target += poll / 2 // between polls
		case 1:
			target += poll + dur/2 // inside a poll window
			simrt.Probe("agent_wake_inside_poll_window")
		case 2:
			target += poll + dur // exactly at the end of a poll window
			simrt.Probe("agent_wake_at_poll_end")
		case 3:
			target += poll + dur - time.Millisecond
			simrt.Probe("agent_wake_at_poll_end")
		case 4:
			target += poll + dur + time.Millisecond
			simrt.Probe("agent_wake_at_poll_end")
		default:
			target += poll // exactly at the start of a poll window
		}
		if d := target - simrt.Elapsed(); d > 0 {
			simrt.Sleep(d)
		}
		wakeDone := false
		var wakeErr error
		wakeCompleted := time.Duration(-1)
		simrt.GoNode(fmt.Sprintf("trigger-wake-%d", c), s.Name, func() {
			// TriggerWake wakes locally first and then keeps flooding the command for a while
			wakeErr = s.A.TriggerWake()
			wakeDone = true
		})
		// the wake request has completed as soon as the agent reports AWAKE after the call began
		for i := 0; i < 600 && wakeCompleted < 0; i++ {
			simrt.Sleep(50 * time.Millisecond)
			if s.A.GetSleepState() == sleep.StateAwake {
				wakeCompleted = simrt.Elapsed()
			}
			if wakeDone && wakeErr != nil {
				break
			}
		}
		if wakeCompleted < 0 {
			if wakeErr != nil {
				simrt.Failf("wake-refused-while-asleep", "wake request refused although the agent was asleep", "%v", wakeErr)
			}
			simrt.Fail("wake-did-not-complete", "agent did not become awake within 30 s of the wake request", "")
		}
		simrt.Eventf("wake completed at %v", wakeCompleted)
		// observation window: no new sleep request is made in it
		connectedSince := time.Duration(-1)
		everConnected := false
		window := 3*poll + 10*time.Second
		for simrt.Elapsed() < wakeCompleted+window {
			simrt.Sleep(100 * time.Millisecond)
			if st := s.A.GetSleepState(); st != sleep.StateAwake {
				simrt.Failf("left-awake-after-wake", "agent left AWAKE after a completed wake without a new sleep request", "state %v at %v (wake completed at %v)", st, simrt.Elapsed(), wakeCompleted)
			}
			conn := meshkit.HasPeer(s, hub.ID) && meshkit.HasPeer(hub, s.ID)
			if conn {
				if connectedSince < 0 {
					connectedSince = simrt.Elapsed()
				}
				everConnected = true
			} else if connectedSince >= 0 && simrt.Elapsed()-connectedSince > 500*time.Millisecond {
				// the connection existed (for more than a handshake's worth of
				// time) after the wake had completed and is gone again: nobody
				// but the agent's own poll activity closes it in this phase
				simrt.Failf("disconnected-after-completed-wake", "agent lost its peer connection after a completed wake with no fault and no sleep request", "connected since %v, gone at %v (wake completed at %v)", connectedSince, simrt.Elapsed(), wakeCompleted)
			} else {
				connectedSince = -1
			}
		}
		if !everConnected || connectedSince < 0 {
			simrt.Failf("not-reconnected-after-wake", "agent is not connected to its configured peer 3 poll intervals after a completed wake", "wake completed at %v, now %v", wakeCompleted, simrt.Elapsed())
		}
		if s.A.VerifPeerManager().IsPaused() {
			simrt.Failf("reconnection-paused-after-wake", "reconnection is still paused after a completed wake", "wake completed at %v", wakeCompleted)
		}
		// let the wake flooding goroutine finish before the next cycle
		for i := 0; i < 3000 && !wakeDone; i++ {
			simrt.Sleep(100 * time.Millisecond)
		}
		simrt.Probe("agent_wake_cycle_ok")
	}
	m.StopAll()
}
