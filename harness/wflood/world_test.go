// Package wflood is the simulated world "W-flood": 3-6 real flood.Flooder
// instances, each with its own real routing.Manager, wired together by a
// message layer the harness owns. Every frame a flooder hands to its PeerSender
// is decoded the way agent.go decodes it and delivered to the neighbour's
// flooder after a drawn delay: zero, a few milliseconds, or multiples of the
// seen-cache lifetime, so that a copy can be in flight across a cache expiry
// ("seen-cache expiry at any point"), and the harness re-delivers recorded
// frames (duplicates) at arbitrary later instants. The seen-cache lifetime
// itself is drawn (the default five minutes, two seconds, 200 ms) through the
// public FloodConfig field, which the whole-mesh world cannot vary.
//
// It decides, for C11:
//   - at most once: an agent never processes the same (origin, sequence) twice
//     within one seen-cache lifetime, however the copies are interleaved;
//   - per processing at most one copy to each neighbour;
//   - termination: once the harness stops injecting, the flood dies out, and the
//     number of copies of one announcement stays below a bound that only an
//     endless circulation can exceed;
//   - loop freedom: no agent sends an announcement whose path already contains
//     it, or a withdrawal whose seen-by list already contains it, and no agent
//     stores a route whose path revisits an agent or passes through itself.
package wflood

import (
	"fmt"
	"net"
	"sort"
	"testing"
	"time"

	"github.com/postalsys/muti-metroo/internal/flood"
	"github.com/postalsys/muti-metroo/internal/identity"
	"github.com/postalsys/muti-metroo/internal/protocol"
	"github.com/postalsys/muti-metroo/internal/routing"
	"github.com/postalsys/muti-metroo/internal/verifrt/simrt"
	"github.com/postalsys/muti-metroo/internal/verifsim/hc"
)

func TestWorld(t *testing.T) {
	hc.Main(t, &hc.World{
		Name:         "W-flood",
		Run:          run,
		PreemptMeans: []int{0, 2, 5, 20, 80},
		MaxSteps:     4_000_000,
		MaxSimTime:   48 * time.Hour,
	})
}

func run(prop string) {
	switch prop {
	case "C11":
		runC11()
	default:
		panic("W-flood does not decide " + prop)
	}
}

type fkey struct {
	origin identity.AgentID
	seq    uint64
}

type node struct {
	w     *world
	idx   int
	id    identity.AgentID
	name  string
	f     *flood.Flooder
	rm    *routing.Manager
	nbrs  []int
	procs map[fkey][]time.Duration // start instants of calls that returned true
}

type sent struct {
	from, to int
	typ      uint8
	payload  []byte
	key      fkey
	chain    []int // agents this copy has passed through, in order (harness bookkeeping, independent of path / seen-by)
}

type world struct {
	nodes    []*node
	ttl      time.Duration
	inflight int
	sends    map[fkey]int
	replays  map[[2]int]bool // full-table replays the harness triggered (from, to)
	log      []sent
	chainOf  map[*simrt.G][]int // per delivery goroutine: the chain of the copy being handled, receiver included
	limit    int
	quiet    simrt.WaitQ
}

func agentID(n int) identity.AgentID {
	var id identity.AgentID
	for i := range id {
		id[i] = byte(0x30 + n)
	}
	id[15] = byte(n + 1)
	return id
}

func (w *world) nameOf(id identity.AgentID) string {
	for _, n := range w.nodes {
		if n.id == id {
			return n.name
		}
	}
	return "?" + id.ShortString()
}

func (w *world) names(ids []identity.AgentID) string {
	s := ""
	for i, id := range ids {
		if i > 0 {
			s += ">"
		}
		s += w.nameOf(id)
	}
	return s
}

func dupIn(ids []identity.AgentID) bool {
	seen := map[identity.AgentID]bool{}
	for _, id := range ids {
		if seen[id] {
			return true
		}
		seen[id] = true
	}
	return false
}

// --- PeerSender: the harness's message layer ---------------------------------

func (n *node) GetPeerIDs() []identity.AgentID {
	out := make([]identity.AgentID, 0, len(n.nbrs))
	for _, j := range n.nbrs {
		out = append(out, n.w.nodes[j].id)
	}
	return out
}

func (n *node) SendToPeer(peerID identity.AgentID, frame *protocol.Frame) error {
	w := n.w
	to := -1
	for _, j := range n.nbrs {
		if w.nodes[j].id == peerID {
			to = j
		}
	}
	if to < 0 {
		return fmt.Errorf("not a neighbour")
	}
	s := sent{from: n.idx, to: to, typ: frame.Type, payload: append([]byte(nil), frame.Payload...)}
	if ch, ok := w.chainOf[simrt.CurG()]; ok {
		s.chain = append([]int(nil), ch...)
	} else {
		s.chain = []int{n.idx} // the agent's own announcement, withdrawal or replay
	}
	switch frame.Type {
	case protocol.FrameRouteAdvertise:
		adv, err := protocol.DecodeRouteAdvertise(frame.Payload)
		if err != nil {
			simrt.Failf("undecodable-advertisement", "route advertisement handed to the peer writer does not decode", "%s: %v", n.name, err)
		}
		s.key = fkey{adv.OriginAgent, adv.Sequence}
		var path []identity.AgentID
		if adv.EncPath != nil && !adv.EncPath.Encrypted {
			path, _ = protocol.DecodePath(adv.EncPath.Data)
		}
		simrt.Eventf("send adv %s>%s origin=%s seq=%d path=%s seenby=%s", n.name, w.nodes[to].name, w.nameOf(adv.OriginAgent), adv.Sequence, w.names(path), w.names(adv.SeenBy))
		if len(path) == 0 || path[0] != n.id {
			simrt.Failf("path-without-sender", "an agent sent an announcement whose path does not start with itself", "%s sent origin=%s seq=%d path=%s", n.name, w.nameOf(adv.OriginAgent), adv.Sequence, w.names(path))
		}
		if dupIn(path) {
			simrt.Failf("looped-announcement-forwarded", "an agent forwarded an announcement whose path already contained it", "%s sent origin=%s seq=%d with path %s", n.name, w.nameOf(adv.OriginAgent), adv.Sequence, w.names(path))
		}
		for _, id := range adv.SeenBy {
			if id == peerID {
				simrt.Failf("sent-to-agent-that-has-seen-it", "an announcement was sent to an agent listed in its seen-by list", "%s>%s origin=%s seq=%d seenby=%s", n.name, w.nodes[to].name, w.nameOf(adv.OriginAgent), adv.Sequence, w.names(adv.SeenBy))
			}
		}
	case protocol.FrameRouteWithdraw:
		wd, err := protocol.DecodeRouteWithdraw(frame.Payload)
		if err != nil {
			simrt.Failf("undecodable-advertisement", "route withdrawal handed to the peer writer does not decode", "%s: %v", n.name, err)
		}
		s.key = fkey{wd.OriginAgent, wd.Sequence}
		simrt.Eventf("send wd %s>%s origin=%s seq=%d seenby=%s", n.name, w.nodes[to].name, w.nameOf(wd.OriginAgent), wd.Sequence, w.names(wd.SeenBy))
		if dupIn(wd.SeenBy) {
			simrt.Failf("looped-announcement-forwarded", "an agent forwarded a withdrawal that it had already handled (it is twice in the seen-by list)", "%s sent origin=%s seq=%d seenby=%s", n.name, w.nameOf(wd.OriginAgent), wd.Sequence, w.names(wd.SeenBy))
		}
		for _, id := range wd.SeenBy {
			if id == peerID {
				simrt.Failf("sent-to-agent-that-has-seen-it", "a withdrawal was sent to an agent listed in its seen-by list", "%s>%s origin=%s seq=%d seenby=%s", n.name, w.nodes[to].name, w.nameOf(wd.OriginAgent), wd.Sequence, w.names(wd.SeenBy))
			}
		}
	default:
		return nil // node info etc.: not part of this world
	}
	w.sends[s.key]++
	if w.sends[s.key] > w.limit {
		simrt.Failf("flood-does-not-terminate", "copies of one announcement keep circulating", "origin=%s seq=%d: %d copies sent so far (limit %d for %d agents), latest %s>%s", w.nameOf(s.key.origin), s.key.seq, w.sends[s.key], w.limit, len(w.nodes), n.name, w.nodes[to].name)
	}
	w.log = append(w.log, s)
	w.dispatch(s, w.drawDelay())
	return nil
}

func (w *world) drawDelay() time.Duration {
	switch simrt.Choose(8, "delay") {
	case 0, 1, 2:
		return 0
	case 3:
		return time.Duration(1+simrt.Choose(20, "delay-ms")) * time.Millisecond
	case 4:
		return w.ttl / 3
	case 5:
		return w.ttl + w.ttl/5
	case 6:
		return 3 * w.ttl
	default:
		return time.Duration(simrt.Choose(int(2*w.ttl/time.Millisecond)+1, "delay-any")) * time.Millisecond
	}
}

// dispatch delivers s to its receiver after d, in its own simulated goroutine
// (the agent handles each peer's frames in that peer's reader goroutine).
func (w *world) dispatch(s sent, d time.Duration) {
	w.inflight++
	simrt.Go(fmt.Sprintf("deliver-%d", len(w.log)*1000+w.inflight), func() {
		if d > 0 {
			simrt.Sleep(d)
			simrt.Probe("delivery_delayed")
			if d > w.ttl {
				simrt.Probe("delivery_across_cache_lifetime")
			}
		}
		w.deliver(s)
		w.inflight--
		if w.inflight == 0 {
			w.quiet.WakeAll()
		}
	})
}

func (w *world) deliver(s sent) {
	rc := w.nodes[s.to]
	from := w.nodes[s.from].id
	start := simrt.Elapsed()
	ok := false
	g := simrt.CurG()
	w.chainOf[g] = append(append([]int(nil), s.chain...), s.to)
	defer delete(w.chainOf, g)
	switch s.typ {
	case protocol.FrameRouteAdvertise:
		adv, err := protocol.DecodeRouteAdvertise(s.payload)
		if err != nil {
			return
		}
		ok = rc.f.HandleRouteAdvertise(from, adv.OriginAgent, adv.OriginDisplayName, adv.Sequence, adv.Routes, adv.EncPath, adv.SeenBy)
	case protocol.FrameRouteWithdraw:
		wd, err := protocol.DecodeRouteWithdraw(s.payload)
		if err != nil {
			return
		}
		ok = rc.f.HandleRouteWithdraw(from, wd.OriginAgent, wd.Sequence, wd.Routes, wd.SeenBy)
	}
	simrt.Eventf("delivered %s>%s origin=%s seq=%d processed=%v", w.nodes[s.from].name, rc.name, w.nameOf(s.key.origin), s.key.seq, ok)
	if !ok {
		return
	}
	// never loops: a copy that has already passed through this agent is not processed again
	for _, x := range s.chain {
		if x == s.to {
			ch := ""
			for _, y := range s.chain {
				ch += w.nodes[y].name + ">"
			}
			simrt.Failf("announcement-looped-back-and-processed", "an agent processed (and passed on) a copy of an announcement that had already passed through it", "%s processed origin=%s seq=%d, a copy that travelled %s%s", rc.name, w.nameOf(s.key.origin), s.key.seq, ch, rc.name)
		}
	}
	// at most once per seen-cache lifetime: the entry made by an earlier
	// processing that began at t lives at least until t + lifetime
	for _, t := range rc.procs[s.key] {
		if start < t+w.ttl {
			simrt.Failf("announcement-processed-twice", "an agent processed one announcement twice within one seen-cache lifetime", "%s processed origin=%s seq=%d at %v and again at %v (lifetime %v)", rc.name, w.nameOf(s.key.origin), s.key.seq, t, start, w.ttl)
		}
	}
	if len(rc.procs[s.key]) > 0 {
		simrt.Probe("reprocessed_after_expiry")
	}
	rc.procs[s.key] = append(rc.procs[s.key], start)
}

// --- checks --------------------------------------------------------------------

func (w *world) checkStored(when string) {
	for _, n := range w.nodes {
		type pr struct {
			what string
			path []identity.AgentID
			orig identity.AgentID
		}
		var all []pr
		for _, r := range n.rm.Table().GetAllRoutes() {
			all = append(all, pr{"cidr " + r.Network.String(), r.Path, r.OriginAgent})
		}
		for _, r := range n.rm.AgentTable().GetAllRoutes() {
			all = append(all, pr{"agent " + w.nameOf(r.AgentID), r.Path, r.OriginAgent})
		}
		for _, r := range n.rm.DomainTable().GetAllRoutes() {
			all = append(all, pr{"domain " + r.Pattern, r.Path, r.OriginAgent})
		}
		for _, r := range all {
			if r.orig == n.id {
				continue
			}
			for _, id := range r.path {
				if id == n.id {
					simrt.Failf("route-through-holder", "an agent stores a route whose path passes through itself", "%s %s holds %s with path %s", when, n.name, r.what, w.names(r.path))
				}
			}
			if dupIn(r.path) {
				simrt.Failf("route-path-revisits-agent", "an agent stores a route whose path revisits an agent", "%s %s holds %s with path %s", when, n.name, r.what, w.names(r.path))
			}
		}
	}
}

func (w *world) waitQuiet(limit time.Duration) bool {
	deadline := simrt.Elapsed() + limit
	for w.inflight > 0 {
		left := deadline - simrt.Elapsed()
		if left <= 0 {
			return false
		}
		w.quiet.ParkTimeout(left)
	}
	return true
}

// --- the run -------------------------------------------------------------------

var ttls = []time.Duration{5 * time.Minute, 2 * time.Second, 200 * time.Millisecond}

func runC11() {
	n := 3 + simrt.Choose(4, "n")
	w := &world{sends: map[fkey]int{}, replays: map[[2]int]bool{}, chainOf: map[*simrt.G][]int{}}
	w.ttl = ttls[simrt.Choose(len(ttls), "ttl")]
	// only an endless circulation exceeds this: one injected copy can at most
	// travel every simple path once
	w.limit = 400 * n
	// topology: a random spanning tree plus extra edges (cycles)
	adj := map[[2]int]bool{}
	for i := 1; i < n; i++ {
		j := simrt.Choose(i, "parent")
		adj[[2]int{i, j}], adj[[2]int{j, i}] = true, true
	}
	for e := simrt.Choose(n, "extra-edges"); e > 0; e-- {
		a, b := simrt.Choose(n, "ea"), simrt.Choose(n, "eb")
		if a != b {
			adj[[2]int{a, b}], adj[[2]int{b, a}] = true, true
		}
	}
	edges := ""
	for i := 0; i < n; i++ {
		nd := &node{w: w, idx: i, id: agentID(i), name: fmt.Sprintf("f%d", i), procs: map[fkey][]time.Duration{}}
		for j := 0; j < n; j++ {
			if adj[[2]int{i, j}] {
				nd.nbrs = append(nd.nbrs, j)
				if i < j {
					edges += fmt.Sprintf(" %d-%d", i, j)
				}
			}
		}
		w.nodes = append(w.nodes, nd)
	}
	for i, nd := range w.nodes {
		cfg := flood.DefaultFloodConfig()
		cfg.LocalDisplayName = nd.name
		cfg.SeenCacheTTL = w.ttl
		cfg.MaxHops = 16
		nd.rm = routing.NewManager(nd.id)
		for k := 0; k <= simrt.Choose(3, "nroutes"); k++ {
			_, ipn, _ := net.ParseCIDR(fmt.Sprintf("10.%d.%d.0/24", 50+i, k))
			nd.rm.AddLocalRoute(ipn, 0)
		}
		nd.f = flood.NewFlooder(cfg, nd.id, nd.rm, nd)
	}
	defer func() {
		for _, nd := range w.nodes {
			nd.f.Stop()
		}
	}()
	simrt.Eventf("W-flood n=%d ttl=%v edges=%s", n, w.ttl, edges)

	ops := 3 + simrt.Choose(10, "ops")
	for o := 0; o < ops; o++ {
		i := simrt.Choose(n, "actor")
		nd := w.nodes[i]
		switch simrt.Choose(6, "op") {
		case 0, 1: // the periodic announcement
			simrt.Eventf("op announce %s", nd.name)
			simrt.Go(fmt.Sprintf("announce-%d", o), func() { nd.f.AnnounceLocalRoutes() })
			simrt.Probe("op_announce")
		case 2: // graceful shutdown of the routes
			simrt.Eventf("op withdraw %s", nd.name)
			simrt.Go(fmt.Sprintf("withdraw-%d", o), func() { nd.f.WithdrawLocalRoutes() })
			simrt.Probe("op_withdraw")
		case 3: // a neighbour (re)connected: full-table replay to it
			if len(nd.nbrs) > 0 {
				j := nd.nbrs[simrt.Choose(len(nd.nbrs), "replay-to")]
				simrt.Eventf("op replay %s>%s", nd.name, w.nodes[j].name)
				w.replays[[2]int{i, j}] = true
				simrt.Go(fmt.Sprintf("replay-%d", o), func() { nd.f.SendFullTable(w.nodes[j].id) })
				simrt.Probe("op_replay")
			}
		case 4: // duplicate: a recorded frame is delivered again, now or much later
			if len(w.log) > 0 {
				s := w.log[simrt.Choose(len(w.log), "dup-which")]
				simrt.Eventf("op duplicate %s>%s origin=%s seq=%d", w.nodes[s.from].name, w.nodes[s.to].name, w.nameOf(s.key.origin), s.key.seq)
				w.dispatch(s, w.drawDelay())
				simrt.Probe("op_duplicate")
			}
		case 5: // the same copy to one agent from two sides at the same instant
			if len(w.log) > 0 {
				s := w.log[simrt.Choose(len(w.log), "twin-which")]
				w.dispatch(s, 0)
				w.dispatch(s, 0)
				simrt.Probe("op_twin_delivery")
			}
		}
		switch simrt.Choose(5, "pause") {
		case 1:
			simrt.Sleep(time.Duration(1+simrt.Choose(50, "pause-ms")) * time.Millisecond)
		case 2:
			simrt.Sleep(w.ttl / 2)
		case 3:
			simrt.Sleep(2 * w.ttl)
			simrt.Probe("pause_across_cache_lifetime")
		}
		if o%3 == 2 {
			w.checkStored("during the run")
		}
	}
	// nothing is injected any more: the flood must die out. Every copy is
	// delayed by at most three lifetimes and a chain of forwards is no longer
	// than the number of agents.
	if !w.waitQuiet(time.Duration(4*n+8)*3*w.ttl + time.Minute) {
		var worst fkey
		for k, c := range w.sends {
			if c > w.sends[worst] {
				worst = k
			}
		}
		simrt.Failf("flood-does-not-terminate", "copies of one announcement keep circulating", "still %d copies in flight long after the last injection; most copied: origin=%s seq=%d with %d copies", w.inflight, w.nameOf(worst.origin), worst.seq, w.sends[worst])
	}
	w.checkStored("after the flood died out")
	// per processing at most one copy to each neighbour
	type lk struct {
		k        fkey
		from, to int
	}
	cnt := map[lk]int{}
	for _, s := range w.log {
		cnt[lk{s.key, s.from, s.to}]++
	}
	var keys []lk
	for k := range cnt {
		keys = append(keys, k)
	}
	sort.Slice(keys, func(a, b int) bool {
		x, y := keys[a], keys[b]
		if x.k.origin != y.k.origin {
			return string(x.k.origin[:]) < string(y.k.origin[:])
		}
		if x.k.seq != y.k.seq {
			return x.k.seq < y.k.seq
		}
		if x.from != y.from {
			return x.from < y.from
		}
		return x.to < y.to
	})
	for _, k := range keys {
		nd := w.nodes[k.from]
		allowed := len(nd.procs[k.k])
		if k.k.origin == nd.id {
			continue // the origin's own sends (announcement, replays) are not forwards
		}
		// a replay of a learned route to a reconnected neighbour is not a forward either
		if cnt[k] > allowed {
			simrt.Probe("copies_exceed_processings")
			if allowed > 0 && !w.replayed(k.from, k.to) {
				simrt.Failf("forwarded-more-than-once", "an agent sent more copies of one announcement to a neighbour than it processed", "%s sent origin=%s seq=%d %d times to %s but processed it %d time(s)", nd.name, w.nameOf(k.k.origin), k.k.seq, cnt[k], w.nodes[k.to].name, allowed)
			}
		}
	}
	simrt.Probe("run_completed")
}

// replayed reports whether from ever sent a full-table replay to to (the harness logs the op).
func (w *world) replayed(from, to int) bool {
	return w.replays[[2]int{from, to}]
}
